"""calls: the model may leave a call's outcome open ("ok|err": a reset can destroy an answer the client has not read yet;
a cancel issued right after the complete answer was written races with its delivery; the death of the child cancels the
transport context while its last complete answer is being handed over - the call's select has two ready cases);
everything else must be equal."""


def compare(op, impl, model, rep):
    if isinstance(model, dict) and "model_error" in model:
        return "model error: " + str(model["model_error"])
    if op.get("c") == "calls.closeLive":
        # Close() on a live child: the model starts close()'s own Cmd.Wait together with the kill (worst case: one goroutine
        # stuck per client); in the implementation the watcher sometimes finishes before close() reaches its Wait
        il, ml = dict(impl.get("ledger", {})), dict(model.get("ledger", {}))
        si, sm = il.pop("stuck", 0), ml.pop("stuck", 0)
        if impl.get("ok") != model.get("ok") or il != ml or not (0 <= si <= sm):
            return "Close on a live child: implementation %r, model (stuck = upper bound) %r" % (impl, model)
        return None
    if op.get("c") == "calls.doubleClose":
        # the model's schedule is the worst interleaving; the implementation may or may not hit it in the rounds it is given
        if model.get("outcome") == "crash":
            return None if impl.get("outcome") in ("crash", "err") else "outcome %r" % (impl,)
        return None if impl == model else "kill -9 + Close() with calls pending: implementation %r, model %r" % (impl, model)
    if op.get("c") == "calls.handshake":
        # the model may leave the outcome of Initialize open ("hung|err": a wait whose close case the extractor does not recognise)
        mi = str(model.get("init", "")).split("|")
        if impl.get("init") in mi and dict(impl, init=0) == dict(model, init=0):
            return None
        return "handshake: implementation %r, model %r" % (impl, model)
    if "calls" not in model:
        return None if impl == model else "outcomes differ: implementation %r, model %r" % (impl, model)
    ic, mc = impl.get("calls", []), model.get("calls", [])
    if len(ic) != len(mc):
        return "number of calls differs"
    for k, (a, b) in enumerate(zip(ic, mc)):
        if a not in b.split("|"):
            return "call %d: implementation %r, model %r" % (k, a, b)
    if impl.get("pending") != model.get("pending"):
        return "pending table size after all calls returned: implementation %r, model %r" % (impl.get("pending"), model.get("pending"))
    if impl.get("ledger") != model.get("ledger"):
        return "resource ledger after Close: implementation %r, model %r" % (impl.get("ledger"), model.get("ledger"))
    return None
