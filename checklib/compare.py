"""Per-component comparators for the model-vs-implementation diff. Default: canonical JSON equality.
A comparator returns None (agree), "noise" (timing noise, counted, ignored) or a string (why they differ)."""


def _retry_execute(op, impl, model, rep):
    if "model_error" in model:
        return "model error: " + model["model_error"]
    if impl["attempts"] != model["attempts"]:
        return "attempts differ"
    if impl["result"] != model["result"]:
        return "result differs"
    waits = model["waits"]
    gaps = impl["waits"]
    # every completed wait of the model must show up as a gap between two attempts
    if len(gaps) != len(waits) and not (model["result"] == "ctxErr" and len(gaps) == len(waits)):
        if len(gaps) != len(waits):
            return "number of waits differs (model %d, implementation gaps %d)" % (len(waits), len(gaps))
    jitter = (rep.get("extra") or {}).get("jitter_ns", 0)
    slack = max(150_000_000, 4 * jitter)
    for k, (w, g) in enumerate(zip(waits, gaps)):
        if g < w:
            return "wait %d shorter than the model's: %d < %d ns" % (k + 1, g, w)
        if g > w + slack:
            if g > w + 20 * slack:
                return "wait %d much longer than the model's: %d vs %d ns" % (k + 1, g, w)
            return "noise"
    return None


def compare(op, impl, model, rep):
    c = op.get("c", "")
    if c == "retry.execute":
        return _retry_execute(op, impl, model, rep)
    if "model_error" in model:
        return "model error: " + str(model["model_error"])
    if impl != model:
        return "outcomes differ"
    return None
