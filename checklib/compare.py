"""Model-vs-implementation comparison. Default: canonical JSON equality.
A component may ship its own comparator in checklib/cmp_<component>.py with
    def compare(op, impl, model, rep) -> None | "noise" | "<why they differ>"
(<component> = the part of op["c"] before the first dot)."""
import importlib

_cache = {}


def _custom(comp):
    if comp not in _cache:
        try:
            _cache[comp] = importlib.import_module("cmp_" + comp).compare
        except ModuleNotFoundError:
            _cache[comp] = None
    return _cache[comp]


def compare(op, impl, model, rep):
    comp = op.get("c", "").split(".")[0]
    f = _custom(comp)
    if f is not None:
        return f(op, impl, model, rep)
    if isinstance(model, dict) and "model_error" in model:
        return "model error: " + str(model["model_error"])
    if impl != model:
        return "outcomes differ"
    return None
