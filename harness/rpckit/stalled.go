package rpckit

// Stalled peers (C06: no per-request goroutine leak, other clients keep being served): a peer opens its stream / pipe,
// never reads (or stops reading), sends several hundred requests of each answer class — result, JSON-RPC error from a
// handler, unknown method, malformed — and disconnects. After quiescence the census of library goroutines, grouped by
// the function that started them, must be back at what it was, and a fresh client must be served.

import (
	"bufio"
	"bytes"
	"context"
	"fmt"
	"io"
	"net"
	"net/http"
	"regexp"
	"sort"
	"strings"
	"sync"
	"time"

	mcp "trpc.group/trpc-go/trpc-mcp-go"
	"verif/harness/hk"
)

var createdByRe = regexp.MustCompile(`created by (\S+)`)
var libFrameRe = regexp.MustCompile(`(?m)^(trpc\.group/trpc-go/trpc-mcp-go[^\s(]*(?:\(\*?\w+\))?[^\s(]*)\(`)

const libPrefix = "trpc.group/trpc-go/trpc-mcp-go"

// libCensus: library goroutines grouped by the library function that started them (or, for goroutines started by
// net/http and the like, by the outermost library function on their stack).
func libCensus() map[string]int {
	out := map[string]int{}
	for _, g := range stacks() {
		if !libRe.MatchString(g) {
			continue
		}
		key := ""
		if m := createdByRe.FindStringSubmatch(g); m != nil && strings.HasPrefix(m[1], libPrefix) {
			key = m[1]
		} else if fs := libFrameRe.FindAllStringSubmatch(g, -1); len(fs) > 0 {
			key = fs[len(fs)-1][1]
		} else {
			key = "?"
		}
		key = strings.TrimPrefix(strings.TrimPrefix(key, libPrefix), ".")
		key = strings.NewReplacer("(*", "", ")", "").Replace(key)
		out[key]++
	}
	return out
}

// censusBack waits until no group has more goroutines than before (+slack for the whole census); what is left otherwise.
func censusBack(base map[string]int, ceiling time.Duration) map[string]int {
	deadline := time.Now().Add(ceiling)
	for {
		left := map[string]int{}
		for k, n := range libCensus() {
			if n > base[k] {
				left[k] = n - base[k]
			}
		}
		if len(left) == 0 || time.Now().After(deadline) {
			return left
		}
		time.Sleep(10 * time.Millisecond) // polling a census: there is no event to wait for
	}
}

type stalledReq struct {
	class string
	body  []byte
}

// stalledRequests: n requests of each answer class (ids distinct), the large results first: they fill the transport's
// buffers, so that what follows meets a writer that is already blocked.
func stalledRequests(n int, big int) []stalledReq {
	var rs []stalledReq
	pad := strings.Repeat("p", 64<<10)
	for i := 0; i < big; i++ {
		rs = append(rs, stalledReq{"large-result", []byte(env(Int(int64(50000+i)), "tools/call", vp(Obj(F("name", Str("echo")), F("arguments", Obj(F("pad", Str(pad))))))).Raw())})
	}
	for i := 0; i < n; i++ {
		rs = append(rs,
			stalledReq{"result", []byte(env(Int(int64(60000+i)), "ping", nil).Raw())},
			stalledReq{"handler-error", []byte(env(Int(int64(70000+i)), "tools/call", vp(Obj(F("name", Str("boom"))))).Raw())},
			stalledReq{"unknown-method", []byte(env(Int(int64(80000+i)), "verif/nope", nil).Raw())},
			stalledReq{"bad-params", []byte(env(Int(int64(90000+i)), "tools/call", vp(Obj(F("name", Int(5))))).Raw())},
			stalledReq{"malformed", []byte(fmt.Sprintf(`{"jsonrpc":"2.0","id":%d,"method":`, 100000+i))},
			stalledReq{"id-only", []byte(fmt.Sprintf(`{"jsonrpc":"2.0","id":%d}`, 110000+i))})
	}
	return rs
}

// stalledPeer runs the scenario for the target's kind and reports what it left behind.
func (r *runner) stalledPeer(t Target) {
	if r.dead[t] {
		return
	}
	n, big := 150, 160
	if r.thorough {
		n, big = 500, 300
	}
	waitQuiet(5 * time.Second)
	base := libCensus()
	var notes []string
	var scenario string
	r.s.About("stalled peer", map[string]any{"server": t.Name()})
	switch x := t.(type) {
	case *sseTarget:
		scenario = fmt.Sprintf("GET /sse on a raw connection, the endpoint event read, nothing read after that; %d requests with 64 KiB results, then %d of each class result / handler error / unknown method / invalid parameters / malformed / id-only posted to the session; connection closed", big, n)
		notes = stalledSSE(x, stalledRequests(n, big))
	case *stdioTarget:
		scenario = fmt.Sprintf("a transport on pipes whose stdout is never read; %d requests with 64 KiB results, then %d lines of each class; stdin closed, stdout closed", big, n)
		notes = stalledStdio(x, stalledRequests(n, big))
	case *streamable:
		scenario = fmt.Sprintf("raw connections that send one POST each and never read the answer: %d of each class plus 3 with a 5 MiB result; all closed", n/3)
		notes = stalledStreamable(x, stalledRequests(n/3, 0))
	}
	left := censusBack(base, 6*time.Second)
	r.s.Count("stalled-peer:"+t.Name(), true, map[string]any{"server": t.Name(), "scenario": scenario, "notes": notes, "left": left}, "stalled-peer")
	keys := make([]string, 0, len(left))
	for k := range left {
		keys = append(keys, k)
	}
	sort.Strings(keys)
	for _, k := range keys {
		r.s.Violate(hk.Violation{Fingerprint: "rpc:" + t.Kind() + ":goroutines-left-after-stalled-peer:" + k,
			What:     fmt.Sprintf("%d goroutine(s) started by %s are still there 6 s after a peer that did not read its answers has disconnected", left[k], k),
			Input:    map[string]any{"server": t.Name(), "scenario": scenario},
			Observed: map[string]any{"left_per_starting_function": left, "before": base, "notes": notes},
			Expected: "every goroutine started for the peer's requests ends once the peer is gone"})
	}
	if len(left) > 0 {
		// they are lost for good: later waits must not wait for them again
		setStuck("", Inflight())
	}
	if why := t.Alive(); why != "" {
		r.s.Violate(hk.Violation{Fingerprint: "rpc:" + t.Kind() + ":not-alive-after-stalled-peer", What: "after a stalled peer has disconnected: " + why,
			Input: map[string]any{"server": t.Name(), "scenario": scenario}})
	} else if why := t.Handshake(); why != "" {
		r.s.Violate(hk.Violation{Fingerprint: "rpc:" + t.Kind() + ":unresponsive-after-stalled-peer", What: "after a stalled peer has disconnected a fresh client is not served: " + why,
			Input: map[string]any{"server": t.Name(), "scenario": scenario}})
	}
}

// rawStalled: a raw TCP connection with a small receive buffer.
func rawStalled(addr string) (net.Conn, error) {
	c, err := net.DialTimeout("tcp", addr, 3*time.Second)
	if err != nil {
		return nil, err
	}
	if tc, ok := c.(*net.TCPConn); ok {
		tc.SetReadBuffer(4096)
	}
	return c, nil
}

func stalledSSE(t *sseTarget, reqs []stalledReq) (notes []string) {
	addr := t.ts.Listener.Addr().String()
	conn, err := rawStalled(addr)
	if err != nil {
		return []string{"dial: " + err.Error()}
	}
	defer conn.Close()
	fmt.Fprintf(conn, "GET /sse HTTP/1.1\r\nHost: %s\r\nAccept: text/event-stream\r\n\r\n", addr)
	conn.SetReadDeadline(time.Now().Add(5 * time.Second))
	br := bufio.NewReaderSize(conn, 512)
	endpoint := ""
	for endpoint == "" {
		line, err := br.ReadString('\n')
		if err != nil {
			return []string{"no endpoint event: " + err.Error()}
		}
		if strings.HasPrefix(line, "data:") {
			endpoint = strings.TrimSpace(strings.TrimPrefix(line, "data:"))
		}
	}
	// from here on nothing is read from the stream
	hc := &http.Client{Transport: t.hc.Transport, Timeout: stepCeiling}
	url := t.ts.URL + endpoint
	var mu sync.Mutex
	statuses := map[string]int{}
	var wg sync.WaitGroup
	sem := make(chan struct{}, 8)
	for _, rq := range reqs {
		wg.Add(1)
		sem <- struct{}{}
		go func(rq stalledReq) {
			defer wg.Done()
			defer func() { <-sem }()
			resp, err := hc.Post(url, "application/json", bytes.NewReader(rq.body))
			key := rq.class + ":"
			if err != nil {
				key += "error"
				if isTimeout(err) {
					key += "-timeout"
				}
			} else {
				io.Copy(io.Discard, resp.Body)
				resp.Body.Close()
				key += fmt.Sprint(resp.StatusCode)
			}
			mu.Lock()
			statuses[key]++
			mu.Unlock()
		}(rq)
	}
	wg.Wait()
	for k, v := range statuses {
		notes = append(notes, fmt.Sprintf("%s x%d", k, v))
	}
	sort.Strings(notes)
	return notes
}

func stalledStdio(t *stdioTarget, reqs []stalledReq) (notes []string) {
	inR, inW := io.Pipe()
	outR, outW := io.Pipe()
	ctx, cancel := context.WithCancel(context.Background())
	served := make(chan struct{})
	go func() {
		mcp.VerifServeStdio(ctx, t.srv, inR, outW)
		inR.CloseWithError(io.ErrClosedPipe)
		outW.Close()
		close(served)
	}()
	var all bytes.Buffer
	for _, rq := range reqs {
		all.Write(rq.body)
		all.WriteByte('\n')
	}
	written := make(chan error, 1)
	go func() { _, err := inW.Write(all.Bytes()); written <- err }()
	select {
	case err := <-written:
		notes = append(notes, fmt.Sprintf("all %d lines were taken by the server (write error: %v)", len(reqs), err))
	case <-time.After(3 * time.Second):
		notes = append(notes, "the server stopped taking lines while its output is not read (back-pressure)")
	}
	// the peer goes away
	inW.Close()
	outR.CloseWithError(io.ErrClosedPipe)
	cancel()
	select {
	case <-served:
	case <-time.After(5 * time.Second):
		notes = append(notes, "the transport loop did not return within 5s of the peer's disconnect")
	}
	return notes
}

func stalledStreamable(t *streamable, reqs []stalledReq) (notes []string) {
	addr := t.fx.TS.Listener.Addr().String()
	hdr := "Content-Type: application/json\r\nAccept: application/json\r\n"
	if t.cfg.PostSSE {
		hdr = "Content-Type: application/json\r\nAccept: application/json, text/event-stream\r\n"
	}
	if sid, ok := t.sids["s0"]; ok {
		hdr += "Mcp-Session-Id: " + sid + "\r\n"
	}
	huge := strings.Repeat("h", 5<<20)
	for i := 0; i < 3; i++ {
		reqs = append(reqs, stalledReq{"huge-result", []byte(env(Int(int64(120000+i)), "tools/call", vp(Obj(F("name", Str("echo")), F("arguments", Obj(F("pad", Str(huge))))))).Raw())})
	}
	var conns []net.Conn
	failed := 0
	for _, rq := range reqs {
		c, err := rawStalled(addr)
		if err != nil {
			failed++
			continue
		}
		c.SetWriteDeadline(time.Now().Add(5 * time.Second))
		if _, err := fmt.Fprintf(c, "POST /mcp HTTP/1.1\r\nHost: %s\r\n%sContent-Length: %d\r\n\r\n%s", addr, hdr, len(rq.body), rq.body); err != nil {
			failed++
		}
		conns = append(conns, c) // never read
	}
	notes = append(notes, fmt.Sprintf("%d connections, %d could not be opened / written", len(conns), failed))
	// the handlers of the small answers are done once a well-formed request sent after them has been answered
	if why := t.Alive(); why != "" {
		notes = append(notes, "while the stalled connections are open: "+why)
	}
	for _, c := range conns {
		c.Close()
	}
	return notes
}
