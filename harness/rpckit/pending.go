package rpckit

// Two more scenarios of C06:
//   * responses to requests that WERE sent but are malformed: while a server→client request is pending (a tool blocked in
//     ListRoots) the peer posts every malformed response shape bearing its id;
//   * a concurrent handshake storm: many clients initialise, confirm, list and terminate fresh sessions at the same time.

import (
	"context"
	"fmt"
	"io"
	"net/http"
	"net/http/httptest"
	"os"
	"sort"
	"strings"
	"sync"
	"sync/atomic"
	"time"

	mcp "trpc.group/trpc-go/trpc-mcp-go"
	"verif/harness/hk"
)

// ---------------------------------------------------------------------------------------------------------------------
// malformed responses to a pending server→client request

type respShape struct {
	label string
	// the messages the peer sends for a pending request with this id (JSON text of the id)
	msgs func(id string) []string
}

func responseShapes() []respShape {
	one := func(label, tmpl string) respShape {
		return respShape{label, func(id string) []string { return []string{strings.ReplaceAll(tmpl, "$ID", id)} }}
	}
	good := `{"jsonrpc":"2.0","id":$ID,"result":` + rootsAnswer + `}`
	return []respShape{
		one("valid", good),
		one("neither-result-nor-error", `{"jsonrpc":"2.0","id":$ID}`),
		one("both-result-and-error", `{"jsonrpc":"2.0","id":$ID,"result":`+rootsAnswer+`,"error":{"code":-32603,"message":"both"}}`),
		one("result-null", `{"jsonrpc":"2.0","id":$ID,"result":null}`),
		one("error-null", `{"jsonrpc":"2.0","id":$ID,"error":null}`),
		one("result-null-error-null", `{"jsonrpc":"2.0","id":$ID,"result":null,"error":null}`),
		one("error-string", `{"jsonrpc":"2.0","id":$ID,"error":"no"}`),
		one("error-number", `{"jsonrpc":"2.0","id":$ID,"error":5}`),
		one("error-empty-object", `{"jsonrpc":"2.0","id":$ID,"error":{}}`),
		one("error-code-string", `{"jsonrpc":"2.0","id":$ID,"error":{"code":"x","message":5}}`),
		one("error-array", `{"jsonrpc":"2.0","id":$ID,"error":[1]}`),
		one("error-valid", `{"jsonrpc":"2.0","id":$ID,"error":{"code":-32601,"message":"no roots here"}}`),
		one("jsonrpc-1.0", `{"jsonrpc":"1.0","id":$ID,"result":`+rootsAnswer+`}`),
		one("jsonrpc-missing", `{"id":$ID,"result":`+rootsAnswer+`}`),
		one("jsonrpc-number", `{"jsonrpc":2,"id":$ID,"result":`+rootsAnswer+`}`),
		one("result-string", `{"jsonrpc":"2.0","id":$ID,"result":"roots"}`),
		one("result-array", `{"jsonrpc":"2.0","id":$ID,"result":[]}`),
		one("result-number", `{"jsonrpc":"2.0","id":$ID,"result":1e3}`),
		one("result-true", `{"jsonrpc":"2.0","id":$ID,"result":true}`),
		one("result-empty-object", `{"jsonrpc":"2.0","id":$ID,"result":{}}`),
		one("roots-not-an-array", `{"jsonrpc":"2.0","id":$ID,"result":{"roots":"x"}}`),
		one("roots-null", `{"jsonrpc":"2.0","id":$ID,"result":{"roots":null}}`),
		one("root-without-uri", `{"jsonrpc":"2.0","id":$ID,"result":{"roots":[{"name":"n"}]}}`),
		one("root-empty-object", `{"jsonrpc":"2.0","id":$ID,"result":{"roots":[{}]}}`),
		one("root-is-a-number", `{"jsonrpc":"2.0","id":$ID,"result":{"roots":[5]}}`),
		one("root-uri-number", `{"jsonrpc":"2.0","id":$ID,"result":{"roots":[{"uri":5,"name":[]}]}}`),
		one("id-as-string", `{"jsonrpc":"2.0","id":"$ID","result":`+rootsAnswer+`}`),
		one("id-as-fraction", `{"jsonrpc":"2.0","id":$ID.0,"result":`+rootsAnswer+`}`),
		one("id-null", `{"jsonrpc":"2.0","id":null,"result":`+rootsAnswer+`}`),
		one("with-a-method-member", `{"jsonrpc":"2.0","id":$ID,"method":"roots/list","result":`+rootsAnswer+`}`),
		one("a-request-with-the-same-id", `{"jsonrpc":"2.0","id":$ID,"method":"ping"}`),
		one("notification-shaped", `{"jsonrpc":"2.0","method":"notifications/roots/list_changed","params":{"id":$ID,"result":`+rootsAnswer+`}}`),
		one("extra-members", `{"jsonrpc":"2.0","id":$ID,"result":`+rootsAnswer+`,"params":{},"x":1}`),
		one("duplicate-result-member", `{"jsonrpc":"2.0","id":$ID,"result":null,"result":`+rootsAnswer+`}`),
		{"valid-twice", func(id string) []string { g := strings.ReplaceAll(good, "$ID", id); return []string{g, g} }},
		{"malformed-then-valid", func(id string) []string {
			return []string{`{"jsonrpc":"2.0","id":` + id + `}`, strings.ReplaceAll(good, "$ID", id)}
		}},
		{"valid-then-error", func(id string) []string {
			return []string{strings.ReplaceAll(good, "$ID", id), `{"jsonrpc":"2.0","id":` + id + `,"error":{"code":1,"message":"late"}}`}
		}},
		one("not-json", `{"jsonrpc":"2.0","id":$ID,"result":`),
		one("array-of-responses", `[{"jsonrpc":"2.0","id":$ID,"result":`+rootsAnswer+`}]`),
	}
}

// malformedResponses: k = st-json | sse | stdio (the servers that can issue requests to a session).
func (r *runner) malformedResponses(k string) {
	shapes := responseShapes()
	const wait = 700 * time.Millisecond // how long a tool waits for its roots before it gives up by itself
	sc, err := newScenarioServer(k, func(register func(string, toolHandler), self *scenarioServer) {
		register("roots", func(ctx context.Context, req *mcp.CallToolRequest) (*mcp.CallToolResult, error) {
			c2, cancel := context.WithTimeout(ctx, wait)
			defer cancel()
			res, err := self.rl.ListRoots(c2)
			if err != nil {
				return mcp.NewTextResult("roots-error: " + err.Error()), nil
			}
			return mcp.NewTextResult(fmt.Sprintf("roots:%d", len(res.Roots))), nil
		})
	})
	if err != nil {
		r.fail("pending-"+k, err)
		return
	}
	defer sc.closeAll()
	kind := kindOf(k)
	scenario := fmt.Sprintf("%d tools/call of a tool that calls ListRoots (and gives up after %v); the peer answers the i-th roots/list request it receives with the i-th response shape, bearing that request's id", len(shapes), wait)
	r.s.About("malformed responses to a pending server request", map[string]any{"server": k, "scenario": scenario})
	in := map[string]any{"server": k, "scenario": scenario}
	var callIDs []string
	for i := range shapes {
		id := fmt.Sprintf(`"resp-%d"`, i)
		callIDs = append(callIDs, id)
		sc.p.send(`{"jsonrpc":"2.0","id":` + id + `,"method":"tools/call","params":{"name":"roots","arguments":{}}}`)
	}
	answers := map[string]string{}
	used := []string{}
	deadline := time.After(wait + 4*time.Second)
loop:
	for {
		as, rs := sc.p.poll()
		for id, a := range as {
			answers[id] = a
		}
		for _, rq := range rs {
			if rq[1] != "roots/list" || len(used) >= len(shapes) {
				continue
			}
			sh := shapes[len(used)]
			used = append(used, sh.label)
			for _, m := range sh.msgs(rq[0]) {
				sc.p.send(m)
			}
		}
		missing := 0
		for _, id := range callIDs {
			if _, ok := answers[id]; !ok {
				missing++
			}
		}
		if missing == 0 {
			break
		}
		select {
		case <-sc.p.wake():
		case <-deadline:
			break loop
		}
	}
	ok := true
	var unanswered []string
	outcomes := map[string]int{}
	for _, id := range callIDs {
		a, got := answers[id]
		switch {
		case !got:
			unanswered = append(unanswered, id)
		case strings.Contains(a, "roots:"):
			outcomes["the call received roots"]++
		case strings.Contains(a, "roots-error"):
			outcomes["the call was told of an error"]++
		default:
			outcomes["other answer"]++
		}
	}
	if pl := sc.plog.take(); strings.Contains(pl, "panic") {
		ok = false
		r.s.Violate(hk.Violation{Fingerprint: "rpc:" + kind + ":panic-on-response", What: "panic text on the server's ErrorLog while the peer answered pending server requests with malformed responses: " + clipS(pl, 600),
			Input: in, Observed: map[string]any{"shapes_sent": used}})
	}
	if len(unanswered) > 0 {
		ok = false
		r.s.Violate(hk.Violation{Fingerprint: "rpc:" + kind + ":pending-response:calls-unanswered",
			What:  fmt.Sprintf("%d of %d tool calls that waited for the peer's answer to roots/list got no answer within %v although the tool itself gives up after %v", len(unanswered), len(callIDs), wait+4*time.Second, wait),
			Input: in, Observed: map[string]any{"unanswered": clipList(unanswered), "shapes_sent": used, "outcomes": outcomes}, Expected: "every call is answered — with a result or an error"})
	}
	// the connection in use still works, and so does a fresh client
	sc.p.send(`{"jsonrpc":"2.0","id":"after-responses","method":"ping"}`)
	pinged := false
	pd := time.After(inflightPingCeiling)
	for !pinged {
		as, _ := sc.p.poll()
		if _, got := as[`"after-responses"`]; got {
			pinged = true
			break
		}
		select {
		case <-sc.p.wake():
			continue
		case <-pd:
		}
		break
	}
	if !pinged {
		ok = false
		r.s.Violate(hk.Violation{Fingerprint: "rpc:" + kind + ":not-alive-after-malformed-responses", What: "after malformed responses to its own requests the server did not answer a ping on the same connection within " + inflightPingCeiling.String(),
			Input: in, Observed: map[string]any{"shapes_sent": used}})
	} else if why := sc.handshake(); why != "" {
		ok = false
		r.s.Violate(hk.Violation{Fingerprint: "rpc:" + kind + ":unresponsive-after-malformed-responses", What: "after malformed responses to its own requests a fresh client is not served: " + why, Input: in})
	}
	r.s.Count("pending-responses:"+k, ok, map[string]any{"server": k, "scenario": scenario, "roots_requests_answered_with_a_shape": len(used), "outcomes": outcomes}, "malformed-responses")
}

// ---------------------------------------------------------------------------------------------------------------------
// concurrent handshake storm

const stormWorkers = 24

// how long a storm lasts (in-process ServeHTTP completes tens of thousands of session lives per second; the socket and
// pipe based ones a few thousand)
func stormDuration(k string) time.Duration {
	if k == "sse" || k == "stdio" {
		return 600 * time.Millisecond
	}
	return 350 * time.Millisecond
}

// handshakeStorm: k = st-json | st-sse | stateless | nosession | sse | stdio. Every worker runs, again and again, the life
// of a session: initialize, notifications/initialized, tools/list, (DELETE) — readers and writers of the life-cycle state
// at the same time. Then the workers must all come back and a fresh client must be served.
func (r *runner) handshakeStorm(k string) {
	reg := Registries["small"]
	var cycles, failures atomic.Int64
	var stop atomic.Bool
	var firstFailure atomic.Value
	fail := func(why string) {
		failures.Add(1)
		firstFailure.CompareAndSwap(nil, why)
	}
	var worker func(w int)
	var probe func() string
	var closeAll func()
	switch k {
	case "stdio":
		srv := mcp.NewStdioServer(ServerName, ServerVersion, mcp.WithStdioServerLogger(hk.QuietLogger{}))
		reg.Install(srv)
		t := &stdioTarget{srv: srv}
		worker = func(w int) {
			for !stop.Load() {
				if why := t.Handshake(); why != "" {
					fail(why)
					return
				}
				cycles.Add(1)
			}
		}
		probe, closeAll = t.Handshake, func() {}
	case "sse":
		tt, err := NewSSE(reg)
		if err != nil {
			r.fail("storm-sse", err)
			return
		}
		t := tt.(*sseTarget)
		worker = func(w int) {
			for !stop.Load() {
				if why := t.Handshake(); why != "" {
					fail(why)
					return
				}
				cycles.Add(1)
			}
		}
		probe, closeAll = t.Handshake, t.Close
	default:
		cfg := scenarioCfg[k]
		fx := hk.NewFixture(hk.SrvCfg{Mode: cfg.Mode, Get: true, PostSSE: cfg.PostSSE})
		reg.Install(fx.S)
		h := fx.TS.Config.Handler
		st := &streamable{cfg: cfg, fx: fx, plog: &panicLog{}, sids: map[string]string{},
			fresh: &http.Client{Transport: &http.Transport{DisableKeepAlives: true, DisableCompression: true}, Timeout: stepCeiling}}
		// in-process ServeHTTP: no sockets between the workers and the handler
		serve := func(verb, sid, body string) (int, string) {
			var rd io.Reader
			if body != "" {
				rd = strings.NewReader(body)
			}
			req := httptest.NewRequest(verb, "/mcp", rd)
			req.Header.Set("Accept", "application/json")
			if body != "" {
				req.Header.Set("Content-Type", "application/json")
			}
			if sid != "" {
				req.Header.Set("Mcp-Session-Id", sid)
			}
			rec := httptest.NewRecorder()
			h.ServeHTTP(rec, req)
			return rec.Code, rec.Header().Get("Mcp-Session-Id")
		}
		worker = func(w int) {
			for n := 0; !stop.Load(); n++ {
				code, sid := serve("POST", "", hsInit)
				if code != 200 || (cfg.Mode == "stateful" && sid == "") {
					fail(fmt.Sprintf("initialize: status %d, session %q", code, sid))
					return
				}
				if cfg.Mode != "stateful" {
					sid = ""
				}
				if code, _ := serve("POST", sid, hsNotif); code != 202 {
					fail(fmt.Sprintf("notifications/initialized: status %d", code))
					return
				}
				if code, _ := serve("POST", sid, hsList); code != 200 {
					fail(fmt.Sprintf("tools/list: status %d", code))
					return
				}
				if n%4 == 3 {
					serve("POST", sid, hsInit) // a second initialize on an initialised session
				}
				if sid != "" {
					if code, _ := serve("DELETE", sid, ""); code != 200 {
						fail(fmt.Sprintf("DELETE: status %d", code))
						return
					}
				}
				cycles.Add(1)
			}
		}
		probe = st.Handshake
		closeAll = func() { st.fresh.CloseIdleConnections(); closeWithin(3*time.Second, fx.Close) }
	}
	defer closeAll()
	scenario := fmt.Sprintf("%d concurrent clients, each running the life of a session again and again for %v: initialize, notifications/initialized, tools/list, every fourth time a second initialize, DELETE (Streamable stateful) / disconnect", stormWorkers, stormDuration(k))
	r.s.About("handshake storm", map[string]any{"server": k, "scenario": scenario})
	in := map[string]any{"server": k, "scenario": scenario}
	var wg sync.WaitGroup
	for w := 0; w < stormWorkers; w++ {
		wg.Add(1)
		go func(w int) { defer wg.Done(); worker(w) }(w)
	}
	back := make(chan struct{})
	go func() { wg.Wait(); close(back) }()
	time.Sleep(stormDuration(k)) // the storm lasts this long: load, not synchronisation
	stop.Store(true)
	kind := kindOf(k)
	ok := true
	select {
	case <-back:
	case <-time.After(2 * stepCeiling):
		ok = false
		r.s.Violate(hk.Violation{Fingerprint: "rpc:" + kind + ":unresponsive-after-handshake-storm",
			What:  fmt.Sprintf("%v after the end of a storm of concurrent handshakes some of the %d clients are still waiting for an answer (%d session lives had been completed)", 2*stepCeiling, stormWorkers, cycles.Load()),
			Input: in, Observed: map[string]any{"completed_session_lives": cycles.Load(), "goroutines_by_starting_function": topCensus()}, Expected: "every request of every client is answered"})
	}
	if f := failures.Load(); f > 0 && ok {
		ok = false
		why, _ := firstFailure.Load().(string)
		r.s.Violate(hk.Violation{Fingerprint: "rpc:" + kind + ":handshake-storm-refusal", What: fmt.Sprintf("during a storm of concurrent handshakes %d client(s) got a refusal / no answer for a step of their own fresh session: %s", f, why),
			Input: in, Observed: map[string]any{"completed_session_lives": cycles.Load()}, Expected: "every client's handshake succeeds: the sessions are independent"})
	}
	if ok {
		if why := probe(); why != "" {
			ok = false
			r.s.Violate(hk.Violation{Fingerprint: "rpc:" + kind + ":unresponsive-after-handshake-storm", What: "after a storm of concurrent handshakes a fresh client is not served: " + why, Input: in,
				Observed: map[string]any{"completed_session_lives": cycles.Load()}, Expected: "the next client is served normally"})
		}
	}
	r.s.Count("handshake-storm:"+k, ok, map[string]any{"server": k, "scenario": scenario, "completed_session_lives": cycles.Load()}, "handshake-storm")
	if os.Getenv("VERIF_RPC_TIMING") != "" {
		fmt.Fprintf(os.Stderr, "timing storm %s: %d session lives\n", k, cycles.Load())
	}
}

func topCensus() map[string]int {
	c := libCensus()
	keys := make([]string, 0, len(c))
	for k := range c {
		keys = append(keys, k)
	}
	sort.Slice(keys, func(i, j int) bool { return c[keys[i]] > c[keys[j]] })
	out := map[string]int{}
	for i, k := range keys {
		if i >= 6 {
			break
		}
		out[k] = c[k]
	}
	return out
}

// ---------------------------------------------------------------------------------------------------------------------
// the peer's answer arrives exactly when the server gives the request up

// responseRace: k = st-json | sse | stdio. Tools wait for roots/list with deadlines swept over 1–60 ms while the peer
// answers every request with a result of 1–4 MB (decoding and re-encoding it takes the server milliseconds: the window in
// which the waiter has gone while the answer is being handed over), after a varied delay. The server must not panic (a
// panic on the goroutine that handles the response kills the process), every call must be answered, the next request served.
func (r *runner) responseRace(k string) {
	sc, err := newScenarioServer(k, func(register func(string, toolHandler), self *scenarioServer) {
		register("roots-deadline", func(ctx context.Context, req *mcp.CallToolRequest) (*mcp.CallToolResult, error) {
			ms, _ := req.Params.Arguments["ms"].(float64)
			c2, cancel := context.WithTimeout(ctx, time.Duration(ms*float64(time.Millisecond)))
			defer cancel()
			res, err := self.rl.ListRoots(c2)
			if err != nil {
				return mcp.NewTextResult("roots-error: " + err.Error()), nil
			}
			return mcp.NewTextResult(fmt.Sprintf("roots:%d", len(res.Roots))), nil
		})
	})
	if err != nil {
		r.fail("response-race-"+k, err)
		return
	}
	defer sc.closeAll()
	// results of about 1, 2 and 4 MB
	var payloads []string
	for _, n := range []int{8000, 16000, 32000} {
		var b strings.Builder
		b.WriteString(`{"roots":[`)
		for i := 0; i < n; i++ {
			if i > 0 {
				b.WriteByte(',')
			}
			fmt.Fprintf(&b, `{"uri":"file:///verif/some/fairly/long/path/to/a/root/directory/number/%06d","name":"root number %06d of a large workspace"}`, i, i)
		}
		b.WriteString(`]}`)
		payloads = append(payloads, b.String())
	}
	type job struct {
		ms   float64
		size int
	}
	// calibration: how long one exchange takes for each size when the tool is patient (the deadlines are then swept
	// around that time, where an answer can meet a waiter that is just leaving)
	roundTrip := func(size int) time.Duration {
		t0 := time.Now()
		id := fmt.Sprintf(`"calib-%d"`, size)
		sc.p.send(fmt.Sprintf(`{"jsonrpc":"2.0","id":%s,"method":"tools/call","params":{"name":"roots-deadline","arguments":{"ms":3000}}}`, id))
		deadline := time.After(stepCeiling)
		for {
			as, rs := sc.p.poll()
			for _, rq := range rs {
				if rq[1] == "roots/list" {
					sc.p.send(`{"jsonrpc":"2.0","id":` + rq[0] + `,"result":` + payloads[size] + `}`)
				}
			}
			if _, ok := as[id]; ok {
				return time.Since(t0)
			}
			select {
			case <-sc.p.wake():
			case <-deadline:
				return stepCeiling
			}
		}
	}
	points := 16
	if r.thorough {
		points = 60
	}
	var jobs []job
	var calib []string
	for sz := range payloads {
		rt := roundTrip(sz)
		calib = append(calib, rt.Round(time.Millisecond).String())
		if rt >= stepCeiling {
			continue
		}
		T := float64(rt) / float64(time.Millisecond)
		for i := 0; i < points; i++ {
			jobs = append(jobs, job{0.2*T + 1.1*T*float64(i)/float64(points), sz})
		}
	}
	if len(jobs) == 0 {
		r.s.Count("response-race:not-calibrated:"+k, false, map[string]any{"round_trips": calib}, "response-race")
		return
	}
	kind := kindOf(k)
	scenario := fmt.Sprintf("%d tools/call of a tool that waits for roots/list with deadlines swept from 0.2 to 1.3 times the measured round trip (%s for 1 / 2 / 4 MB); the peer answers every roots/list request with a result of that size after 0-6 ms", len(jobs), strings.Join(calib, ", "))
	r.s.About("the answer arrives when the request is given up", map[string]any{"server": k, "scenario": scenario})
	in := map[string]any{"server": k, "scenario": scenario}
	answers := map[string]string{}
	answered, seen := 0, 0
	const batch = 6
	for b0 := 0; b0 < len(jobs); b0 += batch {
		var ids []string
		for i := b0; i < b0+batch && i < len(jobs); i++ {
			id := fmt.Sprintf(`"race-%d"`, i)
			ids = append(ids, id)
			sc.p.send(fmt.Sprintf(`{"jsonrpc":"2.0","id":%s,"method":"tools/call","params":{"name":"roots-deadline","arguments":{"ms":%g}}}`, id, jobs[i].ms))
		}
		deadline := time.After(stepCeiling)
	wait:
		for {
			as, rs := sc.p.poll()
			for id, a := range as {
				answers[id] = a
			}
			for _, rq := range rs {
				if rq[1] != "roots/list" {
					continue
				}
				j := jobs[(b0+seen%batch)%len(jobs)]
				if b0+batch <= len(jobs) {
					j = jobs[b0] // (a batch holds one size)
				}
				seen++
				go func(id string, size, delay int) {
					time.Sleep(time.Duration(delay) * time.Millisecond) // the varied delay of the peer's answer (load shaping)
					sc.p.send(`{"jsonrpc":"2.0","id":` + id + `,"result":` + payloads[size] + `}`)
				}(rq[0], j.size, (seen%4)*2)
			}
			missing := false
			for _, id := range ids {
				if _, ok := answers[id]; !ok {
					missing = true
				}
			}
			if !missing {
				break
			}
			select {
			case <-sc.p.wake():
			case <-deadline:
				break wait
			}
		}
		for _, id := range ids {
			if _, ok := answers[id]; ok {
				answered++
			}
		}
		if answered < b0+len(ids) {
			break // something is stuck: the remaining batches would only wait for the same ceiling
		}
	}
	ok := true
	if pl := sc.plog.take(); strings.Contains(pl, "panic") {
		ok = false
		r.s.Violate(hk.Violation{Fingerprint: "rpc:" + kind + ":panic-on-response", What: "panic text on the server's ErrorLog while answers arrived around the moment their requests were given up: " + clipS(pl, 600), Input: in})
	}
	got, late := 0, 0
	for _, a := range answers {
		if strings.Contains(a, "roots:") {
			got++
		} else if strings.Contains(a, "roots-error") {
			late++
		}
	}
	if answered < len(jobs) {
		ok = false
		r.s.Violate(hk.Violation{Fingerprint: "rpc:" + kind + ":response-race:calls-unanswered",
			What:  fmt.Sprintf("a tool call that waited for roots/list with a deadline got no answer within %v (%d of %d calls had been answered)", stepCeiling, answered, len(jobs)),
			Input: in, Observed: map[string]any{"calls_that_received_roots": got, "calls_that_gave_up": late}, Expected: "every call is answered: with the roots, or with the deadline's error"})
	} else {
		sc.p.send(`{"jsonrpc":"2.0","id":"after-race","method":"ping"}`)
		pinged := false
		pd := time.After(inflightPingCeiling)
		for !pinged {
			as, _ := sc.p.poll()
			if _, g := as[`"after-race"`]; g {
				pinged = true
				break
			}
			select {
			case <-sc.p.wake():
				continue
			case <-pd:
			}
			break
		}
		if !pinged {
			ok = false
			r.s.Violate(hk.Violation{Fingerprint: "rpc:" + kind + ":not-alive-after-response-race", What: "after answers that arrived around the moment their requests were given up, a ping on the same connection was not answered within " + inflightPingCeiling.String(), Input: in})
		} else if why := sc.handshake(); why != "" {
			ok = false
			r.s.Violate(hk.Violation{Fingerprint: "rpc:" + kind + ":unresponsive-after-response-race", What: "after answers that arrived around the moment their requests were given up a fresh client is not served: " + why, Input: in})
		}
	}
	r.s.Count("response-race:"+k, ok, map[string]any{"server": k, "scenario": scenario, "calls_that_received_roots": got, "calls_that_gave_up": late}, "response-race")
	if os.Getenv("VERIF_RPC_TIMING") != "" {
		fmt.Fprintf(os.Stderr, "response race %s: %d got roots, %d gave up\n", k, got, late)
	}
}
