package rpckit

// Many requests in flight that need the peer (C06: no dead-lock, other traffic keeps being served): N = 70 / 150 / 300
// concurrent tools/call whose handler blocks on a gate, or issues a server→client request (roots/list) and waits for the
// PEER's answer. While they are in flight the peer keeps sending pings — each must be answered promptly — and answers
// every roots/list request it receives — each answer must be accepted (the call that waits for it returns); then the gate
// is released and every call must be answered.

import (
	"context"
	"encoding/json"
	"fmt"
	"io"
	"log"
	"net/http"
	"os"
	"strings"
	"sync"
	"sync/atomic"
	"time"

	mcp "trpc.group/trpc-go/trpc-mcp-go"
	"verif/harness/hk"
)

const (
	inflightPingCeiling  = 3 * time.Second
	inflightCallsCeiling = 10 * time.Second
)

type gate struct {
	arrived atomic.Int64
	release chan struct{}
}

func newGate() *gate { return &gate{release: make(chan struct{})} }

func (g *gate) tool() func(ctx context.Context, req *mcp.CallToolRequest) (*mcp.CallToolResult, error) {
	return func(ctx context.Context, req *mcp.CallToolRequest) (*mcp.CallToolResult, error) {
		g.arrived.Add(1)
		select {
		case <-g.release:
		case <-ctx.Done():
		}
		return mcp.NewTextResult("released"), nil
	}
}

type rootsLister interface {
	ListRoots(ctx context.Context) (*mcp.ListRootsResult, error)
}

func rootsTool(srv func() rootsLister) func(ctx context.Context, req *mcp.CallToolRequest) (*mcp.CallToolResult, error) {
	return func(ctx context.Context, req *mcp.CallToolRequest) (*mcp.CallToolResult, error) {
		res, err := srv().ListRoots(ctx)
		if err != nil {
			return mcp.NewTextResult("roots-error: " + err.Error()), nil
		}
		return mcp.NewTextResult(fmt.Sprintf("roots:%d", len(res.Roots))), nil
	}
}

const rootsAnswer = `{"roots":[{"uri":"file:///verif","name":"verif"}]}`
const inflightInit = `{"jsonrpc":"2.0","id":"if-init","method":"initialize","params":{"protocolVersion":"2025-03-26","capabilities":{"roots":{"listChanged":true}},"clientInfo":{"name":"inflight","version":"1"}}}`

// inflightPeer: what the scenario needs of a connection to a server.
type inflightPeer interface {
	// send hands one message to the server without waiting for its answer
	send(body string) error
	// answers: id (JSON text) -> the answer's text, for every response seen so far; requests: the server→client requests
	// seen so far that have not been handed out before (id JSON text, method)
	poll() (answers map[string]string, requests [][2]string)
	// wake is signalled when something new may have arrived
	wake() <-chan struct{}
	close()
}

type inflightOutcome struct {
	pingsLate, callsMissing, rootsSeen, rootsOK, rootsErr, arrived int
	detail                                                         []string
}

// runInflight drives one scenario on one connection.
func runInflight(p inflightPeer, tool string, n int, g *gate) inflightOutcome {
	var out inflightOutcome
	answers := map[string]string{}
	absorb := func() {
		as, rs := p.poll()
		for k, v := range as {
			answers[k] = v
		}
		for _, rq := range rs {
			if rq[1] == "roots/list" {
				out.rootsSeen++
				p.send(`{"jsonrpc":"2.0","id":` + rq[0] + `,"result":` + rootsAnswer + `}`)
			}
		}
	}
	waitFor := func(ids []string, ceiling time.Duration) (missing []string) {
		deadline := time.After(ceiling)
		for {
			absorb()
			missing = missing[:0]
			for _, id := range ids {
				if _, ok := answers[id]; !ok {
					missing = append(missing, id)
				}
			}
			if len(missing) == 0 {
				return nil
			}
			select {
			case <-p.wake():
			case <-deadline:
				absorb()
				return missing
			}
		}
	}
	// the calls, all at once
	var callIDs []string
	var wg sync.WaitGroup
	for i := 0; i < n; i++ {
		id := fmt.Sprintf(`"call-%d"`, i)
		callIDs = append(callIDs, id)
		wg.Add(1)
		go func(id string) {
			defer wg.Done()
			p.send(`{"jsonrpc":"2.0","id":` + id + `,"method":"tools/call","params":{"name":"` + tool + `","arguments":{}}}`)
		}(id)
	}
	sent := make(chan struct{})
	go func() { wg.Wait(); close(sent) }()
	// pings while the calls are in flight (the first one right away, the others once the calls have been handed over)
	for k := 0; k < 5; k++ {
		if k == 1 {
			select {
			case <-sent:
			case <-time.After(inflightPingCeiling):
				out.detail = append(out.detail, "not all calls could be handed to the server within "+inflightPingCeiling.String())
			}
			if g != nil && tool == "gate" {
				// pacing (not judged): give the handlers the time to reach the gate, so that the remaining pings meet all of
				// them in flight
				for t0 := time.Now(); int(g.arrived.Load()) < n && time.Since(t0) < 2*time.Second; {
					time.Sleep(time.Millisecond)
				}
			}
		}
		id := fmt.Sprintf(`"ping-%d"`, k)
		t0 := time.Now()
		if err := p.send(`{"jsonrpc":"2.0","id":` + id + `,"method":"ping"}`); err != nil {
			out.pingsLate++
			out.detail = append(out.detail, "ping could not be sent: "+err.Error())
			continue
		}
		if miss := waitFor([]string{id}, inflightPingCeiling); len(miss) > 0 {
			out.pingsLate++
			out.detail = append(out.detail, fmt.Sprintf("ping %d unanswered after %v with %d calls in flight", k, time.Since(t0).Round(time.Millisecond), n))
		}
	}
	if g != nil {
		out.arrived = int(g.arrived.Load())
		close(g.release)
	}
	missing := waitFor(callIDs, inflightCallsCeiling)
	out.callsMissing = len(missing)
	if len(missing) > 0 {
		out.detail = append(out.detail, fmt.Sprintf("%d of %d calls unanswered after %v, e.g. %s", len(missing), n, inflightCallsCeiling, missing[0]))
	}
	for _, id := range callIDs {
		a := answers[id]
		switch {
		case strings.Contains(a, "roots:1"):
			out.rootsOK++
		case strings.Contains(a, "roots-error"):
			out.rootsErr++
		}
	}
	return out
}

// ---- peers

// frames-based peers (stdio lines, legacy SSE frames): the frames accumulate in the underlying reference peer
type framePeer struct {
	mu      *sync.Mutex
	frames  *[]string
	notify  chan struct{}
	seen    int
	sendFn  func(string) error
	closeFn func()
}

func (p *framePeer) send(b string) error   { return p.sendFn(b) }
func (p *framePeer) wake() <-chan struct{} { return p.notify }
func (p *framePeer) close()                { p.closeFn() }
func (p *framePeer) poll() (map[string]string, [][2]string) {
	p.mu.Lock()
	fresh := append([]string{}, (*p.frames)[p.seen:]...)
	p.seen = len(*p.frames)
	p.mu.Unlock()
	return classifyFrames(fresh)
}

func classifyFrames(fresh []string) (map[string]string, [][2]string) {
	as, rs := map[string]string{}, [][2]string{}
	for _, f := range fresh {
		var m struct {
			ID     json.RawMessage `json:"id"`
			Method *string         `json:"method"`
		}
		if json.Unmarshal([]byte(f), &m) != nil || len(m.ID) == 0 {
			continue
		}
		if m.Method != nil {
			rs = append(rs, [2]string{string(m.ID), *m.Method})
		} else {
			as[string(m.ID)] = f
		}
	}
	return as, rs
}

// Streamable: every call is its own POST (the answer is the POST's body), server→client requests arrive on the GET stream
type streamablePeer struct {
	fx      *hk.Fixture
	hdr     map[string]string
	stream  *hk.Stream
	mu      sync.Mutex
	got     []string
	notify  chan struct{}
	seenEv  int
	stopped chan struct{}
}

func (p *streamablePeer) send(b string) error {
	go func() {
		r := p.fx.Do("POST", p.fx.URL, p.hdr, []byte(b))
		body := string(r.Body)
		if strings.HasPrefix(r.Header.Get("Content-Type"), "text/event-stream") {
			var data []string
			for _, l := range strings.Split(body, "\n") {
				if strings.HasPrefix(l, "data:") {
					data = append(data, strings.TrimPrefix(strings.TrimPrefix(strings.TrimSuffix(l, "\r"), "data:"), " "))
				}
			}
			body = strings.Join(data, "\n")
		}
		if r.Err == nil && r.Status == 200 && strings.TrimSpace(body) != "" {
			p.mu.Lock()
			p.got = append(p.got, body)
			p.mu.Unlock()
		}
		select {
		case p.notify <- struct{}{}:
		default:
		}
	}()
	return nil
}
func (p *streamablePeer) wake() <-chan struct{} { return p.notify }
func (p *streamablePeer) close() {
	close(p.stopped)
	if p.stream != nil {
		p.stream.CloseByClient()
	}
}
func (p *streamablePeer) poll() (map[string]string, [][2]string) {
	p.mu.Lock()
	fresh := p.got
	p.got = nil
	p.mu.Unlock()
	if p.stream != nil {
		evs := p.stream.Snapshot()
		for _, e := range evs[p.seenEv:] {
			fresh = append(fresh, e.Data)
		}
		p.seenEv = len(evs)
	}
	return classifyFrames(fresh)
}

// ---- the scenarios per server kind

func (r *runner) inflightReport(kind, server, tool string, n int, out inflightOutcome) {
	scenario := fmt.Sprintf("%d concurrent tools/call %q (%s) on one connection; 5 pings while they are in flight; every roots/list request answered by the peer at once; then the gate is released",
		n, tool, map[string]string{"gate": "the handler blocks on a gate", "roots": "the handler calls ListRoots and waits for the peer's answer"}[tool])
	ok := out.pingsLate == 0 && out.callsMissing == 0 && (tool != "roots" || out.rootsOK == out.rootsSeen)
	r.s.Count(fmt.Sprintf("inflight:%s:%s:%d", server, tool, n), ok, map[string]any{"server": server, "scenario": scenario, "handlers_running_at_once": out.arrived,
		"roots_requests_seen_by_peer": out.rootsSeen, "calls_that_got_their_roots": out.rootsOK, "calls_refused_by_the_server": out.rootsErr, "notes": out.detail}, "in-flight")
	in := map[string]any{"server": server, "scenario": scenario}
	obs := map[string]any{"pings_unanswered": out.pingsLate, "calls_unanswered": out.callsMissing, "roots_requests_seen_by_peer": out.rootsSeen,
		"calls_that_got_their_roots": out.rootsOK, "calls_answered_with_an_error_text": out.rootsErr, "handlers_running_at_once": out.arrived, "notes": out.detail}
	if out.pingsLate > 0 {
		r.s.Violate(hk.Violation{Fingerprint: "rpc:" + kind + ":inflight:ping-unanswered", What: fmt.Sprintf("with %d requests in flight that wait for the peer, %d of 5 pings were not answered within %v", n, out.pingsLate, inflightPingCeiling),
			Input: in, Observed: obs, Expected: "requests that do not depend on the ones in flight are served promptly"})
	}
	if out.callsMissing > 0 {
		r.s.Violate(hk.Violation{Fingerprint: "rpc:" + kind + ":inflight:calls-unanswered", What: fmt.Sprintf("%d of %d calls were not answered within %v although the peer answered every request it received and the gate was released", out.callsMissing, n, inflightCallsCeiling),
			Input: in, Observed: obs, Expected: "every call is answered once what it waits for has happened"})
	}
	if tool == "roots" && out.callsMissing == 0 && out.rootsOK != out.rootsSeen {
		r.s.Violate(hk.Violation{Fingerprint: "rpc:" + kind + ":inflight:peer-answer-not-accepted", What: fmt.Sprintf("the peer answered %d roots/list requests, but only %d calls received their roots", out.rootsSeen, out.rootsOK),
			Input: in, Observed: obs, Expected: "every answer of the peer reaches the call that waits for it"})
	}
}

type toolHandler = func(context.Context, *mcp.CallToolRequest) (*mcp.CallToolResult, error)

// scenarioServer: one real server with scenario-specific tools, and one peer connected to it.
type scenarioServer struct {
	k    string // st-json | st-sse | stateless | nosession | sse | stdio
	p    inflightPeer
	rl   rootsLister
	plog *panicLog
	// notify sends a server notification to the session a handler's context belongs to
	notify func(ctx context.Context, method string, params map[string]interface{}) error
	// drop: the peer goes away (stream / stdin+stdout closed) — the server stays
	drop func()
	// handshake: a fresh client on the same server (initialize, notifications/initialized, tools/list)
	handshake func() string
	closeAll  func()
	// Streamable only: address and headers for raw connections
	addr, rawHdr string
}

var scenarioCfg = map[string]StreamableCfg{"st-json": {Mode: "stateful"}, "st-sse": {Mode: "stateful", PostSSE: true}, "stateless": {Mode: "stateless"}, "nosession": {Mode: "sessionsOff", PostSSE: true}}

// newScenarioServer builds the server of kind k with the tools `install` registers, connects a peer and performs the
// handshake of a roots-capable client.
func newScenarioServer(k string, install func(register func(name string, h toolHandler), self *scenarioServer), opts ...mcp.ServerOption) (*scenarioServer, error) {
	sc := &scenarioServer{k: k, plog: &panicLog{}}
	switch k {
	case "stdio":
		srv := mcp.NewStdioServer(ServerName, ServerVersion, mcp.WithStdioServerLogger(hk.QuietLogger{}))
		install(func(name string, h toolHandler) { srv.RegisterTool(mcp.NewTool(name), h) }, sc)
		sc.rl = srv
		sp := newStdioPeer(srv)
		sc.p = &framePeer{mu: &sp.mu, frames: &sp.lines, notify: sp.notify, closeFn: sp.close,
			sendFn: func(b string) error {
				// (a server that has stopped reading must not block the peer for ever)
				done := make(chan error, 1)
				go func() { _, err := sp.in.Write([]byte(b + "\n")); done <- err }()
				select {
				case err := <-done:
					return err
				case <-time.After(inflightPingCeiling):
					return fmt.Errorf("the server did not take the line within %v", inflightPingCeiling)
				}
			}}
		sc.notify = func(ctx context.Context, method string, params map[string]interface{}) error {
			return fmt.Errorf("the stdio server has no SendNotification")
		}
		sc.drop = sp.close
		sc.handshake = func() string { return (&stdioTarget{srv: srv}).Handshake() }
		sc.closeAll = sp.close
	case "sse":
		srv := mcp.NewSSEServer(ServerName, ServerVersion, mcp.WithSSEServerLogger(hk.QuietLogger{}))
		install(func(name string, h toolHandler) { srv.RegisterTool(mcp.NewTool(name), h) }, sc)
		sc.rl = srv
		tt := &sseTarget{reg: Registries["bare"], srv: srv, plog: sc.plog}
		tt.ts = newQuietTestServer(srv)
		tt.hc = &http.Client{Transport: &http.Transport{MaxIdleConnsPerHost: 64, DisableCompression: true}, Timeout: 2 * stepCeiling}
		sp, _, err := openSSE(tt.ts.URL, tt.hc)
		if err != nil {
			tt.ts.Close()
			return nil, err
		}
		tt.peer = sp
		sc.p = &framePeer{mu: &sp.mu, frames: &sp.frames, notify: sp.notify, closeFn: tt.Close,
			sendFn: func(b string) error {
				go func() {
					resp, err := tt.hc.Post(sp.msgURL, "application/json", strings.NewReader(b))
					if err == nil {
						io.Copy(io.Discard, resp.Body)
						resp.Body.Close()
					}
				}()
				return nil
			}}
		sc.notify = func(ctx context.Context, method string, params map[string]interface{}) error {
			sess := mcp.ClientSessionFromContext(ctx)
			if sess == nil {
				return fmt.Errorf("no session in the context")
			}
			return srv.SendNotification(sess.GetID(), method, params)
		}
		sc.drop = sp.close
		sc.handshake = tt.Handshake
		sc.closeAll = tt.Close
	default:
		cfg := scenarioCfg[k]
		fx := hk.NewFixture(hk.SrvCfg{Mode: cfg.Mode, Get: true, PostSSE: cfg.PostSSE}, opts...)
		fx.TS.Config.ErrorLog = log.New(sc.plog, "", 0)
		fx.HC.Timeout = 4 * stepCeiling
		install(func(name string, h toolHandler) { fx.S.RegisterTool(mcp.NewTool(name), h) }, sc)
		sc.rl = fx.S
		sp := &streamablePeer{fx: fx, hdr: map[string]string{"Accept": "application/json", "Content-Type": "application/json"}, notify: make(chan struct{}, 1), stopped: make(chan struct{})}
		if cfg.PostSSE {
			sp.hdr["Accept"] = "application/json, text/event-stream"
		}
		if cfg.Mode == "stateful" {
			ir := fx.Post(map[string]string{"Accept": "application/json"}, inflightInit)
			sid := ir.Header.Get("Mcp-Session-Id")
			sp.hdr["Mcp-Session-Id"] = sid
			fx.Post(map[string]string{"Accept": "application/json", "Mcp-Session-Id": sid}, hsNotif)
			if code, _, st, err := fx.OpenStream(map[string]string{"Mcp-Session-Id": sid}); err == nil && code == 200 {
				sp.stream = st
				go func() { // the stream's events wake the scenario up
					for n := 1; ; n++ {
						st.WaitEvents(n, time.Hour)
						select {
						case sp.notify <- struct{}{}:
						default:
						}
						select {
						case <-sp.stopped:
							return
						default:
						}
						if st.Ended(0) {
							return
						}
					}
				}()
			}
		}
		sc.addr = fx.TS.Listener.Addr().String()
		for _, h := range []string{"Content-Type", "Accept", "Mcp-Session-Id"} {
			if v := sp.hdr[h]; v != "" {
				sc.rawHdr += h + ": " + v + "\r\n"
			}
		}
		sc.notify = func(ctx context.Context, method string, params map[string]interface{}) error {
			sess := mcp.ClientSessionFromContext(ctx)
			if sess == nil {
				return fmt.Errorf("no session in the context")
			}
			return fx.S.SendNotification(sess.GetID(), method, params)
		}
		sc.drop = func() {
			if sp.stream != nil {
				sp.stream.CloseByClient()
			}
		}
		st := &streamable{cfg: cfg, fx: fx, plog: sc.plog, sids: map[string]string{},
			fresh: &http.Client{Transport: &http.Transport{DisableKeepAlives: true, DisableCompression: true}, Timeout: stepCeiling}}
		sc.handshake = st.Handshake
		sc.p = &closingPeer{inflightPeer: sp, after: func() { st.fresh.CloseIdleConnections(); closeWithin(3*time.Second, fx.Close) }}
		sc.closeAll = sc.p.close
	}
	if k == "stdio" || k == "sse" {
		// the handshake a roots-capable client performs
		sc.p.send(inflightInit)
		deadline := time.After(stepCeiling)
		for done := false; !done; {
			as, _ := sc.p.poll()
			if _, ok := as[`"if-init"`]; ok {
				break
			}
			select {
			case <-sc.p.wake():
			case <-deadline:
				done = true
			}
		}
		sc.p.send(hsNotif)
	}
	return sc, nil
}

// manyInFlight runs the scenarios for one server kind (st-json | st-sse | stateless | nosession | sse | stdio).
func (r *runner) manyInFlight(k string) {
	sizes := []int{70, 150, 300}
	for _, tool := range []string{"gate", "roots"} {
		for _, n := range sizes {
			if k == "sse" && n > 70 {
				continue // the session's event queue holds 100 entries and drops what does not fit (by design)
			}
			if tool == "roots" && (k == "stateless" || k == "nosession" || k == "st-sse") {
				continue // no session to send a request to / the request would travel on the POST's own stream (C10)
			}
			r.s.About(fmt.Sprintf("in-flight %s x%d", tool, n), map[string]any{"server": k})
			g := newGate()
			sc, err := newScenarioServer(k, func(register func(string, toolHandler), self *scenarioServer) {
				register("gate", g.tool())
				register("roots", rootsTool(func() rootsLister { return self.rl }))
			})
			if err != nil {
				r.fail("inflight-"+k, err)
				return
			}
			t0 := time.Now()
			out := runInflight(sc.p, tool, n, g)
			if os.Getenv("VERIF_RPC_TIMING") != "" {
				fmt.Fprintf(os.Stderr, "timing in-flight %s %s x%d: %v\n", k, tool, n, time.Since(t0))
			}
			r.inflightReport(kindOf(k), k, tool, n, out)
			sc.closeAll()
			if out.pingsLate > 0 || out.callsMissing > 0 {
				return // the server is stuck: larger sizes would only wait for the same ceilings again
			}
		}
	}
}

type closingPeer struct {
	inflightPeer
	after func()
}

func (c *closingPeer) close() { c.inflightPeer.close(); c.after() }
