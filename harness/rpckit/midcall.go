package rpckit

// Scenarios around one connection's life (C06 / C14):
//   * the peer leaves mid-call: slow handlers whose answers — a result, an error, a notification, a server→client request
//     (ListRoots) — are produced AFTER the peer dropped its stream / connection / closed stdin;
//   * a session idle past the expiry time (not yet swept) is used again, then fresh clients arrive;
//   * requests of ONE session that overlap in time: a call that blocks until another request of the same session
//     releases it — every transport must give the same answers.

import (
	"context"
	"encoding/json"
	"errors"
	"fmt"
	"net"
	"net/http"
	"sort"
	"strings"
	"sync"
	"sync/atomic"
	"time"

	mcp "trpc.group/trpc-go/trpc-mcp-go"
	"verif/harness/hk"
)

// ---------------------------------------------------------------------------------------------------------------------
// the peer leaves mid-call

func (r *runner) peerLeavesMidCall(k string) {
	const perTool = 6
	release := make(chan struct{})
	var arrived, finished atomic.Int64
	slow := func(after func(ctx context.Context, self *scenarioServer) (*mcp.CallToolResult, error), self *scenarioServer) toolHandler {
		return func(ctx context.Context, req *mcp.CallToolRequest) (*mcp.CallToolResult, error) {
			arrived.Add(1)
			defer finished.Add(1)
			<-release // a handler that does not watch its context: it finishes its work whatever happened to the caller
			return after(ctx, self)
		}
	}
	tools := []string{"late-result", "late-error"}
	sc, err := newScenarioServer(k, func(register func(string, toolHandler), self *scenarioServer) {
		register("late-result", slow(func(ctx context.Context, _ *scenarioServer) (*mcp.CallToolResult, error) {
			return mcp.NewTextResult("late"), nil
		}, self))
		register("late-error", slow(func(ctx context.Context, _ *scenarioServer) (*mcp.CallToolResult, error) {
			return nil, errors.New("late failure")
		}, self))
		register("late-notify", slow(func(ctx context.Context, self *scenarioServer) (*mcp.CallToolResult, error) {
			err := self.notify(ctx, "notifications/message", map[string]interface{}{"level": "info", "data": "late"})
			return mcp.NewTextResult(fmt.Sprintf("notified: %v", err)), nil
		}, self))
		register("late-roots", slow(func(ctx context.Context, self *scenarioServer) (*mcp.CallToolResult, error) {
			c2, cancel := context.WithTimeout(ctx, time.Second)
			defer cancel()
			_, err := self.rl.ListRoots(c2)
			return mcp.NewTextResult(fmt.Sprintf("roots: %v", err)), nil
		}, self))
	})
	if err != nil {
		r.fail("midcall-"+k, err)
		return
	}
	defer sc.closeAll()
	if k != "stdio" {
		tools = append(tools, "late-notify")
	}
	if k == "st-json" || k == "sse" || k == "stdio" {
		tools = append(tools, "late-roots")
	}
	kind := kindOf(k)
	scenario := fmt.Sprintf("%d tools/call each of %s on one connection, every handler blocked; the peer drops its stream / connections / closes stdin and stdout; then the handlers finish and produce their answers", perTool, strings.Join(tools, ", "))
	r.s.About("the peer leaves mid-call", map[string]any{"server": k, "scenario": scenario})
	waitQuiet(3 * time.Second)
	base := libCensus()
	total := int64(perTool * len(tools))
	var raw []net.Conn
	n := 0
	for _, tool := range tools {
		for i := 0; i < perTool; i++ {
			n++
			body := fmt.Sprintf(`{"jsonrpc":"2.0","id":"mid-%d","method":"tools/call","params":{"name":"%s","arguments":{}}}`, n, tool)
			if sc.addr != "" {
				// Streamable: every call on its own raw connection, which the peer will simply close
				c, err := net.DialTimeout("tcp", sc.addr, 3*time.Second)
				if err != nil {
					continue
				}
				c.SetWriteDeadline(time.Now().Add(3 * time.Second))
				fmt.Fprintf(c, "POST /mcp HTTP/1.1\r\nHost: %s\r\n%sContent-Length: %d\r\n\r\n%s", sc.addr, sc.rawHdr, len(body), body)
				raw = append(raw, c)
			} else {
				sc.p.send(body)
			}
		}
	}
	var notes []string
	for t0 := time.Now(); arrived.Load() < total && time.Since(t0) < 3*time.Second; {
		time.Sleep(time.Millisecond) // pacing: the handlers reach their gate
	}
	if a := arrived.Load(); a < total {
		notes = append(notes, fmt.Sprintf("only %d of %d handlers were running when the peer left", a, total))
	}
	before := LibGoroutines()
	sc.drop()
	for _, c := range raw {
		c.Close()
	}
	noticeCeiling := time.Second
	if sc.addr != "" && (k == "stateless" || k == "nosession") {
		noticeCeiling = 30 * time.Millisecond // no stream whose handler could end: the blocked handlers notice nothing before they write
	}
	for t0 := time.Now(); LibGoroutines() >= before && time.Since(t0) < noticeCeiling; {
		time.Sleep(2 * time.Millisecond) // pacing: the server notices that the peer is gone (its stream handler ends)
	}
	close(release)
	for t0 := time.Now(); finished.Load() < arrived.Load() && time.Since(t0) < 5*time.Second; {
		time.Sleep(time.Millisecond)
	}
	if f, a := finished.Load(), arrived.Load(); f < a {
		notes = append(notes, fmt.Sprintf("%d of %d handlers had not returned 5 s after their release", a-f, a))
	}
	left := censusBack(base, 6*time.Second)
	in := map[string]any{"server": k, "scenario": scenario}
	ok := true
	if pl := sc.plog.take(); strings.Contains(pl, "panic") {
		ok = false
		r.s.Violate(hk.Violation{Fingerprint: "rpc:" + kind + ":panic-after-peer-left", What: "panic text on the server's ErrorLog when answers were produced for a peer that had left: " + clipS(pl, 600), Input: in})
	}
	keys := make([]string, 0, len(left))
	for fn := range left {
		keys = append(keys, fn)
	}
	sort.Strings(keys)
	for _, fn := range keys {
		ok = false
		r.s.Violate(hk.Violation{Fingerprint: "rpc:" + kind + ":goroutines-left-after-peer-left:" + fn,
			What:  fmt.Sprintf("%d goroutine(s) started by %s are still there 6 s after the handlers of a peer that left mid-call have finished", left[fn], fn),
			Input: in, Observed: map[string]any{"left_per_starting_function": left, "notes": notes}, Expected: "every goroutine started for the peer's requests ends"})
	}
	if len(left) > 0 {
		setStuck("", Inflight())
	}
	if why := sc.handshake(); why != "" {
		ok = false
		r.s.Violate(hk.Violation{Fingerprint: "rpc:" + kind + ":unresponsive-after-peer-left", What: "after a peer left mid-call a fresh client is not served: " + why, Input: in,
			Observed: map[string]any{"notes": notes}, Expected: "the next client is served normally"})
	}
	r.s.Count("peer-leaves-mid-call:"+k, ok, map[string]any{"server": k, "scenario": scenario, "handlers": arrived.Load(), "notes": notes}, "peer-leaves-mid-call")
}

// ---------------------------------------------------------------------------------------------------------------------
// a session idle past the expiry time

type expiryProbe struct {
	fx   *hk.Fixture
	st   *streamable
	sids []string
	born time.Time
}

const expirySeconds = 1

// newExpiryProbe starts a stateful Streamable server whose sessions expire after one second and opens three sessions;
// they are used by run, more than a second later.
func newExpiryProbe() *expiryProbe {
	p := &expiryProbe{}
	p.fx = hk.NewFixture(hk.SrvCfg{Mode: "stateful", Get: true}, mcp.VerifWithSessionExpiry(expirySeconds))
	p.st = &streamable{cfg: StreamableCfg{Mode: "stateful"}, fx: p.fx, plog: &panicLog{}, sids: map[string]string{},
		fresh: &http.Client{Transport: &http.Transport{DisableKeepAlives: true, DisableCompression: true}, Timeout: stepCeiling}}
	for i := 0; i < 4; i++ {
		r := p.fx.Post(map[string]string{"Accept": "application/json"}, initBody)
		sid := r.Header.Get("Mcp-Session-Id")
		if sid != "" {
			p.fx.Post(map[string]string{"Accept": "application/json", "Mcp-Session-Id": sid}, hsNotif)
			p.sids = append(p.sids, sid)
		}
	}
	p.born = time.Now()
	return p
}

func (p *expiryProbe) close() {
	p.st.fresh.CloseIdleConnections()
	closeWithin(3*time.Second, p.fx.Close)
}

func (p *expiryProbe) run(r *runner) {
	defer p.close()
	if len(p.sids) < 4 {
		r.s.Count("expiry:setup-failed", false, nil, "session-expiry")
		return
	}
	if d := time.Duration(expirySeconds)*time.Second + 300*time.Millisecond - time.Since(p.born); d > 0 {
		time.Sleep(d) // the scenario IS a wait: the sessions must have been idle for longer than the expiry time
	}
	scenario := fmt.Sprintf("stateful Streamable server with a session expiry of %d s; four sessions left idle for %v (the periodic sweep runs once a minute: they are expired but not yet swept); then POST ping, GET, DELETE and POST tools/list each bearing one of the stale ids; then a fresh client", expirySeconds, time.Since(p.born).Round(100*time.Millisecond))
	r.s.About("a session idle past the expiry time", map[string]any{"scenario": scenario})
	in := map[string]any{"server": "streamable-stateful-json", "scenario": scenario}
	do := func(verb, sid, body string) (int, error) {
		var rd *strings.Reader
		var req *http.Request
		if body != "" {
			rd = strings.NewReader(body)
			req, _ = http.NewRequest(verb, p.fx.URL, rd)
			req.Header.Set("Content-Type", "application/json")
		} else {
			req, _ = http.NewRequest(verb, p.fx.URL, nil)
		}
		req.Header.Set("Accept", "application/json, text/event-stream")
		req.Header.Set("Mcp-Session-Id", sid)
		ctx, cancel := context.WithTimeout(context.Background(), stepCeiling)
		defer cancel()
		resp, err := p.st.fresh.Transport.RoundTrip(req.WithContext(ctx))
		if err != nil {
			return 0, err
		}
		resp.Body.Close() // (a listening stream answers 200 and stays open: the status is all that is needed)
		return resp.StatusCode, nil
	}
	ok := true
	statuses := map[string]int{}
steps:
	for i, step := range []struct{ label, verb, body string }{
		{"POST ping", "POST", `{"jsonrpc":"2.0","id":1,"method":"ping"}`}, {"GET", "GET", ""}, {"DELETE", "DELETE", ""},
		{"POST tools/list", "POST", `{"jsonrpc":"2.0","id":2,"method":"tools/list"}`}, {"POST ping again on the first id", "POST", `{"jsonrpc":"2.0","id":3,"method":"ping"}`}} {
		sid := p.sids[i%4]
		st, err := do(step.verb, sid, step.body)
		statuses[step.label] = st
		switch {
		case err != nil:
			ok = false
			r.s.Violate(hk.Violation{Fingerprint: "rpc:streamable:stale-session-request-unanswered",
				What:  fmt.Sprintf("%s bearing the id of a session idle past the expiry time got no answer within %v: %v", step.label, stepCeiling, err),
				Input: in, Observed: statuses, Expected: "served (200 / 202) or refused with 404 — never left hanging"})
		case st != 200 && st != 202 && st != 404:
			ok = false
			r.s.Violate(hk.Violation{Fingerprint: "rpc:streamable:stale-session-status", What: fmt.Sprintf("%s bearing the id of a session idle past the expiry time was answered %d", step.label, st),
				Input: in, Observed: statuses, Expected: "served (200 / 202) or refused with 404"})
		}
		if err != nil {
			break steps // every further stale request would wait for the same ceiling
		}
	}
	if why := p.st.Handshake(); why != "" {
		ok = false
		r.s.Violate(hk.Violation{Fingerprint: "rpc:streamable:unresponsive-after-stale-session", What: "after requests bearing expired session ids a fresh client is not served: " + why,
			Input: in, Observed: statuses, Expected: "the next client is served normally"})
	}
	r.s.Count("session-expiry", ok, map[string]any{"scenario": scenario, "statuses": statuses}, "session-expiry")
}

// ---------------------------------------------------------------------------------------------------------------------
// requests of one session that overlap in time (C14)

type waitRoom struct {
	mu       sync.Mutex
	ch       map[string]chan struct{}
	released map[string]bool
	arrived  atomic.Int64
}

func (w *waitRoom) chanOf(token string) chan struct{} {
	w.mu.Lock()
	defer w.mu.Unlock()
	if w.ch == nil {
		w.ch, w.released = map[string]chan struct{}{}, map[string]bool{}
	}
	c, ok := w.ch[token]
	if !ok {
		c = make(chan struct{})
		w.ch[token] = c
	}
	return c
}

func (w *waitRoom) tools(register func(string, toolHandler)) {
	register("wait", func(ctx context.Context, req *mcp.CallToolRequest) (*mcp.CallToolResult, error) {
		token, _ := req.Params.Arguments["token"].(string)
		ms, _ := req.Params.Arguments["ms"].(float64)
		c := w.chanOf(token)
		w.arrived.Add(1)
		select {
		case <-c:
			return mcp.NewTextResult("released"), nil
		case <-time.After(time.Duration(ms) * time.Millisecond): // the bounded wait
			return mcp.NewTextResult("timed out"), nil
		}
	})
	register("release", func(ctx context.Context, req *mcp.CallToolRequest) (*mcp.CallToolResult, error) {
		token, _ := req.Params.Arguments["token"].(string)
		c := w.chanOf(token)
		w.mu.Lock()
		if !w.released[token] {
			w.released[token] = true
			close(c)
		}
		w.mu.Unlock()
		return mcp.NewTextResult("ok"), nil
	})
}

func answerText(a string) string {
	var m struct {
		Result struct {
			Content []struct {
				Text string `json:"text"`
			} `json:"content"`
		} `json:"result"`
		Error *struct {
			Code int `json:"code"`
		} `json:"error"`
	}
	if json.Unmarshal([]byte(a), &m) != nil {
		return "unparsable"
	}
	if m.Error != nil {
		return fmt.Sprintf("error %d", m.Error.Code)
	}
	if len(m.Result.Content) == 1 {
		return m.Result.Content[0].Text
	}
	return "other"
}

// overlap runs the sequences on every server kind and compares the answers.
func (r *runner) overlap() {
	call := func(id, tool, token string, ms int) string {
		return fmt.Sprintf(`{"jsonrpc":"2.0","id":"%s","method":"tools/call","params":{"name":"%s","arguments":{"token":"%s","ms":%d}}}`, id, tool, token, ms)
	}
	type step struct {
		body     string
		awaitArr int64 // before sending: wait (pacing) until this many wait handlers have started
	}
	seqs := []struct {
		label string
		steps []step
		ids   []string
	}{
		{"wait-then-release", []step{{call("a1", "wait", "t1", 1500), 0}, {call("a2", "release", "t1", 0), 1}}, []string{"a1", "a2"}},
		{"release-then-wait", []step{{call("b1", "release", "t2", 0), 0}, {call("b2", "wait", "t2", 1500), 0}}, []string{"b1", "b2"}},
		{"wait-without-release", []step{{call("c1", "wait", "t3", 120), 0}, {`{"jsonrpc":"2.0","id":"c2","method":"ping"}`, 0}}, []string{"c1", "c2"}},
		{"two-waits-released-in-reverse", []step{{call("d1", "wait", "t4", 1500), 0}, {call("d2", "wait", "t5", 1500), 0}, {call("d3", "release", "t5", 0), 2}, {call("d4", "release", "t4", 0), 2}}, []string{"d1", "d2", "d3", "d4"}},
	}
	got := map[string]map[string]string{} // kind -> "seq/id" -> answer
	for _, k := range allKinds {
		room := &waitRoom{}
		sc, err := newScenarioServer(k, func(register func(string, toolHandler), _ *scenarioServer) { room.tools(register) })
		if err != nil {
			r.fail("overlap-"+k, err)
			return
		}
		got[k] = map[string]string{}
		answers := map[string]string{}
		for _, sq := range seqs {
			baseArr := room.arrived.Load()
			for _, st := range sq.steps {
				for t0 := time.Now(); room.arrived.Load()-baseArr < st.awaitArr && time.Since(t0) < time.Second; {
					time.Sleep(time.Millisecond) // pacing: the earlier calls are in flight
				}
				sc.p.send(st.body)
			}
			deadline := time.After(5 * time.Second)
		collect:
			for {
				as, _ := sc.p.poll()
				for id, a := range as {
					answers[id] = a
				}
				missing := false
				for _, id := range sq.ids {
					if _, ok := answers[`"`+id+`"`]; !ok {
						missing = true
					}
				}
				if !missing {
					break
				}
				select {
				case <-sc.p.wake():
				case <-deadline:
					break collect
				}
			}
			for _, id := range sq.ids {
				if a, ok := answers[`"`+id+`"`]; ok {
					got[k][sq.label+"/"+id] = answerText(a)
				} else {
					got[k][sq.label+"/"+id] = "unanswered"
				}
			}
		}
		sc.closeAll()
	}
	ref := allKinds[0]
	for _, k := range allKinds[1:] {
		for _, sq := range seqs {
			diff := false
			for _, id := range sq.ids {
				diff = diff || got[ref][sq.label+"/"+id] != got[k][sq.label+"/"+id]
			}
			r.s.Count("overlap:"+sq.label+":"+k, !diff, nil, "in-flight-overlap")
			if diff {
				pick := func(kind string) map[string]string {
					m := map[string]string{}
					for _, id := range sq.ids {
						m[id] = got[kind][sq.label+"/"+id]
					}
					return m
				}
				r.s.Violate(hk.Violation{Fingerprint: "rpc:alike:overlap:" + sq.label + ":" + ref + "-vs-" + k,
					What:     fmt.Sprintf("requests of one session that overlap in time (%s) are answered differently by %s and %s", sq.label, ref, k),
					Input:    map[string]any{"sequence": sq.label, "requests": sq.steps, "tools": "wait(token, ms): blocks until release(token) was called — by another request of the same session — or ms have passed; release(token)"},
					Observed: map[string]any{ref: pick(ref), k: pick(k)}, Expected: "the same answers on every transport"})
			}
		}
	}
}
