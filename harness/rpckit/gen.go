package rpckit

import (
	"fmt"
	"math/big"
	"math/rand"
	"strconv"
	"strings"
)

// Case is one JSON-RPC level input, delivered to every server in that server's ordinary way.
type Case struct {
	Label  string
	Body   []byte
	Exp    Expect
	WF     bool // well-formed envelope: jsonrpc "2.0", string or integer id, a method, optional params, nothing else
	Common bool // the method is one of the eight every transport serves
	Deep   bool // the answer may be too large / deep to be worth echoing (never sent to the echo tool)
	Tags   []string
}

var CommonMethods = []string{"initialize", "ping", "tools/list", "tools/call", "prompts/list", "prompts/get", "resources/list", "resources/read"}
var tableOnly = []string{"resources/templates/list", "resources/subscribe", "resources/unsubscribe", "completion/complete"}

func isCommon(m string) bool {
	for _, c := range CommonMethods {
		if c == m {
			return true
		}
	}
	return false
}

func inTable(m string) bool {
	if isCommon(m) {
		return true
	}
	for _, c := range tableOnly {
		if c == m {
			return true
		}
	}
	return false
}

// env builds a request envelope.
func env(id V, method string, params *V) V {
	o := Obj(F("jsonrpc", Str("2.0")), F("id", id), F("method", Str(method)))
	if params != nil {
		o.O = append(o.O, F("params", *params))
	}
	return o
}

func vp(v V) *V { return &v }

func strOf(v V, k string) (string, bool) {
	x, ok := v.Get(k)
	if !ok || x.K != 's' {
		return "", false
	}
	return x.S, true
}

// lastOf: Go map semantics for duplicate members (the last one wins).
func lastOf(v V, k string) (V, bool) {
	var out V
	found := false
	for _, kv := range v.O {
		if kv.K == k {
			out, found = kv.V, true
		}
	}
	return out, found
}

func hasDup(v V) bool {
	seen := map[string]bool{}
	for _, kv := range v.O {
		if seen[kv.K] {
			return true
		}
		seen[kv.K] = true
	}
	return false
}

// expectFor: the statement's demand for a request with a well-formed envelope, from the method, the parameters and the
// registrations (minimal reading: only the REQUIRED parameters are judged).
func expectFor(reg *Registry, method string, params *V) Expect {
	e := Expect{Method: method, Req: true}
	pObj := params != nil && params.K == 'o'
	if pObj && hasDup(*params) {
		e.Class = "free"
		return e
	}
	need := func(key string, nonEmpty bool) (string, bool) {
		if !pObj {
			return "", false
		}
		s, ok := strOf(*params, key)
		if !ok || (nonEmpty && s == "") {
			return "", false
		}
		return s, true
	}
	switch method {
	case "initialize":
		if _, ok := need("protocolVersion", false); !ok {
			e.Class = "bad-params"
		} else {
			e.Class = "result"
		}
	case "ping", "tools/list", "prompts/list", "resources/list":
		if params == nil || pObj || params.K == 'z' {
			e.Class = "result"
		} else {
			e.Class = "lenient" // JSON-RPC wants structured params; refusing or ignoring them are both defensible
		}
	case "tools/call":
		name, ok := need("name", true)
		if !ok {
			e.Class = "bad-params"
			break
		}
		t := reg.tool(name)
		if t == nil {
			e.Class = "not-found"
			break
		}
		if a, has := params.Get("arguments"); has && a.K != 'z' && a.K != 'o' && !(a.K == 'R' && a.Open == 'o' && a.Rep > 0) {
			e.Class = "bad-params"
			break
		}
		e.Class, e.ErrText = t.class, t.errText
	case "prompts/get":
		name, ok := need("name", false)
		if !ok {
			e.Class = "bad-params"
			break
		}
		p := reg.prompt(name)
		if p == nil {
			e.Class = "not-found"
			break
		}
		e.Class, e.ErrText = p.class, p.errText
	case "resources/read":
		uri, ok := need("uri", false)
		if !ok {
			e.Class = "bad-params"
			break
		}
		r := reg.resource(uri)
		if r == nil {
			e.Class = "not-found"
			break
		}
		e.Class, e.ErrText = r.class, r.errText
	case "resources/templates/list", "resources/subscribe", "resources/unsubscribe", "completion/complete":
		e.Class = "lenient" // not among the methods every transport serves: only well-formedness is judged
	default:
		e.Class = "unknown-method"
	}
	return e
}

type baseReq struct {
	label  string
	method string
	params *V
}

func initParams(version string) *V {
	return vp(Obj(F("protocolVersion", Str(version)), F("capabilities", Obj()), F("clientInfo", Obj(F("name", Str("verif")), F("version", Str("1"))))))
}

// validRequests: every valid request of every method against the registrations (plus unknown entities and methods).
func validRequests(reg *Registry) []baseReq {
	rs := []baseReq{
		{"initialize", "initialize", initParams("2025-03-26")},
		{"initialize-old", "initialize", initParams("2024-11-05")},
		{"initialize-unsupported", "initialize", initParams("1999-01-01")},
		{"ping", "ping", nil},
		{"ping-params", "ping", vp(Obj())},
		{"tools/list", "tools/list", nil},
		{"tools/list-cursor", "tools/list", vp(Obj(F("cursor", Str("x"))))},
		{"prompts/list", "prompts/list", nil},
		{"resources/list", "resources/list", vp(Obj())},
		{"resources/templates/list", "resources/templates/list", nil},
		{"completion/complete", "completion/complete", vp(Obj(F("ref", Obj(F("type", Str("ref/prompt")), F("name", Str("p-ok")))), F("argument", Obj(F("name", Str("a")), F("value", Str("v"))))))},
		{"unknown-method", "verif/nope", vp(Obj())},
		{"unknown-method-empty-ish", "tools/call ", nil},
		{"unknown-method-case", "Tools/List", nil},
		{"unknown-method-notif-name", "notifications/initialized", nil},
		{"unknown-method-roots", "roots/list", nil},
		{"tools/call-unknown", "tools/call", vp(Obj(F("name", Str("no-such-tool"))))},
		{"prompts/get-unknown", "prompts/get", vp(Obj(F("name", Str("no-such-prompt"))))},
		{"resources/read-unknown", "resources/read", vp(Obj(F("uri", Str("verif://none"))))},
		{"resources/subscribe-unknown", "resources/subscribe", vp(Obj(F("uri", Str("verif://none"))))},
	}
	for _, t := range reg.tools {
		rs = append(rs, baseReq{"tools/call:" + t.name, "tools/call", vp(Obj(F("name", Str(t.name)), F("arguments", Obj(F("x", Int(1)), F("s", Str("é\n"))))))})
	}
	if reg.tool("echo") != nil {
		rs = append(rs,
			baseReq{"tools/call:echo-noargs", "tools/call", vp(Obj(F("name", Str("echo"))))},
			baseReq{"tools/call:echo-nullargs", "tools/call", vp(Obj(F("name", Str("echo")), F("arguments", Null())))},
			baseReq{"tools/call:echo-emptyargs", "tools/call", vp(Obj(F("name", Str("echo")), F("arguments", Obj())))},
			baseReq{"tools/call:echo-nested", "tools/call", vp(Obj(F("name", Str("echo")), F("arguments", Obj(F("a", Arr(Int(1), Num("2.5"), Null(), Bool(true), Str(""), Obj(F("k", Arr())))), F("n", Int(-7)), F("z", Num("1e3")))), F("_meta", Obj(F("progressToken", Str("tok"))))))},
		)
	}
	if reg.tool("needs-x") != nil {
		// a required argument of the tool's input schema present, absent, with `arguments` empty / absent / null
		call := func(l string, members ...KV) baseReq {
			return baseReq{"tools/call:needs-x:" + l, "tools/call", vp(Obj(append([]KV{F("name", Str("needs-x"))}, members...)...))}
		}
		rs = append(rs, call("present", F("arguments", Obj(F("x", Str("v")), F("n", Int(1))))), call("empty-arguments", F("arguments", Obj())),
			call("no-arguments"), call("null-arguments", F("arguments", Null())), call("only-optional", F("arguments", Obj(F("n", Int(1))))),
			call("required-null", F("arguments", Obj(F("x", Null())))), call("required-wrong-type", F("arguments", Obj(F("x", Int(5))))))
	}
	for _, p := range reg.prompts {
		rs = append(rs, baseReq{"prompts/get:" + p.name, "prompts/get", vp(Obj(F("name", Str(p.name)), F("arguments", Obj(F("a", Str("x")), F("b", Int(5)), F("c", Str(""))))))})
	}
	if reg.prompt("p-ok") != nil {
		rs = append(rs, baseReq{"prompts/get:noargs", "prompts/get", vp(Obj(F("name", Str("p-ok"))))})
	}
	for _, r := range reg.resources {
		rs = append(rs, baseReq{"resources/read:" + r.name, "resources/read", vp(Obj(F("uri", Str(r.uri))))})
	}
	if len(reg.resources) > 0 {
		u := reg.resources[0].uri
		rs = append(rs,
			baseReq{"resources/read:args", "resources/read", vp(Obj(F("uri", Str(u)), F("arguments", Obj(F("k", Str("v"))))))},
			baseReq{"resources/subscribe", "resources/subscribe", vp(Obj(F("uri", Str(u))))},
			baseReq{"resources/unsubscribe", "resources/unsubscribe", vp(Obj(F("uri", Str(u))))})
	}
	return rs
}

var wfIDs = []V{Int(1), Int(0), Int(-5), Str("abc"), Str(""), Num("9007199254740992"), Num("1e3")}

func mkCase(reg *Registry, label string, id V, b baseReq, tags ...string) Case {
	e := expectFor(reg, b.method, b.params)
	wf := id.K == 's' || within53(id.N)
	if wf || (id.K == 'n' && float64Holds(id.N)) {
		e.HasID, e.ID = true, id // numbers beyond 2^53 and fractions: judged as number values (oracle.go idEqual)
	}
	return Case{Label: label, Body: []byte(env(id, b.method, b.params).Raw()), Exp: e, WF: wf, Common: isCommon(b.method), Tags: append([]string{"class:" + e.Class}, tags...)}
}

// ValidCases: every valid request with a spread of well-formed ids.
func ValidCases(reg *Registry, rng *rand.Rand, thorough bool) []Case {
	var cs []Case
	for i, b := range validRequests(reg) {
		ids := []V{wfIDs[i%len(wfIDs)]}
		if thorough || i%5 == 0 {
			ids = append(ids, wfIDs[rng.Intn(len(wfIDs))], Str(fmt.Sprintf("r-%d", rng.Intn(1000))))
		}
		for k, id := range ids {
			cs = append(cs, mkCase(reg, fmt.Sprintf("valid:%s#%d", b.label, k), id, b, "valid"))
		}
	}
	return cs
}

// the seven JSON kinds a member can be retyped to
var kinds = []struct {
	name string
	v    V
}{
	{"null", Null()}, {"bool", Bool(true)}, {"int", Int(7)}, {"frac", Num("2.5")}, {"string", Str("x")}, {"array", Arr(Int(1))}, {"object", Obj(F("a", Int(1)))},
}

func sameKind(a, b V) bool {
	if a.K != b.K {
		return false
	}
	if a.K == 'n' {
		return strings.ContainsAny(a.N, ".eE") == strings.ContainsAny(b.N, ".eE")
	}
	return true
}

// envelopeExpect: the demand for an arbitrary top-level value, from JSON-RPC 2.0 (lenient where a server may reasonably
// accept more than the specification asks for).
func envelopeExpect(reg *Registry, v V) (Expect, bool) {
	if v.K != 'o' {
		return Expect{Class: "unserved", Cause: "not-an-object"}, false
	}
	if hasDup(v) {
		return Expect{Class: "free", Req: true}, false
	}
	ver, hasVer := v.Get("jsonrpc")
	id, hasID := v.Get("id")
	method, hasMethod := v.Get("method")
	params, hasParams := v.Get("params")
	_, hasRes := v.Get("result")
	_, hasErr := v.Get("error")
	exact := hasVer && ver.K == 's' && ver.S == "2.0"
	// members whose case-folded name is a reserved one but which are spelled differently: encoding/json still binds them
	for _, kv := range v.O {
		lk := strings.ToLower(kv.K)
		for _, r := range []string{"jsonrpc", "id", "method", "params", "result", "error"} {
			if lk == r && kv.K != r || strings.ContainsAny(kv.K, "ſK") {
				return Expect{Class: "free", Req: true}, false
			}
		}
	}
	if hasVer && ver.K != 's' && ver.K != 'z' {
		return Expect{Class: "unserved", Cause: "member-type-jsonrpc", Req: true}, false
	}
	if hasMethod && method.K != 's' && method.K != 'z' {
		return Expect{Class: "unserved", Cause: "member-type-method", Req: true}, false
	}
	mname := ""
	if hasMethod && method.K == 's' {
		mname = method.S
	}
	idWF := hasID && (id.K == 's' || (id.K == 'n' && isIntegral(id.N) && within53(id.N)))
	switch {
	case mname != "" && hasID && id.K != 'z':
		if hasRes || hasErr {
			// as much a response as a request (stdio reads it as a response, the HTTP servers as a request)
			return Expect{Class: "free", Req: true}, false
		}
		var pp *V
		if hasParams {
			pp = &params
		}
		e := expectFor(reg, mname, pp)
		if !exact {
			// a server may insist on the version, or be lenient: only silence is excluded
			if e.Class != "free" {
				e = Expect{Class: "lenient", Cause: "version", Method: mname, Req: true}
			}
		}
		if idWF {
			e.HasID, e.ID = true, id
		} else if e.Class != "free" {
			// an id that is neither a string nor an integer: refusing and serving are both defensible
			e = Expect{Class: "lenient", Cause: "id-kind", Method: mname, Req: true}
			if id.K == 'n' && float64Holds(id.N) {
				e.HasID, e.ID = true, id // …but an answer must carry the request's id as a number value
			}
		}
		return e, exact && idWF && !hasRes && !hasErr && onlyEnvelopeMembers(v)
	case mname != "" && hasID: // id null
		return Expect{Class: "free", Method: mname, Req: true}, false
	case mname != "":
		if !exact {
			// not a JSON-RPC 2.0 notification: ignoring it and refusing it (Invalid Request, id null) are both defensible
			return Expect{Class: "free"}, false
		}
		return Expect{Class: "notification"}, false
	case hasID && id.K != 'z' && (hasRes || hasErr):
		if !exact {
			return Expect{Class: "free"}, false // not a JSON-RPC 2.0 response: dropping it and refusing it are both defensible
		}
		return Expect{Class: "response"}, false
	case hasID && id.K != 'z':
		return Expect{Class: "unserved", Cause: "id-without-method", Req: true}, false
	default:
		return Expect{Class: "unserved", Cause: "no-id-no-method"}, false
	}
}

// singleMethod: the request's method when it has exactly one member spelled "method" up to ASCII case, spelled exactly so
// and holding a string ("" otherwise) — the reading of Mcp.RpcSpec.requestMethod.
func singleMethod(v V) string {
	if v.K != 'o' {
		return ""
	}
	n, m := 0, ""
	for _, kv := range v.O {
		if strings.ToLower(kv.K) == "method" && isASCII(kv.K) {
			n++
			if kv.K == "method" && kv.V.K == 's' {
				m = kv.V.S
			} else {
				m = ""
			}
		}
	}
	if n != 1 {
		return ""
	}
	return m
}

func isASCII(s string) bool {
	for i := 0; i < len(s); i++ {
		if s[i] >= 0x80 {
			return false
		}
	}
	return true
}

func onlyEnvelopeMembers(v V) bool {
	for _, kv := range v.O {
		switch kv.K {
		case "jsonrpc", "id", "method", "params":
		default:
			return false
		}
	}
	return true
}

// within53: an integer the statement speaks about (|n| ≤ 2^53)
func within53(n string) bool {
	m, e := decimalOf(n)
	if e != 0 {
		return false
	}
	v, ok := new(big.Int).SetString(m, 10)
	return ok && v.CmpAbs(new(big.Int).Lsh(big.NewInt(1), 53)) <= 0
}

// float64Holds: the literal is within the float64 range (Go decodes it)
func float64Holds(n string) bool {
	_, err := strconv.ParseFloat(n, 64)
	return err == nil
}

// IdEdgeCases: numeric ids at every edge — ±2^53 and its neighbours, the int64 and uint64 edges, powers of ten beyond,
// fractions, exponent spellings, minus zero — on requests answered with a result, with a protocol error and with a
// handler error. A response carries "the request's id": the same number value (the float64 nearest beyond 2^53).
func IdEdgeCases(reg *Registry) []Case {
	ids := []string{"9007199254740991", "9007199254740992", "-9007199254740992", "9007199254740993", "-9007199254740993", "9007199254740994",
		"9223372036854775807", "9223372036854775808", "9223372036854775809", "-9223372036854775807", "-9223372036854775808", "-9223372036854775809",
		"9223372036854774784", "9223372036854777856", "18446744073709551615", "18446744073709551616", "18446744073709551617", "1e19", "1e30", "-1e30",
		"123456789012345678901234567890", "1.5", "-2.25", "0.5e1", "12.0", "1E2", "-0", "-0.0", "0.0", "1e-2", "1.7976931348623157e308"}
	reqs := []baseReq{{"ping", "ping", nil}, {"unknown-method", "verif/nope", nil}}
	if reg.tool("boom") != nil {
		reqs = append(reqs, baseReq{"tools/call:boom", "tools/call", vp(Obj(F("name", Str("boom"))))})
	}
	if reg.tool("echo") != nil {
		reqs = append(reqs, baseReq{"tools/call:echo", "tools/call", vp(Obj(F("name", Str("echo")), F("arguments", Obj(F("x", Int(1))))))})
	}
	var cs []Case
	for _, n := range ids {
		for _, b := range reqs {
			c := mkCase(reg, "id-edge:"+n+":"+b.label, Num(n), b, "id-edge")
			if !isIntegral(n) || !within53(n) {
				c.WF = false
			}
			cs = append(cs, c)
		}
	}
	return cs
}

func isIntegral(n string) bool {
	m, e := decimalOf(n)
	return e == 0 && m != ""
}

func caseOf(reg *Registry, label string, v V, tags ...string) Case {
	e, wf := envelopeExpect(reg, v)
	m := singleMethod(v)
	if e.Class == "free" || e.Method == "" {
		// the result shape is judged against the method only when the request names exactly one (under any spelling)
		e.Method = m
	}
	return Case{Label: label, Body: []byte(v.Raw()), Exp: e, WF: wf, Common: isCommon(m), Tags: append([]string{"class:" + e.Class}, tags...)}
}

// mutateMember: member k of object o removed / retyped to each of the seven kinds / duplicated / re-spelled.
func mutateMember(o V, k string, f func(label string, m V)) {
	orig, has := o.Get(k)
	if has {
		f("removed", o.Without(k))
	}
	for _, kd := range kinds {
		if has && sameKind(orig, kd.v) && kd.name != "string" {
			continue
		}
		f("as-"+kd.name, o.With(k, kd.v))
	}
	if has {
		f("dup-after", o.Dup(k, Str("dup"), false))
		f("dup-before", o.Dup(k, Int(3), true))
		f("dup-null-after", o.Dup(k, Null(), false))
		f("recased", o.Rename(k, strings.ToUpper(k[:1])+k[1:]))
	}
}

// the parameter members the managers read, per method
var paramMembers = map[string][]string{
	"initialize":            {"protocolVersion", "capabilities", "clientInfo"},
	"tools/call":            {"name", "arguments", "_meta"},
	"prompts/get":           {"name", "arguments"},
	"resources/read":        {"uri", "arguments"},
	"resources/subscribe":   {"uri"},
	"resources/unsubscribe": {"uri"},
	"completion/complete":   {"ref", "argument"},
}

// mutationBases: the valid requests mutations start from — without the calls whose handler result cannot be encoded (their
// silence is the handler outcome's, reported by the valid-request runs, not the mutation's).
func mutationBases(reg *Registry) []baseReq {
	var out []baseReq
	for _, b := range validRequests(reg) {
		if e := expectFor(reg, b.method, b.params); e.Class == "unencodable" {
			continue
		}
		out = append(out, b)
	}
	return out
}

// MutationCases: exhaustive structural mutation of each valid request: every envelope member and every parameter member
// the managers read — removed / retyped to each of the seven JSON kinds / duplicated / re-spelled; the whole body retyped.
func MutationCases(reg *Registry, envelopeOnly bool) []Case {
	var cs []Case
	seen := map[string]bool{}
	add := func(c Case) {
		if !seen[string(c.Body)] {
			seen[string(c.Body)] = true
			cs = append(cs, c)
		}
	}
	for i, b := range mutationBases(reg) {
		id := wfIDs[i%4]
		base := env(id, b.method, b.params)
		if b.params == nil {
			// give the envelope mutation of "params" something to remove as well
			base2 := env(id, b.method, vp(Obj()))
			mutateMember(base2, "params", func(l string, m V) {
				add(caseOf(reg, "mut:"+b.label+":params:"+l, m, "mutation", "member:params"))
			})
		}
		for _, k := range []string{"jsonrpc", "id", "method", "params"} {
			mutateMember(base, k, func(l string, m V) {
				add(caseOf(reg, "mut:"+b.label+":"+k+":"+l, m, "mutation", "member:"+k))
			})
		}
		add(caseOf(reg, "mut:"+b.label+":extra-member", base.With("extra", Int(1)), "mutation"))
		add(caseOf(reg, "mut:"+b.label+":result-member", base.With("result", Obj()), "mutation"))
		add(caseOf(reg, "mut:"+b.label+":error-member", base.With("error", Obj(F("code", Int(1)), F("message", Str("m")))), "mutation"))
		add(caseOf(reg, "mut:"+b.label+":version-1.0", base.With("jsonrpc", Str("1.0")), "mutation"))
		if envelopeOnly || b.params == nil || b.params.K != 'o' {
			continue
		}
		for _, k := range paramMembers[b.method] {
			mutateMember(*b.params, k, func(l string, m V) {
				add(caseOf(reg, "mut:"+b.label+":params."+k+":"+l, env(id, b.method, &m), "mutation", "param:"+k))
			})
		}
		if b.method == "completion/complete" {
			ref, _ := b.params.Get("ref")
			for _, k := range []string{"type", "name"} {
				mutateMember(ref, k, func(l string, m V) {
					p := b.params.With("ref", m)
					add(caseOf(reg, "mut:"+b.label+":params.ref."+k+":"+l, env(id, b.method, &p), "mutation", "param:ref."+k))
				})
			}
		}
		if b.method == "tools/call" {
			add(caseOf(reg, "mut:"+b.label+":params.name:empty", env(id, b.method, vp(b.params.With("name", Str("")))), "mutation", "param:name"))
			// `arguments` as a string: empty, blank, a string that HOLDS JSON (an object, null, an array, a number) — a
			// string is not an object, whatever it spells
			for i, sv := range []string{"", " ", " \t\n ", "{}", `{"a":1}`, ` {"x":1,"s":"v"} `, "null", "[]", "[1]", "0", "true", `"x"`, "{", `{"a":1}{"b":2}`} {
				add(caseOf(reg, fmt.Sprintf("mut:%s:params.arguments:string-%d", b.label, i), env(id, b.method, vp(b.params.With("arguments", Str(sv)))), "mutation", "param:arguments", "arguments-as-string"))
			}
		}
	}
	whole := []struct {
		l string
		v V
	}{{"null", Null()}, {"true", Bool(true)}, {"int", Int(7)}, {"string", Str("x")}, {"empty-array", Arr()}, {"empty-object", Obj()},
		{"batch", Arr(env(Int(1), "ping", nil))}, {"batch-2", Arr(env(Int(1), "ping", nil), env(Int(2), "tools/list", nil))},
		{"id-only", Obj(F("jsonrpc", Str("2.0")), F("id", Int(5)))}, {"id-only-string", Obj(F("jsonrpc", Str("2.0")), F("id", Str("q")))},
		{"version-only", Obj(F("jsonrpc", Str("2.0")))}, {"foreign-object", Obj(F("hello", Str("world")))},
	}
	for _, w := range whole {
		add(caseOf(reg, "whole:"+w.l, w.v, "mutation", "whole"))
	}
	return cs
}

// OtherMessages: notifications, responses to requests that were never sent.
func OtherMessages(reg *Registry) []Case {
	var cs []Case
	n := func(method string, params *V) V {
		o := Obj(F("jsonrpc", Str("2.0")), F("method", Str(method)))
		if params != nil {
			o.O = append(o.O, F("params", *params))
		}
		return o
	}
	for i, m := range []string{"notifications/cancelled", "notifications/verif-unknown", "notifications/roots/list_changed", "tools/call", "initialize"} {
		cs = append(cs, caseOf(reg, fmt.Sprintf("notif:%d", i), n(m, nil), "notification"))
		cs = append(cs, caseOf(reg, fmt.Sprintf("notif:%d:params", i), n(m, vp(Obj(F("requestId", Int(1)), F("_meta", Obj(F("k", Int(1))))))), "notification"))
		for _, kd := range kinds {
			c := caseOf(reg, fmt.Sprintf("notif:%d:params-as-%s", i, kd.name), n(m, &kd.v), "notification")
			if kd.v.K != 'o' && kd.v.K != 'z' {
				c.Exp.Class = "free" // JSON-RPC forbids answering a notification; refusing the POST is defensible as well
			}
			cs = append(cs, c)
		}
	}
	r := func(id V, k string, v V) V { return Obj(F("jsonrpc", Str("2.0")), F("id", id), F(k, v)) }
	for i, id := range []V{Int(1), Int(123456), Str("server_req_1"), Str("never"), Num("1.5"), Int(-1), Num("18446744073709551616")} {
		cs = append(cs, caseOf(reg, fmt.Sprintf("response:%d:result", i), r(id, "result", Obj(F("roots", Arr()))), "response"))
		cs = append(cs, caseOf(reg, fmt.Sprintf("response:%d:error", i), r(id, "error", Obj(F("code", Int(-32603)), F("message", Str("no")))), "response"))
		cs = append(cs, caseOf(reg, fmt.Sprintf("response:%d:null-result", i), r(id, "result", Null()), "response"))
	}
	for _, kd := range kinds {
		cs = append(cs, caseOf(reg, "response:result-as-"+kd.name, r(Int(7), "result", kd.v), "response"))
		cs = append(cs, caseOf(reg, "response:error-as-"+kd.name, r(Int(7), "error", kd.v), "response"))
	}
	return cs
}

// GarbageCases: byte strings that are not one JSON value, truncations, numbers Go cannot hold, deep and large values.
func GarbageCases(reg *Registry, rng *rand.Rand, thorough bool) []Case {
	var cs []Case
	raw := func(label string, b string, class string, tags ...string) {
		cs = append(cs, Case{Label: "garbage:" + label, Body: []byte(b), Exp: Expect{Class: class}, Tags: append([]string{"class:" + class, "garbage"}, tags...)})
	}
	valid := env(Int(1), "tools/call", vp(Obj(F("name", Str("echo")), F("arguments", Obj(F("x", Int(1))))))).Raw()
	for _, cut := range []int{1, 2, 10, len(valid) / 2, len(valid) - 1} {
		raw(fmt.Sprintf("truncated-%d", cut), valid[:cut], "unparsable")
	}
	for i, g := range []string{"nul", "{", "}", "[", "{]", `{"jsonrpc"}`, `{"jsonrpc":"2.0",}`, `{'jsonrpc':'2.0'}`, "\x00\x01\x02", "GET / HTTP/1.1", "<xml/>", `"unterminated`,
		`{"jsonrpc":"2.0","id":1,"method":"ping"`, `{"jsonrpc":"2.0","id":01,"method":"ping"}`, `{"jsonrpc":"2.0","id":1,"method":"pi` + "\x01" + `ng"}`, "\xff\xfe", "\xef\xbb\xbf" + valid, `NaN`, `-`, `1e`, `tru`} {
		raw(fmt.Sprintf("bytes-%d", i), g, "unparsable")
	}
	for i := 0; i < 24; i++ {
		n := 1 + rng.Intn(40)
		b := make([]byte, n)
		for j := range b {
			const alphabet = "{}[]\",:0123456789.eE-truefalsn \\u\x00\x7f\xc3\x28abcXYZ"
			b[j] = alphabet[rng.Intn(len(alphabet))]
		}
		s := strings.NewReplacer("\n", " ", "\r", " ").Replace(string(b))
		if _, ok := ParseV([]byte(s), false); ok {
			continue
		}
		if _, ok := ParseV([]byte(strings.TrimSpace(s)), true); ok {
			continue
		}
		raw(fmt.Sprintf("random-%d", i), s, "unparsable")
	}
	raw("deep-10001", strings.Repeat("[", 10001)+strings.Repeat("]", 10001), "unparsable", "deep")
	// valid JSON that Go's decoder cannot hold in a float64
	for i, v := range []V{
		env(Num("1e999"), "ping", nil),
		env(Int(1), "ping", vp(Obj(F("x", Num("1e999"))))),
		env(Int(1), "tools/call", vp(Obj(F("name", Str("echo")), F("arguments", Obj(F("x", Num("-1e400"))))))),
		env(Int(1), "initialize", vp(Obj(F("protocolVersion", Str("2025-03-26")), F("n", Num("1e309"))))),
		Obj(F("jsonrpc", Str("2.0")), F("method", Str("notifications/x")), F("params", Obj(F("n", Num("1e999"))))),
		Obj(F("jsonrpc", Str("2.0")), F("id", Int(3)), F("result", Num("1e999"))),
		Obj(F("jsonrpc", Str("2.0")), F("id", Int(3)), F("method", Str("ping")), F("other", Num("1e999"))),
	} {
		c := Case{Label: fmt.Sprintf("garbage:huge-number-%d", i), Body: []byte(v.Raw()), Exp: Expect{Class: "lenient", Cause: "huge-number", Req: i != 4}, Tags: []string{"class:lenient", "garbage", "huge-number"}}
		if i == 4 || i == 5 {
			c.Exp.Class = "free"
		}
		if i == 6 {
			c.Exp = Expect{Class: "lenient", Cause: "huge-number", Method: "ping", Req: true, HasID: true, ID: Int(3)}
		}
		cs = append(cs, c)
	}
	// integer ids beyond 2^53 (a float64 cannot hold them)
	for i, n := range []string{"9007199254740993", "-9007199254740995", "123456789012345678901234567890", "18446744073709551615"} {
		c := mkCase(reg, fmt.Sprintf("bigid:%d", i), Num(n), baseReq{"ping", "ping", nil}, "big-id")
		cs = append(cs, c)
	}
	depth, size := 2000, 1<<16
	if thorough {
		depth, size = 9000, 1<<20
	}
	deep := func(label string, v V, method string) {
		c := caseOf(reg, "deep:"+label, v, "deep")
		c.Deep = true
		_ = method
		cs = append(cs, c)
	}
	if reg.tool("boom") != nil {
		call := func(args V) V {
			return env(Int(1), "tools/call", vp(Obj(F("name", Str("boom")), F("arguments", args))))
		}
		deep("array-args", call(Obj(F("d", Deep('a', depth, Int(1))))), "tools/call")
		deep("object-args", call(Deep('o', depth, Str("x"))), "tools/call")
		deep("big-arg", call(Obj(F("s", BigStr('a', size)))), "tools/call")
	}
	// above the usual caps (64 KiB scanner tokens, 1 MiB line buffers), in every tier: valid requests that must be answered
	// normally and garbage of the same size
	for _, n := range []int{2 << 20, 5<<20 + 4321} {
		deep(fmt.Sprintf("huge-ping-%d", n), env(Str(fmt.Sprintf("huge-%d", n)), "ping", vp(Obj(F("pad", BigStr('a', n))))), "ping")
		if reg.tool("boom") != nil {
			deep(fmt.Sprintf("huge-arg-%d", n), env(Int(int64(n)), "tools/call", vp(Obj(F("name", Str("boom")), F("arguments", Obj(F("s", BigStr('b', n))))))), "tools/call")
		}
		raw(fmt.Sprintf("huge-not-json-%d", n), strings.Repeat("x", n), "unparsable", "huge")
		raw(fmt.Sprintf("huge-truncated-%d", n), `{"jsonrpc":"2.0","id":1,"method":"ping","params":{"pad":"`+strings.Repeat("a", n), "unparsable", "huge")
	}
	deep("ping-params", env(Int(2), "ping", vp(Deep('a', depth, Null()))), "ping")
	deep("unknown-method-params", env(Int(2), "verif/nope", vp(Deep('o', depth, Obj()))), "")
	deep("big-method", env(Int(2), strings.Repeat("m", 4096), nil), "")
	deep("deep-id", env(Deep('a', 200, Int(1)), "ping", nil), "ping")
	deep("notification-deep", Obj(F("jsonrpc", Str("2.0")), F("method", Str("notifications/x")), F("params", Deep('o', depth, Int(1)))), "")
	return cs
}

// ---- random structural fuzz (seeded): valid requests with randomly replaced / added / removed members at any depth

var fuzzKeys = []string{"jsonrpc", "id", "method", "params", "name", "arguments", "uri", "protocolVersion", "_meta", "ref", "type", "cursor",
	"result", "error", "Method", "ID", "x", "", "é", "a b"}
var fuzzStrings = []string{"", "x", "2.0", "1.0", "echo", "boom", "p-ok", "verif://r/text", "ping", "tools/call", "initialize", "ref/prompt", "é\n\t\"", " ", "null", "2025-03-26"}

func randV(rng *rand.Rand, depth int) V {
	k := rng.Intn(9)
	if depth <= 0 && k >= 7 {
		k = rng.Intn(7)
	}
	switch k {
	case 0:
		return Null()
	case 1:
		return Bool(rng.Intn(2) == 0)
	case 2:
		return Int(int64(rng.Intn(2000) - 1000))
	case 3:
		return Num([]string{"0", "-0", "1.5", "2.50", "1e3", "1E2", "-7.25", "9007199254740992", "0.1", "123456789012"}[rng.Intn(10)])
	case 4, 5, 6:
		return Str(fuzzStrings[rng.Intn(len(fuzzStrings))])
	case 7:
		n := rng.Intn(4)
		xs := make([]V, n)
		for i := range xs {
			xs[i] = randV(rng, depth-1)
		}
		return Arr(xs...)
	default:
		n := rng.Intn(4)
		kvs := make([]KV, n)
		for i := range kvs {
			kvs[i] = KV{fuzzKeys[rng.Intn(len(fuzzKeys))], randV(rng, depth-1)}
		}
		return Obj(kvs...)
	}
}

// mutateRandom changes one random place of an object (recursively): replaces a member's value, adds a member, removes one.
func mutateRandom(rng *rand.Rand, v V, depth int) V {
	if v.K != 'o' || len(v.O) == 0 {
		return randV(rng, 2)
	}
	i := rng.Intn(len(v.O))
	switch rng.Intn(5) {
	case 0:
		return v.Without(v.O[i].K)
	case 1:
		o := append([]KV{}, v.O...)
		o = append(o, KV{fuzzKeys[rng.Intn(len(fuzzKeys))], randV(rng, 2)})
		rng.Shuffle(len(o), func(a, b int) { o[a], o[b] = o[b], o[a] })
		return V{K: 'o', O: o}
	case 2:
		if depth > 0 && v.O[i].V.K == 'o' {
			o := append([]KV{}, v.O...)
			o[i].V = mutateRandom(rng, o[i].V, depth-1)
			return V{K: 'o', O: o}
		}
		fallthrough
	default:
		o := append([]KV{}, v.O...)
		o[i].V = randV(rng, 2)
		return V{K: 'o', O: o}
	}
}

// FuzzCases: n random inputs around the valid requests (1–3 random edits each) plus entirely random values.
func FuzzCases(reg *Registry, rng *rand.Rand, n int) []Case {
	base := mutationBases(reg)
	var cs []Case
	seen := map[string]bool{}
	for len(cs) < n {
		var v V
		if rng.Intn(10) == 0 {
			v = randV(rng, 3)
		} else {
			b := base[rng.Intn(len(base))]
			v = env(wfIDs[rng.Intn(len(wfIDs))], b.method, b.params)
			for k := 1 + rng.Intn(3); k > 0; k-- {
				v = mutateRandom(rng, v, 2)
			}
		}
		raw := v.Raw()
		if seen[raw] {
			if len(seen) > 50*n {
				break
			}
			continue
		}
		seen[raw] = true
		cs = append(cs, caseOf(reg, fmt.Sprintf("fuzz:%d", len(cs)), v, "fuzz"))
	}
	return cs
}

// LifecycleCases: an ORDERED sequence of repeated life-cycle messages for the session the run uses: the initialized
// notification before any initialize, initialize, the notification, the notification again, initialize twice more, …
func LifecycleCases(reg *Registry) []Case {
	notif := Obj(F("jsonrpc", Str("2.0")), F("method", Str("notifications/initialized")))
	var cs []Case
	k := 0
	add := func(what string, v V) {
		k++
		cs = append(cs, caseOf(reg, fmt.Sprintf("lifecycle:%02d:%s", k, what), v, "lifecycle"))
	}
	ini := func() V { return env(Str(fmt.Sprintf("lc-%d", k)), "initialize", initParams("2025-03-26")) }
	add("initialized-before-initialize", notif)
	add("initialize", ini())
	add("initialized", notif)
	add("initialized-again", notif)
	add("initialize-again", ini())
	add("initialize-a-third-time", ini())
	add("initialized", notif)
	add("initialized-again", notif)
	add("tools/list", env(Str("lc-list"), "tools/list", nil))
	add("initialized-a-third-time", notif)
	add("initialize-after-that", ini())
	add("ping", env(Str("lc-ping"), "ping", nil))
	return cs
}

// VersionSequenceCases: an ORDERED sequence — for each protocol version a client may ask for (the old revision, the
// current one, an unsupported one): initialize with it, then the lists and a call on the same session. What a session
// remembers of its handshake must not change the answers of one transport and not of another.
func VersionSequenceCases(reg *Registry) []Case {
	var cs []Case
	k := 0
	add := func(label string, b baseReq) {
		k++
		cs = append(cs, mkCase(reg, fmt.Sprintf("version-seq:%02d:%s", k, label), Str(fmt.Sprintf("vs-%d", k)), b, "version-sequence"))
	}
	for _, v := range []string{"2024-11-05", "2025-03-26", "1999-01-01", "2024-11-05"} {
		add("initialize-"+v, baseReq{"initialize", "initialize", initParams(v)})
		add("initialized", baseReq{"ping", "ping", nil})
		add("tools/list-after-"+v, baseReq{"tools/list", "tools/list", nil})
		add("prompts/list-after-"+v, baseReq{"prompts/list", "prompts/list", nil})
		add("resources/list-after-"+v, baseReq{"resources/list", "resources/list", nil})
		if reg.tool("annotated") != nil {
			add("tools/call-after-"+v, baseReq{"tools/call:annotated", "tools/call", vp(Obj(F("name", Str("annotated"))))})
		}
	}
	return cs
}
