package rpckit

// Type substitution at EVERY node of complete valid requests (C06: "any JSON type in any field"): a catalogue of requests
// addressed to EXISTING tools / prompts / resources (so that lookup and validation pass and the optional members are
// reached) carrying all the optional members the protocol defines — `_meta`, `_meta.progressToken`, `arguments.*`,
// `cursor`, `clientInfo.*`, `capabilities.*.*`, `ref.*`, `argument.*` … — and, for every node below `params`, that node
// replaced by each JSON kind (null, bool, integer, fraction, string, array, object) and by nested / empty containers, or
// removed.

import "fmt"

// completeRequests: one request per method (and notification) with every optional member present.
func completeRequests(reg *Registry) []struct {
	label string
	v     V
} {
	type lv = struct {
		label string
		v     V
	}
	meta := func(tok V) KV { return F("_meta", Obj(F("progressToken", tok), F("extra", Obj(F("n", Int(1)))))) }
	req := func(id V, method string, params V) V { return env(id, method, &params) }
	notif := func(method string, params V) V {
		return Obj(F("jsonrpc", Str("2.0")), F("method", Str(method)), F("params", params))
	}
	out := []lv{
		{"initialize", req(Str("dm-init"), "initialize", Obj(F("protocolVersion", Str("2025-03-26")),
			F("capabilities", Obj(F("roots", Obj(F("listChanged", Bool(true)))), F("sampling", Obj()), F("experimental", Obj(F("x", Obj(F("y", Arr(Int(1))))))))),
			F("clientInfo", Obj(F("name", Str("deep")), F("version", Str("1")))), meta(Str("t-init"))))},
		{"ping", req(Int(31), "ping", Obj(meta(Int(7))))},
		{"tools/list", req(Int(32), "tools/list", Obj(F("cursor", Str("c")), meta(Str("t-list"))))},
		{"prompts/list", req(Int(33), "prompts/list", Obj(F("cursor", Str("c")), meta(Str("t-pl"))))},
		{"resources/list", req(Int(34), "resources/list", Obj(F("cursor", Str("c")), meta(Str("t-rl"))))},
		{"resources/templates/list", req(Int(35), "resources/templates/list", Obj(F("cursor", Str("c")), meta(Str("t-tl"))))},
		{"completion/complete", req(Int(36), "completion/complete", Obj(F("ref", Obj(F("type", Str("ref/prompt")), F("name", Str("p-ok")))),
			F("argument", Obj(F("name", Str("a")), F("value", Str("v")))), meta(Str("t-cc"))))},
		{"notifications/initialized", notif("notifications/initialized", Obj(meta(Str("t-ni"))))},
		{"notifications/cancelled", notif("notifications/cancelled", Obj(F("requestId", Int(31)), F("reason", Str("why")), meta(Str("t-nc"))))},
		{"notifications/progress", notif("notifications/progress", Obj(F("progressToken", Str("t-call")), F("progress", Num("0.5")), F("total", Int(1)), F("message", Str("m"))))},
		{"notifications/roots/list_changed", notif("notifications/roots/list_changed", Obj(meta(Str("t-rc"))))},
	}
	if reg.tool("echo") != nil {
		out = append(out, lv{"tools/call:echo", req(Int(37), "tools/call", Obj(F("name", Str("echo")),
			F("arguments", Obj(F("a", Int(1)), F("s", Str("x")), F("o", Obj(F("k", Arr(Int(1), Obj(F("d", Null())))))))), meta(Str("t-call"))))})
	}
	if reg.tool("boom") != nil {
		out = append(out, lv{"tools/call:boom", req(Str("dm-boom"), "tools/call", Obj(F("name", Str("boom")), F("arguments", Obj(F("a", Int(1)))), meta(Int(5))))})
	}
	if len(reg.prompts) > 0 {
		p := reg.prompts[0]
		out = append(out, lv{"prompts/get", req(Int(38), "prompts/get", Obj(F("name", Str(p.name)), F("arguments", Obj(F("a", Str("x")), F("b", Str("y")))), meta(Str("t-pg"))))})
	}
	if len(reg.resources) > 0 {
		u := reg.resources[0].uri
		out = append(out,
			lv{"resources/read", req(Int(39), "resources/read", Obj(F("uri", Str(u)), F("arguments", Obj(F("k", Str("v")))), meta(Str("t-rr"))))},
			lv{"resources/subscribe", req(Int(40), "resources/subscribe", Obj(F("uri", Str(u)), meta(Str("t-rs"))))},
			lv{"resources/unsubscribe", req(Int(41), "resources/unsubscribe", Obj(F("uri", Str(u)), meta(Str("t-ru"))))})
	}
	return out
}

var deepSubstitutes = []struct {
	name string
	v    V
}{
	{"null", Null()}, {"bool", Bool(false)}, {"int", Int(7)}, {"frac", Num("2.5")}, {"string", Str("x")}, {"array", Arr(Int(1))}, {"object", Obj(F("a", Int(1)))},
	{"empty-object", Obj()}, {"empty-array", Arr()}, {"nested-array", Arr(Arr(Obj()))}, {"nested-object", Obj(F("a", Obj(F("b", Arr(Obj())))))}, {"empty-string", Str("")},
}

// replaceAt returns v with the node at path replaced (remove: the member / element is dropped).
func replaceAt(v V, path []any, nv V, remove bool) V {
	if len(path) == 0 {
		return nv
	}
	switch k := path[0].(type) {
	case string:
		o := make([]KV, 0, len(v.O))
		for _, kv := range v.O {
			if kv.K == k {
				if len(path) == 1 && remove {
					continue
				}
				kv.V = replaceAt(kv.V, path[1:], nv, remove)
			}
			o = append(o, kv)
		}
		return V{K: 'o', O: o}
	case int:
		a := make([]V, 0, len(v.A))
		for i, x := range v.A {
			if i == k {
				if len(path) == 1 && remove {
					continue
				}
				x = replaceAt(x, path[1:], nv, remove)
			}
			a = append(a, x)
		}
		return V{K: 'a', A: a}
	}
	return v
}

// nodePaths: every node below v (not v itself), depth first.
func nodePaths(v V, prefix []any, f func(path []any, node V)) {
	switch v.K {
	case 'o':
		for _, kv := range v.O {
			p := append(append([]any{}, prefix...), kv.K)
			f(p, kv.V)
			nodePaths(kv.V, p, f)
		}
	case 'a':
		for i, x := range v.A {
			p := append(append([]any{}, prefix...), i)
			f(p, x)
			nodePaths(x, p, f)
		}
	}
}

func pathText(p []any) string {
	s := ""
	for _, x := range p {
		s += fmt.Sprintf(".%v", x)
	}
	return s
}

// optional members: what a server makes of a wrongly typed one — ignoring it, refusing the request — is its choice (only
// silence, a panic, a dropped connection are excluded); `arguments` of a tool call belong to the handler: any value goes.
func underOptionalMember(p []any) bool {
	if len(p) < 2 {
		return false
	}
	switch p[1] {
	case "_meta", "cursor", "clientInfo", "capabilities", "ref", "argument", "requestId", "reason", "progressToken", "progress", "total", "message":
		return true
	}
	return false
}

// DeepMutationCases: see the head of this file. minDepth: 2 = nodes below the members of `params` only (the members
// themselves are MutationCases' subject), 1 = those too.
func DeepMutationCases(reg *Registry, minDepth int) []Case {
	var cs []Case
	seen := map[string]bool{}
	for _, rq := range completeRequests(reg) {
		base := rq.v
		params, _ := base.Get("params")
		nodePaths(params, []any{"params"}, func(path []any, node V) {
			if len(path)-1 < minDepth {
				return
			}
			emit := func(how string, m V) {
				raw := m.Raw()
				if seen[raw] {
					return
				}
				seen[raw] = true
				c := caseOf(reg, "deep-mut:"+rq.label+":"+pathText(path)+":"+how, m, "deep-mutation")
				if underOptionalMember(path) {
					switch c.Exp.Class {
					case "result", "iserror", "handler-error", "unencodable", "bad-params", "not-found":
						c.Exp.Class, c.Exp.Cause = "lenient", "optional-member"
					}
				}
				cs = append(cs, c)
			}
			for _, sub := range deepSubstitutes {
				if sameKind(node, sub.v) && node.K != 's' && len(node.O) == len(sub.v.O) && len(node.A) == len(sub.v.A) {
					continue
				}
				emit("as-"+sub.name, replaceAt(base, path, sub.v, false))
			}
			emit("removed", replaceAt(base, path, V{}, true))
		})
	}
	return cs
}
