package rpckit

// Pipelined / concurrent request sequences (C03 quantifies over request sequences): many requests with distinct ids and
// id-derived arguments are in flight at once, the reader of the answers is slower than their writer. Judged without any
// model: every output line is one JSON object that passes the schema oracle for ITS request, the multiset of answered ids
// is the multiset of request ids, and every answer is the one its own request determines.

import (
	"bytes"
	"context"
	"encoding/json"
	"fmt"
	"io"
	"net/http"
	"strings"
	"sync"
	"time"

	mcp "trpc.group/trpc-go/trpc-mcp-go"
	"verif/harness/hk"
)

type pipeReq struct {
	id     string // the id as JSON text
	idV    V
	method string
	body   []byte
	// what the answer must be
	wantErr  int64  // != 0: an error with this code
	wantArgs string // canonical JSON of the arguments an echo call must return as structuredContent
}

// pipeRequests: n requests of mixed kinds and sizes, ids and arguments derived from the index.
func pipeRequests(n int, prefix string) []pipeReq {
	var rs []pipeReq
	for i := 0; i < n; i++ {
		var id V
		if i%3 == 0 {
			id = Str(fmt.Sprintf("%s-%d", prefix, i))
		} else {
			id = Int(int64(1000 + i))
		}
		r := pipeReq{id: id.Raw(), idV: id}
		pad := []int{0, 7, 300, 1500, 4000, 9000, 40, 70000}[i%8]
		switch i % 7 {
		case 3:
			r.method = "ping"
			r.body = []byte(env(id, "ping", nil).Raw())
		case 5:
			r.method = "verif/nope"
			r.wantErr = -32601
			r.body = []byte(env(id, "verif/nope", vp(Obj(F("i", Int(int64(i)))))).Raw())
		case 6:
			r.method = "tools/call"
			r.wantErr = -32603
			r.body = []byte(env(id, "tools/call", vp(Obj(F("name", Str("boom")), F("arguments", Obj(F("i", Int(int64(i)))))))).Raw())
		default:
			r.method = "tools/call"
			args := Obj(F("i", Int(int64(i))), F("tag", Str(fmt.Sprintf("%s#%d", prefix, i))), F("pad", Str(strings.Repeat(string(rune('a'+i%26)), pad))))
			r.body = []byte(env(id, "tools/call", vp(Obj(F("name", Str("echo")), F("arguments", args)))).Raw())
			v, _, _ := Canon([]byte(args.Raw()))
			b, _ := json.Marshal(v)
			r.wantArgs = string(b)
		}
		rs = append(rs, r)
	}
	return rs
}

// judgePipelined checks the collected answers (raw JSON texts) against the requests.
func judgePipelined(s Sink, kind string, reqs []pipeReq, answers [][]byte, extra string) (bad bool) {
	vio := func(what, detail string, observed any) {
		bad = true
		s.Violate(hk.Violation{Fingerprint: "rpc:" + kind + ":pipelined:" + what,
			What:     fmt.Sprintf("%s server, %d requests in flight at once (%s): %s", kind, len(reqs), extra, detail),
			Input:    map[string]any{"requests": len(reqs), "first_request": clipS(string(reqs[0].body), 200), "shape": "distinct ids; tools/call echo with id-derived arguments of 0 B - 70 KB, ping, unknown method, failing tool"},
			Observed: observed, Expected: "one well-formed answer per request, carrying that request's id and that request's result"})
	}
	byID := map[string]*pipeReq{}
	for i := range reqs {
		byID[reqs[i].id] = &reqs[i]
	}
	seen := map[string]int{}
	for _, a := range answers {
		v, dup, err := Canon(a)
		m, isObj := v.(map[string]any)
		if err != nil || !isObj {
			vio("line-not-json", "an output line / body is not one JSON object", clipS(string(a), 300))
			continue
		}
		if dup {
			vio("duplicate-member", "an answer has a member twice", clipS(string(a), 300))
		}
		idb, _ := json.Marshal(m["id"])
		r := byID[string(idb)]
		if r == nil {
			vio("unknown-id", "an answer carries an id no request had", clipS(string(a), 300))
			continue
		}
		seen[r.id]++
		for _, d := range checkMsg(Expect{Class: "result", Method: r.method, HasID: true, ID: r.idV, Req: true}, v) {
			vio("wf-"+d.id, "an answer is not well-formed: "+d.detail, clipS(string(a), 300))
		}
		code, _, isErr := errorCode(v)
		switch {
		case r.wantErr != 0:
			if !isErr || code != r.wantErr {
				vio("wrong-answer", fmt.Sprintf("request %s must be answered with error %d", r.id, r.wantErr), clipS(string(a), 300))
			}
		case isErr:
			vio("wrong-answer", fmt.Sprintf("request %s must be answered with a result", r.id), clipS(string(a), 300))
		case r.wantArgs != "":
			res, _ := m["result"].(map[string]any)
			got, _ := json.Marshal(res["structuredContent"])
			if string(got) != r.wantArgs {
				vio("foreign-result", fmt.Sprintf("the answer to request %s does not carry that request's arguments", r.id),
					map[string]any{"want": clipS(r.wantArgs, 200), "got": clipS(string(got), 200)})
			}
		}
	}
	missing, twice := []string{}, []string{}
	for _, r := range reqs {
		switch n := seen[r.id]; {
		case n == 0:
			missing = append(missing, r.id)
		case n > 1:
			twice = append(twice, r.id)
		}
	}
	if len(missing) > 0 {
		vio("missing-answers", fmt.Sprintf("%d of %d requests got no answer", len(missing), len(reqs)), clipList(missing))
	}
	if len(twice) > 0 {
		vio("duplicate-answers", fmt.Sprintf("%d ids were answered more than once", len(twice)), clipList(twice))
	}
	s.Count("pipelined:"+kind+":"+extra, len(missing) == 0, map[string]any{"server": kind, "requests": len(reqs), "answers": len(answers)}, "pipelined:"+kind)
	return bad
}

func clipS(s string, n int) string {
	if len(s) > n {
		return s[:n] + fmt.Sprintf("… (%d bytes)", len(s))
	}
	return s
}

func clipList(l []string) []string {
	if len(l) > 12 {
		return append(l[:12:12], fmt.Sprintf("… %d more", len(l)-12))
	}
	return l
}

// slowReader delays every read a little: the producer runs ahead of the consumer.
type slowReader struct {
	r     io.Reader
	chunk int
	pause time.Duration
}

func (s slowReader) Read(p []byte) (int, error) {
	if len(p) > s.chunk {
		p = p[:s.chunk]
	}
	time.Sleep(s.pause) // load shaping, not synchronisation
	return s.r.Read(p)
}

// pipelinedStdio: all requests written in one go; the reader of stdout takes 1 KiB at a time with a pause.
func pipelinedStdio(s Sink, reg *Registry, n int, round int) {
	srv := mcp.NewStdioServer(ServerName, ServerVersion, mcp.WithStdioServerLogger(hk.QuietLogger{}))
	reg.Install(srv)
	inR, inW := io.Pipe()
	outR, outW := io.Pipe()
	ctx, cancel := context.WithCancel(context.Background())
	defer cancel()
	go func() {
		mcp.VerifServeStdio(ctx, srv, inR, outW)
		inR.CloseWithError(io.ErrClosedPipe)
		outW.Close()
	}()
	reqs := pipeRequests(n, fmt.Sprintf("p%d", round))
	var all bytes.Buffer
	for _, r := range reqs {
		all.Write(r.body)
		all.WriteByte('\n')
	}
	go func() { inW.Write(all.Bytes()) }()
	lines := make(chan []byte, n+16)
	go func() {
		defer close(lines)
		var buf []byte
		rd := slowReader{r: outR, chunk: 1024, pause: 150 * time.Microsecond}
		tmp := make([]byte, 4096)
		for {
			k, err := rd.Read(tmp)
			buf = append(buf, tmp[:k]...)
			for {
				i := bytes.IndexByte(buf, '\n')
				if i < 0 {
					break
				}
				lines <- append([]byte{}, buf[:i]...)
				buf = buf[i+1:]
			}
			if err != nil {
				if len(bytes.TrimSpace(buf)) > 0 {
					lines <- append([]byte{}, buf...)
				}
				return
			}
		}
	}()
	var answers [][]byte
	deadline := time.After(20 * time.Second)
collect:
	for len(answers) < n {
		select {
		case l, ok := <-lines:
			if !ok {
				break collect
			}
			if len(bytes.TrimSpace(l)) > 0 {
				answers = append(answers, l)
			}
		case <-deadline:
			break collect
		}
	}
	// anything that still trickles in after the expected number of lines (duplicates) is taken too
	waitQuiet(2 * time.Second)
	for drained := false; !drained; {
		select {
		case l, ok := <-lines:
			if !ok {
				drained = true
			} else if len(bytes.TrimSpace(l)) > 0 {
				answers = append(answers, l)
			}
		case <-time.After(50 * time.Millisecond):
			drained = true
		}
	}
	inW.Close()
	cancel()
	judgePipelined(s, "stdio", reqs, answers, "one write, slow stdout reader")
}

// pipelinedStreamable: the requests as concurrent POSTs (stateless server: no session bookkeeping in the way).
func pipelinedStreamable(s Sink, reg *Registry, n int, postSSE bool) {
	t, err := NewStreamable(StreamableCfg{Mode: "stateless", PostSSE: postSSE}, reg)
	if err != nil {
		return
	}
	defer t.Close()
	st := t.(*streamable)
	reqs := pipeRequests(n, "h")
	answers := make([][]byte, 0, n)
	var mu sync.Mutex
	var wg sync.WaitGroup
	sem := make(chan struct{}, 32)
	for i := range reqs {
		wg.Add(1)
		sem <- struct{}{}
		go func(r pipeReq) {
			defer wg.Done()
			defer func() { <-sem }()
			hdr := map[string]string{"Content-Type": "application/json", "Accept": "application/json"}
			if postSSE {
				hdr["Accept"] = "application/json, text/event-stream"
			}
			resp := st.fx.Do("POST", st.fx.URL, hdr, r.body)
			body := resp.Body
			if strings.HasPrefix(resp.Header.Get("Content-Type"), "text/event-stream") {
				var data []string
				for _, l := range strings.Split(string(body), "\n") {
					if strings.HasPrefix(l, "data:") {
						data = append(data, strings.TrimPrefix(strings.TrimPrefix(strings.TrimSuffix(l, "\r"), "data:"), " "))
					}
				}
				body = []byte(strings.Join(data, "\n"))
			}
			if resp.Status == http.StatusOK && len(bytes.TrimSpace(body)) > 0 {
				mu.Lock()
				answers = append(answers, body)
				mu.Unlock()
			}
		}(reqs[i])
	}
	wg.Wait()
	mode := "32 concurrent POSTs, JSON answers"
	if postSSE {
		mode = "32 concurrent POSTs, SSE answers"
	}
	judgePipelined(s, "streamable", reqs, answers, mode)
}

// pipelinedSSE: the requests are posted back to back on one session; the answers come on the one stream.
func pipelinedSSE(s Sink, reg *Registry, n int) {
	tt, err := NewSSE(reg)
	if err != nil {
		return
	}
	defer tt.Close()
	t := tt.(*sseTarget)
	reqs := pipeRequests(n, "s")
	var wg sync.WaitGroup
	sem := make(chan struct{}, 16)
	for i := range reqs {
		wg.Add(1)
		sem <- struct{}{}
		go func(r pipeReq) {
			defer wg.Done()
			defer func() { <-sem }()
			t.do("POST", t.peer.msgURL, r.body, nil)
		}(reqs[i])
	}
	wg.Wait()
	waitQuiet(10 * time.Second)
	frames, _ := t.sentinel(t.peer)
	var answers [][]byte
	for _, f := range frames {
		answers = append(answers, []byte(f))
	}
	judgePipelined(s, "sse", reqs, answers, "16 concurrent POSTs on one session, answers on its stream")
}

func (r *runner) pipelined(reg *Registry) {
	n := 128
	rounds := 2
	if r.thorough {
		n, rounds = 256, 6
	}
	for i := 0; i < rounds; i++ {
		pipelinedStdio(r.s, reg, n, i)
	}
	pipelinedStreamable(r.s, reg, n, false)
	pipelinedStreamable(r.s, reg, n, true)
	pipelinedSSE(r.s, reg, 64) // below the session's event queue (100 entries; a full queue drops the answer by design)
}
