package rpckit

// The string classes results, error messages and client-supplied names are drawn from: every C0 control, DEL, C1 controls,
// the line separators U+2028 / U+2029, bytes that are not UTF-8 (what a UTF-8 encoded surrogate is, too), non-printable
// runes above U+FFFF, quotes and backslashes, ANSI colour sequences — and printf material (`%`, `%d`, `%s`, `%%`, `100%`,
// `%!`, a trailing `%`).

import (
	"encoding/json"
	"fmt"
	"strings"
)

func c0All() string {
	var b strings.Builder
	for c := 0; c < 0x20; c++ {
		b.WriteByte(byte(c))
	}
	return b.String()
}

// CtlText: one text with all of the control / quoting classes.
var CtlText = "\x1b[31mred\x1b[0m|" + c0All() + "|\x7f|\u0080\u0085\u009f|\u2028\u2029|\xff\xfe|\xc3(|\xed\xa0\x80|\U000E0001\U0001F600\U0010FFFF|\"q\" 'a' \\ \\n \\u0041 </script> &amp;|end"

// PrintfText: printf material; it ends with a lone `%`.
const PrintfText = "100% done, %d items, %s, %v, %%, %!, %!d(MISSING), %5.2f, %[1]d, %x%"

// asJSONSees: the string after one trip through encoding/json (bytes that are not UTF-8 become U+FFFD) — what an emitted
// message carries and what the model is told.
func asJSONSees(s string) string {
	b, _ := json.Marshal(s)
	var out string
	json.Unmarshal(b, &out)
	return out
}

// StringClasses: short strings, one class each (quick: grouped; thorough: every control character on its own).
func StringClasses(thorough bool) []struct{ Label, S string } {
	type sc = struct{ Label, S string }
	cs := []sc{
		{"nul", "a\x00b"}, {"esc-ansi", "\x1b[1;31mx\x1b[0m"}, {"del", "x\x7fy"}, {"bell-bs-ff-vt", "\a\b\f\v"}, {"c0-01-08", "\x01\x02\x03\x04\x05\x06\x07\x08"},
		{"c0-0e-1f", "\x0e\x0f\x10\x11\x12\x13\x14\x15\x16\x17\x18\x19\x1a\x1b\x1c\x1d\x1e\x1f"}, {"tab-lf-cr", "t\tl\nc\r."}, {"c1", "\u0080\u0085\u008f\u009f"},
		{"line-separators", "a\u2028b\u2029c"}, {"non-printable-astral", "\U000E0001\U000E007F\U0010FFFF\U0001F600"}, {"quotes-backslashes", "\"\\\"\\\\ \\x1b \\u001b '"},
		{"bom-nbsp-zwj", "\ufeffa\u00a0b\u200d\u200bc"}, {"html", "<script>&amp;</script>"},
		{"percent", "100%"}, {"percent-d", "%d"}, {"percent-s-percent", "%s%%"}, {"percent-bang", "%!"}, {"percent-many", "%d %s %v %x %q %%%"}, {"percent-trailing", "done 50%"},
	}
	if thorough {
		for c := 0; c < 0x20; c++ {
			cs = append(cs, sc{fmt.Sprintf("c0-%02x", c), "x" + string(rune(c)) + "y"})
		}
		for c := 0x80; c < 0xa0; c += 3 {
			cs = append(cs, sc{fmt.Sprintf("c1-%02x", c), "x" + string(rune(c)) + "y"})
		}
	}
	return cs
}

// StringClassCases: client-supplied strings that the servers echo into error messages (unknown tool / prompt / resource /
// method), into results (echo arguments, rendered prompt arguments) or compare with what is registered — from every class;
// and the same on the wire in the spellings only a raw body can have (bytes that are not UTF-8, lone surrogate escapes).
func StringClassCases(reg *Registry, thorough bool) []Case {
	var cs []Case
	k := 0
	add := func(label string, b baseReq) {
		k++
		cs = append(cs, mkCase(reg, "string:"+label+":"+b.label, wfIDs[k%4], b, "string-class"))
	}
	for _, c := range StringClasses(thorough) {
		s := c.S
		add(c.Label, baseReq{"tools/call-name", "tools/call", vp(Obj(F("name", Str("no "+s))))})
		add(c.Label, baseReq{"prompts/get-name", "prompts/get", vp(Obj(F("name", Str(s))))})
		add(c.Label, baseReq{"resources/read-uri", "resources/read", vp(Obj(F("uri", Str("verif://"+s))))})
		add(c.Label, baseReq{"method", s + "/list", nil})
		add(c.Label, baseReq{"initialize-version", "initialize", initParams(s)})
		if reg.tool("echo") != nil {
			add(c.Label, baseReq{"echo-args", "tools/call", vp(Obj(F("name", Str("echo")), F("arguments", Obj(F("v", Str(s)), F(s, Arr(Str(s), Str(s+s)))))))})
		}
		if reg.prompt("p-args") != nil {
			add(c.Label, baseReq{"prompt-args", "prompts/get", vp(Obj(F("name", Str("p-args")), F("arguments", Obj(F("a", Str(s)), F("b", Str(s+"|"))))))})
		}
	}
	// spellings only raw bytes have
	raws := []struct{ l, lit string }{
		{"invalid-utf8-bytes", "x\xff\xfey"}, {"truncated-utf8", "x\xc3"}, {"utf8-encoded-surrogate", "x\xed\xa0\x80y"}, {"overlong-nul", "x\xc0\x80y"},
		{"lone-high-surrogate-escape", `x\ud800y`}, {"lone-low-surrogate-escape", `x\udc00y`}, {"reversed-pair-escape", `x\udc00\ud800y`},
		{"pair-escape", `x\ud83d\ude00y`}, {"nul-escape", `x\u0000y`}, {"esc-escape", `x\u001b[0my`}, {"del-raw", "x\x7fy"}, {"escaped-solidus", `x\/y`},
	}
	for i, rw := range raws {
		for j, body := range []string{
			`{"jsonrpc":"2.0","id":` + fmt.Sprint(900+i) + `,"method":"tools/call","params":{"name":"no ` + rw.lit + `"}}`,
			`{"jsonrpc":"2.0","id":"r` + fmt.Sprint(i) + `","method":"resources/read","params":{"uri":"` + rw.lit + `"}}`,
			`{"jsonrpc":"2.0","id":` + fmt.Sprint(950+i) + `,"method":"` + rw.lit + `"}`,
		} {
			v, ok := ParseV([]byte(body), false)
			if !ok {
				continue
			}
			c := caseOf(reg, fmt.Sprintf("string-raw:%s:%d", rw.l, j), v, "string-class")
			c.Body = []byte(body) // as written here, not re-encoded
			cs = append(cs, c)
		}
	}
	return cs
}
