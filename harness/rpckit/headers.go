package rpckit

// Request headers the servers read (Accept, Mcp-Session-Id, Last-Event-ID) or a peer may get wrong (Content-Type): values
// generated from the header grammars, with the mutations parsers trip over — a parameter without a value (`;q`), with an
// empty one (`;q=`), empty parameters (`;;`, a trailing `;`), empty list elements, odd white space, very long and
// non-ASCII values. Each is sent with bodies of every kind, so that the code that parses the header is reached.

import (
	"fmt"
	"math/rand"
	"strings"
)

var acceptMedia = []string{"text/event-stream", "*/*", "application/json", "text/*", "", "TEXT/EVENT-STREAM", "text/event-stream2", "application/*"}

var acceptParams = []string{"", ";q=0.5", ";q", ";q=", ";q=abc", ";", ";;", ";q=0", "; q", ";=", ";charset", "; charset=utf-8;q", ";q=1;",
	";q=0.000", " ;q=0", ";Q=0", "; q = 0 ", ";q=0;q", ";q;q=1", ";=;=", ";q==", ";q=\"", ";\tq"}

// AcceptHeaders: single media ranges with every parameter shape, lists of them with every separator shape, long and
// non-ASCII values.
func AcceptHeaders(rng *rand.Rand, thorough bool) []string {
	var out []string
	seen := map[string]bool{}
	add := func(h string) {
		if !seen[h] {
			seen[h] = true
			out = append(out, h)
		}
	}
	for i, m := range acceptMedia {
		for j, p := range acceptParams {
			if thorough || i < 3 || j%8 == i%8 {
				add(m + p)
			}
		}
	}
	item := func() string {
		return acceptMedia[rng.Intn(len(acceptMedia))] + acceptParams[rng.Intn(len(acceptParams))]
	}
	seps := []string{",", ", ", " , ", ",,", ",\t", " ,;, "}
	n := 40
	if thorough {
		n = 400
	}
	for i := 0; i < n; i++ {
		k := 2 + rng.Intn(3)
		parts := make([]string, k)
		for j := range parts {
			parts[j] = item()
		}
		h := strings.Join(parts, seps[rng.Intn(len(seps))])
		switch rng.Intn(6) {
		case 0:
			h = "," + h
		case 1:
			h += ","
		case 2:
			h = " " + h + " "
		}
		add(h)
	}
	for _, h := range []string{
		"application/json, text/event-stream;q", "application/json;q, text/event-stream", "text/event-stream;q,application/json;q=",
		",", ";", ";q", ",;q", "q", "=", ";;;,,,", "text/event-stream;" + strings.Repeat("q;", 3000), strings.Repeat("text/html;q,", 5000) + "text/event-stream",
		strings.Repeat("a", 60000), "text/event-stream;q=é", " text/event-stream ", "téxt/event-stream", "text/event-stream ;q", "text/event-stream;q=　",
		"text/event-stream\u0085", "中/文;q", "text/event-stream ; q", "text/event-stream;q=0.5;", "text/event-stream;level=1;q", "*/*;q", "*/* ;", " */*",
	} {
		add(h)
	}
	return out
}

// ContentTypeHeaders: what a peer may put there (the servers do not read it: the body decides).
func ContentTypeHeaders() []string {
	return []string{"application/json;charset", "application/json;", "application/json;charset=", ";", ";charset", "application/json; charset=utf-8; q",
		"application/", "/json", "application/json,text/plain", "text/plain", "", strings.Repeat("a", 5000), "applicatión/json", "application/json;;", "multipart/form-data; boundary",
		"application/json; charset=\"x"}
}

// SessionHeaderMutations: the real session id damaged. resolves = the server (which sees the value trimmed of optional
// white space by net/http) still finds the session.
func SessionHeaderMutations(sid string) []struct {
	Label, Value string
	Resolves     bool
} {
	type m = struct {
		Label, Value string
		Resolves     bool
	}
	return []m{
		{"truncated", sid[:len(sid)-1], false}, {"one-char", sid[:1], false}, {"param-without-value", sid + ";q", false}, {"trailing-semicolon", sid + ";", false},
		{"trailing-comma", sid + ",", false}, {"list", sid + ", " + sid, false}, {"padded", " " + sid + "\t", true}, {"upper", strings.ToUpper(sid) + "X", false},
		{"equals", "id=" + sid, false}, {"long", sid + strings.Repeat("0", 6000), false}, {"non-ascii", sid + "é", false}, {"inner-space", sid[:4] + " " + sid[4:], false},
	}
}

// LastEventIDs: values of the header a reconnecting GET carries.
func LastEventIDs() []string {
	return []string{"evt", "evt-", "evt-1", "evt-x-y", "-1", "0", ";", "evt;q", "evt-1;", "=", strings.Repeat("9", 400), "evt-é", "evt-1,evt-2", " ", "evt-18446744073709551616"}
}

func hdrLabel(kind string, i int, v string) string {
	if len(v) > 40 {
		v = v[:40] + fmt.Sprintf("…(%d)", len(v))
	}
	return fmt.Sprintf("header:%s:%d:%q", kind, i, v)
}
