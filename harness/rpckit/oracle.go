package rpckit

// Implementation-level oracles, written from the JSON-RPC 2.0 / MCP 2025-03-26 schema and from the property statements —
// independent of the Lean model and of the library's own structs.

import (
	"fmt"
	"math/big"
	"strconv"
	"strings"
)

// Expect is what the statement demands for one input.
type Expect struct {
	// result | iserror | unknown-method | bad-params | not-found | handler-error | unencodable | unparsable | unserved |
	// notification | response | lenient
	Class   string
	Method  string // decides the result shape
	HasID   bool   // a well-formed id (string or integer) the answer must echo
	ID      V
	ErrText string
	Cause   string // why an input is not served (part of the fingerprint of "unserved" findings)
	Req     bool   // the input is a JSON value that looks like a request (an answer's id may refer to it)
}

type defect struct{ id, detail string }

func isInt(x any) (*big.Int, bool) {
	n, ok := x.(rawNum)
	if !ok {
		return nil, false
	}
	r, ok := new(big.Rat).SetString(string(n))
	if !ok || !r.IsInt() {
		return nil, false
	}
	return r.Num(), true
}

func isStr(x any) bool { _, ok := x.(string); return ok }
func isObj(x any) (map[string]any, bool) {
	m, ok := x.(map[string]any)
	return m, ok
}
func isArr(x any) ([]any, bool) { a, ok := x.([]any); return a, ok }
func isBool(x any) bool         { _, ok := x.(bool); return ok }

func optStr(m map[string]any, k string) bool {
	v, ok := m[k]
	return !ok || isStr(v)
}

// float64 rounding of an integer (round to nearest even), exact
func f64Round(i *big.Int) *big.Int {
	f := new(big.Float).SetMode(big.ToNearestEven).SetPrec(53).SetInt(i)
	out, _ := f.Int(nil)
	return out
}

func idEqual(want V, got any) (bool, bool) { // (equal, equalAfterRounding)
	switch want.K {
	case 's':
		s, ok := got.(string)
		return ok && s == want.S, false
	case 'n':
		w, ok := new(big.Rat).SetString(want.N)
		g, ok2 := got.(rawNum)
		if !ok || !ok2 {
			return false, false
		}
		gr, ok3 := new(big.Rat).SetString(string(g))
		if !ok3 {
			return false, false
		}
		if w.Cmp(gr) == 0 {
			return true, false
		}
		if !w.IsInt() {
			// a decimal fraction: the same float64
			a, e1 := strconv.ParseFloat(want.N, 64)
			b, e2 := strconv.ParseFloat(string(g), 64)
			return false, e1 == nil && e2 == nil && a == b
		}
		// the same float64 (Go prints the shortest digits that identify it, not its exact value)
		if w.IsInt() && gr.IsInt() && f64Round(w.Num()).Cmp(f64Round(gr.Num())) == 0 {
			return false, true
		}
	}
	return false, false
}

func checkResourceContents(x any) string {
	m, ok := isObj(x)
	if !ok {
		return "not-object"
	}
	if !isStr(m["uri"]) {
		return "uri"
	}
	if !optStr(m, "mimeType") {
		return "mimeType"
	}
	_, hasT := m["text"]
	_, hasB := m["blob"]
	if hasT == hasB {
		return "text-xor-blob"
	}
	if hasT && !isStr(m["text"]) || hasB && !isStr(m["blob"]) {
		return "payload-type"
	}
	return ""
}

func checkContent(x any) string {
	m, ok := isObj(x)
	if !ok {
		return "not-object"
	}
	ty, ok := m["type"].(string)
	if !ok {
		return "type-missing"
	}
	if a, has := m["annotations"]; has {
		if _, ok := isObj(a); !ok {
			return "annotations"
		}
	}
	switch ty {
	case "text":
		if !isStr(m["text"]) {
			return "text"
		}
	case "image", "audio":
		if !isStr(m["data"]) || !isStr(m["mimeType"]) {
			return ty
		}
	case "resource":
		if d := checkResourceContents(m["resource"]); d != "" {
			return "resource-" + d
		}
	default:
		return "type-" + ty
	}
	return ""
}

// checkResult: the MCP result shape of a method ("" = fine).
func checkResult(method string, r any) string {
	m, ok := isObj(r)
	if !ok {
		return "not-object"
	}
	if meta, has := m["_meta"]; has {
		if _, ok := isObj(meta); !ok {
			return "_meta"
		}
	}
	list := func(key string, item func(any) string) string {
		v, has := m[key]
		if !has {
			return key + "-missing"
		}
		if v == nil {
			return "null-slice"
		}
		a, ok := isArr(v)
		if !ok {
			return key + "-not-array"
		}
		for _, x := range a {
			if d := item(x); d != "" {
				return key + "-item-" + d
			}
		}
		if !optStr(m, "nextCursor") {
			return "nextCursor"
		}
		return ""
	}
	named := func(x any) string {
		o, ok := isObj(x)
		if !ok || !isStr(o["name"]) || !optStr(o, "description") {
			return "descriptor"
		}
		return ""
	}
	switch method {
	case "initialize":
		si, ok := isObj(m["serverInfo"])
		if !isStr(m["protocolVersion"]) || !ok || !isStr(si["name"]) || !isStr(si["version"]) || !optStr(m, "instructions") {
			return "initialize-fields"
		}
		if _, ok := isObj(m["capabilities"]); !ok {
			return "capabilities"
		}
	case "ping":
	case "tools/list":
		return list("tools", func(x any) string {
			if d := named(x); d != "" {
				return d
			}
			s, ok := isObj(x.(map[string]any)["inputSchema"])
			if !ok || s["type"] != "object" {
				return "inputSchema"
			}
			return ""
		})
	case "prompts/list":
		return list("prompts", func(x any) string {
			if d := named(x); d != "" {
				return d
			}
			if as, has := x.(map[string]any)["arguments"]; has {
				a, ok := isArr(as)
				if !ok {
					return "arguments"
				}
				for _, e := range a {
					o, ok := isObj(e)
					if !ok || !isStr(o["name"]) {
						return "argument"
					}
					if rq, has := o["required"]; has && !isBool(rq) {
						return "required"
					}
				}
			}
			return ""
		})
	case "resources/list":
		return list("resources", func(x any) string {
			if d := named(x); d != "" {
				return d
			}
			if !isStr(x.(map[string]any)["uri"]) || !optStr(x.(map[string]any), "mimeType") {
				return "uri"
			}
			return ""
		})
	case "resources/templates/list":
		return list("resourceTemplates", func(any) string { return "" })
	case "tools/call":
		if d := list("content", checkContent); d != "" {
			return d
		}
		if e, has := m["isError"]; has && !isBool(e) {
			return "isError"
		}
	case "prompts/get":
		if !optStr(m, "description") {
			return "description"
		}
		return list("messages", func(x any) string {
			o, ok := isObj(x)
			if !ok || (o["role"] != "user" && o["role"] != "assistant") {
				return "role"
			}
			if d := checkContent(o["content"]); d != "" {
				return "content-" + d
			}
			return ""
		})
	case "resources/read":
		return list("contents", checkResourceContents)
	}
	return ""
}

// checkMsg: one emitted message against JSON-RPC 2.0 + MCP.
func checkMsg(e Expect, msg any) []defect {
	var ds []defect
	add := func(id, detail string) { ds = append(ds, defect{id, detail}) }
	m, ok := isObj(msg)
	if !ok {
		add("not-object", fmt.Sprint(msg))
		return ds
	}
	if m["jsonrpc"] != "2.0" {
		add("version", fmt.Sprint(m["jsonrpc"]))
	}
	if meth, has := m["method"]; has {
		// a notification (nothing in these runs makes a server send a request)
		if !isStr(meth) {
			add("notification-method", "")
		}
		if _, has := m["id"]; has {
			add("notification-with-id", "")
		}
		// MCP: params?: object — `null` (or any other non-object) is not "no params"
		if p, has := m["params"]; has {
			if _, ok := isObj(p); !ok {
				add("notification-params", fmt.Sprintf("params is %v, not an object", p))
			}
		}
		for k := range m {
			if k != "jsonrpc" && k != "method" && k != "params" {
				add("notification-extra-member", k)
			}
		}
		return ds
	}
	id, hasID := m["id"]
	res, hasRes := m["result"]
	er, hasErr := m["error"]
	if hasRes == hasErr {
		add("result-xor-error", fmt.Sprintf("result:%v error:%v", hasRes, hasErr))
	}
	unidentified := false // Parse error / Invalid Request: JSON-RPC lets the id be null
	if eo, ok := isObj(er); ok && hasErr && id == nil && hasID {
		if c, ok := isInt(eo["code"]); ok && (c.Int64() == -32700 || c.Int64() == -32600) {
			unidentified = true
		}
	}
	switch {
	case !hasID:
		add("error-without-id", "a response must carry an id member (null when the request's id could not be read)")
	case unidentified:
	case e.HasID:
		// a numeric id comes back as a NUMBER VALUE: exactly up to 2^53, as the float64 nearest to it beyond (the servers
		// decode it into a float64 and print that) — never with another sign or magnitude
		eq, rounded := idEqual(e.ID, id)
		if rounded && e.ID.K == 'n' && within53(e.ID.N) {
			add("id-echo-rounded", fmt.Sprintf("request id %s, answer id %v", e.ID.Raw(), id))
		} else if !eq && !rounded {
			add("id-mismatch", fmt.Sprintf("request id %s, answer id %v", e.ID.Raw(), id))
		}
	case !e.Req:
		if id != nil {
			add("id-invented", fmt.Sprint(id))
		}
	}
	if hasErr {
		eo, ok := isObj(er)
		_, codeInt := isInt(eo["code"])
		if !ok || !codeInt || !isStr(eo["message"]) {
			add("error-shape", fmt.Sprint(er))
		}
		for k := range eo {
			if k != "code" && k != "message" && k != "data" {
				add("error-shape", "member "+k)
			}
		}
	}
	for k := range m {
		if k != "jsonrpc" && k != "id" && k != "result" && k != "error" {
			add("response-extra-member", k)
		}
	}
	if hasRes && !hasErr {
		if d := checkResult(e.Method, res); d != "" {
			if d == "null-slice" || strings.HasSuffix(d, "-null-slice") {
				add("null-slice", e.Method+": "+d)
			} else if strings.Contains(d, "type-embedded_resource") {
				add("embedded-resource-type", e.Method+": "+d)
			} else {
				add("result-shape", e.Method+": "+d)
			}
		}
	}
	return ds
}

func errorCode(msg any) (int64, string, bool) {
	m, _ := isObj(msg)
	eo, ok := isObj(m["error"])
	if !ok {
		return 0, "", false
	}
	c, ok := isInt(eo["code"])
	if !ok {
		return 0, "", false
	}
	text, _ := eo["message"].(string)
	if d, has := eo["data"]; has {
		text += " " + fmt.Sprint(d)
	}
	return c.Int64(), text, true
}

type finding struct{ what, detail string }

// Judge applies the statement of C03 / C06 to one exchange. kind: streamable | sse | stdio.
func Judge(kind string, e Expect, o Observed) []finding {
	var fs []finding
	add := func(what, detail string) { fs = append(fs, finding{what, detail}) }
	if o.Panic {
		add("panic", o.PanicLog)
	}
	if o.Aborted {
		add("aborted", "the server dropped the connection without an HTTP status (what net/http does with a handler that panicked)")
	}
	for _, p := range o.Problems {
		if o.Aborted && strings.HasPrefix(p, "the connection was dropped") {
			continue
		}
		add("peer-problem", p)
	}
	if o.Dup {
		add("wf-duplicate-member", "")
	}
	msgs := o.Messages()
	for _, m := range msgs {
		for _, d := range checkMsg(e, m) {
			add("wf-"+d.id, d.detail)
		}
	}
	if len(msgs) > 1 {
		add("more-than-one-message", fmt.Sprint(len(msgs)))
	}
	st := -1
	if o.Status != nil {
		st = *o.Status
	}
	is2xx := st >= 200 && st < 300
	var first any
	if len(msgs) > 0 {
		first = msgs[0]
	}
	code, text, isErr := errorCode(first)
	hasResult := false
	if m, ok := isObj(first); ok {
		_, hasResult = m["result"]
	}
	silent := func() string {
		switch {
		case kind == "stdio":
			return "silent"
		case is2xx:
			return fmt.Sprintf("empty-%d", st)
		}
		return ""
	}
	wantCode := func(want int64) {
		switch {
		case first == nil:
			if s := silent(); s != "" {
				add(e.Class+"-"+s, fmt.Sprintf("expected a JSON-RPC error %d", want))
			} else {
				add(e.Class+"-http-error-instead-of-code", fmt.Sprintf("status %d, expected a JSON-RPC error %d", st, want))
			}
		case !isErr:
			add(e.Class+"-answered-with-result", fmt.Sprintf("expected a JSON-RPC error %d", want))
		case code != want:
			add(fmt.Sprintf("%s-code-%d", e.Class, code), fmt.Sprintf("expected %d", want))
		}
	}
	switch e.Class {
	case "result", "iserror":
		if first == nil {
			add(e.Class+"-unanswered", fmt.Sprintf("status %d", st))
		} else if !hasResult {
			add(e.Class+"-answered-with-error", fmt.Sprint(first))
		} else if e.Class == "iserror" {
			r, _ := isObj(first.(map[string]any)["result"])
			if r["isError"] != true {
				add("iserror-flag-lost", "")
			}
		}
	case "unknown-method":
		wantCode(-32601)
	case "bad-params":
		wantCode(-32602)
	case "not-found":
		if !isErr {
			if s := silent(); first == nil && s != "" {
				add("not-found-"+s, "")
			} else if first != nil {
				add("not-found-answered-with-result", "")
			}
		}
	case "handler-error":
		wantCode(-32603)
		if isErr && !strings.Contains(text, e.ErrText) {
			add("handler-error-text-lost", text)
		}
	case "unencodable":
		wantCode(-32603)
		if isErr && !strings.Contains(text, e.ErrText) {
			add("unencodable-text-lost", text)
		}
	case "unparsable":
		if isErr {
			if code != -32700 {
				add(fmt.Sprintf("unparsable-code-%d", code), "")
			}
		} else if first != nil {
			add("unparsable-answered-with-result", "")
		} else if s := silent(); s != "" {
			add("unparsable-"+s, "")
		}
	case "unserved":
		if hasResult {
			add("unserved-answered-with-result", fmt.Sprint(first))
		} else if !isErr {
			if s := silent(); s != "" {
				add("unserved-"+s, "")
			}
		}
	case "lenient":
		// serving it and refusing it are both defensible; leaving it without any answer is not
		if first == nil {
			if s := silent(); s != "" {
				add("unserved-"+s, "")
			}
		}
	case "notification", "response":
		if first != nil {
			add(e.Class+"-answered", fmt.Sprint(first))
		}
	}
	return fs
}
