// Package rpckit is the shared harness code of the request-serving slices (C03 component "rpc", C14 component "rpcalike",
// C06 component "rpcsurvive"): three real servers with the same registrations, raw reference peers, input generators,
// implementation-level oracles.
package rpckit

import (
	"bytes"
	"encoding/json"
	"fmt"
	"math/big"
	"sort"
	"strings"
	"sync"
)

// V is a JSON value that keeps member order and duplicate keys (what a peer can put on the wire).
type V struct {
	K byte // 'z' null, 'b' bool, 'n' number, 's' string, 'a' array, 'o' object, 'R' repeated nesting, 'S' big string
	B bool
	N string // number text
	S string
	A []V
	O []KV
	// 'R': Leaf wrapped Rep times in arrays (Open 'a') or in {"k": …} objects (Open 'o'); 'S': Rep copies of rune Ch
	Rep  int
	Open byte
	Leaf *V
	Ch   rune
}

type KV struct {
	K string
	V V
}

func Null() V            { return V{K: 'z'} }
func Bool(b bool) V      { return V{K: 'b', B: b} }
func Num(s string) V     { return V{K: 'n', N: s} }
func Int(i int64) V      { return V{K: 'n', N: fmt.Sprint(i)} }
func Str(s string) V     { return V{K: 's', S: s} }
func Arr(xs ...V) V      { return V{K: 'a', A: append([]V{}, xs...)} }
func Obj(kvs ...KV) V    { return V{K: 'o', O: append([]KV{}, kvs...)} }
func F(k string, v V) KV { return KV{k, v} }
func Deep(open byte, n int, leaf V) V {
	return V{K: 'R', Rep: n, Open: open, Leaf: &leaf}
}
func BigStr(ch rune, n int) V { return V{K: 'S', Ch: ch, Rep: n} }

// Raw is the JSON text sent to the server.
func (v V) Raw() string {
	var b strings.Builder
	v.raw(&b)
	return b.String()
}

func (v V) raw(b *strings.Builder) {
	switch v.K {
	case 'z':
		b.WriteString("null")
	case 'b':
		if v.B {
			b.WriteString("true")
		} else {
			b.WriteString("false")
		}
	case 'n':
		b.WriteString(v.N)
	case 's':
		q, _ := json.Marshal(v.S)
		b.Write(q)
	case 'a':
		b.WriteByte('[')
		for i, x := range v.A {
			if i > 0 {
				b.WriteByte(',')
			}
			x.raw(b)
		}
		b.WriteByte(']')
	case 'o':
		b.WriteByte('{')
		for i, kv := range v.O {
			if i > 0 {
				b.WriteByte(',')
			}
			q, _ := json.Marshal(kv.K)
			b.Write(q)
			b.WriteByte(':')
			kv.V.raw(b)
		}
		b.WriteByte('}')
	case 'R':
		for i := 0; i < v.Rep; i++ {
			if v.Open == 'a' {
				b.WriteByte('[')
			} else {
				b.WriteString(`{"k":`)
			}
		}
		v.Leaf.raw(b)
		for i := 0; i < v.Rep; i++ {
			if v.Open == 'a' {
				b.WriteByte(']')
			} else {
				b.WriteByte('}')
			}
		}
	case 'S':
		b.WriteByte('"')
		b.WriteString(strings.Repeat(string(v.Ch), v.Rep))
		b.WriteByte('"')
	}
}

// decimal: m·10^(−e) with e minimal (e = 0: an integer)
func decimalOf(num string) (string, int) {
	r, ok := new(big.Rat).SetString(num)
	if !ok {
		return "0", 0
	}
	if r.IsInt() {
		return r.Num().String(), 0
	}
	// denominator is 2^a·5^b only for decimal literals: scale by 10 until integral
	e := 0
	ten := big.NewRat(10, 1)
	for !r.IsInt() && e < 5000 {
		r.Mul(r, ten)
		e++
	}
	return r.Num().String(), e
}

// Enc is the value in the encoding the Lean driver reads (order and duplicates kept; numbers exact).
func (v V) Enc() any {
	switch v.K {
	case 'z':
		return nil
	case 'b':
		return v.B
	case 'n':
		m, e := decimalOf(v.N)
		return map[string]any{"n": []any{m, e}}
	case 's':
		return v.S
	case 'a':
		xs := make([]any, 0, len(v.A))
		for _, x := range v.A {
			xs = append(xs, x.Enc())
		}
		return map[string]any{"a": xs}
	case 'o':
		xs := make([]any, 0, len(v.O))
		for _, kv := range v.O {
			xs = append(xs, []any{kv.K, kv.V.Enc()})
		}
		return map[string]any{"o": xs}
	case 'R':
		return map[string]any{"rep": map[string]any{"open": string(v.Open), "n": v.Rep, "leaf": v.Leaf.Enc()}}
	case 'S':
		return map[string]any{"big": map[string]any{"c": int(v.Ch), "n": v.Rep}}
	}
	return nil
}

func (v V) Get(k string) (V, bool) {
	for _, kv := range v.O {
		if kv.K == k {
			return kv.V, true
		}
	}
	return V{}, false
}

// With returns a copy of the object with member k set (replaced in place, or appended).
func (v V) With(k string, x V) V {
	o := append([]KV{}, v.O...)
	for i := range o {
		if o[i].K == k {
			o[i].V = x
			return V{K: 'o', O: o}
		}
	}
	return V{K: 'o', O: append(o, KV{k, x})}
}

func (v V) Without(k string) V {
	var o []KV
	for _, kv := range v.O {
		if kv.K != k {
			o = append(o, kv)
		}
	}
	return V{K: 'o', O: o}
}

// Rename replaces the key of member k.
func (v V) Rename(k, nk string) V {
	o := append([]KV{}, v.O...)
	for i := range o {
		if o[i].K == k {
			o[i].K = nk
		}
	}
	return V{K: 'o', O: o}
}

// Dup adds a second member k (before or after the existing one).
func (v V) Dup(k string, x V, before bool) V {
	var o []KV
	for _, kv := range v.O {
		if kv.K == k && before {
			o = append(o, KV{k, x})
		}
		o = append(o, kv)
		if kv.K == k && !before {
			o = append(o, KV{k, x})
		}
	}
	return V{K: 'o', O: o}
}

// ParseV reads the first JSON value of raw the way a Go server's json.Decoder does (ok=false: the decoder fails).
// ParseV memoises large bodies (the same 2 MiB / 5 MiB inputs are parsed for every server and every line they produce).
type parseKey struct {
	p     *byte
	n     int
	whole bool
}
type parseVal struct {
	v  V
	ok bool
}

var parseMemo sync.Map

func ParseV(raw []byte, whole bool) (V, bool) {
	if len(raw) < 64<<10 {
		return parseV(raw, whole)
	}
	k := parseKey{&raw[0], len(raw), whole}
	if x, ok := parseMemo.Load(k); ok {
		pv := x.(parseVal)
		return pv.v, pv.ok
	}
	v, ok := parseV(raw, whole)
	parseMemo.Store(k, parseVal{v, ok})
	return v, ok
}

func parseV(raw []byte, whole bool) (V, bool) {
	var rm json.RawMessage
	if whole {
		if err := json.Unmarshal(raw, &rm); err != nil {
			return V{}, false
		}
	} else if err := json.NewDecoder(bytes.NewReader(raw)).Decode(&rm); err != nil {
		return V{}, false
	}
	d := json.NewDecoder(bytes.NewReader(rm))
	d.UseNumber()
	v, err := parseTok(d)
	if err != nil {
		return V{}, false
	}
	return v, true
}

func parseTok(d *json.Decoder) (V, error) {
	t, err := d.Token()
	if err != nil {
		return V{}, err
	}
	switch x := t.(type) {
	case nil:
		return Null(), nil
	case bool:
		return Bool(x), nil
	case json.Number:
		return Num(string(x)), nil
	case string:
		return Str(x), nil
	case json.Delim:
		if x == '[' {
			v := V{K: 'a', A: []V{}}
			for d.More() {
				e, err := parseTok(d)
				if err != nil {
					return V{}, err
				}
				v.A = append(v.A, e)
			}
			_, err := d.Token()
			return v, err
		}
		v := V{K: 'o', O: []KV{}}
		for d.More() {
			kt, err := d.Token()
			if err != nil {
				return V{}, err
			}
			e, err := parseTok(d)
			if err != nil {
				return V{}, err
			}
			v.O = append(v.O, KV{kt.(string), e})
		}
		_, err := d.Token()
		return v, err
	}
	return V{}, fmt.Errorf("token %v", t)
}

// Compact re-introduces the compact descriptions of deep nesting and of long one-letter strings (so that op lines stay
// small and shallow whatever the wire carried).
func Compact(v V) V {
	switch v.K {
	case 's':
		if n := len([]rune(v.S)); n >= 1024 {
			rs := []rune(v.S)
			same := true
			for _, r := range rs {
				if r != rs[0] {
					same = false
					break
				}
			}
			if same {
				return BigStr(rs[0], n)
			}
		}
		return v
	case 'a', 'o':
		// length of the chain of single-element arrays / single-member {"k": …} objects starting here
		depth := 0
		cur := v
		for {
			if v.K == 'a' && cur.K == 'a' && len(cur.A) == 1 {
				cur = cur.A[0]
			} else if v.K == 'o' && cur.K == 'o' && len(cur.O) == 1 && cur.O[0].K == "k" {
				cur = cur.O[0].V
			} else {
				break
			}
			depth++
		}
		if depth >= 64 {
			return Deep(v.K, depth, Compact(cur))
		}
		out := V{K: v.K}
		for _, x := range v.A {
			out.A = append(out.A, Compact(x))
		}
		for _, kv := range v.O {
			out.O = append(out.O, KV{kv.K, Compact(kv.V)})
		}
		if v.K == 'a' && out.A == nil {
			out.A = []V{}
		}
		if v.K == 'o' && out.O == nil {
			out.O = []KV{}
		}
		return out
	}
	return v
}

// ---- canonical form of what a server emitted

// Canon parses one emitted JSON-RPC message into the shape the Lean driver prints: objects as maps, integer-valued
// numbers as exact integers, wall-clock members masked. dup = a member name occurs twice in some object.
func Canon(raw []byte) (val any, dup bool, err error) {
	d := json.NewDecoder(bytes.NewReader(raw))
	d.UseNumber()
	v, err := canonTok(d, &dup)
	if err != nil {
		return nil, false, err
	}
	if d.More() {
		return nil, false, fmt.Errorf("trailing data after the JSON value")
	}
	return v, dup, nil
}

type rawNum string

func (r rawNum) MarshalJSON() ([]byte, error) { return []byte(r), nil }

func canonNum(n string) any {
	r, ok := new(big.Rat).SetString(n)
	if ok && r.IsInt() {
		return rawNum(r.Num().String())
	}
	return rawNum(n)
}

func canonTok(d *json.Decoder, dup *bool) (any, error) {
	t, err := d.Token()
	if err != nil {
		return nil, err
	}
	switch x := t.(type) {
	case json.Number:
		return canonNum(string(x)), nil
	case json.Delim:
		if x == '[' {
			out := []any{}
			for d.More() {
				e, err := canonTok(d, dup)
				if err != nil {
					return nil, err
				}
				out = append(out, e)
			}
			_, err := d.Token()
			return out, err
		}
		out := map[string]any{}
		for d.More() {
			kt, err := d.Token()
			if err != nil {
				return nil, err
			}
			k := kt.(string)
			e, err := canonTok(d, dup)
			if err != nil {
				return nil, err
			}
			if _, seen := out[k]; seen {
				*dup = true
			}
			if (k == "subscribeTime" || k == "unsubscribeTime") && e != nil {
				e = "<time>"
			}
			out[k] = e
		}
		_, err := d.Token()
		return out, err
	default:
		return x, nil
	}
}

// SortedKeys of a canonical object.
func SortedKeys(m map[string]any) []string {
	ks := make([]string, 0, len(m))
	for k := range m {
		ks = append(ks, k)
	}
	sort.Strings(ks)
	return ks
}
