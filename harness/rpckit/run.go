package rpckit

import (
	"bufio"
	"bytes"
	"encoding/json"
	"fmt"
	"io"
	"math/rand"
	"net"
	"os"
	"os/exec"
	"reflect"
	"regexp"
	"runtime"
	"runtime/debug"
	"runtime/pprof"
	"sort"
	"strings"
	"sync"
	"time"

	"verif/harness/hk"
)

// Sink receives what a run produces: in-process it is the harness context, in a child process it is a line protocol.
type Sink interface {
	Emit(op map[string]any, impl any, nontrivial bool, tags ...string)
	Count(key string, nontrivial bool, sample any, tags ...string)
	Violate(v hk.Violation)
	SetExtra(k string, v any)
	About(label string, input any) // announced BEFORE the input is sent (a crash is attributed to it)
}

type ctxSink struct{ *hk.Ctx }

func (ctxSink) About(string, any) {}

// Focus: which property the run serves.
type Focus struct {
	Comp string // component name = op prefix
	// wf: C03 (well-formedness, codes, never silent) | alike: C14 | survive: C06
	Kind string
}

// an integer literal Go prints back digit for digit
var plainIntRe = regexp.MustCompile(`^(0|-?[1-9][0-9]*)$`)

type runner struct {
	s        Sink
	f        Focus
	rng      *rand.Rand
	thorough bool
	dead     map[Target]bool // servers that stopped answering: nothing more is sent to them
	hist     []sent          // survive runs: everything handed to the current server, in order
	record   bool
	accN     int // answered requests seen (the framing op is emitted for every header-grammar case and for a sample of the rest)
}

type sent struct {
	c  Case
	in Input
}

func (r *runner) fuzzN() int {
	if r.thorough {
		return 4000
	}
	return 300
}

func describe(t Target, c Case, in Input) map[string]any {
	b := string(in.Body)
	if len(b) > 400 {
		b = b[:400] + fmt.Sprintf("… (%d bytes)", len(in.Body))
	}
	return map[string]any{"server": t.Name(), "registry": t.Reg().Name, "case": c.Label, "verb": in.Verb, "path": in.Path, "session": in.Ref, "accept_sse": in.Accept, "body": b, "headers": in.Hdr}
}

// deliver: the ordinary way to hand a JSON-RPC message to a server.
func deliver(t Target, body []byte) (Input, bool) {
	switch x := t.(type) {
	case *streamable:
		ref := "none"
		if x.cfg.Mode == "stateful" {
			ref = "s0"
		}
		return Input{Verb: "POST", Path: "ok", Ref: ref, Accept: x.cfg.PostSSE, Body: body}, true
	case *sseTarget:
		return Input{Verb: "POST", Path: "message", Ref: "live", Body: body}, true
	default:
		line, ok := StdioLine(body)
		if !ok || bytes.ContainsAny(line, "\n\r") {
			return Input{}, false // not one line
		}
		return Input{Body: line}, true
	}
}

// which findings belong to which property
func (r *runner) wants(what string) bool {
	switch r.f.Kind {
	case "wf":
		return what != "panic"
	case "survive":
		// the peer-input part of the statement: malformed input must be answered (handler outcomes are C03's)
		return what == "panic" || what == "aborted" || what == "peer-problem" || strings.HasPrefix(what, "unserved-") || strings.HasPrefix(what, "unparsable-")
	}
	return what == "peer-problem"
}

func (r *runner) exchange(t Target, c Case, in Input) Observed {
	if r.dead[t] {
		return Observed{Dead: true}
	}
	r.s.About(c.Label, describe(t, c, in))
	if r.record {
		r.hist = append(r.hist, sent{c, in})
	}
	r.accN++
	if c.Exp.HasID && (c.Exp.ID.K == 's' || (within53(c.Exp.ID.N) && plainIntRe.MatchString(c.Exp.ID.N))) {
		switch c.Exp.Class {
		case "result", "iserror", "unknown-method", "bad-params", "not-found", "handler-error":
			in.WantID = c.Exp.ID.Raw()
		}
	}
	op := t.ModelOp(in) // before the exchange: it carries the state the server is in when the input arrives
	o := t.Exchange(in)
	op["c"] = r.f.Comp + "." + op["k"].(string)
	delete(op, "k")
	nontrivial := len(o.Messages()) > 0 || (o.Status != nil && *o.Status >= 400)
	tags := append([]string{"server:" + t.Name()}, c.Tags...)
	r.s.Emit(op, o.Outcome(), nontrivial, tags...)
	isFuzz := false
	for _, tg := range c.Tags {
		isFuzz = isFuzz || tg == "fuzz"
	}
	for _, f := range Judge(t.Kind(), c.Exp, o) {
		if isFuzz && (strings.HasPrefix(f.what, "unserved-") || strings.HasPrefix(f.what, "unparsable-")) {
			// random inputs usually carry several defects at once: which one explains a silence is ambiguous, and the
			// deterministic mutation set covers every single one of them — only the stronger findings are taken from fuzzing
			continue
		}
		if r.wants(f.what) {
			fp := "rpc:" + t.Kind() + ":" + f.what
			if c.Exp.Cause != "" && (strings.HasPrefix(f.what, "unserved-") || strings.HasPrefix(f.what, "unparsable-")) {
				fp += ":" + c.Exp.Cause
			}
			r.s.Violate(hk.Violation{Fingerprint: fp,
				What:  fmt.Sprintf("%s server, input class %q: %s %s", t.Kind(), c.Exp.Class, f.what, f.detail),
				Input: describe(t, c, in), Observed: o.Outcome(), Expected: expectText(c.Exp)})
		}
	}
	if st, ok := t.(*streamable); ok && o.Framing != "" && o.Body != nil && (in.Hdr["Accept"] != "" || r.accN%16 == 0 || r.f.Kind != "wf") {
		// a request was answered: the Accept header chose the framing (responder.go createResponder -> ParseAcceptHeader)
		r.s.Emit(map[string]any{"c": r.f.Comp + ".accept", "postSSE": st.cfg.PostSSE, "hdr": st.headers(in)["Accept"]},
			map[string]any{"sse": o.Framing == "sse", "panic": false}, true, "accept-framing", "server:"+t.Name())
	}
	if r.f.Kind == "wf" {
		r.wfLines(t, c, in, o)
	}
	if o.Dead {
		if r.dead == nil {
			r.dead = map[Target]bool{}
		}
		r.dead[t] = true
		r.s.Violate(hk.Violation{Fingerprint: "rpc:" + t.Kind() + ":stopped-answering",
			What:  "after this input the server no longer answers a well-formed ping on the same connection; the rest of the batch was skipped",
			Input: describe(t, c, in), Observed: o.Outcome(), Expected: "the next well-formed request is served normally"})
	}
	return o
}

func expectText(e Expect) string {
	switch e.Class {
	case "result", "iserror":
		return "one JSON-RPC response with the request's id and a result of the MCP shape for " + e.Method
	case "unknown-method":
		return "JSON-RPC error -32601"
	case "bad-params":
		return "JSON-RPC error -32602"
	case "handler-error", "unencodable":
		return "JSON-RPC error -32603 carrying the handler's text"
	case "unparsable":
		return "HTTP 4xx or JSON-RPC error -32700 (with an id member: null)"
	case "unserved", "lenient":
		return "a non-2xx status or a JSON-RPC error (never an empty or successful 2xx, never silence)"
	case "not-found":
		return "a JSON-RPC error"
	case "notification", "response":
		return "accepted without an answer"
	}
	return "every emitted message well-formed"
}

// wfLines: every captured message also goes to the Lean predicate `wfMsg` (the one the theorems are about); the
// implementation side of the line is the verdict of the Go oracle.
func (r *runner) wfLines(t Target, c Case, in Input, o Observed) {
	var req any
	whole := t.Kind() == "stdio"
	if v, ok := ParseV(in.Body, whole); ok && in.Body != nil {
		req = map[string]any{"json": Compact(v).Enc()}
	}
	for _, m := range o.Messages() {
		ds := checkMsg(c.Exp, m)
		r.s.Emit(map[string]any{"c": r.f.Comp + ".wf", "req": req, "msg": m}, map[string]any{"wf": len(ds) == 0}, len(ds) > 0, "wf-line")
	}
}

// ---------------------------------------------------------------------------------------------------------------------

func (r *runner) targets(reg *Registry, kinds ...string) ([]Target, error) {
	var ts []Target
	for _, k := range kinds {
		var t Target
		var err error
		switch k {
		case "st-json":
			t, err = NewStreamable(StreamableCfg{Mode: "stateful", PostSSE: false}, reg)
		case "st-sse":
			t, err = NewStreamable(StreamableCfg{Mode: "stateful", PostSSE: true}, reg)
		case "stateless":
			t, err = NewStreamable(StreamableCfg{Mode: "stateless", PostSSE: false}, reg)
		case "nosession":
			t, err = NewStreamable(StreamableCfg{Mode: "sessionsOff", PostSSE: true}, reg)
		case "sse":
			t, err = NewSSE(reg)
		case "stdio":
			t, err = NewStdio(reg)
		}
		if err != nil {
			return nil, fmt.Errorf("%s: %w", k, err)
		}
		ts = append(ts, t)
	}
	return ts, nil
}

var allKinds = []string{"st-json", "st-sse", "stateless", "nosession", "sse", "stdio"}

func (r *runner) fail(where string, err error) {
	r.s.Violate(hk.Violation{Fingerprint: "rpc:harness:" + where, What: "harness could not set a server up: " + err.Error(), Input: where})
}

// bufSink keeps what one target's run produced, to be handed on in target order (the output does not depend on scheduling).
type bufSink struct{ calls []func(Sink) }

func (b *bufSink) Emit(op map[string]any, impl any, nt bool, tags ...string) {
	b.calls = append(b.calls, func(s Sink) { s.Emit(op, impl, nt, tags...) })
}
func (b *bufSink) Count(key string, nt bool, sample any, tags ...string) {
	b.calls = append(b.calls, func(s Sink) { s.Count(key, nt, sample, tags...) })
}
func (b *bufSink) Violate(v hk.Violation) { b.calls = append(b.calls, func(s Sink) { s.Violate(v) }) }
func (b *bufSink) SetExtra(k string, v any) {
	b.calls = append(b.calls, func(s Sink) { s.SetExtra(k, v) })
}
func (b *bufSink) About(label string, in any) {}

// runCases hands every case to every target. The Streamable HTTP targets run side by side (each on its own server, with
// its own runner state and output buffer), and so do legacy SSE and stdio: their quiescence checks count the request
// goroutines of their own kind.
func (r *runner) runCases(ts []Target, cs []Case) {
	runOne := func(rr *runner, t Target) {
		t0 := time.Now()
		defer func() {
			if os.Getenv("VERIF_RPC_TIMING") != "" {
				fmt.Fprintf(os.Stderr, "timing target %s: %v for %d cases\n", t.Name(), time.Since(t0), len(cs))
			}
		}()
		for _, c := range cs {
			in, ok := deliver(t, c.Body)
			if !ok {
				continue
			}
			rr.exchange(t, c, in)
		}
	}
	if r.f.Kind != "wf" {
		for _, t := range ts {
			runOne(r, t)
		}
		return
	}
	bufs := make([]*bufSink, len(ts))
	var wg sync.WaitGroup
	var serial []int
	for i, t := range ts {
		bufs[i] = &bufSink{}
		if t.Kind() != "streamable" {
			serial = append(serial, i)
			continue
		}
		wg.Add(1)
		go func(i int, t Target) {
			defer wg.Done()
			runOne(&runner{s: bufs[i], f: r.f, thorough: r.thorough}, t)
		}(i, t)
	}
	for _, i := range serial {
		wg.Add(1)
		go func(i int) {
			defer wg.Done()
			runOne(&runner{s: bufs[i], f: r.f, thorough: r.thorough}, ts[i])
		}(i)
	}
	wg.Wait()
	for _, b := range bufs {
		for _, call := range b.calls {
			call(r.s)
		}
	}
}

// ---- HTTP level (verbs, paths, session references, Accept)

func (r *runner) httpCases(t Target) {
	bodies := []struct {
		l string
		b []byte
	}{
		{"ping", []byte(`{"jsonrpc":"2.0","id":11,"method":"ping"}`)},
		{"initialize", []byte(env(Str("i"), "initialize", initParams("2025-03-26")).Raw())},
		{"initialize-bad", []byte(`{"jsonrpc":"2.0","id":12,"method":"initialize","params":{"protocolVersion":5}}`)},
		{"initialized", []byte(`{"jsonrpc":"2.0","method":"notifications/initialized"}`)},
		{"notification", []byte(`{"jsonrpc":"2.0","method":"notifications/verif","params":{"a":1}}`)},
		{"response", []byte(`{"jsonrpc":"2.0","id":13,"result":{}}`)},
		{"id-only", []byte(`{"jsonrpc":"2.0","id":14}`)},
		{"garbage", []byte(`{"jsonrpc":`)},
		{"empty", []byte{}},
		{"none", nil},
	}
	expOf := func(kind string, verb, path, ref string, bl string, mode string) Expect {
		served := verb == "POST" && (path == "ok" || path == "message")
		if kind == "streamable" {
			switch mode {
			case "stateful":
				served = served && (ref == "s0" || ref == "s1" || (ref == "none" && strings.HasPrefix(bl, "initialize")))
			}
		} else {
			served = served && ref == "live"
		}
		if !served {
			if kind == "streamable" && (verb == "GET" || verb == "DELETE") && path == "ok" {
				return Expect{Class: "free"} // the listening stream and session termination: C04 / C11
			}
			if kind == "sse" && verb == "GET" && path == "sse" {
				return Expect{Class: "free"}
			}
			cause := "session-" + ref
			if path == "wrong" || path == "other" {
				cause = "wrong-path"
			} else if verb != "POST" || path == "sse" {
				cause = "wrong-verb"
			}
			return Expect{Class: "unserved", Cause: cause}
		}
		switch bl {
		case "ping":
			return Expect{Class: "result", Method: "ping", HasID: true, ID: Int(11), Req: true}
		case "initialize":
			return Expect{Class: "result", Method: "initialize", HasID: true, ID: Str("i"), Req: true}
		case "initialize-bad":
			return Expect{Class: "bad-params", Method: "initialize", HasID: true, ID: Int(12), Req: true}
		case "initialized":
			return Expect{Class: "free"} // 202, or 500 when the session is not in the initialising state: C04 / C16
		case "notification":
			return Expect{Class: "notification"}
		case "response":
			return Expect{Class: "response"}
		case "id-only":
			return Expect{Class: "unserved", Cause: "id-without-method", Req: true}
		case "garbage", "empty", "none":
			return Expect{Class: "unparsable"}
		}
		return Expect{Class: "free"}
	}
	switch x := t.(type) {
	case *streamable:
		refs := []string{"none", "bogus", "s0", "s1", "dead"}
		for _, verb := range []string{"POST", "GET", "DELETE", "PUT", "PATCH", "OPTIONS"} {
			for _, path := range []string{"ok", "wrong"} {
				for _, ref := range refs {
					for _, accept := range []bool{false, true} {
						for _, b := range bodies {
							if verb != "POST" && b.l != "ping" && b.l != "none" {
								continue
							}
							if verb == "DELETE" && path == "ok" && (ref == "s0" || ref == "s1") && x.cfg.Mode == "stateful" {
								continue // would end the sessions the run depends on (session termination: C04)
							}
							if !r.thorough && accept && (ref == "bogus" || ref == "dead") {
								continue
							}
							in := Input{Verb: verb, Path: path, Ref: ref, Accept: accept, Body: b.b}
							c := Case{Label: fmt.Sprintf("http:%s:%s:%s:accept=%v:%s", verb, path, ref, accept, b.l),
								Exp: expOf("streamable", verb, path, ref, b.l, x.cfg.Mode), Tags: []string{"http-level", "verb:" + verb}}
							r.exchange(t, c, in)
						}
					}
				}
			}
		}
		r.headerCases(x, expOf)
	case *sseTarget:
		for _, verb := range []string{"POST", "GET", "DELETE", "PUT"} {
			for _, path := range []string{"message", "sse", "other"} {
				for _, ref := range []string{"missing", "unknown", "live"} {
					for _, b := range bodies {
						if verb != "POST" && b.l != "ping" && b.l != "none" {
							continue
						}
						if path != "message" && ref != "missing" {
							continue
						}
						if path == "sse" && verb == "GET" && b.l != "none" {
							continue
						}
						in := Input{Verb: verb, Path: path, Ref: ref, Body: b.b}
						c := Case{Label: fmt.Sprintf("http:%s:%s:%s:%s", verb, path, ref, b.l), Exp: expOf("sse", verb, path, ref, b.l, ""), Tags: []string{"http-level", "verb:" + verb}}
						r.exchange(t, c, in)
					}
				}
			}
		}
	}
}

// headerCases: request headers from their grammars, each with bodies of every kind (the Accept parser is reached only by a
// POST whose body carries a request).
func (r *runner) headerCases(x *streamable, expOf func(kind, verb, path, ref, bl, mode string) Expect) {
	ref := "none"
	if x.cfg.Mode == "stateful" {
		ref = "s0"
	}
	type body struct {
		l string
		b []byte
		e Expect
	}
	reqBody := body{"request", []byte(`{"jsonrpc":"2.0","id":11,"method":"ping"}`), expOf("streamable", "POST", "ok", ref, "ping", x.cfg.Mode)}
	others := []body{
		{"request-string-id", []byte(`{"jsonrpc":"2.0","id":"h","method":"tools/list"}`), Expect{Class: "result", Method: "tools/list", HasID: true, ID: Str("h"), Req: true}},
		{"request-null-id", []byte(`{"jsonrpc":"2.0","id":null,"method":"ping"}`), Expect{Class: "free", Method: "ping", Req: true}},
		{"notification", []byte(`{"jsonrpc":"2.0","method":"notifications/verif","params":{"a":1}}`), Expect{Class: "notification"}},
		{"response", []byte(`{"jsonrpc":"2.0","id":13,"result":{}}`), Expect{Class: "response"}},
		{"garbage", []byte(`{"jsonrpc":`), Expect{Class: "unparsable"}},
	}
	send := func(label string, b body, in Input) {
		in.Body = b.b
		r.exchange(x, Case{Label: label + ":" + b.l, Exp: b.e, Tags: []string{"http-level", "header-grammar"}}, in)
	}
	for i, h := range AcceptHeaders(r.rng, r.thorough) {
		in := Input{Verb: "POST", Path: "ok", Ref: ref, Hdr: map[string]string{"Accept": h}}
		send(hdrLabel("accept", i, h), reqBody, in)
		if r.thorough || i%4 == 0 {
			for _, b := range others {
				send(hdrLabel("accept", i, h), b, in)
			}
		}
	}
	for i, h := range ContentTypeHeaders() {
		for _, acc := range []bool{false, true} {
			in := Input{Verb: "POST", Path: "ok", Ref: ref, Accept: acc, Hdr: map[string]string{"Content-Type": h}}
			send(hdrLabel("content-type", i, h), reqBody, in)
			for _, b := range others {
				send(hdrLabel("content-type", i, h), b, in)
			}
		}
	}
	if sid, ok := x.sids["s0"]; ok {
		for _, m := range SessionHeaderMutations(sid) {
			in := Input{Verb: "POST", Path: "ok", Ref: "bogus", Accept: true, Hdr: map[string]string{"Mcp-Session-Id": m.Value}}
			bs := append([]body{reqBody}, others...)
			for _, b := range bs {
				if m.Resolves {
					in.Ref = "s0"
				} else if b.e.Class != "unparsable" {
					b.e = Expect{Class: "unserved", Cause: "session-bogus", Req: b.e.Req}
				}
				send("header:session:"+m.Label, b, in)
			}
			// the same on the other verbs that read the header
			for _, verb := range []string{"GET", "DELETE"} {
				if m.Resolves && verb == "DELETE" {
					continue // would end the session the run depends on
				}
				gin := Input{Verb: verb, Path: "ok", Ref: in.Ref, Hdr: in.Hdr}
				r.exchange(x, Case{Label: "header:session:" + m.Label + ":" + verb, Exp: Expect{Class: "free"}, Tags: []string{"http-level", "header-grammar", "verb:" + verb}}, gin)
			}
		}
	}
	for i, h := range LastEventIDs() {
		in := Input{Verb: "GET", Path: "ok", Ref: ref, Accept: true, Hdr: map[string]string{"Last-Event-ID": h}}
		r.exchange(x, Case{Label: hdrLabel("last-event-id", i, h), Exp: Expect{Class: "free"}, Tags: []string{"http-level", "header-grammar", "verb:GET"}}, in)
		pin := Input{Verb: "POST", Path: "ok", Ref: ref, Accept: true, Hdr: map[string]string{"Last-Event-ID": h}}
		send(hdrLabel("last-event-id", i, h), reqBody, pin)
	}
	// headers nobody reads, and oversized ones
	for i, h := range []map[string]string{{"Content-Encoding": "gzip"}, {"X-Forwarded-For": "999.999.999.999"}, {"Mcp-Protocol-Version": "garbage"},
		{"Authorization": "Bearer " + strings.Repeat("x", 3000)}, {"Mcp-Protocol-Version": ";q"}, {"Cookie": ";;;"}} {
		send(fmt.Sprintf("header:other:%d", i), reqBody, Input{Verb: "POST", Path: "ok", Ref: ref, Hdr: h})
	}
}

// ---- C03

func (r *runner) runWF() {
	t0 := time.Now()
	lap := func(what string) {
		if os.Getenv("VERIF_RPC_TIMING") != "" {
			fmt.Fprintf(os.Stderr, "timing wf %s: %v (%d goroutines)\n", what, time.Since(t0), runtime.NumGoroutine())
		}
	}
	defer lap("done")
	for _, regName := range []string{"full", "bare"} {
		reg := Registries[regName]
		ts, err := r.targets(reg, allKinds...)
		if err != nil {
			r.fail("setup-"+regName, err)
			return
		}
		vcs := ValidCases(reg, r.rng, r.thorough)
		if regName == "full" {
			vcs = append(VersionSequenceCases(reg), vcs...)
		}
		r.runCases(ts, vcs)
		for _, t := range ts {
			t.Close()
		}
	}
	reg := Registries["small"]
	cs := LifecycleCases(reg)
	cs = append(cs, IdEdgeCases(reg)...)
	cs = append(cs, StringClassCases(reg, r.thorough)...)
	cs = append(cs, MutationCases(reg, false)...)
	if r.thorough {
		cs = append(cs, DeepMutationCases(reg, 1)...) // (quick tier: in rpcsurvive)
	}
	cs = append(cs, OtherMessages(reg)...)
	cs = append(cs, GarbageCases(reg, r.rng, r.thorough)...)
	cs = append(cs, FuzzCases(reg, r.rng, r.fuzzN())...)
	lap("valid cases full+bare")
	// the Streamable servers first (side by side), then — once they are gone: every census of request goroutines dumps
	// the stacks of the whole process — legacy SSE and stdio (side by side)
	for _, group := range [][]string{{"st-json", "st-sse", "stateless", "nosession"}, {"sse", "stdio"}} {
		ts, err := r.targets(reg, group...)
		if err != nil {
			r.fail("setup-small", err)
			return
		}
		r.runCases(ts, cs)
		lap("small: mutation etc " + group[0])
		for _, t := range ts {
			r.httpCases(t)
			t.Close()
		}
	}
	lap("http cases")
	r.filtered()
	r.nilOutcomes()
	r.serverNotifications()
	lap("filtered, nil outcomes")
	r.longTexts()
	lap("long texts")
	r.pipelined(reg)
	r.s.SetExtra("cases", map[string]any{"mutation+other+garbage": len(cs)})
}

// filtered: servers configured with list filters — hiding everything (returning a nil slice / an empty one), hiding some
// entries, keyed on a value the context function takes from a request header — on every server kind that has the option
// (the stdio server has none). The emitted messages are judged like all others: model line, schema oracle, wfMsg.
func (r *runner) filtered() {
	base := Registries["full"]
	n := 0
	for _, variant := range []string{"hide-all-nil", "hide-all-empty", "hide-some", "ctx"} {
		reg := base.Filtered(variant)
		ts, err := r.targets(reg, "st-json", "st-sse", "stateless", "nosession", "sse")
		if err != nil {
			r.fail("setup-filter-"+variant, err)
			return
		}
		roles := []string{""}
		if variant == "ctx" {
			roles = []string{"", "admin", "some", "nobody"}
		}
		reqs := []baseReq{
			{"tools/list", "tools/list", nil}, {"tools/list-cursor", "tools/list", vp(Obj(F("cursor", Str("x"))))}, {"prompts/list", "prompts/list", nil},
			{"resources/list", "resources/list", vp(Obj())}, {"resources/templates/list", "resources/templates/list", nil},
			{"initialize", "initialize", initParams("2025-03-26")},
			// what a filter hides can still be used by name: the filters are about the lists only
			{"tools/call:text", "tools/call", vp(Obj(F("name", Str("text"))))}, {"prompts/get:p-ok", "prompts/get", vp(Obj(F("name", Str("p-ok"))))},
			{"resources/read:text", "resources/read", vp(Obj(F("uri", Str("verif://r/text"))))},
		}
		for _, t := range ts {
			for _, role := range roles {
				for i, b := range reqs {
					c := mkCase(reg, fmt.Sprintf("filter:%s:role=%s:%s", variant, role, b.label), wfIDs[i%4], b, "list-filter", "filter:"+variant)
					in, ok := deliver(t, c.Body)
					if !ok {
						continue
					}
					if role != "" {
						in.Hdr = map[string]string{RoleHeader: role}
					}
					r.exchange(t, c, in)
					n++
				}
			}
			t.Close()
		}
	}
	r.s.SetExtra("list_filter_exchanges", n)
}

// ---- C14

type normOut struct {
	Kind   string // result | error | silent | refused
	Code   int64
	Result any
}

func sortList(v any, key string) {
	m, ok := isObj(v)
	if !ok {
		return
	}
	a, ok := isArr(m[key])
	if !ok {
		return
	}
	sort.SliceStable(a, func(i, j int) bool {
		x, _ := isObj(a[i])
		y, _ := isObj(a[j])
		return fmt.Sprint(x["name"]) < fmt.Sprint(y["name"])
	})
}

func normalise(o Observed) normOut {
	ms := o.Messages()
	if len(ms) != 1 {
		if o.Status != nil && *o.Status >= 400 {
			return normOut{Kind: fmt.Sprintf("refused-%d", *o.Status)}
		}
		return normOut{Kind: fmt.Sprintf("silent-%d-messages", len(ms))}
	}
	if c, _, ok := errorCode(ms[0]); ok {
		return normOut{Kind: "error", Code: c}
	}
	m, _ := isObj(ms[0])
	res := m["result"]
	b, _ := json.Marshal(res)
	var cp any
	d := json.NewDecoder(bytes.NewReader(b))
	d.UseNumber()
	d.Decode(&cp)
	for _, k := range []string{"tools", "prompts", "resources"} {
		sortList(cp, k)
	}
	return normOut{Kind: "result", Result: cp}
}

func (r *runner) runAlike() {
	total, compared := 0, 0
	for _, regName := range []string{"full", "small", "bare"} {
		reg := Registries[regName]
		ts, err := r.targets(reg, allKinds...)
		if err != nil {
			r.fail("setup-"+regName, err)
			return
		}
		cs := ValidCases(reg, r.rng, r.thorough)
		if regName == "full" {
			cs = append(VersionSequenceCases(reg), cs...)
		}
		if regName == "small" {
			cs = append(cs, StringClassCases(reg, r.thorough)...)
			cs = append(cs, MutationCases(reg, false)...)
			cs = append(cs, GarbageCases(reg, r.rng, r.thorough)...)
			cs = append(cs, FuzzCases(reg, r.rng, 4*r.fuzzN())...)
		}
		for _, c := range cs {
			if !c.WF {
				continue // C14 speaks about well-formed envelopes
			}
			total++
			type seen struct {
				t Target
				n normOut
				o Observed
			}
			var outs []seen
			for _, t := range ts {
				in, ok := deliver(t, c.Body)
				if !ok {
					continue
				}
				cc := c
				cc.Tags = append([]string{"common:" + fmt.Sprint(c.Common)}, c.Tags...)
				o := r.exchange(t, cc, in)
				outs = append(outs, seen{t, normalise(o), o})
			}
			if !c.Common {
				// methods only the dispatch table knows: the divergence is outside the statement, counted only
				if len(outs) > 1 && !reflect.DeepEqual(outs[0].n, outs[len(outs)-1].n) {
					r.s.Count("divergent:"+c.Label, true, nil, "outside-common-methods-divergent")
				}
				continue
			}
			compared++
			for _, x := range outs[1:] {
				if !reflect.DeepEqual(outs[0].n, x.n) {
					m := c.Exp.Method
					r.s.Violate(hk.Violation{Fingerprint: "rpc:alike:" + m + ":" + outs[0].n.Kind + "-vs-" + x.n.Kind,
						What:     fmt.Sprintf("the same request is answered differently by %s and %s", outs[0].t.Name(), x.t.Name()),
						Input:    map[string]any{"case": c.Label, "registry": regName, "body": string(c.Body)},
						Observed: map[string]any{outs[0].t.Name(): outs[0].o.Outcome(), x.t.Name(): x.o.Outcome()},
						Expected: "equal result (lists as multisets) or equal error code on every transport"})
				}
			}
		}
		for _, t := range ts {
			t.Close()
		}
	}
	r.overlap()
	r.s.SetExtra("alike", map[string]any{"well_formed_requests": total, "compared_on_common_methods": compared})
}

// ---- C06

const goodBody = `{"jsonrpc":"2.0","id":"good","method":"tools/call","params":{"name":"echo","arguments":{"k":[1,"two",{"three":3}]}}}`

// probe: the liveness checks after a batch — the reference request is answered as on the fresh server, a ping works on the
// connection in use and on a fresh one, and a complete new session can be set up on a new connection. "" = all fine.
func (r *runner) probe(t Target, goodIn Input, ref Observed, after string) string {
	kind := t.Kind()
	r.s.About("good-request after "+after, map[string]any{"server": t.Name(), "body": goodBody})
	o := t.Exchange(goodIn)
	same := reflect.DeepEqual(o.Outcome(), ref.Outcome())
	if !same && o.Aborted && !o.Panic && !o.Dead {
		// the transport failed without any sign of trouble on the server (no panic text, no timeout): a keep-alive
		// connection that the two ends gave up at the same moment is the client's problem — counted as noise, and the
		// request is made once more; a server that really drops connections fails again (and fails the pings below)
		r.s.Count("noise:transport-hiccup:"+t.Name(), false, map[string]any{"after": after, "problems": o.Problems}, "noise")
		o = t.Exchange(goodIn)
		same = reflect.DeepEqual(o.Outcome(), ref.Outcome())
	}
	r.s.Count("good:"+t.Name()+":"+after, same, nil, "good-request-after-garbage")
	if !same {
		r.s.Violate(hk.Violation{Fingerprint: "rpc:" + kind + ":good-request-after-garbage-differs",
			What:  "a well-formed request is answered differently after malformed input than on a fresh server",
			Input: map[string]any{"server": t.Name(), "after": after, "body": goodBody}, Observed: map[string]any{"outcome": o.Outcome(), "peer_problems": o.Problems}, Expected: ref.Outcome()})
	}
	if why := t.Alive(); why != "" {
		r.s.Violate(hk.Violation{Fingerprint: "rpc:" + kind + ":not-alive-after-batch", What: "ping after a batch of malformed input: " + why,
			Input: map[string]any{"server": t.Name(), "after": after}})
		return "ping: " + why
	}
	r.s.Count("handshake:"+t.Name()+":"+after, true, nil, "fresh-session-handshake")
	if why := t.Handshake(); why != "" {
		return "fresh session: " + why
	}
	return ""
}

// locate finds the shortest prefix of the history after which a fresh session can no longer be set up: first the last
// batch alone, one input at a time on a new server, then — if that does not reproduce it — the whole history.
func (r *runner) locate(mk func() (Target, error), batchStart int) (int, string) {
	try := func(from int) (int, string) {
		t2, err := mk()
		if err != nil {
			return -1, ""
		}
		defer t2.Close()
		for i := from; i < len(r.hist); i++ {
			if o := t2.Exchange(r.hist[i].in); o.Dead {
				return i, "on the connection in use: " + strings.Join(o.Problems, "; ")
			}
			if why := t2.Handshake(); why != "" {
				return i, why
			}
		}
		return -1, ""
	}
	if i, why := try(batchStart); i >= 0 {
		return i, why
	}
	if batchStart > 0 && len(r.hist) <= 4000 {
		return try(0)
	}
	return -1, ""
}

func (r *runner) unresponsive(t Target, mk func() (Target, error), batchStart int, why string) {
	hist := r.hist
	r.record = false
	idx, why2 := r.locate(mk, batchStart)
	class, input := "unlocated", any(map[string]any{"server": t.Name(), "last_inputs": labels(hist[batchStart:])})
	what := "after this batch of inputs a new client can no longer complete initialize / notifications/initialized / tools/list on a new connection (" + why + "); replaying the inputs on a fresh server did not reproduce it"
	if idx >= 0 {
		c := hist[idx]
		class = c.c.Exp.Class
		if c.c.Exp.Method != "" {
			class += ":" + c.c.Exp.Method
		}
		from := batchStart
		if idx < batchStart {
			from = 0
		}
		input = map[string]any{"culprit": describe(t, c.c, c.in), "inputs_before_it_on_a_fresh_server": labels(hist[from:idx])}
		what = "after this input the server no longer serves (probe: the connection in use, then a new connection with initialize / notifications/initialized / tools/list): " + why2
	}
	r.s.Violate(hk.Violation{Fingerprint: "rpc:" + t.Kind() + ":unresponsive-after-input:" + class, What: what, Input: input,
		Observed: why, Expected: "the next well-formed request from any client is served normally"})
	if r.dead == nil {
		r.dead = map[Target]bool{}
	}
	r.dead[t] = true
}

func labels(h []sent) []string {
	out := []string{}
	for _, x := range h {
		out = append(out, x.c.Label)
	}
	if len(out) > 40 {
		out = append([]string{fmt.Sprintf("… %d earlier inputs …", len(out)-40)}, out[len(out)-40:]...)
	}
	return out
}

func (r *runner) surviveOn(t Target, cs []Case, mk func() (Target, error)) {
	kind := t.Kind()
	t0 := time.Now()
	lap := func(what string) {
		if os.Getenv("VERIF_RPC_TIMING") != "" {
			fmt.Fprintf(os.Stderr, "timing %s %s: %v\n", t.Name(), what, time.Since(t0))
		}
	}
	defer lap("done")
	base := LibGoroutines()
	goodIn, _ := deliver(t, []byte(goodBody))
	ref := t.Exchange(goodIn)
	if len(ref.Messages()) != 1 {
		r.s.Violate(hk.Violation{Fingerprint: "rpc:" + kind + ":reference-request-unanswered", What: "the well-formed reference request is not answered on a fresh server", Input: goodBody, Observed: ref.Outcome()})
		return
	}
	r.hist, r.record = nil, true
	defer func() { r.record = false }()
	batchStart := 0
	check := func(after string) {
		if r.dead[t] {
			return
		}
		r.record = false
		why := r.probe(t, goodIn, ref, after)
		r.record = true
		if why != "" && strings.HasPrefix(why, "fresh session") {
			r.unresponsive(t, mk, batchStart, why)
		}
		batchStart = len(r.hist)
	}
	step := func(c Case, in Input) {
		if r.dead[t] {
			return
		}
		if time.Since(t0) > 4*time.Minute {
			// far beyond anything a healthy server needs (a quick run takes seconds): stop instead of running into the
			// component's timeout and losing everything found so far
			r.s.Violate(hk.Violation{Fingerprint: "rpc:" + kind + ":run-budget-exceeded", What: "the server answers so slowly that the run was cut short after 4 minutes",
				Input: describe(t, c, in)})
			if r.dead == nil {
				r.dead = map[Target]bool{}
			}
			r.dead[t] = true
			return
		}
		if o := r.exchange(t, c, in); o.Dead {
			// the server stopped answering on the connection in use: find the input after which that began
			r.unresponsive(t, mk, batchStart, strings.Join(o.Problems, "; "))
		}
	}
	// repeated life-cycle messages first, in order, then everything else shuffled
	for _, c := range LifecycleCases(t.Reg()) {
		if in, ok := deliver(t, c.Body); ok {
			step(c, in)
		}
	}
	check("life-cycle sequence")
	for i, c := range cs {
		in, ok := deliver(t, c.Body)
		if !ok {
			continue
		}
		step(c, in)
		if i%25 == 24 {
			check(c.Label)
		}
	}
	check("the last inputs")
	lap("cases")
	r.httpCases(t)
	check("http-level cases")
	lap("http")
	if st, ok := t.(*streamable); ok && !r.dead[t] {
		r.record = false
		r.rawTCP(st)
		r.record = true
		check("raw TCP garbage")
		lap("rawtcp")
	}
	if r.dead[t] {
		return
	}
	r.record = false
	if st, ok := t.(*streamable); ok && st.cfg.Mode == "stateful" {
		r.secondGet(st)
		lap("second GET")
	}
	r.stalledPeer(t)
	lap("stalled peer")
	if r.dead[t] {
		return
	}
	// census after quiescence
	waitQuiet(5 * time.Second)
	deadline := time.Now().Add(3 * time.Second)
	n := LibGoroutines()
	for n > base+3 && time.Now().Before(deadline) {
		time.Sleep(20 * time.Millisecond)
		n = LibGoroutines()
	}
	r.s.Count("census:"+t.Name(), true, map[string]any{"server": t.Name(), "library_goroutines_before": base, "after": n}, "goroutine-census")
	if n > base+3 {
		r.s.Violate(hk.Violation{Fingerprint: "rpc:" + kind + ":goroutine-leak", What: fmt.Sprintf("library goroutines grew from %d to %d over %d inputs and did not come back", base, n, len(cs)),
			Input: map[string]any{"server": t.Name(), "inputs": len(cs)}})
	}
}

// secondGet: a duplicated GET / a reconnect that arrives while the session's first listening stream is still open on the
// server (which stream survives is C11's subject): the second GET must be answered, and so must, afterwards, the GET of
// another session, a DELETE and a POST — a server whose stream bookkeeping dead-locks answers none of them.
func (r *runner) secondGet(t *streamable) {
	if r.dead[t] {
		return
	}
	type opened struct {
		code int
		st   *hk.Stream
		err  error
	}
	open := func(sid string) (opened, bool) {
		ch := make(chan opened, 1)
		go func() {
			code, _, st, err := t.fx.OpenStream(map[string]string{"Mcp-Session-Id": sid})
			ch <- opened{code, st, err}
		}()
		select {
		case o := <-ch:
			return o, true
		case <-time.After(stepCeiling):
			go func() { // whenever it does come back: hang up
				if o := <-ch; o.st != nil {
					o.st.CloseByClient()
				}
			}()
			return opened{}, false
		}
	}
	r.s.About("second GET of a session", map[string]any{"server": t.Name()})
	vio := func(what, detail string) {
		r.s.Violate(hk.Violation{Fingerprint: "rpc:streamable:" + what, What: detail,
			Input:    map[string]any{"server": t.Name(), "scenario": "GET (listening stream) of session A, left open; a second GET of session A; then GET of session B, a POST ping, DELETE of a fresh session"},
			Expected: "every request is answered (which of the two streams of A stays open is another property's subject)"})
		if r.dead == nil {
			r.dead = map[Target]bool{}
		}
		r.dead[t] = true
	}
	for round := 0; round < 3 && !r.dead[t]; round++ {
		a, ok := open(t.sids["s1"])
		if !ok || a.err != nil || a.code != 200 {
			r.s.Count("second-get:first-not-opened:"+t.Name(), false, map[string]any{"answered": ok, "status": a.code}, "second-get")
			if !ok {
				vio("get-unanswered", "the GET of a session that has no stream yet was not answered within "+stepCeiling.String())
			}
			return
		}
		b, ok := open(t.sids["s1"])
		if !ok {
			vio("second-get-unanswered", "a second GET of a session whose first listening stream is still open was not answered within "+stepCeiling.String())
		}
		var c opened
		if !r.dead[t] {
			if c, ok = open(t.sids["s0"]); !ok {
				vio("get-unanswered-after-second-get", "after a second GET of session A, the GET of session B was not answered within "+stepCeiling.String())
			}
		}
		for _, o := range []opened{a, b, c} {
			if o.st != nil {
				o.st.CloseByClient()
			}
		}
		if !r.dead[t] {
			if why := t.Alive(); why != "" {
				vio("not-alive-after-second-get", "after a second GET of a session: "+why)
			} else if why := t.Handshake(); why != "" {
				vio("unresponsive-after-second-get", "after a second GET of a session a fresh client is not served: "+why)
			}
		}
		r.s.Count(fmt.Sprintf("second-get:%s:%d", t.Name(), round), !r.dead[t], map[string]any{"second_get_status": b.code, "other_session_get_status": c.code}, "second-get")
	}
}

// rawTCP: what a Go http.Client refuses to send. net/http answers these itself (trusted); the server must stay alive.
func (r *runner) rawTCP(t *streamable) {
	addr := t.fx.TS.Listener.Addr().String()
	body := `{"jsonrpc":"2.0","id":1,"method":"ping"}`
	reqs := []string{
		"POST /mcp HTTP/1.1\r\nHost: x\r\nContent-Type: application/json\r\nMcp-Session-Id: a\r\nMcp-Session-Id: b\r\nContent-Length: " + fmt.Sprint(len(body)) + "\r\n\r\n" + body,
		"POST /mcp HTTP/1.1\r\nHost: x\r\nContent-Length: 5\r\nContent-Length: 7\r\n\r\nabcdefg",
		"POST /mcp HTTP/1.1\r\nHost: x\r\nContent-Length: 999999\r\n\r\n" + body,
		"POST /mcp HTTP/1.1\r\nHost: x\r\nTransfer-Encoding: chunked\r\n\r\nzz\r\n",
		"POST /mcp HTTP/1.1\r\n\x00garbage header\r\n\r\n",
		"POST /mcp HTTP/1.1\r\nHost: x\r\nContent-Type: application/json\r\nContent-Length: " + fmt.Sprint(len(body)) + "\r\n\r\n" + body + "POST /mcp HT",
		"GARBAGE\r\n\r\n",
		"POST /mcp HTTP/9.9\r\nHost: x\r\n\r\n",
		"POST /mcp HTTP/1.1\r\nHost: x\r\nContent-Length: -1\r\n\r\n",
		"\x16\x03\x01\x02\x00\x01\x00\x01\xfc\x03\x03",
	}
	for i, rq := range reqs {
		r.s.About(fmt.Sprintf("raw-tcp-%d", i), map[string]any{"server": t.Name(), "bytes": rq})
		conn, err := net.DialTimeout("tcp", addr, 2*time.Second)
		if err != nil {
			r.s.Violate(hk.Violation{Fingerprint: "rpc:streamable:not-alive-after-batch", What: "cannot connect: " + err.Error(), Input: rq})
			return
		}
		conn.SetDeadline(time.Now().Add(3 * time.Second))
		conn.Write([]byte(rq))
		conn.(*net.TCPConn).CloseWrite() // nothing more will come: the server sees the end of the input right away
		io.Copy(io.Discard, io.LimitReader(conn, 1<<16))
		conn.Close()
		r.s.Count(fmt.Sprintf("rawtcp:%s:%d", t.Name(), i), true, nil, "raw-tcp")
		if pl := t.plog.take(); strings.Contains(pl, "panic") {
			r.s.Violate(hk.Violation{Fingerprint: "rpc:streamable:panic", What: "panic text on the server's ErrorLog: " + pl, Input: rq})
		}
	}
}

func (r *runner) surviveCases(reg *Registry) []Case {
	cs := MutationCases(reg, false)
	cs = append(cs, OtherMessages(reg)...)
	cs = append(cs, GarbageCases(reg, r.rng, r.thorough)...)
	cs = append(cs, FuzzCases(reg, r.rng, r.fuzzN())...)
	cs = append(cs, ValidCases(reg, r.rng, false)...)
	cs = append(cs, IdEdgeCases(reg)...)
	cs = append(cs, StringClassCases(reg, r.thorough)...)
	if r.thorough {
		cs = append(cs, DeepMutationCases(reg, 1)...)
	} else {
		cs = append(cs, DeepMutationCases(reg, 2)...) // (the members of params themselves: MutationCases)
	}
	r.rng.Shuffle(len(cs), func(i, j int) { cs[i], cs[j] = cs[j], cs[i] })
	return cs
}

func (r *runner) runSurvive(only string) {
	reg := Registries["small"]
	kinds := allKinds
	if only != "" {
		kinds = []string{only}
	}
	for _, k := range kinds {
		ts, err := r.targets(reg, k)
		if err != nil {
			r.fail("setup-"+k, err)
			continue
		}
		kk := k
		var exp *expiryProbe
		if k == "st-json" {
			exp = newExpiryProbe() // its sessions grow old while the batch below runs
		}
		r.surviveOn(ts[0], r.surviveCases(reg), func() (Target, error) {
			t2, err := r.targets(reg, kk)
			if err != nil {
				return nil, err
			}
			return t2[0], nil
		})
		ts[0].Close()
		t1 := time.Now()
		lap := func(what string) {
			if os.Getenv("VERIF_RPC_TIMING") != "" {
				fmt.Fprintf(os.Stderr, "timing scenario %s %s: %v\n", k, what, time.Since(t1))
			}
			t1 = time.Now()
		}
		if exp != nil {
			exp.run(r)
			lap("expiry")
		}
		r.manyInFlight(k)
		lap("in-flight")
		r.peerLeavesMidCall(k)
		lap("peer leaves mid-call")
		if k == "st-json" || k == "sse" || k == "stdio" {
			r.malformedResponses(k)
			lap("malformed responses")
			r.responseRace(k)
			lap("response race")
		}
		r.handshakeStorm(k)
		lap("storm")
	}
}

// ---------------------------------------------------------------------------------------------------------------------
// child processes: a panic in a goroutine without recover (legacy SSE, stdio) kills the process that hosts the server

type lineSink struct{ w *bufio.Writer }

func (l lineSink) put(m map[string]any) {
	b, _ := json.Marshal(m)
	l.w.Write(b)
	l.w.WriteByte('\n')
	l.w.Flush()
}
func (l lineSink) Emit(op map[string]any, impl any, nt bool, tags ...string) {
	l.put(map[string]any{"t": "emit", "op": op, "impl": impl, "nt": nt, "tags": tags})
}
func (l lineSink) Count(key string, nt bool, sample any, tags ...string) {
	l.put(map[string]any{"t": "count", "key": key, "nt": nt, "sample": sample, "tags": tags})
}
func (l lineSink) Violate(v hk.Violation)   { l.put(map[string]any{"t": "vio", "v": v}) }
func (l lineSink) SetExtra(k string, v any) { l.put(map[string]any{"t": "extra", "k": k, "v": v}) }
func (l lineSink) About(label string, in any) {
	l.put(map[string]any{"t": "about", "label": label, "input": in})
}

const childEnv = "VERIF_RPC_CHILD"

func childMain(f Focus) {
	var job struct {
		Kind string `json:"kind"`
		Tier string `json:"tier"`
		Seed int64  `json:"seed"`
	}
	if err := json.Unmarshal([]byte(os.Getenv(childEnv)), &job); err != nil {
		fmt.Fprintln(os.Stderr, "child: bad job:", err)
		os.Exit(3)
	}
	ls := lineSink{bufio.NewWriterSize(os.Stdout, 1<<20)}
	r := &runner{s: ls, f: f, rng: rand.New(rand.NewSource(job.Seed)), thorough: job.Tier == "thorough"}
	if strings.HasPrefix(job.Kind, "fresh-") {
		r.freshServers(strings.TrimPrefix(job.Kind, "fresh-"))
	} else {
		r.runSurvive(job.Kind)
	}
	ls.put(map[string]any{"t": "done"})
}

// inChild runs the survive batch of one server kind in a child process and relays its records.
// startChildren starts one child process per job kind, all at once (they run beside whatever the parent does next), and
// returns the function that waits for them and hands their records on — in the order of `kinds`, whatever the scheduling.
func (r *runner) startChildren(c *hk.Ctx, kinds []string) (wait func()) {
	bufs := make([]*bufSink, len(kinds))
	var wg sync.WaitGroup
	for i, k := range kinds {
		bufs[i] = &bufSink{}
		wg.Add(1)
		go func(i int, k string) {
			defer wg.Done()
			(&runner{s: bufs[i], f: r.f, thorough: r.thorough}).inChild(c.Tier, c.Seed, bufs[i], k)
		}(i, k)
	}
	return func() {
		wg.Wait()
		for _, b := range bufs {
			for _, call := range b.calls {
				call(r.s)
			}
		}
	}
}

func (r *runner) inChild(tier string, seed int64, c Sink, kind string) {
	job, _ := json.Marshal(map[string]any{"kind": kind, "tier": tier, "seed": seed})
	cmd := exec.Command(os.Args[0])
	cmd.Env = append(os.Environ(), childEnv+"="+string(job))
	var stderr bytes.Buffer
	cmd.Stderr = &stderr
	out, err := cmd.StdoutPipe()
	if err != nil {
		r.fail("child-"+kind, err)
		return
	}
	if err := cmd.Start(); err != nil {
		r.fail("child-"+kind, err)
		return
	}
	var last any
	done := false
	rd := bufio.NewReaderSize(out, 1<<20)
	for {
		line, err := rd.ReadBytes('\n')
		if len(line) > 0 {
			var m struct {
				T      string         `json:"t"`
				Op     map[string]any `json:"op"`
				Impl   any            `json:"impl"`
				NT     bool           `json:"nt"`
				Tags   []string       `json:"tags"`
				Key    string         `json:"key"`
				Sample any            `json:"sample"`
				V      hk.Violation   `json:"v"`
				K      string         `json:"k"`
				Val    any            `json:"v2"`
				Label  string         `json:"label"`
				Input  any            `json:"input"`
			}
			d := json.NewDecoder(bytes.NewReader(line))
			d.UseNumber()
			if d.Decode(&m) == nil {
				switch m.T {
				case "emit":
					c.Emit(m.Op, m.Impl, m.NT, m.Tags...)
				case "count":
					c.Count(m.Key, m.NT, m.Sample, m.Tags...)
				case "vio":
					c.Violate(m.V)
				case "about":
					last = map[string]any{"label": m.Label, "input": m.Input}
				case "done":
					done = true
				}
			}
		}
		if err != nil {
			break
		}
	}
	werr := cmd.Wait()
	if !done || werr != nil {
		tail := stderr.String()
		if i := strings.Index(tail, "panic:"); i >= 0 {
			tail = tail[i:]
		} else if i := strings.Index(tail, "fatal error:"); i >= 0 {
			tail = tail[i:]
		}
		if len(tail) > 1500 {
			tail = tail[:1500]
		}
		c.Violate(hk.Violation{Fingerprint: "rpc:" + kindOf(kind) + ":process-died",
			What:  fmt.Sprintf("the process hosting the %s server died while serving an input (%v)", kind, werr),
			Input: last, Observed: tail, Expected: "the server answers the input with an error and keeps serving"})
	}
}

func kindOf(k string) string {
	k = strings.TrimPrefix(k, "fresh-")
	if k == "sse" || k == "stdio" {
		return k
	}
	return "streamable"
}

// Main is the entry point of the three components.
func Main(f Focus, rule string) {
	if os.Getenv(childEnv) != "" {
		childMain(f)
		return
	}
	hk.Main(&hk.Component{Name: f.Comp, Rule: rule, Run: func(c *hk.Ctx) {
		debug.SetGCPercent(400) // the runs allocate a lot of short-lived JSON; collect less often
		if pf := os.Getenv("VERIF_RPC_PROF"); pf != "" {
			if f, err := os.Create(pf); err == nil {
				pprof.StartCPUProfile(f)
				defer pprof.StopCPUProfile()
			}
		}
		r := &runner{s: ctxSink{c}, f: f, rng: c.Rng, thorough: c.Thorough()}
		switch f.Kind {
		case "wf":
			wait := r.startChildren(c, FreshKinds)
			r.runWF()
			wait()
		case "alike":
			r.runAlike()
		case "survive":
			// legacy SSE and stdio run in child processes (a panic there kills the process), beside the Streamable runs
			wait := r.startChildren(c, append([]string{"sse", "stdio"}, FreshKinds...))
			for _, k := range allKinds {
				if k != "sse" && k != "stdio" {
					r.runSurvive(k)
				}
			}
			wait()
		}
	}})
}
