package rpckit

import (
	"context"
	"encoding/json"
	"errors"
	"fmt"
	"io"
	"net/http"
	"sort"
	"strings"
	"time"

	mcp "trpc.group/trpc-go/trpc-mcp-go"
)

type spec = map[string]any

// One registered tool: the real handler and the outcome spec the Lean driver turns into the model's `run` function.
type toolDef struct {
	name, desc string
	out        spec
	handler    func(ctx context.Context, req *mcp.CallToolRequest) (*mcp.CallToolResult, error)
	// what the oracles expect of a valid call: "result" | "iserror" | "handler-error" | "unencodable"
	class string
	// the handler's error text (class handler-error)
	errText string
	// deviations of the result value itself that the property's full statement forbids ("" = none)
	quirk string
	// descriptor options beyond the description (schema properties, annotations) and the annotations as the model reads them
	opts []mcp.ToolOption
	ann  spec
}

func (t toolDef) descriptor() *mcp.Tool {
	return mcp.NewTool(t.name, append([]mcp.ToolOption{mcp.WithDescription(t.desc)}, t.opts...)...)
}

type promptDef struct {
	name, desc string
	args       []mcp.PromptArgument
	out        spec
	handler    func(ctx context.Context, req *mcp.GetPromptRequest) (*mcp.GetPromptResult, error)
	class      string
	errText    string
	quirk      string
}

type resourceDef struct {
	name, uri, desc, mime string
	size                  int64
	out                   spec
	single                func(ctx context.Context, req *mcp.ReadResourceRequest) (mcp.ResourceContents, error)
	multi                 func(ctx context.Context, req *mcp.ReadResourceRequest) ([]mcp.ResourceContents, error)
	class                 string
	errText               string
	quirk                 string
}

// Registry is a named set of registrations, the same on every server.
type Registry struct {
	Name      string
	tools     []toolDef
	prompts   []promptDef
	resources []resourceDef
	specCache spec
	// list filters installed on the server ("" = none): hide-all-nil | hide-all-empty | hide-some | ctx
	Filter string
}

// RoleHeader: the request header the context function of the "ctx" filter variant copies into the request context.
const RoleHeader = "X-Verif-Role"

type roleKey struct{}

// RoleContext is the context function installed with the "ctx" filters.
func RoleContext(ctx context.Context, r *http.Request) context.Context {
	return context.WithValue(ctx, roleKey{}, r.Header.Get(RoleHeader))
}

// Filtered returns a copy of the registry whose servers carry list filters of the given variant.
func (r *Registry) Filtered(variant string) *Registry {
	return &Registry{Name: r.Name + "+filter:" + variant, tools: r.tools, prompts: r.prompts, resources: r.resources, Filter: variant}
}

// what a filter does with a list: "all" | "some" | "nil" | "empty"
func (r *Registry) filterMode(role string, list string) string {
	switch r.Filter {
	case "hide-all-nil":
		return "nil"
	case "hide-all-empty":
		return "empty"
	case "hide-some":
		return "some"
	case "ctx":
		switch role {
		case "admin":
			return "all"
		case "some":
			return "some"
		}
		// everybody else sees nothing — a nil slice from one filter, an empty one from the next
		if list == "prompts" {
			return "empty"
		}
		return "nil"
	}
	return "all"
}

// keepSome: the entries "hide-some" lets through (chosen by name, so that the model can be told)
func keepSome(name string) bool { return len(name)%2 == 0 }

func filterList[T any](mode string, in []*T, name func(*T) string) []*T {
	switch mode {
	case "nil":
		return nil
	case "empty":
		return in[:0]
	case "some":
		out := make([]*T, 0)
		for _, x := range in {
			if x != nil && keepSome(name(x)) {
				out = append(out, x)
			}
		}
		return out
	}
	return in
}

func (r *Registry) toolFilter(ctx context.Context, in []*mcp.Tool) []*mcp.Tool {
	role, _ := ctx.Value(roleKey{}).(string)
	return filterList(r.filterMode(role, "tools"), in, func(t *mcp.Tool) string { return t.Name })
}
func (r *Registry) promptFilter(ctx context.Context, in []*mcp.Prompt) []*mcp.Prompt {
	role, _ := ctx.Value(roleKey{}).(string)
	return filterList(r.filterMode(role, "prompts"), in, func(t *mcp.Prompt) string { return t.Name })
}
func (r *Registry) resourceFilter(ctx context.Context, in []*mcp.Resource) []*mcp.Resource {
	role, _ := ctx.Value(roleKey{}).(string)
	return filterList(r.filterMode(role, "resources"), in, func(t *mcp.Resource) string { return t.URI })
}

// StreamableOptions / SSEOptions: the server options the registry's filter variant needs.
func (r *Registry) StreamableOptions() []mcp.ServerOption {
	if r.Filter == "" {
		return nil
	}
	return []mcp.ServerOption{mcp.WithHTTPContextFunc(RoleContext), mcp.WithToolListFilter(r.toolFilter),
		mcp.WithPromptListFilter(r.promptFilter), mcp.WithResourceListFilter(r.resourceFilter)}
}
func (r *Registry) SSEOptions() []mcp.SSEOption {
	if r.Filter == "" {
		return nil
	}
	return []mcp.SSEOption{mcp.WithSSEContextFunc(RoleContext), mcp.WithSSEToolListFilter(r.toolFilter),
		mcp.WithSSEPromptListFilter(r.promptFilter), mcp.WithSSEResourceListFilter(r.resourceFilter)}
}

// SpecFor: the registry as the Lean driver reads it for a request made under `role` — with the names / uris each list
// filter lets through (absent: no filter).
func (r *Registry) SpecFor(role string) spec {
	base := r.Spec()
	if r.Filter == "" {
		return base
	}
	out := spec{}
	for k, v := range base {
		out[k] = v
	}
	shown := func(list string, names []string) []any {
		res := []any{}
		switch r.filterMode(role, list) {
		case "all":
			for _, n := range names {
				res = append(res, n)
			}
		case "some":
			for _, n := range names {
				if keepSome(n) {
					res = append(res, n)
				}
			}
		}
		return res
	}
	var tn, pn, rn []string
	for _, t := range r.tools {
		tn = append(tn, t.name)
	}
	for _, p := range r.prompts {
		pn = append(pn, p.name)
	}
	for _, x := range r.resources {
		rn = append(rn, x.uri)
	}
	out["listTools"], out["listPrompts"], out["listResources"] = shown("tools", tn), shown("prompts", pn), shown("resources", rn)
	return out
}

// what encoding/json says about a channel inside a result
const encoderSays = "json: unsupported type: chan int"

func textC(s string) spec { return spec{"k": "text", "text": s, "ann": nil} }

func resultSpec(content any, structured any, isErr bool, meta spec) spec {
	if meta == nil {
		meta = spec{}
	}
	return spec{"meta": meta, "content": content, "structured": structured, "isError": isErr}
}

func fixedTool(name, desc, class string, r *mcp.CallToolResult, rs spec, quirk string) toolDef {
	return toolDef{name: name, desc: desc, class: class, quirk: quirk, out: spec{"k": "result", "r": rs},
		handler: func(ctx context.Context, req *mcp.CallToolRequest) (*mcp.CallToolResult, error) { return r, nil }}
}

var allTools = []toolDef{
	{name: "echo", desc: "returns its arguments as structured content", class: "result", out: spec{"k": "echo"},
		handler: func(ctx context.Context, req *mcp.CallToolRequest) (*mcp.CallToolResult, error) {
			return &mcp.CallToolResult{Content: []mcp.Content{}, StructuredContent: req.Params.Arguments}, nil
		}},
	fixedTool("text", "one text item", "result",
		&mcp.CallToolResult{Content: []mcp.Content{mcp.NewTextContent("hello\nworld <&> \u2028 é")}},
		resultSpec([]any{textC("hello\nworld <&> \u2028 é")}, nil, false, nil), ""),
	fixedTool("rich", "image, audio and annotated text", "result",
		&mcp.CallToolResult{Content: []mcp.Content{mcp.NewImageContent("aGk=", "image/png"), mcp.NewAudioContent("AAAA", "audio/wav"),
			annotated(mcp.NewTextContent(""), []mcp.Role{"user", "assistant"}, 0.5)},
			StructuredContent: map[string]any{"a": []any{1, "x", nil}, "b": map[string]any{}}, Result: mcp.Result{Meta: map[string]any{"k": 1}}},
		resultSpec([]any{spec{"k": "image", "data": "aGk=", "mime": "image/png", "ann": nil}, spec{"k": "audio", "data": "AAAA", "mime": "audio/wav", "ann": nil},
			spec{"k": "text", "text": "", "ann": spec{"aud": []any{"user", "assistant"}, "pri": spec{"m": 5, "e": 1}}}},
			spec{"some": map[string]any{"a": []any{1, "x", nil}, "b": map[string]any{}}}, false, spec{"k": 1}), ""),
	fixedTool("embedded", "an embedded resource", "result",
		&mcp.CallToolResult{Content: []mcp.Content{mcp.NewEmbeddedResource(mcp.TextResourceContents{URI: "verif://e", MIMEType: "text/plain", Text: "t"})}},
		resultSpec([]any{spec{"k": "embedded", "res": spec{"k": "text", "uri": "verif://e", "mime": "text/plain", "text": "t"}, "ann": nil}}, nil, false, nil),
		"embedded-resource-type"),
	fixedTool("fails", "a result with isError", "iserror", mcp.NewErrorResult("it failed"),
		resultSpec([]any{textC("it failed")}, nil, true, nil), ""),
	{name: "boom", desc: "returns a Go error", class: "handler-error", errText: "kaboom: disk <on> fire", out: spec{"k": "err", "msg": "kaboom: disk <on> fire"},
		handler: func(ctx context.Context, req *mcp.CallToolRequest) (*mcp.CallToolResult, error) {
			return nil, errors.New("kaboom: disk <on> fire")
		}},
	{name: "chan", desc: "a result json.Marshal refuses", class: "unencodable", errText: encoderSays, out: spec{"k": "unenc", "why": encoderSays},
		handler: func(ctx context.Context, req *mcp.CallToolRequest) (*mcp.CallToolResult, error) {
			return &mcp.CallToolResult{Content: []mcp.Content{mcp.NewTextContent("x")}, StructuredContent: make(chan int)}, nil
		}},
	fixedTool("nilcontent", "a result whose Content slice is nil", "result", &mcp.CallToolResult{},
		resultSpec(nil, nil, false, nil), "null-slice"),
	// the rich string classes in results, error messages, names and descriptions
	fixedTool("text-ctl", "control characters \x1b \x00 in a text: \x1b[0m \x7f \u2028", "result",
		&mcp.CallToolResult{Content: []mcp.Content{mcp.NewTextContent(CtlText)}, StructuredContent: map[string]any{"ctl\x01\x7f": CtlText}},
		resultSpec([]any{textC(asJSONSees(CtlText))}, spec{"some": map[string]any{"ctl\x01\x7f": asJSONSees(CtlText)}}, false, nil), ""),
	fixedTool("pct%d", "printf material %s 100% in a name, a description, a text, structured content", "result",
		&mcp.CallToolResult{Content: []mcp.Content{mcp.NewTextContent(PrintfText), mcp.NewTextContent("100%")},
			StructuredContent: map[string]any{"p%": "%d", "done": "100%", "list": []any{"%s", "%%", "%"}}, Result: mcp.Result{Meta: map[string]any{"%": "%!"}}},
		resultSpec([]any{textC(PrintfText), textC("100%")}, spec{"some": map[string]any{"p%": "%d", "done": "100%", "list": []any{"%s", "%%", "%"}}}, false, spec{"%": "%!"}), ""),
	fixedTool("fails-pct", "isError with printf material", "iserror", mcp.NewErrorResult("failed at 50%: %s"),
		resultSpec([]any{textC("failed at 50%: %s")}, nil, true, nil), ""),
	{name: "boom-ctl", desc: "a Go error with control characters", class: "handler-error", errText: asJSONSees(CtlText), out: spec{"k": "err", "msg": asJSONSees(CtlText)},
		handler: func(ctx context.Context, req *mcp.CallToolRequest) (*mcp.CallToolResult, error) {
			return nil, errors.New(CtlText)
		}},
	// descriptors with annotations and with required properties; numbers no float64 holds in a result
	{name: "annotated", desc: "a tool with annotations", class: "result", out: spec{"k": "result", "r": resultSpec([]any{textC("annotated")}, nil, false, nil)},
		opts: []mcp.ToolOption{mcp.WithToolAnnotations(&mcp.ToolAnnotations{Title: "An annotated tool, 100%", ReadOnlyHint: boolp(true), IdempotentHint: boolp(false)})},
		ann:  spec{"title": "An annotated tool, 100%", "ro": true, "id": false},
		handler: func(ctx context.Context, req *mcp.CallToolRequest) (*mcp.CallToolResult, error) {
			return &mcp.CallToolResult{Content: []mcp.Content{mcp.NewTextContent("annotated")}}, nil
		}},
	{name: "needs-x", desc: "declares a required argument; returns its arguments", class: "result", out: spec{"k": "echo"},
		opts: []mcp.ToolOption{mcp.WithString("x", mcp.Required(), mcp.Description("required")), mcp.WithNumber("n")},
		handler: func(ctx context.Context, req *mcp.CallToolRequest) (*mcp.CallToolResult, error) {
			return &mcp.CallToolResult{Content: []mcp.Content{}, StructuredContent: req.Params.Arguments}, nil
		}},
	fixedTool("bigint", "integers beyond 2^53 and a long decimal in a result", "result",
		&mcp.CallToolResult{Content: []mcp.Content{mcp.NewTextContent("9007199254740993")},
			StructuredContent: map[string]any{"id": int64(9007199254740993), "ns": int64(1700000000123456789), "u": uint64(18446744073709551615), "neg": int64(-9007199254740993),
				"dec": json.Number("0.12345678901234567890123"), "arr": []any{int64(9007199254740993), map[string]any{"deep": int64(9223372036854775807)}}},
			Result: mcp.Result{Meta: map[string]any{"seq": int64(9007199254740995)}}},
		resultSpec([]any{textC("9007199254740993")}, spec{"some": map[string]any{"id": int64(9007199254740993), "ns": int64(1700000000123456789), "u": uint64(18446744073709551615),
			"neg": int64(-9007199254740993), "dec": json.Number("0.12345678901234567890123"), "arr": []any{int64(9007199254740993), map[string]any{"deep": int64(9223372036854775807)}}}},
			false, spec{"seq": int64(9007199254740995)}), ""),
	// the sentinel errors real handlers return: from the handler's OWN sub-context (the client still waits), from readers
	{name: "err-canceled", desc: "an error wrapping context.Canceled", class: "handler-error", errText: "sub-task: context canceled", out: spec{"k": "err", "msg": "sub-task: context canceled"},
		handler: func(ctx context.Context, req *mcp.CallToolRequest) (*mcp.CallToolResult, error) {
			sub, cancel := context.WithCancel(ctx)
			cancel()
			return nil, fmt.Errorf("sub-task: %w", sub.Err())
		}},
	{name: "err-deadline", desc: "an error wrapping context.DeadlineExceeded", class: "handler-error", errText: "backend call: context deadline exceeded", out: spec{"k": "err", "msg": "backend call: context deadline exceeded"},
		handler: func(ctx context.Context, req *mcp.CallToolRequest) (*mcp.CallToolResult, error) {
			sub, cancel := context.WithDeadline(ctx, time.Unix(1, 0))
			defer cancel()
			return nil, fmt.Errorf("backend call: %w", sub.Err())
		}},
	{name: "err-bare-canceled", desc: "context.Canceled itself", class: "handler-error", errText: "context canceled", out: spec{"k": "err", "msg": "context canceled"},
		handler: func(ctx context.Context, req *mcp.CallToolRequest) (*mcp.CallToolResult, error) {
			return nil, context.Canceled
		}},
	{name: "err-eof", desc: "io.EOF", class: "handler-error", errText: "EOF", out: spec{"k": "err", "msg": "EOF"},
		handler: func(ctx context.Context, req *mcp.CallToolRequest) (*mcp.CallToolResult, error) {
			return nil, io.EOF
		}},
	{name: "err-joined", desc: "errors.Join of sentinels", class: "handler-error", errText: "unexpected EOF\ncontext canceled", out: spec{"k": "err", "msg": "unexpected EOF\ncontext canceled"},
		handler: func(ctx context.Context, req *mcp.CallToolRequest) (*mcp.CallToolResult, error) {
			return nil, errors.Join(io.ErrUnexpectedEOF, context.Canceled)
		}},
	{name: "boom-pct", desc: "a Go error with printf material", class: "handler-error", errText: PrintfText, out: spec{"k": "err", "msg": PrintfText},
		handler: func(ctx context.Context, req *mcp.CallToolRequest) (*mcp.CallToolResult, error) {
			return nil, errors.New(PrintfText)
		}},
}

func boolp(b bool) *bool { return &b }

func annotated(t mcp.TextContent, aud []mcp.Role, pri float64) mcp.TextContent {
	t.Annotations = &struct {
		Audience []mcp.Role `json:"audience,omitempty"`
		Priority float64    `json:"priority,omitempty"`
	}{aud, pri}
	return t
}

func promptSpec(desc string, msgs any) spec {
	return spec{"meta": spec{}, "desc": desc, "messages": msgs}
}

var allPrompts = []promptDef{
	{name: "p-ok", desc: "two messages", class: "result",
		out: spec{"k": "result", "r": promptSpec("a description", []any{spec{"role": "user", "content": textC("question")}, spec{"role": "assistant", "content": spec{"k": "image", "data": "aGk=", "mime": "image/png", "ann": nil}}})},
		handler: func(ctx context.Context, req *mcp.GetPromptRequest) (*mcp.GetPromptResult, error) {
			return &mcp.GetPromptResult{Description: "a description", Messages: []mcp.PromptMessage{
				{Role: "user", Content: mcp.NewTextContent("question")}, {Role: "assistant", Content: mcp.NewImageContent("aGk=", "image/png")}}}, nil
		}},
	{name: "p-args", desc: "renders its string arguments", class: "result", out: spec{"k": "args"},
		args: []mcp.PromptArgument{{Name: "a", Description: "first", Required: true}, {Name: "b"}},
		handler: func(ctx context.Context, req *mcp.GetPromptRequest) (*mcp.GetPromptResult, error) {
			ks := make([]string, 0)
			for k := range req.Params.Arguments {
				ks = append(ks, k)
			}
			sort.Strings(ks)
			var b strings.Builder
			for _, k := range ks {
				b.WriteString(k + "=" + req.Params.Arguments[k] + ";")
			}
			return &mcp.GetPromptResult{Messages: []mcp.PromptMessage{{Role: "user", Content: mcp.NewTextContent(b.String())}}}, nil
		}},
	{name: "p-err", desc: "returns a Go error", class: "handler-error", errText: "prompt store offline", out: spec{"k": "err", "msg": "prompt store offline"},
		handler: func(ctx context.Context, req *mcp.GetPromptRequest) (*mcp.GetPromptResult, error) {
			return nil, errors.New("prompt store offline")
		}},
	{name: "p-nil", desc: "nil message slice", class: "result", quirk: "null-slice", out: spec{"k": "result", "r": promptSpec("", nil)},
		handler: func(ctx context.Context, req *mcp.GetPromptRequest) (*mcp.GetPromptResult, error) {
			return &mcp.GetPromptResult{}, nil
		}},
	{name: "p%s", desc: "printf material %d%% and controls \x1b\x7f", class: "result",
		out: spec{"k": "result", "r": promptSpec("100% %s", []any{spec{"role": "user", "content": textC(PrintfText)}, spec{"role": "assistant", "content": textC(asJSONSees(CtlText))}})},
		handler: func(ctx context.Context, req *mcp.GetPromptRequest) (*mcp.GetPromptResult, error) {
			return &mcp.GetPromptResult{Description: "100% %s", Messages: []mcp.PromptMessage{
				{Role: "user", Content: mcp.NewTextContent(PrintfText)}, {Role: "assistant", Content: mcp.NewTextContent(CtlText)}}}, nil
		}},
	{name: "p-err-ctl", desc: "a Go error with control characters and printf material", class: "handler-error", errText: asJSONSees(CtlText + PrintfText),
		out: spec{"k": "err", "msg": asJSONSees(CtlText + PrintfText)},
		handler: func(ctx context.Context, req *mcp.GetPromptRequest) (*mcp.GetPromptResult, error) {
			return nil, errors.New(CtlText + PrintfText)
		}},
	{name: "p-err-canceled", desc: "an error wrapping context.Canceled", class: "handler-error", errText: "render: context canceled", out: spec{"k": "err", "msg": "render: context canceled"},
		handler: func(ctx context.Context, req *mcp.GetPromptRequest) (*mcp.GetPromptResult, error) {
			return nil, fmt.Errorf("render: %w", context.Canceled)
		}},
	{name: "p-err-deadline", desc: "context.DeadlineExceeded", class: "handler-error", errText: "context deadline exceeded", out: spec{"k": "err", "msg": "context deadline exceeded"},
		handler: func(ctx context.Context, req *mcp.GetPromptRequest) (*mcp.GetPromptResult, error) {
			return nil, context.DeadlineExceeded
		}},
	{name: "p-chan", desc: "a result json.Marshal refuses", class: "unencodable", errText: encoderSays, out: spec{"k": "unenc", "why": encoderSays},
		handler: func(ctx context.Context, req *mcp.GetPromptRequest) (*mcp.GetPromptResult, error) {
			return &mcp.GetPromptResult{Result: mcp.Result{Meta: map[string]any{"c": make(chan int)}}, Messages: []mcp.PromptMessage{}}, nil
		}},
}

func resT(uri, mime, text string) spec {
	return spec{"k": "text", "uri": uri, "mime": mime, "text": text}
}

var allResources = []resourceDef{
	{name: "text", uri: "verif://r/text", desc: "one text item", mime: "text/plain", size: 5, class: "result",
		out: spec{"k": "contents", "cs": []any{resT("verif://r/text", "text/plain", "hello")}},
		single: func(ctx context.Context, req *mcp.ReadResourceRequest) (mcp.ResourceContents, error) {
			return mcp.TextResourceContents{URI: "verif://r/text", MIMEType: "text/plain", Text: "hello"}, nil
		}},
	{name: "multi", uri: "verif://r/multi", class: "result",
		out: spec{"k": "contents", "cs": []any{resT("verif://r/multi", "", ""), spec{"k": "blob", "uri": "verif://r/multi#b", "mime": "application/octet-stream", "blob": "AAEC"}}},
		multi: func(ctx context.Context, req *mcp.ReadResourceRequest) ([]mcp.ResourceContents, error) {
			return []mcp.ResourceContents{mcp.TextResourceContents{URI: "verif://r/multi"},
				mcp.BlobResourceContents{URI: "verif://r/multi#b", MIMEType: "application/octet-stream", Blob: "AAEC"}}, nil
		}},
	{name: "nil", uri: "verif://r/nil", desc: "nil contents slice", class: "result", quirk: "null-slice", out: spec{"k": "contents", "cs": nil},
		multi: func(ctx context.Context, req *mcp.ReadResourceRequest) ([]mcp.ResourceContents, error) {
			return nil, nil
		}},
	{name: "err", uri: "verif://r/err", class: "handler-error", errText: "backend said \"no\"", out: spec{"k": "err", "msg": "backend said \"no\""},
		single: func(ctx context.Context, req *mcp.ReadResourceRequest) (mcp.ResourceContents, error) {
			return nil, errors.New("backend said \"no\"")
		}},
	{name: "r%d", uri: "verif://r/%d%s%25/100%", desc: "printf material: 100% %s", mime: "text/x-%s", size: 3, class: "result",
		out: spec{"k": "contents", "cs": []any{resT("verif://r/%d%s%25/100%", "text/x-%s", PrintfText), resT("verif://ctl", "", asJSONSees(CtlText))}},
		multi: func(ctx context.Context, req *mcp.ReadResourceRequest) ([]mcp.ResourceContents, error) {
			return []mcp.ResourceContents{mcp.TextResourceContents{URI: "verif://r/%d%s%25/100%", MIMEType: "text/x-%s", Text: PrintfText},
				mcp.TextResourceContents{URI: "verif://ctl", Text: CtlText}}, nil
		}},
	{name: "err-canceled", uri: "verif://r/err-canceled", class: "handler-error", errText: "fetch: context canceled", out: spec{"k": "err", "msg": "fetch: context canceled"},
		single: func(ctx context.Context, req *mcp.ReadResourceRequest) (mcp.ResourceContents, error) {
			return nil, fmt.Errorf("fetch: %w", context.Canceled)
		}},
	{name: "err-eof", uri: "verif://r/err-eof", class: "handler-error", errText: "EOF", out: spec{"k": "err", "msg": "EOF"},
		multi: func(ctx context.Context, req *mcp.ReadResourceRequest) ([]mcp.ResourceContents, error) {
			return nil, io.EOF
		}},
	{name: "err-ctl", uri: "verif://r/err-ctl", class: "handler-error", errText: asJSONSees(CtlText + " 100%"), out: spec{"k": "err", "msg": asJSONSees(CtlText + " 100%")},
		single: func(ctx context.Context, req *mcp.ReadResourceRequest) (mcp.ResourceContents, error) {
			return nil, errors.New(CtlText + " 100%")
		}},
}

func pickTools(names ...string) []toolDef {
	var out []toolDef
	for _, n := range names {
		for _, t := range allTools {
			if t.name == n {
				out = append(out, t)
			}
		}
	}
	return out
}

// Registries: "full" (every handler outcome), "small" (the bulk of the mutation runs), "bare" (no prompts / resources: the
// initialize answer advertises other capabilities).
var Registries = map[string]*Registry{
	"full":  {Name: "full", tools: allTools, prompts: allPrompts, resources: allResources},
	"small": {Name: "small", tools: pickTools("echo", "boom", "chan"), prompts: allPrompts[:1], resources: allResources[:1]},
	"bare":  {Name: "bare", tools: pickTools("text")},
}

func (r *Registry) tool(name string) *toolDef {
	for i := range r.tools {
		if r.tools[i].name == name {
			return &r.tools[i]
		}
	}
	return nil
}
func (r *Registry) prompt(name string) *promptDef {
	for i := range r.prompts {
		if r.prompts[i].name == name {
			return &r.prompts[i]
		}
	}
	return nil
}
func (r *Registry) resource(uri string) *resourceDef {
	for i := range r.resources {
		if r.resources[i].uri == uri {
			return &r.resources[i]
		}
	}
	return nil
}

const ServerName, ServerVersion = "verif-server", "1.2.3"

// Install registers everything on one server (*mcp.Server, *mcp.SSEServer or *mcp.StdioServer).
func (r *Registry) Install(s any) {
	for _, t := range r.tools {
		tool := t.descriptor()
		switch x := s.(type) {
		case *mcp.Server:
			x.RegisterTool(tool, t.handler)
		case *mcp.SSEServer:
			x.RegisterTool(tool, t.handler)
		case *mcp.StdioServer:
			x.RegisterTool(tool, t.handler)
		}
	}
	for _, p := range r.prompts {
		pr := &mcp.Prompt{Name: p.name, Description: p.desc, Arguments: p.args}
		switch x := s.(type) {
		case *mcp.Server:
			x.RegisterPrompt(pr, p.handler)
		case *mcp.SSEServer:
			x.RegisterPrompt(pr, p.handler)
		case *mcp.StdioServer:
			x.RegisterPrompt(pr, p.handler)
		}
	}
	for _, e := range r.resources {
		res := &mcp.Resource{Name: e.name, URI: e.uri, Description: e.desc, MimeType: e.mime, Size: e.size}
		switch x := s.(type) {
		case *mcp.Server:
			if e.single != nil {
				x.RegisterResource(res, e.single)
			} else {
				x.RegisterResources(res, e.multi)
			}
		case *mcp.SSEServer:
			if e.single != nil {
				x.RegisterResource(res, e.single)
			} else {
				x.RegisterResources(res, e.multi)
			}
		case *mcp.StdioServer:
			if e.single != nil {
				x.RegisterResource(res, e.single)
			} else {
				x.RegisterResources(res, e.multi)
			}
		}
	}
}

// Spec is the registry as the Lean driver reads it.
func (r *Registry) Spec() spec {
	if r.specCache != nil {
		return r.specCache
	}
	tools := []any{}
	for _, t := range r.tools {
		tl := t.descriptor()
		b, _ := json.Marshal(tl.InputSchema)
		var schema any
		json.Unmarshal(b, &schema)
		var ann any
		if t.ann != nil {
			ann = t.ann
		}
		tools = append(tools, spec{"name": t.name, "desc": t.desc, "in": schema, "out": nil, "ann": ann, "run": t.out})
	}
	prompts := []any{}
	for _, p := range r.prompts {
		args := []any{}
		for _, a := range p.args {
			args = append(args, spec{"name": a.Name, "desc": a.Description, "required": a.Required})
		}
		prompts = append(prompts, spec{"name": p.name, "desc": p.desc, "args": args, "run": p.out})
	}
	resources := []any{}
	for _, x := range r.resources {
		resources = append(resources, spec{"name": x.name, "uri": x.uri, "desc": x.desc, "mime": x.mime, "size": x.size, "run": x.out})
	}
	r.specCache = spec{"name": ServerName, "version": ServerVersion, "tools": tools, "prompts": prompts, "resources": resources}
	return r.specCache
}
