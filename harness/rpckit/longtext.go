package rpckit

// Long, comma-rich texts (C03: "every emitted message"): results of 40 KiB, 100 KiB and 1 MiB whose strings hold commas at
// many offsets, line breaks, `,\n` and `","` — prose and CSV, the things a writer that re-wraps long lines at "harmless"
// places gets wrong. Every captured frame, reassembled by the reference SSE reader / line reader, must be one JSON value,
// satisfy the schema oracle and carry the handler's text unchanged: POST answered as JSON, POST answered as an SSE stream,
// the GET stream (server notifications), legacy SSE, stdio. 40 KiB and 100 KiB also go through the model (echo tool).

import (
	"context"
	"fmt"
	"strings"
	"time"

	mcp "trpc.group/trpc-go/trpc-mcp-go"
	"verif/harness/hk"
)

// longText: n bytes of the given flavour; `shift` moves every comma by a few bytes.
func longText(flavour string, n, shift int) string {
	var b strings.Builder
	b.WriteString(strings.Repeat("x", shift))
	words := []string{"alpha", "be", "gamma-delta", "o", "epsilon zeta", "eta", "th", "iota kappa lambda", "mu"}
	for i := 0; b.Len() < n; i++ {
		switch flavour {
		case "prose":
			b.WriteString(words[i%len(words)])
			if i%7 == 6 {
				b.WriteString(". ")
			} else {
				b.WriteString(", ")
			}
		case "csv":
			fmt.Fprintf(&b, "%d,%s,%s,\"q\"\n", i, words[i%len(words)], words[(i*3)%len(words)])
		case "quoted":
			fmt.Fprintf(&b, "\"%s\",\"%d\",", words[i%len(words)], i)
		case "comma-nl":
			b.WriteString(words[i%len(words)] + ",\n")
		case "dense":
			b.WriteString(",")
		default: // no comma at all
			b.WriteString(words[i%len(words)] + " ")
		}
	}
	return b.String()[:n]
}

type longDef struct {
	name, text string
}

func longDefs(thorough bool) []longDef {
	var ds []longDef
	sizes := []int{40 << 10, 100 << 10, 1 << 20}
	if thorough {
		sizes = append(sizes, 32<<10+5, 64<<10, 300<<10, 3<<20)
	}
	for _, n := range sizes {
		for i, fl := range []string{"prose", "csv", "quoted", "comma-nl", "dense", "plain"} {
			if n >= 1<<20 && !thorough && i > 1 {
				continue // the megabyte ones: prose and CSV in the quick tier
			}
			ds = append(ds, longDef{fmt.Sprintf("%s-%d", fl, n), longText(fl, n, (i*37+n)%11)})
		}
	}
	return ds
}

func longRegistry(ds []longDef) *Registry {
	reg := &Registry{Name: "long"}
	for _, d := range ds {
		text := d.text
		reg.tools = append(reg.tools, toolDef{name: d.name, desc: "a long text", class: "result",
			handler: func(ctx context.Context, req *mcp.CallToolRequest) (*mcp.CallToolResult, error) {
				// the text as a content item, and cut into many short strings (commas BETWEEN strings and INSIDE them)
				parts := []any{}
				for i := 0; i+64 <= len(text) && len(parts) < 2000; i += 64 {
					parts = append(parts, text[i:i+64])
				}
				return &mcp.CallToolResult{Content: []mcp.Content{mcp.NewTextContent(text)}, StructuredContent: map[string]any{"parts": parts, "n": len(text)}}, nil
			}})
	}
	return reg
}

func longVio(s Sink, kind, what, detail string, d longDef, observed any) {
	s.Violate(hk.Violation{Fingerprint: "rpc:" + kind + ":long-text:" + what,
		What:     fmt.Sprintf("%s: a result carrying a %d-byte text with commas / line breaks (%s): %s", kind, len(d.text), d.name, detail),
		Input:    map[string]any{"tool": d.name, "text_bytes": len(d.text), "text_starts": clipS(d.text, 120)},
		Observed: observed, Expected: "one well-formed JSON-RPC message carrying the handler's text unchanged"})
}

// judgeLong: one exchange that must have produced exactly one result message carrying d.text.
func judgeLong(s Sink, t Target, how string, d longDef, id V, o Observed) {
	kind := t.Kind()
	ok := true
	for _, p := range o.Problems {
		ok = false
		longVio(s, kind, "frame-not-json", how+": "+p, d, clipS(o.RawBody, 300))
	}
	ms := o.Messages()
	if len(ms) != 1 {
		if ok {
			longVio(s, kind, "not-one-message", fmt.Sprintf("%s: %d messages", how, len(ms)), d, o.Outcome()["status"])
		}
		s.Count("long:"+t.Name()+":"+how+":"+d.name, false, nil, "long-text")
		return
	}
	for _, df := range checkMsg(Expect{Class: "result", Method: "tools/call", HasID: true, ID: id, Req: true}, ms[0]) {
		ok = false
		longVio(s, kind, "wf-"+df.id, how+": "+df.detail, d, nil)
	}
	m, _ := isObj(ms[0])
	res, _ := isObj(m["result"])
	content, _ := isArr(res["content"])
	got := ""
	if len(content) == 1 {
		c0, _ := isObj(content[0])
		got, _ = c0["text"].(string)
	}
	if got != d.text {
		ok = false
		longVio(s, kind, "text-changed", how+": the text that arrived is not the text the handler returned", d,
			map[string]any{"bytes": len(got), "first_difference_at": firstDiff(got, d.text)})
	}
	s.Count("long:"+t.Name()+":"+how+":"+d.name, ok, nil, "long-text")
}

func firstDiff(a, b string) int {
	for i := 0; i < len(a) && i < len(b); i++ {
		if a[i] != b[i] {
			return i
		}
	}
	if len(a) != len(b) {
		if len(a) < len(b) {
			return len(a)
		}
		return len(b)
	}
	return -1
}

func (r *runner) longTexts() {
	ds := longDefs(r.thorough)
	reg := longRegistry(ds)
	ts, err := r.targets(reg, allKinds...)
	if err != nil {
		r.fail("setup-long", err)
		return
	}
	for _, t := range ts {
		for i, d := range ds {
			id := Int(int64(7000 + i))
			body := []byte(env(id, "tools/call", vp(Obj(F("name", Str(d.name))))).Raw())
			in, ok := deliver(t, body)
			if !ok {
				continue
			}
			r.s.About("long:"+d.name, map[string]any{"server": t.Name(), "tool": d.name})
			how := "answer"
			if st, isSt := t.(*streamable); isSt {
				how = "POST answered as JSON"
				if st.cfg.PostSSE {
					how = "POST answered as an SSE stream"
				}
			}
			judgeLong(r.s, t, how, d, id, t.Exchange(in))
		}
		// the GET stream: a server notification carrying the text
		if st, isSt := t.(*streamable); isSt && st.cfg.Mode == "stateful" {
			r.longOnGetStream(st, ds)
		}
		t.Close()
	}
	// through the model as well: the echo tool returns what it is given (40 KiB and 100 KiB)
	mreg := Registries["small"]
	mts, err := r.targets(mreg, allKinds...)
	if err != nil {
		r.fail("setup-long-echo", err)
		return
	}
	for _, t := range mts {
		for i, d := range ds {
			if len(d.text) > 128<<10 {
				continue
			}
			c := mkCase(mreg, "long-echo:"+d.name, Int(int64(7100+i)),
				baseReq{"tools/call:echo", "tools/call", vp(Obj(F("name", Str("echo")), F("arguments", Obj(F("t", Str(d.text)), F("k", Arr(Str(d.text[:100]), Str(",")))))))}, "long-text")
			if in, ok := deliver(t, c.Body); ok {
				r.exchange(t, c, in)
			}
		}
		t.Close()
	}
}

func (r *runner) longOnGetStream(st *streamable, ds []longDef) {
	sid := st.sids["s0"]
	code, _, stream, err := st.fx.OpenStream(map[string]string{"Mcp-Session-Id": sid})
	if err != nil || code != 200 {
		r.s.Count("long:get-stream-unavailable:"+st.Name(), false, map[string]any{"status": code}, "long-text")
		return
	}
	defer stream.CloseByClient()
	n := 0
	for _, d := range ds {
		if err := st.fx.S.SendNotification(sid, "notifications/message", map[string]interface{}{"level": "info", "data": d.text}); err != nil {
			r.s.Count("long:get-stream-send-failed:"+d.name, false, map[string]any{"err": err.Error()}, "long-text")
			continue
		}
		n++
		evs := stream.WaitEvents(n, 5*time.Second)
		if len(evs) < n {
			longVio(r.s, "streamable", "notification-lost", "GET stream: the notification did not arrive within 5s", d, len(evs))
			n = len(evs)
			continue
		}
		data := evs[n-1].Data
		v, _, err := Canon([]byte(data))
		if err != nil {
			longVio(r.s, "streamable", "frame-not-json", "GET stream: the event data reassembled by SSE rules is not one JSON value: "+err.Error(), d, clipS(data, 300))
			r.s.Count("long:"+st.Name()+":GET stream:"+d.name, false, nil, "long-text")
			continue
		}
		ok := true
		for _, df := range checkMsg(Expect{Class: "free"}, v) {
			ok = false
			longVio(r.s, "streamable", "wf-"+df.id, "GET stream: "+df.detail, d, nil)
		}
		m, _ := isObj(v)
		p, _ := isObj(m["params"])
		if got, _ := p["data"].(string); got != d.text || m["method"] != "notifications/message" {
			ok = false
			longVio(r.s, "streamable", "text-changed", "GET stream: the notification does not carry the text that was sent", d,
				map[string]any{"bytes": len(got), "first_difference_at": firstDiff(got, d.text)})
		}
		r.s.Count("long:"+st.Name()+":GET stream:"+d.name, ok, nil, "long-text")
	}
}
