package rpckit

// The FIRST requests of a freshly started server, all at once (C03: the answer each request determines; C06: the
// process survives): whatever a server builds lazily on its first request — dispatch tables, caches — is built while
// several requests race for it. Many new servers, each receiving its first 8–16 requests in one write (stdio) / as
// concurrent POSTs (Streamable HTTP, legacy SSE). Run in a child process: a `fatal error: concurrent map read and map
// write` kills the process that hosts the server — which is then an observation, not the end of the check.

import (
	"bytes"
	"context"
	"fmt"
	"io"
	"runtime"
	"strings"
	"sync"
	"time"

	mcp "trpc.group/trpc-go/trpc-mcp-go"
	"verif/harness/hk"
)

// freshRequests: the first k requests a new server sees — served methods only, so that "method not found" is never the
// right answer, plus one failing tool (the error path builds on the same tables).
func freshRequests(k, round int) []pipeReq {
	methods := []struct {
		method string
		params *V
		err    int64
	}{
		{"ping", nil, 0}, {"tools/list", nil, 0}, {"tools/call", vp(Obj(F("name", Str("echo")), F("arguments", Obj(F("r", Int(int64(round))))))), 0},
		{"prompts/list", nil, 0}, {"resources/list", nil, 0}, {"resources/read", vp(Obj(F("uri", Str("verif://r/text")))), 0},
		{"prompts/get", vp(Obj(F("name", Str("p-ok")))), 0}, {"tools/call", vp(Obj(F("name", Str("boom")))), -32603},
		{"initialize", initParams("2025-03-26"), 0},
	}
	var rs []pipeReq
	for i := 0; i < k; i++ {
		m := methods[(i+round)%len(methods)]
		id := Int(int64(100*round + i + 1))
		if i%3 == 1 {
			id = Str(fmt.Sprintf("f%d-%d", round, i))
		}
		r := pipeReq{id: id.Raw(), idV: id, method: m.method, wantErr: m.err, body: []byte(env(id, m.method, m.params).Raw())}
		if m.method == "tools/call" && m.err == 0 {
			r.wantArgs = fmt.Sprintf(`{"r":%d}`, round)
		}
		rs = append(rs, r)
	}
	return rs
}

// freshServers runs the rounds for one server kind: stdio | streamable | sse.
func (r *runner) freshServers(kind string) {
	reg := Registries["small"]
	rounds := map[string]int{"stdio": 400, "streamable": 300, "sse": 200}[kind]
	if r.thorough {
		rounds *= 5
	}
	if runtime.GOMAXPROCS(0) < 4 {
		runtime.GOMAXPROCS(4)
	}
	bad := 0
	for round := 0; round < rounds && bad < 3; round++ {
		reqs := freshRequests(8+round%9, round)
		r.s.About(fmt.Sprintf("fresh %s server, round %d", kind, round), map[string]any{"first_requests": len(reqs)})
		var answers [][]byte
		how := ""
		switch kind {
		case "stdio":
			how = fmt.Sprintf("a NEW server's first %d requests, one write", len(reqs))
			answers = freshStdio(reg, reqs)
		case "streamable":
			cfg := []StreamableCfg{{Mode: "stateless"}, {Mode: "sessionsOff", PostSSE: true}, {Mode: "stateless", PostSSE: true}, {Mode: "sessionsOff"}}[round%4]
			how = fmt.Sprintf("a NEW %s server's first %d requests, concurrent POSTs", cfg.Mode, len(reqs))
			answers = freshStreamable(reg, cfg, reqs)
		case "sse":
			how = fmt.Sprintf("a NEW server's first %d requests, concurrent POSTs on its first session", len(reqs))
			answers = freshSSE(reg, reqs)
		}
		if judgePipelined(r.s, kind, reqs, answers, how) {
			bad++
		}
	}
	r.s.SetExtra("fresh_"+kind+"_rounds", rounds)
}

func freshStdio(reg *Registry, reqs []pipeReq) [][]byte {
	srv := mcp.NewStdioServer(ServerName, ServerVersion, mcp.WithStdioServerLogger(hk.QuietLogger{}))
	reg.Install(srv)
	inR, inW := io.Pipe()
	outR, outW := io.Pipe()
	ctx, cancel := context.WithCancel(context.Background())
	defer cancel()
	go func() {
		mcp.VerifServeStdio(ctx, srv, inR, outW)
		inR.CloseWithError(io.ErrClosedPipe)
		outW.Close()
	}()
	var all bytes.Buffer
	for _, rq := range reqs {
		all.Write(rq.body)
		all.WriteByte('\n')
	}
	go func() { inW.Write(all.Bytes()) }()
	lines := make(chan []byte, len(reqs)+8)
	go func() {
		defer close(lines)
		var buf []byte
		tmp := make([]byte, 64<<10)
		for {
			k, err := outR.Read(tmp)
			buf = append(buf, tmp[:k]...)
			for {
				i := bytes.IndexByte(buf, '\n')
				if i < 0 {
					break
				}
				lines <- append([]byte{}, buf[:i]...)
				buf = buf[i+1:]
			}
			if err != nil {
				return
			}
		}
	}()
	var answers [][]byte
	deadline := time.After(5 * time.Second)
collect:
	for len(answers) < len(reqs) {
		select {
		case l, ok := <-lines:
			if !ok {
				break collect
			}
			if len(bytes.TrimSpace(l)) > 0 {
				answers = append(answers, l)
			}
		case <-deadline:
			break collect
		}
	}
	inW.Close()
	outR.CloseWithError(io.ErrClosedPipe)
	return answers
}

func freshStreamable(reg *Registry, cfg StreamableCfg, reqs []pipeReq) [][]byte {
	fx := hk.NewFixture(hk.SrvCfg{Mode: cfg.Mode, Get: true, PostSSE: cfg.PostSSE})
	fx.HC.Timeout = 2 * stepCeiling
	reg.Install(fx.S)
	defer closeWithin(3*time.Second, fx.Close)
	hdr := map[string]string{"Content-Type": "application/json", "Accept": "application/json"}
	if cfg.PostSSE {
		hdr["Accept"] = "application/json, text/event-stream"
	}
	var mu sync.Mutex
	var answers [][]byte
	var wg sync.WaitGroup
	start := make(chan struct{})
	for i := range reqs {
		wg.Add(1)
		go func(rq pipeReq) {
			defer wg.Done()
			<-start
			resp := fx.Do("POST", fx.URL, hdr, rq.body)
			body := resp.Body
			if strings.HasPrefix(resp.Header.Get("Content-Type"), "text/event-stream") {
				var data []string
				for _, l := range strings.Split(string(body), "\n") {
					if strings.HasPrefix(l, "data:") {
						data = append(data, strings.TrimPrefix(strings.TrimPrefix(strings.TrimSuffix(l, "\r"), "data:"), " "))
					}
				}
				body = []byte(strings.Join(data, "\n"))
			}
			if resp.Status == 200 && len(bytes.TrimSpace(body)) > 0 {
				mu.Lock()
				answers = append(answers, body)
				mu.Unlock()
			}
		}(reqs[i])
	}
	close(start)
	wg.Wait()
	return answers
}

func freshSSE(reg *Registry, reqs []pipeReq) [][]byte {
	tt, err := NewSSE(reg)
	if err != nil {
		return nil
	}
	defer tt.Close()
	t := tt.(*sseTarget)
	var wg sync.WaitGroup
	start := make(chan struct{})
	for i := range reqs {
		wg.Add(1)
		go func(rq pipeReq) {
			defer wg.Done()
			<-start
			t.do("POST", t.peer.msgURL, rq.body, nil)
		}(reqs[i])
	}
	close(start)
	wg.Wait()
	waitQuietOf("sse", 5*time.Second)
	frames, _ := t.sentinel(t.peer)
	var answers [][]byte
	for _, f := range frames {
		answers = append(answers, []byte(f))
	}
	return answers
}

// FreshKinds: the child jobs of the fresh-server phase.
var FreshKinds = []string{"fresh-stdio", "fresh-streamable", "fresh-sse"}
