package rpckit

import (
	"bufio"
	"bytes"
	"context"
	"encoding/json"
	"fmt"
	"io"
	"log"
	"net/http"
	"net/http/httptest"
	"os"
	"regexp"
	"runtime"
	"strings"
	"sync"
	"time"

	mcp "trpc.group/trpc-go/trpc-mcp-go"
	"verif/harness/hk"
)

// Input is one thing a peer does to a server.
type Input struct {
	Verb string // POST GET DELETE PUT …
	// Streamable: "ok" | "wrong";  legacy SSE: "sse" | "message" | "other"
	Path string
	// Streamable: none | bogus | s0 (initialised session) | s1 (initialize only) | dead (deleted);  SSE: missing | unknown | live
	Ref    string
	Accept bool   // Streamable: the Accept header lists text/event-stream
	Body   []byte // request body / stdio line (nil: none)
	// extra request headers (garbage header tests)
	Hdr map[string]string
	// JSON text of the id an answer is expected to carry ("" = none expected): a hint that lets the legacy SSE and stdio
	// peers recognise the end of the exchange by the answer itself (a request goroutine writes its answer last) instead of
	// by a census of goroutines; when the answer does not show up they fall back to the census
	WantID string
}

// hintCeiling: how long the peers wait for the expected answer before they fall back to the census of goroutines; after
// hintMaxMisses answers that did not come the hint is no longer used on that server (a server that has stopped answering a
// whole class of requests would otherwise cost the ceiling for each of them).
const hintCeiling = 300 * time.Millisecond
const hintMaxMisses = 12

func isAnswerTo(frame string, idJSON string) bool {
	var m struct {
		ID     json.RawMessage `json:"id"`
		Method *string         `json:"method"`
	}
	return json.Unmarshal([]byte(frame), &m) == nil && m.Method == nil && string(m.ID) == idJSON
}

// takeThrough waits (event-based, with a ceiling) for the response carrying the id and returns the frames up to and
// including it; ok=false: it did not come — nothing is consumed.
func takeThrough(mu *sync.Mutex, frames *[]string, notify, eof chan struct{}, idJSON string, ceiling time.Duration) ([]string, bool) {
	deadline := time.After(ceiling)
	seen := 0
	for {
		mu.Lock()
		for i := seen; i < len(*frames); i++ {
			if isAnswerTo((*frames)[i], idJSON) {
				out := append([]string{}, (*frames)[:i+1]...)
				*frames = append([]string{}, (*frames)[i+1:]...)
				mu.Unlock()
				return out, true
			}
		}
		seen = len(*frames)
		mu.Unlock()
		select {
		case <-notify:
		case <-eof:
			return nil, false
		case <-deadline:
			return nil, false
		}
	}
}

// answered: one of the frames is a response carrying this id
func answered(frames []string, idJSON string) bool {
	if idJSON == "" {
		return false
	}
	for _, f := range frames {
		var m struct {
			ID     json.RawMessage `json:"id"`
			Method *string         `json:"method"`
		}
		if json.Unmarshal([]byte(f), &m) == nil && m.Method == nil && string(m.ID) == idJSON {
			return true
		}
	}
	return false
}

// Observed is what the reference peer saw.
type Observed struct {
	Status   *int  // HTTP status (nil on stdio; 0 = connection aborted)
	Body     any   // canonical JSON-RPC message in the HTTP answer (nil: none)
	Frames   []any // canonical messages on the legacy-SSE stream / stdout
	Panic    bool  // panic text on the server's ErrorLog during the exchange
	Dup      bool  // a member name occurred twice in an emitted object
	RawBody  string
	Problems []string // peer-level trouble (timeouts, unparsable frames)
	Dead     bool     // the server stopped answering well-formed pings (the rest of the batch is pointless)
	PanicLog string
	Framing  string // Streamable POST answered 200: "sse" | "json" ("" otherwise)
	Aborted  bool   // the connection was dropped without an HTTP status
}

func (o Observed) Outcome() map[string]any {
	fr := o.Frames
	if fr == nil {
		fr = []any{}
	}
	var st any
	if o.Status != nil {
		st = *o.Status
	}
	return map[string]any{"status": st, "body": o.Body, "frames": fr, "panic": o.Panic}
}

func (o Observed) Messages() []any {
	var ms []any
	if o.Body != nil {
		ms = append(ms, o.Body)
	}
	return append(ms, o.Frames...)
}

// Target is one real server with its reference peer.
type Target interface {
	Name() string // e.g. streamable-stateful-json
	Kind() string // streamable | sse | stdio
	Reg() *Registry
	Exchange(in Input) Observed
	// ModelOp: the op line for the Lean driver (without "c").
	ModelOp(in Input) map[string]any
	// Ping on the connection in use and on a fresh one: "" = fine.
	Alive() string
	// Handshake: a complete fresh session on a NEW connection — initialize, notifications/initialized, tools/list —
	// each step with a ceiling: "" = fine.
	Handshake() string
	Close()
}

// ---------------------------------------------------------------------------------------------------------------------
// goroutine census (library request goroutines in flight)

var inflightRe = regexp.MustCompile(`created by trpc\.group/trpc-go/trpc-mcp-go\.\(\*(SSEServer\)\.handle(Request|Notification)Message|SSEServer\)\.handleNotification|stdioTransport\)\.processInputStream|stdioServerInternal\)\.HandleNotification)`)
var libRe = regexp.MustCompile(`trpc\.group/trpc-go/trpc-mcp-go[./(]`)

var stackBuf = sync.Pool{New: func() any { b := make([]byte, 256<<10); return &b }}

func stacks() []string {
	bp := stackBuf.Get().(*[]byte)
	defer stackBuf.Put(bp)
	for {
		n := runtime.Stack(*bp, true)
		if n < len(*bp) {
			return strings.Split(string((*bp)[:n]), "\n\n")
		}
		*bp = make([]byte, 2*len(*bp))
	}
}

var inflightSSERe = regexp.MustCompile(`created by trpc\.group/trpc-go/trpc-mcp-go\.\(\*SSEServer\)\.handle(Request|Notification)Message|created by trpc\.group/trpc-go/trpc-mcp-go\.\(\*SSEServer\)\.handleNotification`)
var inflightStdioRe = regexp.MustCompile(`created by trpc\.group/trpc-go/trpc-mcp-go\.\(\*(stdioTransport\)\.processInputStream|stdioServerInternal\)\.HandleNotification)`)

// InflightOf counts goroutines spawned per request by the legacy SSE server ("sse"), the stdio server ("stdio") or both ("")
// that have not finished.
func InflightOf(kind string) int {
	n := 0
	for _, g := range stacks() {
		switch kind {
		case "sse":
			if inflightSSERe.MatchString(g) {
				n++
			}
		case "stdio":
			if inflightStdioRe.MatchString(g) {
				n++
			}
		default:
			if inflightRe.MatchString(g) {
				n++
			}
		}
	}
	return n
}

func Inflight() int { return InflightOf("") }

// LibGoroutines counts goroutines with a library frame.
func LibGoroutines() int {
	n := 0
	for _, g := range stacks() {
		if libRe.MatchString(g) {
			n++
		}
	}
	return n
}

// stuck: request goroutines that were still running when a wait gave up — they are taken for lost (a server that has them
// is abandoned) and no later wait waits for them again. Per kind ("" = both kinds together).
var stuckMu sync.Mutex
var stuckOf = map[string]int{}

func setStuck(kind string, n int) { stuckMu.Lock(); stuckOf[kind] = n; stuckMu.Unlock() }
func getStuck(kind string) int {
	stuckMu.Lock()
	defer stuckMu.Unlock()
	if kind == "" {
		return stuckOf[""] + stuckOf["sse"] + stuckOf["stdio"]
	}
	return stuckOf[kind] + stuckOf[""]
}

// waitQuiet waits until no per-request library goroutine (of any kind) is in flight ("" = quiet).
func waitQuiet(ceiling time.Duration) string { return waitQuietOf("", ceiling) }

// waitQuietOf: the same for one server kind — legacy SSE and stdio servers may then run side by side.
func waitQuietOf(kind string, ceiling time.Duration) string {
	deadline := time.Now().Add(ceiling)
	for i := 0; ; i++ {
		if InflightOf(kind) <= getStuck(kind) {
			return ""
		}
		if time.Now().After(deadline) {
			n := InflightOf(kind)
			why := fmt.Sprintf("%d request goroutine(s) still running after %v", n-getStuck(kind), ceiling)
			setStuck(kind, n)
			return why
		}
		if i < 2 {
			runtime.Gosched()
		} else {
			time.Sleep(100 * time.Microsecond) // polling a census (each poll dumps every stack): not too often
		}
	}
}

// ---------------------------------------------------------------------------------------------------------------------
// panic log

type panicLog struct {
	mu  sync.Mutex
	buf bytes.Buffer
}

func (p *panicLog) Write(b []byte) (int, error) {
	p.mu.Lock()
	defer p.mu.Unlock()
	return p.buf.Write(b)
}

func (p *panicLog) take() string {
	p.mu.Lock()
	defer p.mu.Unlock()
	s := p.buf.String()
	p.buf.Reset()
	return s
}

// ---------------------------------------------------------------------------------------------------------------------
// Streamable HTTP

type StreamableCfg struct {
	Mode    string // stateful | stateless | sessionsOff
	PostSSE bool   // POST answered as an SSE stream when the peer accepts it
}

type streamable struct {
	cfg  StreamableCfg
	reg  *Registry
	fx   *hk.Fixture
	plog *panicLog
	sids map[string]string // s0 s1 dead -> real id
	// mirror of lifecycleManager.sessionStates for s0 / s1, newest first (from observed answers)
	ls    [][2]any
	fresh *http.Client
}

const initBody = `{"jsonrpc":"2.0","id":"setup","method":"initialize","params":{"protocolVersion":"2025-03-26","capabilities":{},"clientInfo":{"name":"verif","version":"1"}}}`

func NewStreamable(cfg StreamableCfg, reg *Registry) (Target, error) {
	t := &streamable{cfg: cfg, reg: reg, plog: &panicLog{}, sids: map[string]string{}}
	t.fx = hk.NewFixture(hk.SrvCfg{Mode: cfg.Mode, Get: true, PostSSE: cfg.PostSSE}, reg.StreamableOptions()...)
	t.fx.TS.Config.ErrorLog = log.New(t.plog, "", 0)
	reg.Install(t.fx.S)
	t.fresh = &http.Client{Transport: &http.Transport{DisableKeepAlives: true, DisableCompression: true}, Timeout: stepCeiling}
	t.fx.HC.Timeout = 2 * stepCeiling // a server that never answers must not hang the run
	if cfg.Mode == "stateful" {
		for _, name := range []string{"s0", "s1", "dead"} {
			r := t.fx.Post(map[string]string{"Accept": "application/json"}, initBody)
			sid := r.Header.Get("Mcp-Session-Id")
			if r.Status != 200 || sid == "" {
				return nil, fmt.Errorf("setup initialize: status %d body %s", r.Status, r.Body)
			}
			t.sids[name] = sid
		}
		r := t.fx.Post(map[string]string{"Accept": "application/json", "Mcp-Session-Id": t.sids["s0"]}, `{"jsonrpc":"2.0","method":"notifications/initialized"}`)
		if r.Status != 202 {
			return nil, fmt.Errorf("setup initialized: status %d", r.Status)
		}
		r = t.fx.Do("DELETE", t.fx.URL, map[string]string{"Mcp-Session-Id": t.sids["dead"]}, nil)
		if r.Status != 200 {
			return nil, fmt.Errorf("setup delete: status %d", r.Status)
		}
		t.ls = [][2]any{{0, true}, {1, false}, {0, false}}
	}
	return t, nil
}

func (t *streamable) Name() string {
	m := "json"
	if t.cfg.PostSSE {
		m = "sse"
	}
	return "streamable-" + t.cfg.Mode + "-" + m
}
func (t *streamable) Kind() string   { return "streamable" }
func (t *streamable) Reg() *Registry { return t.reg }

func (t *streamable) Close() {
	t.fresh.CloseIdleConnections()
	closeWithin(3*time.Second, t.fx.Close)
}

// closeWithin: httptest.Server.Close waits for every handler; a handler that is stuck for good must not hang the run.
func closeWithin(d time.Duration, f func()) {
	done := make(chan struct{})
	go func() { f(); close(done) }()
	select {
	case <-done:
	case <-time.After(d):
	}
}

func (t *streamable) headers(in Input) map[string]string {
	h := map[string]string{"Accept": "application/json"}
	if in.Accept {
		h["Accept"] = "application/json, text/event-stream"
	}
	if in.Body != nil {
		h["Content-Type"] = "application/json"
	}
	switch in.Ref {
	case "bogus":
		h["Mcp-Session-Id"] = "no-such-session"
	case "s0", "s1", "dead":
		if sid, ok := t.sids[in.Ref]; ok {
			h["Mcp-Session-Id"] = sid
		} else {
			h["Mcp-Session-Id"] = "placeholder-" + in.Ref // modes without sessions: any header value
		}
	}
	for k, v := range in.Hdr {
		h[k] = v
	}
	return h
}

func intp(i int) *int { return &i }

// stepCeiling bounds every single step of a liveness probe.
const stepCeiling = 5 * time.Second

const (
	hsInit  = `{"jsonrpc":"2.0","id":"hs-init","method":"initialize","params":{"protocolVersion":"2025-03-26","capabilities":{},"clientInfo":{"name":"probe","version":"1"}}}`
	hsNotif = `{"jsonrpc":"2.0","method":"notifications/initialized"}`
	hsList  = `{"jsonrpc":"2.0","id":"hs-list","method":"tools/list"}`
)

func hasResult(b []byte, id string) bool {
	var m struct {
		ID     any              `json:"id"`
		Result *json.RawMessage `json:"result"`
	}
	return json.Unmarshal(b, &m) == nil && m.Result != nil && m.ID == id
}

func isTimeout(err error) bool {
	if err == nil {
		return false
	}
	type to interface{ Timeout() bool }
	if t, ok := err.(to); ok && t.Timeout() {
		return true
	}
	return strings.Contains(err.Error(), "Client.Timeout") || strings.Contains(err.Error(), "deadline exceeded")
}

func (t *streamable) Handshake() string {
	post := func(sid, body string) (int, []byte, string, error) {
		req, _ := http.NewRequest("POST", t.fx.URL, strings.NewReader(body))
		req.Header.Set("Content-Type", "application/json")
		req.Header.Set("Accept", "application/json")
		if sid != "" {
			req.Header.Set("Mcp-Session-Id", sid)
		}
		resp, err := t.fresh.Do(req)
		if err != nil {
			return 0, nil, "", err
		}
		b, err := io.ReadAll(resp.Body)
		resp.Body.Close()
		return resp.StatusCode, b, resp.Header.Get("Mcp-Session-Id"), err
	}
	st, b, sid, err := post("", hsInit)
	if err != nil || st != 200 || !hasResult(b, "hs-init") {
		return fmt.Sprintf("initialize on a new connection without a session: status %d err %v body %.120q", st, err, b)
	}
	if t.cfg.Mode != "stateful" {
		sid = ""
	} else if sid == "" {
		return "initialize on a new connection: no session id in the answer"
	}
	if st, _, _, err = post(sid, hsNotif); err != nil || st != 202 {
		return fmt.Sprintf("notifications/initialized in the new session: status %d err %v", st, err)
	}
	if st, b, _, err = post(sid, hsList); err != nil || st != 200 || !hasResult(b, "hs-list") {
		return fmt.Sprintf("tools/list in the new session: status %d err %v body %.120q", st, err, b)
	}
	if sid != "" {
		req, _ := http.NewRequest("DELETE", t.fx.URL, nil)
		req.Header.Set("Mcp-Session-Id", sid)
		resp, err := t.fresh.Do(req)
		if err != nil {
			return "DELETE of the new session: " + err.Error()
		}
		resp.Body.Close()
	}
	return ""
}

func (t *streamable) Exchange(in Input) Observed {
	url := t.fx.URL
	if in.Path == "wrong" {
		url = t.fx.TS.URL + "/elsewhere"
	}
	hdr := t.headers(in)
	var o Observed
	if in.Verb == "GET" {
		// a listening stream answers 200 and stays open: read the status, then hang up
		ctx, cancel := context.WithCancel(context.Background())
		req, _ := http.NewRequestWithContext(ctx, "GET", url, nil)
		for k, v := range hdr {
			req.Header.Set(k, v)
		}
		resp, err := t.fx.HC.Do(req)
		if err != nil {
			o.Status = intp(0)
			o.Problems = append(o.Problems, "transport: "+err.Error())
			if isTimeout(err) {
				o.Dead = true // a GET that is never answered: every further one would cost the ceiling again
			}
		} else {
			o.Status = intp(resp.StatusCode)
			if resp.StatusCode != 200 {
				io.Copy(io.Discard, resp.Body)
			}
			resp.Body.Close()
		}
		cancel()
	} else {
		r := t.fx.Do(in.Verb, url, hdr, in.Body)
		o.Status = intp(r.Status)
		if r.Err != nil {
			o.Status = intp(0)
			if isTimeout(r.Err) {
				o.Problems = append(o.Problems, "no answer within "+(2*stepCeiling).String()+": "+r.Err.Error())
				o.Dead = true
			} else {
				o.Aborted = true
				o.Problems = append(o.Problems, "the connection was dropped without an answer: "+r.Err.Error())
			}
		} else if r.Status == 200 && in.Verb == "POST" {
			o.Framing = "json"
			if strings.HasPrefix(r.Header.Get("Content-Type"), "text/event-stream") {
				o.Framing = "sse"
			}
		}
		o.RawBody = string(r.Body)
		t.parseBody(&o, r)
		t.track(in, r, &o)
	}
	if pl := t.plog.take(); strings.Contains(pl, "panic") {
		o.Panic = true
		o.PanicLog = pl
		if len(o.PanicLog) > 600 {
			o.PanicLog = o.PanicLog[:600]
		}
	}
	return o
}

func (t *streamable) parseBody(o *Observed, r hk.RawResp) {
	body := r.Body
	if strings.HasPrefix(r.Header.Get("Content-Type"), "text/event-stream") {
		var events []string
		var data []string
		for _, l := range strings.Split(string(body), "\n") {
			l = strings.TrimSuffix(l, "\r")
			if l == "" {
				if len(data) > 0 {
					events = append(events, strings.Join(data, "\n"))
				}
				data = nil
				continue
			}
			if strings.HasPrefix(l, "data:") {
				data = append(data, strings.TrimPrefix(strings.TrimPrefix(l, "data:"), " "))
			}
		}
		if len(events) == 0 {
			return
		}
		if len(events) > 1 {
			o.Problems = append(o.Problems, fmt.Sprintf("%d events in one POST answer", len(events)))
		}
		body = []byte(events[0])
	}
	if len(bytes.TrimSpace(body)) == 0 || !(bytes.HasPrefix(bytes.TrimSpace(body), []byte("{")) || bytes.HasPrefix(bytes.TrimSpace(body), []byte("["))) {
		return // empty, or the plain text of http.Error
	}
	v, dup, err := Canon(body)
	if err != nil {
		o.Problems = append(o.Problems, "answer body is not one JSON value: "+err.Error())
		return
	}
	o.Body, o.Dup = v, dup
}

// track keeps the mirror of the per-session initialisation flags in step with what the server answered.
func (t *streamable) track(in Input, r hk.RawResp, o *Observed) {
	if t.cfg.Mode != "stateful" || in.Verb != "POST" || (in.Ref != "s0" && in.Ref != "s1") || in.Path == "wrong" {
		return
	}
	idx := 0
	if in.Ref == "s1" {
		idx = 1
	}
	v, ok := ParseV(in.Body, false)
	if !ok || v.K != 'o' {
		return
	}
	var base struct {
		Method string `json:"method"`
		ID     any    `json:"id"`
	}
	if json.Unmarshal(in.Body, &base) != nil {
		return
	}
	if base.Method == "initialize" && base.ID != nil && r.Status == 200 {
		if m, ok := o.Body.(map[string]any); ok {
			if _, isRes := m["result"]; isRes {
				t.ls = append([][2]any{{idx, false}}, t.ls...)
			}
		}
	}
	if base.Method == "notifications/initialized" && base.ID == nil && r.Status == 202 {
		t.ls = append([][2]any{{idx, true}}, t.ls...)
	}
}

func (t *streamable) ModelOp(in Input) map[string]any {
	verb := map[string]string{"POST": "post", "GET": "get", "DELETE": "delete"}[in.Verb]
	if verb == "" {
		verb = "other"
	}
	var ref any = "none"
	switch in.Ref {
	case "bogus":
		ref = "bogus"
	case "s0":
		ref = map[string]any{"sid": 0}
	case "s1":
		ref = map[string]any{"sid": 1}
	case "dead":
		ref = map[string]any{"sid": 2}
	}
	ls := []any{}
	for _, e := range t.ls {
		ls = append(ls, []any{e[0], e[1]})
	}
	return map[string]any{"k": "streamable",
		"cfg": map[string]any{"mode": t.cfg.Mode, "get": true, "postSSE": t.cfg.PostSSE, "pathSet": true},
		"st":  map[string]any{"live": []any{0, 1}, "issued": 3, "ls": ls},
		"in":  map[string]any{"verb": verb, "pathOk": in.Path != "wrong", "ref": ref, "accept": t.headers(in)["Accept"], "body": bodyEnc(in.Body, false)},
		"reg": t.reg.SpecFor(in.Hdr[RoleHeader])}
}

// bodyEnc: the request body as the server's JSON decoder sees it.
func bodyEnc(b []byte, whole bool) any {
	v, ok := ParseV(b, whole)
	if !ok {
		return map[string]any{"fail": true}
	}
	return map[string]any{"json": Compact(v).Enc()}
}

func pingOK(status int, body []byte) bool {
	var m struct {
		ID     any              `json:"id"`
		Result *json.RawMessage `json:"result"`
	}
	return status == 200 && json.Unmarshal(body, &m) == nil && m.Result != nil && m.ID == "alive"
}

func (t *streamable) Alive() string {
	hdr := map[string]string{"Accept": "application/json", "Content-Type": "application/json"}
	if t.cfg.Mode == "stateful" {
		hdr["Mcp-Session-Id"] = t.sids["s0"]
	}
	const ping = `{"jsonrpc":"2.0","id":"alive","method":"ping"}`
	r := t.fx.Do("POST", t.fx.URL, hdr, []byte(ping))
	if !pingOK(r.Status, r.Body) {
		return fmt.Sprintf("ping on the connection in use: status %d body %q err %v", r.Status, r.Body, r.Err)
	}
	req, _ := http.NewRequest("POST", t.fx.URL, strings.NewReader(ping))
	for k, v := range hdr {
		req.Header.Set(k, v)
	}
	resp, err := t.fresh.Do(req)
	if err != nil {
		return "ping on a fresh connection: " + err.Error()
	}
	b, _ := io.ReadAll(resp.Body)
	resp.Body.Close()
	if !pingOK(resp.StatusCode, b) {
		return fmt.Sprintf("ping on a fresh connection: status %d body %q", resp.StatusCode, b)
	}
	return ""
}

// ---------------------------------------------------------------------------------------------------------------------
// legacy SSE

type ssePeer struct {
	msgURL string
	cancel context.CancelFunc
	body   io.ReadCloser
	mu     sync.Mutex
	frames []string
	notify chan struct{}
	eof    chan struct{}
}

func openSSE(base string, hc *http.Client) (*ssePeer, int, error) {
	ctx, cancel := context.WithCancel(context.Background())
	req, _ := http.NewRequestWithContext(ctx, "GET", base+"/sse", nil)
	req.Header.Set("Accept", "text/event-stream")
	resp, err := hc.Do(req)
	if err != nil {
		cancel()
		return nil, 0, err
	}
	if resp.StatusCode != 200 {
		resp.Body.Close()
		cancel()
		return nil, resp.StatusCode, fmt.Errorf("GET /sse: status %d", resp.StatusCode)
	}
	p := &ssePeer{cancel: cancel, body: resp.Body, notify: make(chan struct{}, 1), eof: make(chan struct{})}
	ep := make(chan string, 1)
	go p.read(ep)
	select {
	case e := <-ep:
		p.msgURL = base + e
	case <-time.After(5 * time.Second):
		p.close()
		return nil, 200, fmt.Errorf("no endpoint event within 5s")
	}
	return p, 200, nil
}

// read: WHATWG-style SSE reader (independent of the library's).
func (p *ssePeer) read(ep chan string) {
	defer close(p.eof)
	br := bufio.NewReaderSize(p.body, 1<<20)
	evType := ""
	var data []string
	for {
		line, err := br.ReadString('\n')
		if err != nil {
			return
		}
		line = strings.TrimSuffix(strings.TrimRight(line, "\n"), "\r")
		if line == "" {
			if len(data) > 0 {
				d := strings.Join(data, "\n")
				if evType == "endpoint" {
					select {
					case ep <- d:
					default:
					}
				} else {
					p.mu.Lock()
					p.frames = append(p.frames, d)
					p.mu.Unlock()
					select {
					case p.notify <- struct{}{}:
					default:
					}
				}
			}
			evType, data = "", nil
			continue
		}
		if strings.HasPrefix(line, ":") {
			continue
		}
		field, val := line, ""
		if i := strings.Index(line, ":"); i >= 0 {
			field, val = line[:i], strings.TrimPrefix(line[i+1:], " ")
		}
		switch field {
		case "event":
			evType = val
		case "data":
			data = append(data, val)
		}
	}
}

func (p *ssePeer) close() { p.cancel(); p.body.Close() }

// takeUntil returns the frames that arrived before the frame carrying `"id":"<sentinel>"` (which is consumed).
func (p *ssePeer) takeUntil(sentinel string, ceiling time.Duration) ([]string, bool) {
	deadline := time.After(ceiling)
	needle := `"id":"` + sentinel + `"`
	for {
		p.mu.Lock()
		for i, f := range p.frames {
			if strings.Contains(f, needle) {
				out := append([]string{}, p.frames[:i]...)
				p.frames = append([]string{}, p.frames[i+1:]...)
				p.mu.Unlock()
				return out, true
			}
		}
		p.mu.Unlock()
		select {
		case <-p.notify:
		case <-p.eof:
			return nil, false
		case <-deadline:
			return nil, false
		}
	}
}

type sseTarget struct {
	reg  *Registry
	srv  *mcp.SSEServer
	ts   *httptest.Server
	hc   *http.Client
	peer *ssePeer
	plog *panicLog
	seq  int
	// expected answers that did not come (see hintMaxMisses)
	misses int
}

func newQuietTestServer(h http.Handler) *httptest.Server {
	ts := httptest.NewUnstartedServer(h)
	ts.Config.ErrorLog = hk.QuietStdLog()
	ts.Start()
	return ts
}

func NewSSE(reg *Registry) (Target, error) {
	t := &sseTarget{reg: reg, plog: &panicLog{}}
	t.srv = mcp.NewSSEServer(ServerName, ServerVersion, append([]mcp.SSEOption{mcp.WithSSEServerLogger(hk.QuietLogger{})}, reg.SSEOptions()...)...)
	reg.Install(t.srv)
	t.ts = httptest.NewUnstartedServer(t.srv)
	t.ts.Config.ErrorLog = log.New(t.plog, "", 0)
	t.ts.Start()
	t.hc = &http.Client{Transport: &http.Transport{MaxIdleConnsPerHost: 16, DisableCompression: true}}
	p, _, err := openSSE(t.ts.URL, t.hc)
	if err != nil {
		return nil, err
	}
	t.peer = p
	return t, nil
}

func (t *sseTarget) Name() string   { return "sse" }
func (t *sseTarget) Kind() string   { return "sse" }
func (t *sseTarget) Reg() *Registry { return t.reg }
func (t *sseTarget) Close() {
	t.peer.close()
	t.hc.CloseIdleConnections()
	closeWithin(3*time.Second, func() { t.ts.CloseClientConnections(); t.ts.Close() })
}

func (t *sseTarget) do(verb, url string, body []byte, hdr map[string]string) (int, []byte, error) {
	var rd io.Reader
	if body != nil {
		rd = bytes.NewReader(body)
	}
	req, err := http.NewRequest(verb, url, rd)
	if err != nil {
		return 0, nil, err
	}
	if body != nil {
		req.Header.Set("Content-Type", "application/json")
	}
	for k, v := range hdr {
		req.Header.Set(k, v)
	}
	resp, err := t.hc.Do(req)
	if err != nil {
		return 0, nil, err
	}
	defer resp.Body.Close()
	b, _ := io.ReadAll(resp.Body)
	return resp.StatusCode, b, nil
}

// sentinel sends a ping through the peer's session and returns the frames that arrived before its answer.
func (t *sseTarget) sentinel(p *ssePeer) ([]string, string) {
	t.seq++
	id := fmt.Sprintf("sentinel-%d", t.seq)
	st, _, err := t.do("POST", p.msgURL, []byte(`{"jsonrpc":"2.0","id":"`+id+`","method":"ping"}`), nil)
	if err != nil || st != 202 {
		return nil, fmt.Sprintf("sentinel ping: status %d err %v", st, err)
	}
	fr, ok := p.takeUntil(id, 5*time.Second)
	if !ok {
		return nil, "the sentinel ping was not answered on the stream within 5s"
	}
	return fr, ""
}

func (t *sseTarget) Exchange(in Input) Observed {
	var o Observed
	url := t.ts.URL
	switch in.Path {
	case "sse":
		url += "/sse"
	case "other":
		url += "/elsewhere"
	default:
		switch in.Ref {
		case "live":
			url = t.peer.msgURL
		case "unknown":
			url += "/message?sessionId=no-such-session"
		default:
			url += "/message"
		}
	}
	if in.Path == "sse" && in.Verb == "GET" {
		p, st, err := openSSE(t.ts.URL, t.hc)
		o.Status = intp(st)
		if err == nil {
			p.close()
		} else {
			o.Problems = append(o.Problems, err.Error())
		}
		return o
	}
	st, body, err := t.do(in.Verb, url, in.Body, in.Hdr)
	o.Status = intp(st)
	if err != nil {
		o.Problems = append(o.Problems, "transport: "+err.Error())
	}
	o.RawBody = string(body)
	if tb := bytes.TrimSpace(body); len(tb) > 0 && tb[0] == '{' {
		v, dup, err := Canon(tb)
		if err != nil {
			o.Problems = append(o.Problems, "answer body is not one JSON value: "+err.Error())
		} else {
			o.Body, o.Dup = v, dup
		}
	}
	var frames []string
	done := false
	if in.WantID != "" && t.misses < hintMaxMisses && st == 202 {
		// the answer itself ends the exchange: it is the last thing the request goroutine queues
		if fr, ok := takeThrough(&t.peer.mu, &t.peer.frames, t.peer.notify, t.peer.eof, in.WantID, hintCeiling); ok {
			frames, done = fr, true
		} else {
			t.misses++
			if os.Getenv("VERIF_RPC_TIMING") != "" {
				fmt.Fprintf(os.Stderr, "hint miss sse: want %s body %.200s\n", in.WantID, in.Body)
			}
		}
	}
	if !done {
		// whatever the request goroutine emits is queued before it ends; the sentinel's answer is queued after that
		if why := waitQuietOf("sse", 5*time.Second); why != "" {
			o.Problems = append(o.Problems, why)
			o.Dead = true // a request is stuck: going on would cost the ceiling again and again
		}
		more, why := t.sentinel(t.peer)
		if why != "" {
			o.Problems = append(o.Problems, why)
			o.Dead = true
		}
		frames = append(frames, more...)
	}
	for _, f := range frames {
		v, dup, err := Canon([]byte(f))
		if err != nil {
			o.Problems = append(o.Problems, "a frame is not one JSON value: "+err.Error())
			continue
		}
		o.Frames = append(o.Frames, v)
		o.Dup = o.Dup || dup
	}
	if pl := t.plog.take(); strings.Contains(pl, "panic") {
		o.Panic, o.PanicLog = true, pl
	}
	return o
}

func (t *sseTarget) ModelOp(in Input) map[string]any {
	verb := map[string]string{"POST": "post", "GET": "get", "DELETE": "delete"}[in.Verb]
	if verb == "" {
		verb = "other"
	}
	path := in.Path
	if path != "sse" && path != "other" {
		path = "message"
	}
	ref := in.Ref
	if ref != "live" && ref != "unknown" {
		ref = "missing"
	}
	return map[string]any{"k": "sse", "in": map[string]any{"verb": verb, "path": path, "ref": ref, "body": bodyEnc(in.Body, false)}, "reg": t.reg.SpecFor(in.Hdr[RoleHeader])}
}

func (t *sseTarget) Alive() string {
	if _, why := t.sentinel(t.peer); why != "" {
		return "on the open stream: " + why
	}
	p, _, err := openSSE(t.ts.URL, t.hc)
	if err != nil {
		return "opening a fresh stream: " + err.Error()
	}
	defer p.close()
	if _, why := t.sentinel(p); why != "" {
		return "on a fresh stream: " + why
	}
	return ""
}

// await: the frame carrying `"id":"<id>"` (consumed), within the ceiling.
func (p *ssePeer) await(id string) bool {
	_, ok := p.takeUntil(id, stepCeiling)
	return ok
}

func (t *sseTarget) Handshake() string {
	p, _, err := openSSE(t.ts.URL, t.hc)
	if err != nil {
		return "opening a fresh stream: " + err.Error()
	}
	defer p.close()
	hc := &http.Client{Transport: t.hc.Transport, Timeout: stepCeiling}
	post := func(body string) (int, error) {
		resp, err := hc.Post(p.msgURL, "application/json", strings.NewReader(body))
		if err != nil {
			return 0, err
		}
		io.Copy(io.Discard, resp.Body)
		resp.Body.Close()
		return resp.StatusCode, nil
	}
	if st, err := post(hsInit); err != nil || st != 202 {
		return fmt.Sprintf("initialize on a fresh stream: status %d err %v", st, err)
	}
	if !p.await("hs-init") {
		return "initialize on a fresh stream: no answer on the stream within " + stepCeiling.String()
	}
	if st, err := post(hsNotif); err != nil || st != 202 {
		return fmt.Sprintf("notifications/initialized on the fresh stream: status %d err %v", st, err)
	}
	if st, err := post(hsList); err != nil || st != 202 {
		return fmt.Sprintf("tools/list on the fresh stream: status %d err %v", st, err)
	}
	if !p.await("hs-list") {
		return "tools/list on the fresh stream: no answer within " + stepCeiling.String()
	}
	return ""
}

// ---------------------------------------------------------------------------------------------------------------------
// stdio

type stdioPeer struct {
	in     *io.PipeWriter
	cancel context.CancelFunc
	mu     sync.Mutex
	lines  []string
	notify chan struct{}
	eof    chan struct{}
}

func newStdioPeer(s *mcp.StdioServer) *stdioPeer {
	inR, inW := io.Pipe()
	outR, outW := io.Pipe()
	ctx, cancel := context.WithCancel(context.Background())
	p := &stdioPeer{in: inW, cancel: cancel, notify: make(chan struct{}, 1), eof: make(chan struct{})}
	go func() {
		mcp.VerifServeStdio(ctx, s, inR, outW)
		inR.CloseWithError(io.ErrClosedPipe) // the server stopped reading: a peer's write fails instead of blocking for ever
		outW.Close()
	}()
	go func() {
		defer close(p.eof)
		br := bufio.NewReaderSize(outR, 1<<20)
		for {
			line, err := br.ReadString('\n')
			if line != "" {
				p.mu.Lock()
				p.lines = append(p.lines, strings.TrimRight(line, "\n"))
				p.mu.Unlock()
				select {
				case p.notify <- struct{}{}:
				default:
				}
			}
			if err != nil {
				return
			}
		}
	}()
	return p
}

func (p *stdioPeer) close() { p.in.Close(); p.cancel() }

func (p *stdioPeer) takeUntil(sentinel string, ceiling time.Duration) ([]string, bool) {
	deadline := time.After(ceiling)
	needle := `"id":"` + sentinel + `"`
	for {
		p.mu.Lock()
		for i, f := range p.lines {
			if strings.Contains(f, needle) {
				out := append([]string{}, p.lines[:i]...)
				p.lines = append([]string{}, p.lines[i+1:]...)
				p.mu.Unlock()
				return out, true
			}
		}
		p.mu.Unlock()
		select {
		case <-p.notify:
		case <-p.eof:
			return nil, false
		case <-deadline:
			return nil, false
		}
	}
}

type stdioTarget struct {
	reg    *Registry
	srv    *mcp.StdioServer
	peer   *stdioPeer
	seq    int
	misses int // expected answers that did not come (see hintMaxMisses)
}

func NewStdio(reg *Registry) (Target, error) {
	t := &stdioTarget{reg: reg}
	t.srv = mcp.NewStdioServer(ServerName, ServerVersion, mcp.WithStdioServerLogger(hk.QuietLogger{}))
	reg.Install(t.srv)
	t.peer = newStdioPeer(t.srv)
	return t, nil
}

func (t *stdioTarget) Name() string   { return "stdio" }
func (t *stdioTarget) Kind() string   { return "stdio" }
func (t *stdioTarget) Reg() *Registry { return t.reg }
func (t *stdioTarget) Close()         { t.peer.close() }

func (t *stdioTarget) sentinel(p *stdioPeer) ([]string, string) {
	t.seq++
	id := fmt.Sprintf("sentinel-%d", t.seq)
	if _, err := p.in.Write([]byte(`{"jsonrpc":"2.0","id":"` + id + `","method":"ping"}` + "\n")); err != nil {
		return nil, "writing the sentinel ping: " + err.Error()
	}
	fr, ok := p.takeUntil(id, 5*time.Second)
	if !ok {
		return nil, "the sentinel ping was not answered within 5s"
	}
	return fr, ""
}

// Exchange writes one line. The server reads lines in order and handles each in its own goroutine: when the first
// sentinel is answered the line has been read and its goroutine exists; when no request goroutine is left its answer (if
// any) has been written; the reader has seen it once the second sentinel's answer is there.
func (t *stdioTarget) Exchange(in Input) Observed {
	var o Observed
	if _, err := t.peer.in.Write(append(append([]byte{}, in.Body...), '\n')); err != nil {
		o.Problems = append(o.Problems, "the server no longer reads its input: write: "+err.Error())
		o.Dead = true
		return o
	}
	if in.WantID != "" && t.misses < hintMaxMisses {
		// the answer itself ends the exchange: a request goroutine writes its answer last
		if fr, ok := takeThrough(&t.peer.mu, &t.peer.lines, t.peer.notify, t.peer.eof, in.WantID, hintCeiling); ok {
			for _, f := range fr {
				v, dup, err := Canon([]byte(f))
				if err != nil {
					o.Problems = append(o.Problems, "a line is not one JSON value: "+err.Error())
					continue
				}
				o.Frames = append(o.Frames, v)
				o.Dup = o.Dup || dup
			}
			return o
		}
		t.misses++
		if os.Getenv("VERIF_RPC_TIMING") != "" {
			fmt.Fprintf(os.Stderr, "hint miss stdio: want %s body %.200s\n", in.WantID, in.Body)
		}
	}
	a, why := t.sentinel(t.peer)
	if why != "" {
		o.Problems = append(o.Problems, why)
		o.Dead = true
		return o
	}
	var b []string
	{
		if why := waitQuietOf("stdio", 5*time.Second); why != "" {
			o.Problems = append(o.Problems, why)
			o.Dead = true // a request is stuck: going on would cost the ceiling again and again
		}
		b, why = t.sentinel(t.peer)
		if why != "" {
			o.Problems = append(o.Problems, why)
			o.Dead = true
		}
	}
	for _, f := range append(a, b...) {
		v, dup, err := Canon([]byte(f))
		if err != nil {
			o.Problems = append(o.Problems, "a line is not one JSON value: "+err.Error())
			continue
		}
		o.Frames = append(o.Frames, v)
		o.Dup = o.Dup || dup
	}
	return o
}

// StdioLine: what `processMessage` does with the line before JSON decoding (TrimSpace); ok=false: nothing to decode.
func StdioLine(b []byte) ([]byte, bool) {
	t := bytes.TrimSpace(b) // (a sub-slice: no copy of a multi-megabyte line)
	return t, len(t) > 0
}

func (t *stdioTarget) ModelOp(in Input) map[string]any {
	line, _ := StdioLine(in.Body)
	return map[string]any{"k": "stdio", "body": bodyEnc(line, true), "reg": t.reg.Spec()}
}

func (t *stdioTarget) Alive() string {
	if _, why := t.sentinel(t.peer); why != "" {
		return "on the open pipe: " + why
	}
	p := newStdioPeer(t.srv)
	defer p.close()
	if _, why := t.sentinel(p); why != "" {
		return "on a fresh transport over the same server: " + why
	}
	return ""
}

func (t *stdioTarget) Handshake() string {
	p := newStdioPeer(t.srv)
	defer p.close()
	write := func(line string) error {
		_, err := p.in.Write([]byte(line + "\n"))
		return err
	}
	await := func(id string) bool {
		_, ok := p.takeUntil(id, stepCeiling)
		return ok
	}
	if err := write(hsInit); err != nil {
		return "initialize on a fresh transport: " + err.Error()
	}
	if !await("hs-init") {
		return "initialize on a fresh transport over the same server: no answer within " + stepCeiling.String()
	}
	if err := write(hsNotif); err != nil {
		return "notifications/initialized on the fresh transport: " + err.Error()
	}
	if err := write(hsList); err != nil {
		return "tools/list on the fresh transport: " + err.Error()
	}
	if !await("hs-list") {
		return "tools/list on the fresh transport: no answer within " + stepCeiling.String()
	}
	return ""
}
