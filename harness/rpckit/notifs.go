package rpckit

// Server-written notifications on every write path (C03: every emitted message): the sender a handler finds in its
// context on a POST answered as an SSE stream (SendNotification with a bare Notification, SendCustomNotification with
// nil / empty / _meta-only params, SendLogMessage, SendProgress), Server.SendNotification / SSEServer.SendNotification
// with nil and empty params (GET stream, legacy SSE stream), a bare JSONRPCNotification pushed on the stdio session's
// notification channel. Every captured message goes to the schema oracle and to the Lean wfMsg: a notification's
// `params`, if present, is an object.

import (
	"context"
	"fmt"
	"strings"
	"time"

	mcp "trpc.group/trpc-go/trpc-mcp-go"
	"verif/harness/hk"
)

func (r *runner) serverNotifications() {
	for _, k := range allKinds {
		sc, err := newScenarioServer(k, func(register func(string, toolHandler), self *scenarioServer) {
			register("notify-nil", func(ctx context.Context, req *mcp.CallToolRequest) (*mcp.CallToolResult, error) {
				var notes []string
				if sender, ok := mcp.GetNotificationSender(ctx); ok && sender != nil {
					notes = append(notes, fmt.Sprint("bare:", sender.SendNotification(&mcp.Notification{Method: "notifications/tools/list_changed"})))
					notes = append(notes, fmt.Sprint("nil:", sender.SendCustomNotification("notifications/verif/nil", nil)))
					notes = append(notes, fmt.Sprint("empty:", sender.SendCustomNotification("notifications/verif/empty", map[string]interface{}{})))
					notes = append(notes, fmt.Sprint("meta:", sender.SendCustomNotification("notifications/verif/meta-only", map[string]interface{}{"_meta": map[string]interface{}{"k": 1}})))
					notes = append(notes, fmt.Sprint("fields:", sender.SendCustomNotification("notifications/verif/fields", map[string]interface{}{"a": 1})))
					notes = append(notes, fmt.Sprint("log:", sender.SendLogMessage("info", "x")))
					notes = append(notes, fmt.Sprint("progress:", sender.SendProgress(0.5, "half")))
					notes = append(notes, fmt.Sprint("newnotification-nil:", sender.SendNotification(mcp.NewNotification("notifications/verif/new-nil", nil))))
				}
				notes = append(notes, fmt.Sprint("server-nil:", self.notify(ctx, "notifications/verif/server-nil", nil)))
				notes = append(notes, fmt.Sprint("server-empty:", self.notify(ctx, "notifications/verif/server-empty", map[string]interface{}{})))
				notes = append(notes, fmt.Sprint("server-fields:", self.notify(ctx, "notifications/verif/server-fields", map[string]interface{}{"a": 1})))
				if sess := mcp.ClientSessionFromContext(ctx); sess != nil {
					if ch, ok := sess.(interface {
						NotificationChannel() chan<- mcp.JSONRPCNotification
					}); ok {
						// stdio: what the session's notification channel carries is written as it is
						for _, n := range []mcp.JSONRPCNotification{
							{JSONRPC: "2.0", Notification: mcp.Notification{Method: "notifications/verif/stdio-bare"}},
							{JSONRPC: "2.0", Notification: mcp.Notification{Method: "notifications/verif/stdio-empty", Params: mcp.NotificationParams{AdditionalFields: map[string]interface{}{}}}},
							*mcp.NewJSONRPCNotificationFromMap("notifications/verif/stdio-from-nil-map", nil),
						} {
							select {
							case ch.NotificationChannel() <- n:
								notes = append(notes, "stdio-channel: sent")
							default:
								notes = append(notes, "stdio-channel: full")
							}
						}
					}
				}
				return mcp.NewTextResult(strings.Join(notes, "; ")), nil
			})
		})
		if err != nil {
			r.fail("notifications-"+k, err)
			continue
		}
		var msgs []string
		body := `{"jsonrpc":"2.0","id":"notify-1","method":"tools/call","params":{"name":"notify-nil","arguments":{}}}`
		r.s.About("server-written notifications", map[string]any{"server": k})
		if fp, ok := sc.p.(*closingPeer); ok {
			// Streamable: the POST's own answer (one JSON body, or a stream of events) and the GET stream
			sp := fp.inflightPeer.(*streamablePeer)
			resp := sp.fx.Do("POST", sp.fx.URL, sp.hdr, []byte(body))
			if strings.HasPrefix(resp.Header.Get("Content-Type"), "text/event-stream") {
				var data []string
				for _, l := range strings.Split(string(resp.Body), "\n") {
					l = strings.TrimSuffix(l, "\r")
					if l == "" {
						if len(data) > 0 {
							msgs = append(msgs, strings.Join(data, "\n"))
						}
						data = nil
					} else if strings.HasPrefix(l, "data:") {
						data = append(data, strings.TrimPrefix(strings.TrimPrefix(l, "data:"), " "))
					}
				}
			} else if len(resp.Body) > 0 {
				msgs = append(msgs, string(resp.Body))
			}
			if sp.stream != nil {
				sp.stream.WaitEvents(3, 2*time.Second)
				for _, e := range sp.stream.Snapshot() {
					msgs = append(msgs, e.Data)
				}
			}
		} else if fp, ok := sc.p.(*framePeer); ok {
			sc.p.send(body)
			deadline := time.After(stepCeiling)
			for done := false; !done; {
				as, _ := sc.p.poll()
				if _, got := as[`"notify-1"`]; got {
					break
				}
				select {
				case <-sc.p.wake():
				case <-deadline:
					done = true
				}
			}
			// the notifications were queued before the answer; give the writers the time to drain what they hold
			waitQuiet(2 * time.Second)
			fp.sendFn(`{"jsonrpc":"2.0","id":"notify-sentinel","method":"ping"}`)
			d2 := time.After(stepCeiling)
			for done := false; !done; {
				as, _ := sc.p.poll()
				if _, got := as[`"notify-sentinel"`]; got {
					break
				}
				select {
				case <-sc.p.wake():
				case <-d2:
					done = true
				}
			}
			fp.mu.Lock()
			msgs = append(msgs, (*fp.frames)...)
			fp.mu.Unlock()
		}
		notifications := 0
		for _, raw := range msgs {
			v, dup, err := Canon([]byte(raw))
			if err != nil {
				r.s.Violate(hk.Violation{Fingerprint: "rpc:" + kindOf(k) + ":notification:not-json", What: "a message written while a handler sent notifications is not one JSON value: " + err.Error(),
					Input: map[string]any{"server": k}, Observed: clipS(raw, 300)})
				continue
			}
			m, _ := isObj(v)
			if _, isNotif := m["method"]; !isNotif {
				continue
			}
			notifications++
			ds := checkMsg(Expect{Class: "free"}, v)
			if dup {
				ds = append(ds, defect{"duplicate-member", ""})
			}
			r.s.Emit(map[string]any{"c": r.f.Comp + ".wf", "req": nil, "msg": v}, map[string]any{"wf": len(ds) == 0}, true, "wf-line", "server-notification")
			for _, d := range ds {
				r.s.Violate(hk.Violation{Fingerprint: "rpc:" + kindOf(k) + ":notification:wf-" + d.id,
					What:     fmt.Sprintf("%s server: a notification written by the server is not well-formed: %s %s", k, d.id, d.detail),
					Input:    map[string]any{"server": k, "how": "a tool handler sends notifications without params / with empty params on every path it has: the sender of its context, the server's SendNotification, the session's notification channel"},
					Observed: clipS(raw, 300), Expected: "jsonrpc 2.0, a string method, no id; params — if present — an object"})
			}
		}
		r.s.Count("server-notifications:"+k, notifications > 0, map[string]any{"server": k, "notifications_captured": notifications}, "server-notification")
		sc.closeAll()
	}
}
