package rpckit

// Handlers that return neither a value nor an error — (nil, nil), a typed nil pointer — for tools, prompts and resources,
// on every server kind: whatever the library makes of it, the client must get exactly ONE message with exactly one of
// result / error (C03: never silent, JSON-RPC envelope). Judged without the model (what the result should BE is the
// application's business: a `null` result is recorded, not judged).

import (
	"context"
	"fmt"
	"os"

	mcp "trpc.group/trpc-go/trpc-mcp-go"
	"verif/harness/hk"
)

func nilRegistry() *Registry {
	reg := &Registry{Name: "nil-outcomes"}
	reg.tools = []toolDef{
		{name: "nil-nil", desc: "returns (nil, nil)", class: "free",
			handler: func(ctx context.Context, req *mcp.CallToolRequest) (*mcp.CallToolResult, error) { return nil, nil }},
		{name: "typed-nil", desc: "returns a typed nil pointer", class: "free",
			handler: func(ctx context.Context, req *mcp.CallToolRequest) (*mcp.CallToolResult, error) {
				var r *mcp.CallToolResult
				return r, nil
			}},
		{name: "nil-error-value", desc: "returns a nil error held in a variable", class: "free",
			handler: func(ctx context.Context, req *mcp.CallToolRequest) (*mcp.CallToolResult, error) {
				var err error
				return mcp.NewTextResult("fine"), err
			}},
	}
	reg.prompts = []promptDef{{name: "p-nil-nil", desc: "returns (nil, nil)", class: "free",
		handler: func(ctx context.Context, req *mcp.GetPromptRequest) (*mcp.GetPromptResult, error) { return nil, nil }}}
	reg.resources = []resourceDef{
		{name: "nil-single", uri: "verif://nil/single", class: "free",
			single: func(ctx context.Context, req *mcp.ReadResourceRequest) (mcp.ResourceContents, error) { return nil, nil }},
		{name: "nil-multi", uri: "verif://nil/multi", class: "free",
			multi: func(ctx context.Context, req *mcp.ReadResourceRequest) ([]mcp.ResourceContents, error) {
				return nil, nil
			}},
		{name: "nil-item", uri: "verif://nil/item", class: "free",
			multi: func(ctx context.Context, req *mcp.ReadResourceRequest) ([]mcp.ResourceContents, error) {
				return []mcp.ResourceContents{nil}, nil
			}},
	}
	return reg
}

func (r *runner) nilOutcomes() {
	reg := nilRegistry()
	ts, err := r.targets(reg, allKinds...)
	if err != nil {
		r.fail("setup-nil-outcomes", err)
		return
	}
	reqs := []baseReq{}
	for _, t := range reg.tools {
		reqs = append(reqs, baseReq{"tools/call:" + t.name, "tools/call", vp(Obj(F("name", Str(t.name))))})
	}
	for _, p := range reg.prompts {
		reqs = append(reqs, baseReq{"prompts/get:" + p.name, "prompts/get", vp(Obj(F("name", Str(p.name))))})
	}
	for _, x := range reg.resources {
		reqs = append(reqs, baseReq{"resources/read:" + x.name, "resources/read", vp(Obj(F("uri", Str(x.uri))))})
	}
	for _, t := range ts {
		for i, b := range reqs {
			id := Int(int64(8000 + i))
			body := []byte(env(id, b.method, b.params).Raw())
			in, ok := deliver(t, body)
			if !ok {
				continue
			}
			r.s.About("nil outcome "+b.label, map[string]any{"server": t.Name()})
			in.WantID = id.Raw()
			o := t.Exchange(in)
			vio := func(what, detail string) {
				r.s.Violate(hk.Violation{Fingerprint: "rpc:" + t.Kind() + ":nil-outcome:" + what,
					What:  fmt.Sprintf("%s server, a handler that returns neither a value nor an error (%s): %s", t.Kind(), b.label, detail),
					Input: map[string]any{"server": t.Name(), "request": string(body)}, Observed: o.Outcome(), Expected: "exactly one message for the request's id with exactly one of result / error"})
			}
			ms := o.Messages()
			note := ""
			switch {
			case len(o.Problems) > 0:
				vio("peer-problem", fmt.Sprint(o.Problems))
			case len(ms) == 0:
				vio("unanswered", "no message at all")
			case len(ms) > 1:
				vio("more-than-one-message", fmt.Sprint(len(ms)))
			default:
				m, _ := isObj(ms[0])
				res, hasRes := m["result"]
				for _, d := range checkMsg(Expect{Class: "free", Method: b.method, HasID: true, ID: id, Req: true}, ms[0]) {
					if (d.id == "result-shape" || d.id == "null-slice") && hasRes {
						// the value is the application's: recorded below
						note = d.detail
						continue
					}
					vio("wf-"+d.id, d.detail)
				}
				if hasRes && res == nil {
					note = "result: null"
				} else if _, isErr := m["error"]; isErr {
					note = "answered with an error"
				}
			}
			if os.Getenv("VERIF_RPC_TIMING") != "" {
				fmt.Fprintf(os.Stderr, "nil outcome %s %s: %s\n", t.Name(), b.label, note)
			}
			r.s.Count("nil-outcome:"+t.Name()+":"+b.label, len(ms) == 1, map[string]any{"server": t.Name(), "request": b.label, "answer": note}, "nil-outcome")
		}
		t.Close()
	}
}
