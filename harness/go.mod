module verif/harness

go 1.23

require (
	github.com/getkin/kin-openapi v0.124.0
	trpc.group/trpc-go/trpc-mcp-go v0.0.0
)

require (
	github.com/go-openapi/jsonpointer v0.20.2 // indirect
	github.com/go-openapi/swag v0.22.8 // indirect
	github.com/google/uuid v1.6.0 // indirect
	github.com/invopop/yaml v0.2.0 // indirect
	github.com/josharian/intern v1.0.0 // indirect
	github.com/mailru/easyjson v0.7.7 // indirect
	github.com/mohae/deepcopy v0.0.0-20170929034955-c48cc78d4826 // indirect
	github.com/perimeterx/marshmallow v1.1.5 // indirect
	github.com/yosida95/uritemplate/v3 v3.0.2 // indirect
	go.uber.org/multierr v1.10.0 // indirect
	go.uber.org/zap v1.27.0 // indirect
	gopkg.in/yaml.v3 v3.0.1 // indirect
)

replace trpc.group/trpc-go/trpc-mcp-go => /repo
