// Package hk is the shared harness kit: it drives the real trpc-mcp-go code in-process (built with -tags verif from /repo's
// working tree) and writes, per component, the operation lines for the Lean model (ops.jsonl), the
// canonicalised observations of the implementation (impl.jsonl) and a report with implementation-level
// oracle verdicts (report.json).
package hk

import (
	"bufio"
	"encoding/json"
	"flag"
	"fmt"
	"math/rand"
	"os"
	"path/filepath"
	"sync"
	"time"
)

// Violation is an implementation-level failure of the property itself (found by an oracle, not by the diff).
type Violation struct {
	Fingerprint string `json:"fingerprint"` // canonical, specific: matched against known_findings.json
	What        string `json:"what"`
	Input       any    `json:"input"`
	Observed    any    `json:"observed,omitempty"`
	Expected    any    `json:"expected,omitempty"`
}

type Report struct {
	Component    string         `json:"component"`
	Tier         string         `json:"tier"`
	Seed         int64          `json:"seed"`
	Evaluations  int            `json:"evaluations"`
	Nontrivial   int            `json:"distinct_nontrivial"`
	Rule         string         `json:"rule"`
	Samples      []any          `json:"samples"`
	Distribution map[string]int `json:"distribution"`
	Violations   []Violation    `json:"violations"`
	Noise        int            `json:"harness_noise"`
	Exhaustive   bool           `json:"exhaustive"`
	WallS        float64        `json:"wall_s"`
	Extra        map[string]any `json:"extra,omitempty"`
}

// Ctx is what a component gets to emit its cases.
type Ctx struct {
	Tier string
	Seed int64
	Rng  *rand.Rand
	Dir  string

	mu      sync.Mutex
	ops     *bufio.Writer
	impl    *bufio.Writer
	rep     *Report
	seen    map[string]bool
	maxSamp int
}

func (c *Ctx) Thorough() bool { return c.Tier == "thorough" }

func canon(v any) []byte {
	b, err := json.Marshal(v)
	if err != nil {
		panic(fmt.Sprintf("canon: %v (%#v)", err, v))
	}
	return b
}

// Emit records one model operation and the implementation's canonical observation for it.
// nontrivial: the case reached a non-error / interesting branch (rule is stated in the report).
func (c *Ctx) Emit(op map[string]any, impl any, nontrivial bool, tags ...string) {
	c.mu.Lock()
	defer c.mu.Unlock()
	ob := canon(op)
	c.ops.Write(ob)
	c.ops.WriteByte('\n')
	c.impl.Write(canon(impl))
	c.impl.WriteByte('\n')
	c.rep.Evaluations++
	k := string(ob)
	if nontrivial && !c.seen[k] {
		c.seen[k] = true
		c.rep.Nontrivial++
	}
	for _, t := range tags {
		c.rep.Distribution[t]++
	}
	if len(c.rep.Samples) < c.maxSamp && (c.rep.Evaluations%97 == 1) {
		c.rep.Samples = append(c.rep.Samples, map[string]any{"op": op, "impl": impl})
	}
}

// Count records an evaluation that has no model line (pure implementation-level oracle runs).
func (c *Ctx) Count(key string, nontrivial bool, sample any, tags ...string) {
	c.mu.Lock()
	defer c.mu.Unlock()
	c.rep.Evaluations++
	if nontrivial && !c.seen[key] {
		c.seen[key] = true
		c.rep.Nontrivial++
	}
	for _, t := range tags {
		c.rep.Distribution[t]++
	}
	if sample != nil && len(c.rep.Samples) < c.maxSamp && (c.rep.Evaluations%97 == 1) {
		c.rep.Samples = append(c.rep.Samples, sample)
	}
}

func (c *Ctx) Tag(t string) {
	c.mu.Lock()
	c.rep.Distribution[t]++
	c.mu.Unlock()
}

func (c *Ctx) Violate(v Violation) {
	c.mu.Lock()
	defer c.mu.Unlock()
	for _, o := range c.rep.Violations {
		if o.Fingerprint == v.Fingerprint {
			return // one witness per fingerprint is enough
		}
	}
	c.rep.Violations = append(c.rep.Violations, v)
}

func (c *Ctx) Noise() { c.mu.Lock(); c.rep.Noise++; c.mu.Unlock() }

func (c *Ctx) SetExtra(k string, v any) {
	c.mu.Lock()
	if c.rep.Extra == nil {
		c.rep.Extra = map[string]any{}
	}
	c.rep.Extra[k] = v
	c.mu.Unlock()
}

type Component struct {
	Name string
	Rule string
	Run  func(c *Ctx)
}

// Main runs one component: `<binary> -tier quick|thorough -seed N -dir <workdir>`.
func Main(comp *Component) {
	tier := flag.String("tier", "quick", "quick|thorough")
	seed := flag.Int64("seed", 1, "PRNG seed")
	dir := flag.String("dir", "", "work directory for <name>.ops.jsonl / <name>.impl.jsonl / <name>.report.json")
	replay := flag.String("replay", "", "replay file (component specific)")
	flag.Parse()
	name := comp.Name
	if *dir == "" {
		fmt.Fprintln(os.Stderr, "-dir required")
		os.Exit(2)
	}
	os.MkdirAll(*dir, 0o755)
	of, err := os.Create(filepath.Join(*dir, name+".ops.jsonl"))
	if err != nil {
		panic(err)
	}
	imf, err := os.Create(filepath.Join(*dir, name+".impl.jsonl"))
	if err != nil {
		panic(err)
	}
	c := &Ctx{Tier: *tier, Seed: *seed, Rng: rand.New(rand.NewSource(*seed)), Dir: *dir,
		ops: bufio.NewWriterSize(of, 1<<20), impl: bufio.NewWriterSize(imf, 1<<20),
		rep:  &Report{Component: name, Tier: *tier, Seed: *seed, Rule: comp.Rule, Distribution: map[string]int{}, Samples: []any{}, Violations: []Violation{}},
		seen: map[string]bool{}, maxSamp: 6}
	ReplayFile = *replay
	start := time.Now()
	comp.Run(c)
	c.rep.WallS = time.Since(start).Seconds()
	c.ops.Flush()
	c.impl.Flush()
	of.Close()
	imf.Close()
	rb, _ := json.MarshalIndent(c.rep, "", " ")
	if err := os.WriteFile(filepath.Join(*dir, name+".report.json"), rb, 0o644); err != nil {
		panic(err)
	}
}

// ReplayFile is the value of -replay (component specific).
var ReplayFile string
