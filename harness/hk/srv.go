package hk

import (
	"bufio"
	"bytes"
	"context"
	"io"
	"log"
	"net/http"
	"net/http/httptest"
	"strings"
	"sync"
	"time"

	mcp "trpc.group/trpc-go/trpc-mcp-go"
)

// QuietLogger silences the library.
type QuietLogger struct{}

func (QuietLogger) Debug(args ...interface{})                 {}
func (QuietLogger) Debugf(format string, args ...interface{}) {}
func (QuietLogger) Info(args ...interface{})                  {}
func (QuietLogger) Infof(format string, args ...interface{})  {}
func (QuietLogger) Warn(args ...interface{})                  {}
func (QuietLogger) Warnf(format string, args ...interface{})  {}
func (QuietLogger) Error(args ...interface{})                 {}
func (QuietLogger) Errorf(format string, args ...interface{}) {}
func (QuietLogger) Fatal(args ...interface{})                 {}
func (QuietLogger) Fatalf(format string, args ...interface{}) {}

func init() { mcp.SetDefaultLogger(QuietLogger{}) }

// QuietStdLog is a *log.Logger that discards (for http.Server.ErrorLog).
func QuietStdLog() *log.Logger { return log.New(io.Discard, "", 0) }

type SrvCfg struct {
	Mode    string // stateful | stateless | sessionsOff
	Get     bool
	PostSSE bool
}

func (c SrvCfg) Opts() []mcp.ServerOption {
	o := []mcp.ServerOption{mcp.WithServerLogger(QuietLogger{}), mcp.WithServerPath("/mcp"), mcp.WithGetSSEEnabled(c.Get), mcp.WithPostSSEEnabled(c.PostSSE)}
	switch c.Mode {
	case "stateless":
		o = append(o, mcp.WithStatelessMode(true))
	case "sessionsOff":
		o = append(o, mcp.WithoutSession())
	}
	return o
}

type Fixture struct {
	S   *mcp.Server
	TS  *httptest.Server
	URL string
	HC  *http.Client
}

func NewFixture(c SrvCfg, extra ...mcp.ServerOption) *Fixture {
	s := mcp.NewServer("verif-server", "1.2.3", append(c.Opts(), extra...)...)
	ts := httptest.NewUnstartedServer(s.Handler())
	ts.Config.ErrorLog = nil
	ts.Config.ErrorLog = QuietStdLog()
	ts.Start()
	tr := &http.Transport{MaxIdleConnsPerHost: 64, DisableCompression: true}
	return &Fixture{S: s, TS: ts, URL: ts.URL + "/mcp", HC: &http.Client{Transport: tr}}
}

func (f *Fixture) Close() {
	f.HC.CloseIdleConnections()
	f.TS.CloseClientConnections()
	f.TS.Close()
}

type RawResp struct {
	Status int // 0 = connection aborted without an answer
	Header http.Header
	Body   []byte
	Err    error
}

func (f *Fixture) Do(method, url string, hdr map[string]string, body []byte) RawResp {
	var rd io.Reader
	if body != nil {
		rd = bytes.NewReader(body)
	}
	req, err := http.NewRequest(method, url, rd)
	if err != nil {
		return RawResp{Err: err}
	}
	for k, v := range hdr {
		req.Header.Set(k, v)
	}
	resp, err := f.HC.Do(req)
	if err != nil {
		return RawResp{Status: 0, Err: err}
	}
	defer resp.Body.Close()
	b, _ := io.ReadAll(resp.Body)
	return RawResp{Status: resp.StatusCode, Header: resp.Header, Body: b}
}

func (f *Fixture) Post(hdr map[string]string, body string) RawResp {
	h := map[string]string{"Content-Type": "application/json"}
	for k, v := range hdr {
		h[k] = v
	}
	return f.Do("POST", f.URL, h, []byte(body))
}

// stream is a client-side listening (GET) stream.
type Stream struct {
	resp       *http.Response
	cancel     context.CancelFunc
	eof        chan struct{} // closed when the server ended the stream (or the read failed)
	mu         sync.Mutex
	events     []SSEEvent
	closedByUs bool
	notify     chan struct{}
}

type SSEEvent struct {
	ID   string
	Data string
}

// OpenStream performs the GET; returns status and (for 200) a stream whose events are collected in the background.
func (f *Fixture) OpenStream(hdr map[string]string) (int, http.Header, *Stream, error) {
	ctx, cancel := context.WithCancel(context.Background())
	req, _ := http.NewRequestWithContext(ctx, "GET", f.URL, nil)
	req.Header.Set("Accept", "text/event-stream")
	for k, v := range hdr {
		req.Header.Set(k, v)
	}
	resp, err := f.HC.Do(req)
	if err != nil {
		cancel()
		return 0, nil, nil, err
	}
	if resp.StatusCode != 200 {
		io.Copy(io.Discard, resp.Body)
		resp.Body.Close()
		cancel()
		return resp.StatusCode, resp.Header, nil, nil
	}
	st := &Stream{resp: resp, cancel: cancel, eof: make(chan struct{}), notify: make(chan struct{}, 1024)}
	go st.readLoop()
	return 200, resp.Header, st, nil
}

// readLoop is a WHATWG-style SSE reader (reference reader, independent of the library's).
func (s *Stream) readLoop() {
	defer close(s.eof)
	br := bufio.NewReaderSize(s.resp.Body, 1<<20)
	var id string
	var data []string
	hasData := false
	for {
		line, err := br.ReadString('\n')
		if err != nil {
			return
		}
		line = strings.TrimRight(line, "\n")
		line = strings.TrimSuffix(line, "\r")
		if line == "" {
			if hasData {
				s.mu.Lock()
				s.events = append(s.events, SSEEvent{ID: id, Data: strings.Join(data, "\n")})
				s.mu.Unlock()
				select {
				case s.notify <- struct{}{}:
				default:
				}
			}
			data = nil
			hasData = false
			continue
		}
		if strings.HasPrefix(line, ":") {
			continue
		}
		field, val := line, ""
		if i := strings.Index(line, ":"); i >= 0 {
			field, val = line[:i], strings.TrimPrefix(line[i+1:], " ")
		}
		switch field {
		case "id":
			id = val
		case "data":
			data = append(data, val)
			hasData = true
		}
	}
}

func (s *Stream) Ended(wait time.Duration) bool {
	if wait <= 0 {
		select {
		case <-s.eof:
			return true
		default:
			return false
		}
	}
	select {
	case <-s.eof:
		return true
	case <-time.After(wait):
		return false
	}
}

func (s *Stream) CloseByClient() {
	s.mu.Lock()
	s.closedByUs = true
	s.mu.Unlock()
	s.cancel()
	s.resp.Body.Close()
}

func (s *Stream) Snapshot() []SSEEvent {
	s.mu.Lock()
	defer s.mu.Unlock()
	return append([]SSEEvent{}, s.events...)
}

// WaitEvents waits until at least n events have arrived or the timeout passes.
func (s *Stream) WaitEvents(n int, timeout time.Duration) []SSEEvent {
	deadline := time.After(timeout)
	for {
		ev := s.Snapshot()
		if len(ev) >= n {
			return ev
		}
		select {
		case <-s.notify:
		case <-s.eof:
			return s.Snapshot()
		case <-deadline:
			return s.Snapshot()
		}
	}
}
