// Component "rpc" (C03): every message the three servers emit, for valid requests with every handler outcome and for the
// exhaustive structural mutation of every request, is compared with the Lean model `Mcp.Rpc.serve*` and judged by
// implementation-level oracles written from the JSON-RPC 2.0 / MCP schema (shared code: verif/harness/rpckit).
package main

import "verif/harness/rpckit"

func main() {
	rpckit.Main(rpckit.Focus{Comp: "rpc", Kind: "wf"},
		"three real servers with the same registrations (Streamable HTTP: stateful with JSON answers, stateful with SSE answers, stateless, sessions disabled; legacy SSE with a raw stream peer; stdio transport loop on pipes); every valid request of every method with every handler outcome (result, isError, Go error, unencodable, nil slices) and a spread of ids, then each envelope member and each parameter member the managers read removed / retyped to each of 7 JSON kinds / duplicated / re-spelled, whole-body retypes, notifications, responses to never-sent requests, truncated and random bytes, numbers float64 cannot hold, deep and large values, verb x path x session x Accept x body products; repeated life-cycle messages, 2 MiB and ~5 MiB inputs; request headers from their grammars (Accept with every parameter shape, Content-Type, Mcp-Session-Id, Last-Event-ID) with bodies of every kind, the Accept header being an input of the model (framing predicted per answered request); servers configured with list filters (hide all: nil / empty slice, hide some, keyed on a context value); results and notifications of 40 KiB - 1 MiB with comma-rich texts on every path incl. the GET stream (model-free: one JSON value, schema, text unchanged); finally 128-256 pipelined requests (stdio: one write, slow reader; Streamable HTTP and legacy SSE: concurrent POSTs) judged without the model (every line one well-formed object, answered ids = request ids as multisets, each answer its own request's); every exchange is one model line (status, body, frames), every captured message additionally one wfMsg line; non-trivial = the server emitted a message or refused with a status >= 400")
}
