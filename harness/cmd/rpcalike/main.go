// Component "rpcalike" (C14): the same well-formed request goes to all six server configurations; normalised outcomes are
// compared pairwise and every exchange is diffed against the Lean model (shared code: verif/harness/rpckit).
package main

import "verif/harness/rpckit"

func main() {
	rpckit.Main(rpckit.Focus{Comp: "rpcalike", Kind: "alike"},
		"for three registrations (every handler outcome / small / no prompts and resources) every valid request and every parameter mutation with a well-formed envelope (string or integer id incl. 0, negative, 2^53, beyond 2^53) is sent to Streamable HTTP (stateful JSON, stateful SSE answers, stateless, sessions disabled), legacy SSE and stdio; the normalised outcome (result with lists sorted by name, or error code) must be equal on all six; the registrations and requests carry control characters, non-UTF-8 bytes and printf material; request sequences that overlap in time on one session (a call blocking until another request of the session releases it, bounded wait) must be answered alike on all six; each exchange is also one model line; non-trivial = a message was emitted")
}
