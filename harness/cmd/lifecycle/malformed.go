package main

// Malformed answers to `initialize` (property C16: "uninitialized again after … a failed handshake", "performs no
// operation before a successful handshake").  The scripted peers (fake streamable server — JSON and SSE-framed answers —,
// fake legacy-SSE server, stdio child) answer the initialize request of a client whose clientInfo.name names one of the
// scenarios below with that scenario's answer.  Every answer carrying an `error` object is a REFUSAL: Initialize must
// fail, the client stays uninitialized (disconnected, operations refused as not initialized without traffic) and puts
// nothing further on the wire — in particular no notifications/initialized.  For the other malformed answers the
// model follows what the code does (several are accepted today; the table is part of the report, see `malformedToday`).

import (
	"encoding/json"
	"fmt"
	"strings"
	"time"

	"verif/harness/hk"
)

const (
	goodInitResult = `{"protocolVersion":"2025-03-26","capabilities":{"tools":{"listChanged":true}},"serverInfo":{"name":"fake","version":"0"}}`
	refusalObject  = `{"code":-32000,"message":"scripted refusal"}`
)

type scenario struct {
	Name string
	// Refusal: the answer carries an error OBJECT for the request's id — whatever else it carries, the handshake is refused.
	Refusal bool
	// body of the answer; %ID% is replaced by the request's id; "" = the peer stays silent
	Body string
}

var scenarios = []scenario{
	// both members
	{"bothNullResult", true, `{"jsonrpc":"2.0","id":%ID%,"result":null,"error":` + refusalObject + `}`},
	{"bothErrorFirst", true, `{"jsonrpc":"2.0","id":%ID%,"error":` + refusalObject + `,"result":null}`},
	{"bothFullResult", true, `{"jsonrpc":"2.0","id":%ID%,"result":` + goodInitResult + `,"error":` + refusalObject + `}`},
	{"bothEmptyResult", true, `{"jsonrpc":"2.0","id":%ID%,"result":{},"error":` + refusalObject + `}`},
	// error member of the wrong type
	{"errorString", false, `{"jsonrpc":"2.0","id":%ID%,"error":"scripted refusal"}`},
	{"errorNumber", false, `{"jsonrpc":"2.0","id":%ID%,"error":-32000}`},
	{"errorArray", false, `{"jsonrpc":"2.0","id":%ID%,"error":[` + refusalObject + `]}`},
	{"errorNull", false, `{"jsonrpc":"2.0","id":%ID%,"error":null}`},
	{"errorNullFullResult", false, `{"jsonrpc":"2.0","id":%ID%,"result":` + goodInitResult + `,"error":null}`},
	// neither member, result of the wrong type / shape
	{"neither", false, `{"jsonrpc":"2.0","id":%ID%}`},
	{"resultNull", false, `{"jsonrpc":"2.0","id":%ID%,"result":null}`},
	{"resultString", false, `{"jsonrpc":"2.0","id":%ID%,"result":"ok"}`},
	{"resultArray", false, `{"jsonrpc":"2.0","id":%ID%,"result":[]}`},
	{"resultNumber", false, `{"jsonrpc":"2.0","id":%ID%,"result":7}`},
	{"resultEmptyObject", false, `{"jsonrpc":"2.0","id":%ID%,"result":{}}`},
	{"noVersion", false, `{"jsonrpc":"2.0","id":%ID%,"result":{"capabilities":{"tools":{"listChanged":true}},"serverInfo":{"name":"fake","version":"0"}}}`},
	{"unsupportedVersion", false, `{"jsonrpc":"2.0","id":%ID%,"result":{"protocolVersion":"1999-01-01","capabilities":{},"serverInfo":{"name":"fake","version":"0"}}}`},
	{"emptyVersion", false, `{"jsonrpc":"2.0","id":%ID%,"result":{"protocolVersion":"","capabilities":{},"serverInfo":{"name":"fake","version":"0"}}}`},
	// the answer never comes / something else comes
	{"wrongId", false, `{"jsonrpc":"2.0","id":987654321,"result":` + goodInitResult + `}`},
	{"wrongIdRefusal", false, `{"jsonrpc":"2.0","id":987654321,"error":` + refusalObject + `}`},
	{"noAnswer", false, ``},
	{"notification", false, `{"jsonrpc":"2.0","method":"notifications/message","params":{"level":"info","data":"not an answer"}}`},
	// not JSON-RPC 2.0
	{"invalidJSON", false, `{"jsonrpc":"2.0","id":%ID%,"result":{"protocolVersion":`},
	{"wrongJsonrpc", false, `{"jsonrpc":"1.0","id":%ID%,"result":` + goodInitResult + `}`},
	{"noJsonrpc", false, `{"id":%ID%,"result":` + goodInitResult + `}`},
	{"wrongJsonrpcRefusal", true, `{"jsonrpc":"1.0","id":%ID%,"error":` + refusalObject + `}`},
}

var scenarioByName = func() map[string]scenario {
	m := map[string]scenario{}
	for _, s := range scenarios {
		m[s.Name] = s
	}
	return m
}()

// scenarioOf splits clientInfo.name: "<scenario>" or "<scenario>@sse" (the streamable fake frames the answer as an SSE stream).
func scenarioOf(clientName string) (scenario, bool, bool) {
	name, framed := strings.CutSuffix(clientName, "@sse")
	s, ok := scenarioByName[name]
	return s, framed, ok
}

// malformedAnswer: the scripted answer to an initialize of that client (known = the name is a scenario; nil = silence).
func malformedAnswer(clientName string, id json.RawMessage) (ans []byte, known bool) {
	s, _, ok := scenarioOf(clientName)
	if !ok {
		return nil, false
	}
	if s.Body == "" {
		return nil, true
	}
	return []byte(strings.ReplaceAll(s.Body, "%ID%", string(id))), true
}

// ---------- what today's code does: scenario x client -> model environment

// What a handshake under a scenario looks like from outside, in the model's alphabet:
//   rpcErr     initialize on the wire, Initialize fails, nothing further (a refusal; stage 2)
//   badResult  the same trace, for an answer that is not a refusal (stage 3: nothing usable)
//   noAnswer   initialize on the wire, no usable answer within the caller's deadline: fails, nothing further
//   ok         ACCEPTED: notifications/initialized follows, the client is initialized
// The table is what the unchanged code does (measured; the run re-measures it and reports every deviation as a
// disagreement with the model, and every accepted REFUSAL through the statement-level oracle).
// Keys: scenario, then client kind ("streamable", "streamable@sse", "sse", "stdio").
var malformedToday = map[string]map[string]string{}

func modelEnvOf(kind string, framed bool, scn string) string {
	k := kind
	if framed {
		k += "@sse"
	}
	if m, ok := malformedToday[scn]; ok {
		if e, ok := m[k]; ok {
			return e
		}
	}
	return "badResult"
}

// waits: the client sits out its deadline under this scenario (so the history gets a short one).
func waits(kind string, framed bool, scn string) bool { return modelEnvOf(kind, framed, scn) == "noAnswer" }

// answerDeadline: the per-call deadline of a handshake whose answer will not come (event: the deadline itself).
const answerDeadline = 500 * time.Millisecond

// probeDeadline > 0: measuring mode (VERIF_LIFECYCLE_PROBE=1): every scenario handshake gets this deadline.
var probeDeadline time.Duration

// probeMalformed prints what the code under test does for every scenario x client (how malformedToday was measured).
func probeMalformed(dir string) {
	installRecorder()
	probeDeadline = 1500 * time.Millisecond
	c := &hk.Ctx{Dir: dir}
	p, done := newPeers(c)
	defer done()
	idx := 900000
	for _, s := range scenarios {
		for _, k := range []string{"streamable", "streamable@sse", "sse", "stdio"} {
			kind, framed := strings.CutSuffix(k, "@sse")
			ops := []cOp{{T: "init", E: "probe", S: s.Name, Framed: framed}, {T: "req", K: "ListTools"}, {T: "roots"}, {T: "terminate"}, {T: "init", E: "ok"}, {T: "req", K: "ListTools"}}
			if kind == "stdio" {
				ops = []cOp{ops[0], ops[1], ops[2], ops[4], ops[5]}
			}
			idx++
			t0 := time.Now()
			r := runClientHistory(p, kind, ops[:1], idx)
			waited := time.Since(t0) > probeDeadline*9/10
			idx++
			r = runClientHistory(p, kind, ops, idx)
			var parts []string
			for _, o := range r.outs {
				parts = append(parts, fmt.Sprintf("%s/%s/%s", o.Res, o.State, strings.Join(o.Wire, "+")))
			}
			fmt.Printf("%-22s %-15s waited=%-5v %s\n", s.Name, k, waited, parts[0])
		}
	}
}
