package main

// Malformed answers to `initialize` (property C16: "uninitialized again after … a failed handshake", "performs no
// operation before a successful handshake").  The scripted peers (fake streamable server — JSON and SSE-framed answers —,
// fake legacy-SSE server, stdio child) answer the initialize request of a client whose clientInfo.name names one of the
// scenarios below with that scenario's answer.  Every answer carrying an `error` object is a REFUSAL: Initialize must
// fail, the client stays uninitialized (disconnected, operations refused as not initialized without traffic) and puts
// nothing further on the wire — in particular no notifications/initialized.  For the other malformed answers the
// model follows what the code does (several are accepted today; the table is part of the report, see `malformedToday`).

import (
	"encoding/json"
	"fmt"
	"strings"
	"time"

	"verif/harness/hk"
)

const (
	goodInitResult = `{"protocolVersion":"2025-03-26","capabilities":{"tools":{"listChanged":true}},"serverInfo":{"name":"fake","version":"0"}}`
	refusalObject  = `{"code":-32000,"message":"scripted refusal"}`
)

type scenario struct {
	Name string
	// Refusal: the answer carries an error OBJECT for the request's id — whatever else it carries, the handshake is refused.
	Refusal bool
	// body of the answer; %ID% is replaced by the request's id; "" = the peer stays silent
	Body string
}

var scenarios = []scenario{
	// both members
	{"bothNullResult", true, `{"jsonrpc":"2.0","id":%ID%,"result":null,"error":` + refusalObject + `}`},
	{"bothErrorFirst", true, `{"jsonrpc":"2.0","id":%ID%,"error":` + refusalObject + `,"result":null}`},
	{"bothFullResult", true, `{"jsonrpc":"2.0","id":%ID%,"result":` + goodInitResult + `,"error":` + refusalObject + `}`},
	{"bothEmptyResult", true, `{"jsonrpc":"2.0","id":%ID%,"result":{},"error":` + refusalObject + `}`},
	// error member of the wrong type
	{"errorString", false, `{"jsonrpc":"2.0","id":%ID%,"error":"scripted refusal"}`},
	{"errorNumber", false, `{"jsonrpc":"2.0","id":%ID%,"error":-32000}`},
	{"errorArray", false, `{"jsonrpc":"2.0","id":%ID%,"error":[` + refusalObject + `]}`},
	{"errorNull", false, `{"jsonrpc":"2.0","id":%ID%,"error":null}`},
	{"errorNullFullResult", false, `{"jsonrpc":"2.0","id":%ID%,"result":` + goodInitResult + `,"error":null}`},
	// neither member, result of the wrong type / shape
	{"neither", false, `{"jsonrpc":"2.0","id":%ID%}`},
	{"resultNull", false, `{"jsonrpc":"2.0","id":%ID%,"result":null}`},
	{"resultString", false, `{"jsonrpc":"2.0","id":%ID%,"result":"ok"}`},
	{"resultArray", false, `{"jsonrpc":"2.0","id":%ID%,"result":[]}`},
	{"resultNumber", false, `{"jsonrpc":"2.0","id":%ID%,"result":7}`},
	{"resultEmptyObject", false, `{"jsonrpc":"2.0","id":%ID%,"result":{}}`},
	{"noVersion", false, `{"jsonrpc":"2.0","id":%ID%,"result":{"capabilities":{"tools":{"listChanged":true}},"serverInfo":{"name":"fake","version":"0"}}}`},
	{"unsupportedVersion", false, `{"jsonrpc":"2.0","id":%ID%,"result":{"protocolVersion":"1999-01-01","capabilities":{},"serverInfo":{"name":"fake","version":"0"}}}`},
	{"emptyVersion", false, `{"jsonrpc":"2.0","id":%ID%,"result":{"protocolVersion":"","capabilities":{},"serverInfo":{"name":"fake","version":"0"}}}`},
	// the answer never comes / something else comes
	{"wrongId", false, `{"jsonrpc":"2.0","id":987654321,"result":` + goodInitResult + `}`},
	{"wrongIdRefusal", false, `{"jsonrpc":"2.0","id":987654321,"error":` + refusalObject + `}`},
	{"noAnswer", false, ``},
	{"notification", false, `{"jsonrpc":"2.0","method":"notifications/message","params":{"level":"info","data":"not an answer"}}`},
	// not JSON-RPC 2.0
	{"invalidJSON", false, `{"jsonrpc":"2.0","id":%ID%,"result":{"protocolVersion":`},
	{"wrongJsonrpc", false, `{"jsonrpc":"1.0","id":%ID%,"result":` + goodInitResult + `}`},
	{"noJsonrpc", false, `{"id":%ID%,"result":` + goodInitResult + `}`},
	{"wrongJsonrpcRefusal", true, `{"jsonrpc":"1.0","id":%ID%,"error":` + refusalObject + `}`},
}

var scenarioByName = func() map[string]scenario {
	m := map[string]scenario{}
	for _, s := range scenarios {
		m[s.Name] = s
	}
	return m
}()

// scenarioOf splits clientInfo.name: "<scenario>" or "<scenario>@sse" (the streamable fake frames the answer as an SSE stream).
func scenarioOf(clientName string) (scenario, bool, bool) {
	name, framed := strings.CutSuffix(clientName, "@sse")
	s, ok := scenarioByName[name]
	return s, framed, ok
}

// malformedAnswer: the scripted answer to an initialize of that client (known = the name is a scenario; nil = silence).
func malformedAnswer(clientName string, id json.RawMessage) (ans []byte, known bool) {
	s, _, ok := scenarioOf(clientName)
	if !ok {
		return nil, false
	}
	if s.Body == "" {
		return nil, true
	}
	return []byte(strings.ReplaceAll(s.Body, "%ID%", string(id))), true
}

// ---------- what today's code does: scenario x client -> model environment

// What a handshake under a scenario looks like from outside, in the model's alphabet:
//
//	rpcErr     initialize on the wire, Initialize fails, nothing further (a refusal; stage 2)
//	badResult  the same trace, for an answer that is not a refusal (stage 3: nothing usable)
//	noAnswer   initialize on the wire, no usable answer within the caller's deadline: fails, nothing further
//	ok         ACCEPTED: notifications/initialized follows, the client is initialized
//
// The table is what the unchanged code does (measured; the run re-measures it and reports every deviation as a
// disagreement with the model, and every accepted REFUSAL through the statement-level oracle).
// Keys: scenario, then client kind ("streamable", "streamable@sse", "sse", "stdio").
var malformedToday = func() map[string]map[string]string {
	all := []string{"streamable", "streamable@sse", "sse", "stdio"}
	m := map[string]map[string]string{}
	set := func(env string, scn string, kinds ...string) {
		if m[scn] == nil {
			m[scn] = map[string]string{}
		}
		for _, k := range kinds {
			m[scn][k] = env
		}
	}
	// default (modelEnvOf): rpcErr for a refusal, badResult otherwise — Initialize fails at once, nothing further
	// ACCEPTED today on every client: a null / empty result, a result without / with an unsupported / empty protocolVersion
	for _, scn := range []string{"resultNull", "resultEmptyObject", "noVersion", "unsupportedVersion", "emptyVersion"} {
		set("ok", scn, all...)
	}
	// ACCEPTED by the HTTP transports (they do not look at the jsonrpc member); the stdio transport drops such a line
	set("ok", "wrongJsonrpc", "streamable", "streamable@sse", "sse")
	set("ok", "noJsonrpc", "streamable", "streamable@sse", "sse")
	// ACCEPTED by the streamable transport when the POST is answered with plain JSON: the id of the answer is not compared
	set("ok", "wrongId", "streamable")
	// no usable answer: the caller's deadline ends the call (the streamable fake answers 202 without a session id at once)
	set("noAnswer", "noAnswer", all...)
	for _, scn := range []string{"wrongId", "wrongIdRefusal", "notification", "invalidJSON"} {
		set("noAnswer", scn, "sse", "stdio")
	}
	// the stdio transport cannot classify these lines (error member not an object, neither member, jsonrpc not "2.0"):
	// it drops them and the call runs into its deadline
	for _, scn := range []string{"errorString", "errorNumber", "errorArray", "neither", "wrongJsonrpc", "noJsonrpc", "wrongJsonrpcRefusal"} {
		set("noAnswer", scn, "stdio")
	}
	return m
}()

func modelEnvOf(kind string, framed bool, scn string) string {
	k := kind
	if framed {
		k += "@sse"
	}
	if m, ok := malformedToday[scn]; ok {
		if e, ok := m[k]; ok {
			return e
		}
	}
	if scenarioByName[scn].Refusal {
		return "rpcErr"
	}
	return "badResult"
}

func scnInit(kind string, framed bool, scn string) cOp {
	return cOp{T: "init", E: modelEnvOf(kind, framed, scn), S: scn, Framed: framed && kind == "streamable"}
}

// malformedJobs: every scenario on every client (streamable with both framings), followed by the operations that show
// what state the client is in; refused and accepted handshakes repeated, interleaved with Close and good handshakes;
// seeded random histories over the whole alphabet with scenario handshakes mixed in.
func malformedJobs(c *hk.Ctx) []job {
	var jobs []job
	ok := cOp{T: "init", E: "ok"}
	lt, ct, rr := cOp{T: "req", K: "ListTools"}, cOp{T: "req", K: "CallTool", Fail: true}, cOp{T: "req", K: "ReadResource"}
	for _, kf := range []string{"streamable", "streamable@sse", "sse", "stdio"} {
		kind, framed := strings.CutSuffix(kf, "@sse")
		add := func(tag string, ops ...cOp) { jobs = append(jobs, job{kind, ops, tag}) }
		var cheap []cOp // scenario handshakes that do not sit out a deadline
		for _, s := range scenarios {
			in := scnInit(kind, framed, s.Name)
			slow := in.E == "noAnswer" && !(kind == "streamable")
			if !slow {
				cheap = append(cheap, in)
			}
			// the handshake, every kind of operation, a good handshake, an operation
			h := []cOp{in, lt, {T: "roots"}}
			if kind != "stdio" {
				h = append(h, cOp{T: "sendInitialized"}, cOp{T: "terminate"})
			}
			add("malformed-answer", append(h, ok, lt)...)
			if slow && !c.Thorough() {
				continue
			}
			// twice in a row, an operation, Close, once more (streamable reopens), operations
			add("malformed-answer", in, in, ct, cOp{T: "close"}, in, rr, ok, lt)
			// after a good handshake (refused as already initialized, without traffic), after Close
			add("malformed-answer", ok, in, lt, cOp{T: "close"}, in, lt)
			for _, k := range reqKinds {
				add("malformed-answer", in, cOp{T: "req", K: k}, cOp{T: "req", K: k, Fail: true})
			}
		}
		n := 40
		if kind == "stdio" {
			n = 12
		}
		if c.Thorough() {
			n *= 15
		}
		alpha := reducedAlphabet(kind)
		for i := 0; i < n; i++ {
			l := 4 + c.Rng.Intn(8)
			var w []cOp
			for j := 0; j < l; j++ {
				switch x := c.Rng.Intn(10); {
				case x < 5:
					w = append(w, cheap[c.Rng.Intn(len(cheap))])
				case x < 6:
					w = append(w, ok)
				default:
					w = append(w, alpha[c.Rng.Intn(len(alpha))])
				}
			}
			jobs = append(jobs, job{kind, w, "malformed-answer-random"})
		}
	}
	return jobs
}

func runMalformedPhase(c *hk.Ctx) {
	p, done := newPeers(c)
	defer done()
	runClientJobs(c, p, malformedJobs(c))
	// the table the model environments were chosen from, for the record
	tab := map[string]map[string]string{}
	for _, s := range scenarios {
		tab[s.Name] = map[string]string{}
		for _, kf := range []string{"streamable", "streamable@sse", "sse", "stdio"} {
			kind, framed := strings.CutSuffix(kf, "@sse")
			tab[s.Name][kf] = modelEnvOf(kind, framed, s.Name)
		}
	}
	c.SetExtra("malformed_initialize_answers_today", tab)
}

// answerDeadline: the per-call deadline of a handshake whose answer will not come (event: the deadline itself).
const answerDeadline = 500 * time.Millisecond

// probeDeadline > 0: measuring mode (VERIF_LIFECYCLE_PROBE=1): every scenario handshake gets this deadline.
var probeDeadline time.Duration

// probeMalformed prints what the code under test does for every scenario x client (how malformedToday was measured).
func probeMalformed(dir string) {
	installRecorder()
	probeDeadline = 1500 * time.Millisecond
	c := &hk.Ctx{Dir: dir}
	p, done := newPeers(c)
	defer done()
	idx := 900000
	for _, s := range scenarios {
		for _, k := range []string{"streamable", "streamable@sse", "sse", "stdio"} {
			kind, framed := strings.CutSuffix(k, "@sse")
			ops := []cOp{{T: "init", E: "probe", S: s.Name, Framed: framed}, {T: "req", K: "ListTools"}, {T: "roots"}, {T: "terminate"}, {T: "init", E: "ok"}, {T: "req", K: "ListTools"}}
			if kind == "stdio" {
				ops = []cOp{ops[0], ops[1], ops[2], ops[4], ops[5]}
			}
			idx++
			t0 := time.Now()
			r := runClientHistory(p, kind, ops[:1], idx)
			waited := time.Since(t0) > probeDeadline*9/10
			idx++
			r = runClientHistory(p, kind, ops, idx)
			var parts []string
			for _, o := range r.outs {
				parts = append(parts, fmt.Sprintf("%s/%s/%s", o.Res, o.State, strings.Join(o.Wire, "+")))
			}
			fmt.Printf("%-22s %-15s waited=%-5v %s\n", s.Name, k, waited, parts[0])
		}
	}
}
