package main

import (
	"context"
	"errors"
	"fmt"
	"net/http"
	"net/http/httptest"
	"os"
	"path/filepath"
	"strings"
	"sync"
	"syscall"
	"time"

	mcp "trpc.group/trpc-go/trpc-mcp-go"
	"verif/harness/hk"
)

// ---------- client operations

type cOp struct {
	T string // init | req | roots | sendInitialized | terminate | restart | close
	E string // init: ok | netErr | http500 | rpcErr | badResult | dropNotif | noAnswer (the model's environment; with S set, the one S falls into)
	//             close: "" | dead (stdio: the child was killed and reaped first) | netErr (HTTP kinds: the server is gone, every
	//             round trip is refused) | brokenStream (legacy SSE: the server ended the event stream first)
	//             terminate: "" | del500 (the DELETE is answered 500) | netErr
	S      string // init: the malformed-answer scenario (malformed.go) the peer plays; E is then the model's environment for it
	Framed bool   // init with a scenario, streamable: the fake frames its answer as an SSE stream
	K      string // req: ListTools | CallTool | ListPrompts | GetPrompt | ListResources | ReadResource
	Fail   bool   // req: the peer answers with a JSON-RPC error
	Fault  bool   // close, filled in by the run: the transport's close() reported an error (what Close returned says so)
}

func (o cOp) json() map[string]any {
	switch o.T {
	case "init":
		if o.S != "" {
			return map[string]any{"t": "init", "e": o.E, "scenario": o.peerName()}
		}
		return map[string]any{"t": "init", "e": o.E}
	case "req":
		return map[string]any{"t": "req", "k": o.K, "fail": o.Fail}
	case "terminate":
		if o.E != "" {
			return map[string]any{"t": "terminate", "fault": true, "env": o.E}
		}
	case "close":
		m := map[string]any{"t": "close", "fault": o.Fault}
		if o.E != "" {
			m["env"] = o.E
		}
		return m
	}
	return map[string]any{"t": o.T}
}

// peerName: what the initialize request carries as clientInfo.name — it selects the peer's script.
func (o cOp) peerName() string {
	if o.S == "" {
		return o.E
	}
	if o.Framed {
		return o.S + "@sse"
	}
	return o.S
}

func (o cOp) method() string {
	switch o.T {
	case "req":
		return o.K
	case "roots":
		return "SendRootsListChangedNotification"
	case "sendInitialized":
		return "SendInitialized"
	case "terminate":
		return "TerminateSession"
	case "restart":
		return "RestartProcess"
	case "init":
		return "Initialize"
	}
	return "Close"
}

var reqKinds = []string{"ListTools", "CallTool", "ListPrompts", "GetPrompt", "ListResources", "ReadResource"}

type stepObs struct {
	Res   string   `json:"res"`
	State string   `json:"state"`
	Wire  []string `json:"wire"`
}

type histResult struct {
	kind       string
	ops        []cOp
	outs       []stepObs
	sends      int
	violations []hk.Violation
	handshake  bool
	refused    bool
	closeRaces int
	// Close under a fault environment: how many, and how many of them made the transport's close() report an error
	closeEnvs, closeFaults int
	strayReplies           int // stdio: replies of the transport to a malformed line it took for a request
}

type peers struct {
	streamable *httptest.Server
	sse        *httptest.Server
	logDir     string
}

func classify(err error) string {
	if err == nil {
		return "ok"
	}
	s := err.Error()
	switch {
	case strings.Contains(s, "client not initialized"):
		return "notInitialized"
	case strings.Contains(s, "client already initialized"):
		return "alreadyInitialized"
	case strings.Contains(s, "scripted refusal"):
		return "rpcError"
	}
	return "failed"
}

func recvOf(kind string) string {
	if kind == "stdio" {
		return "StdioClient"
	}
	return "Client"
}

// stdioLog reads the child's log file: one line per message it received.
type stdioLog struct {
	path string
	seen int
}

func (l *stdioLog) lines() []string {
	b, err := os.ReadFile(l.path)
	if err != nil {
		return nil
	}
	s := strings.TrimRight(string(b), "\n")
	if s == "" {
		return nil
	}
	return strings.Split(s, "\n")
}

// take returns the lines that arrived since the last call, waiting (ceiling 5 s) until at least `need` did.
func (l *stdioLog) take(need int) []string {
	deadline := time.Now().Add(5 * time.Second)
	for {
		all := l.lines()
		if len(all)-l.seen >= need || time.Now().After(deadline) {
			out := append([]string{}, all[l.seen:]...)
			l.seen = len(all)
			return out
		}
		time.Sleep(200 * time.Microsecond)
	}
}

func runClientHistory(p *peers, kind string, ops []cOp, idx int) histResult {
	ops = append([]cOp{}, ops...) // the run records in it whether a Close met a transport error
	res := histResult{kind: kind, ops: ops}
	info := mcp.Implementation{Name: "verif", Version: "1"}
	tag := fmt.Sprintf("%s-%d", kind, idx)
	var hc *mcp.Client
	var sc *mcp.StdioClient
	var conn mcp.Connector
	var ct *ctl
	var slog *stdioLog
	var err error
	switch kind {
	case "streamable":
		ct = &ctl{kind: kind, base: newClientPool()}
		ctls.Store(tag, ct)
		defer ctls.Delete(tag)
		defer ct.base.CloseIdleConnections()
		hc, err = mcp.NewClient(p.streamable.URL+"/mcp", info, mcp.WithClientLogger(hk.QuietLogger{}),
			mcp.WithHTTPHeaders(http.Header{tagHeader: {tag}}), mcp.WithClientGetSSEEnabled(idx%2 == 0))
		conn = hc
	case "sse":
		ct = &ctl{kind: kind, base: newClientPool()}
		ctls.Store(tag, ct)
		defer ctls.Delete(tag)
		defer ct.base.CloseIdleConnections()
		hc, err = mcp.NewSSEClient(p.sse.URL+"/sse", info, mcp.WithClientLogger(hk.QuietLogger{}), mcp.WithHTTPHeaders(http.Header{tagHeader: {tag}}))
		conn = hc
	case "stdio":
		slog = &stdioLog{path: filepath.Join(p.logDir, tag+".log")}
		defer os.Remove(slog.path)
		sc, err = mcp.NewStdioClient(mcp.StdioTransportConfig{
			ServerParams: mcp.StdioServerParameters{Command: selfExe(), Env: map[string]string{childEnv: "fake", childLogEnv: slog.path}},
			Timeout:      10 * time.Second}, info, mcp.WithStdioLogger(hk.QuietLogger{}))
		conn = sc
	}
	if err != nil {
		panic(err)
	}
	transportClosed := false
	defer func() {
		if sc != nil {
			// StdioClient.Close can stall 5 s (its own Cmd.Wait races with processWatcher's for the single ctxResult value):
			// end the peer directly, the transport's watcher then winds everything down
			endStdioPeer(sc, transportClosed)
			return
		}
		conn.Close()
	}()
	violate := func(fp, what string, upto int, observed any) {
		res.violations = append(res.violations, hk.Violation{Fingerprint: fp, What: what,
			Input: map[string]any{"client": kind, "history": cOpsJSON(ops[:upto+1])}, Observed: observed})
	}
	if s := conn.GetState(); s != mcp.StateDisconnected {
		violate("lifecycle:state-inconsistent:"+kind, "a fresh client does not report disconnected", -1, string(s))
	}
	stateReported := false
	should := false // what happened so far, from the results alone: is the most recent life-cycle event a successful handshake?
	for i, op := range ops {
		deadline := 20 * time.Second
		if op.T == "init" && op.S != "" && (op.E == "noAnswer" || probeDeadline > 0) {
			deadline = answerDeadline // the answer will not come: a short deadline, the outcome is "failed" whatever the error says
			if probeDeadline > 0 {
				deadline = probeDeadline
			}
		}
		ctx, cancel := context.WithTimeout(context.Background(), deadline)
		var e error
		if ct != nil {
			ct.setEnv("")
		}
		switch op.T {
		case "init":
			if ct != nil {
				ct.setEnv(op.E)
			}
			_, e = conn.Initialize(ctx, &mcp.InitializeRequest{Params: mcp.InitializeParams{ProtocolVersion: "2025-03-26", ClientInfo: mcp.Implementation{Name: op.peerName(), Version: "1"}}})
		case "req":
			arg := "x"
			if op.Fail {
				arg = "fail"
			}
			switch op.K {
			case "ListTools":
				r := &mcp.ListToolsRequest{}
				r.Params.Cursor = mcp.Cursor(arg)
				_, e = conn.ListTools(ctx, r)
			case "CallTool":
				r := &mcp.CallToolRequest{}
				r.Params.Name = arg
				_, e = conn.CallTool(ctx, r)
			case "ListPrompts":
				r := &mcp.ListPromptsRequest{}
				r.Params.Cursor = mcp.Cursor(arg)
				_, e = conn.ListPrompts(ctx, r)
			case "GetPrompt":
				r := &mcp.GetPromptRequest{}
				r.Params.Name = arg
				_, e = conn.GetPrompt(ctx, r)
			case "ListResources":
				r := &mcp.ListResourcesRequest{}
				r.Params.Cursor = mcp.Cursor(arg)
				_, e = conn.ListResources(ctx, r)
			case "ReadResource":
				r := &mcp.ReadResourceRequest{}
				r.Params.URI = arg
				_, e = conn.ReadResource(ctx, r)
			}
		case "roots":
			e = conn.SendRootsListChangedNotification(ctx)
		case "sendInitialized":
			e = hc.SendInitialized(ctx)
		case "terminate":
			if op.E != "" && ct != nil {
				ct.setEnv(op.E) // del500: the DELETE is answered 500; netErr: the server is gone
			}
			e = hc.TerminateSession(ctx)
		case "restart":
			e = sc.RestartProcess(ctx)
		case "close":
			switch {
			case op.E == "dead" && sc != nil:
				// the server process dies and is reaped before Close: Cmd.Wait (the transport's watcher) closes the pipes
				if pid := sc.GetProcessID(); pid > 0 {
					syscall.Kill(pid, syscall.SIGKILL)
					for deadline := time.Now().Add(5 * time.Second); sc.IsProcessRunning() && time.Now().Before(deadline); {
						time.Sleep(200 * time.Microsecond)
					}
					time.Sleep(2 * time.Millisecond) // Wait closes the pipes right after reaping; either order is handled below
				}
			case op.E == "netErr" && ct != nil:
				ct.setEnv("netErr")
			case op.E == "brokenStream" && kind == "sse":
				breakSSEStream(tag)
			}
			e = conn.Close()
		}
		cancel()
		if ct != nil {
			ct.setEnv("")
		}
		r := classify(e)
		if op.T == "init" && r == "rpcError" {
			r = "failed"
		}
		if op.T == "close" {
			// Close passes the error of the transport's close() on: that is the fault alphabet of the model's Close event.  The stdio
			// transport reports one when the child is already dead and reaped (pipes closed by Cmd.Wait) or a kill failed — also,
			// timing-dependent, on a live child (Close races with the transport's own watcher): the run records which environment it
			// met.  Whatever Close returns, the client must be uninitialized and disconnected afterwards (checked below).
			r = "ok"
			if e != nil {
				r = "failed"
				ops[i].Fault = true
				if op.E == "" {
					res.closeRaces++
				}
			}
			if op.E != "" {
				res.closeEnvs++
				if e != nil {
					res.closeFaults++
				}
			}
		}
		var wire []string
		if ct != nil {
			wire = ct.take()
		} else {
			need := 0
			if e == nil && op.T == "init" {
				need = 2
			} else if e == nil && op.T == "roots" {
				need = 1
			} else if op.T == "init" && e != nil && errors.Is(e, context.DeadlineExceeded) {
				need = 1 // the request was written and the caller gave up waiting: the child logs it as soon as it has read it
			}
			wire = slog.take(need)
			if wire == nil {
				wire = []string{}
			}
			if op.T == "init" && op.S == "neither" {
				// an answer with neither result nor error reads as a request without method: the stdio transport replies to it with an
				// error message of its own ("answer" in the child's log).  Not an operation of the client; counted, not compared.
				kept := []string{}
				for _, m := range wire {
					if m == "answer" {
						res.strayReplies++
					} else {
						kept = append(kept, m)
					}
				}
				wire = kept
			}
		}
		state := string(conn.GetState())
		res.outs = append(res.outs, stepObs{Res: r, State: state, Wire: wire})
		res.sends += len(wire)
		// ---- the statement, applied to the observations
		recv := recvOf(kind)
		if op.T == "init" && (op.E == "rpcErr" || (op.S != "" && scenarioByName[op.S].Refusal)) {
			for _, m := range wire {
				if m == "notifications/initialized" {
					violate("lifecycle:initialized-notification-after-refusal:"+recv, "the client sends notifications/initialized although the peer refused the handshake (its answer carries a JSON-RPC error object)", i, map[string]any{"result": r, "wire": wire, "scenario": op.peerName()})
				}
			}
		}
		switch op.T {
		case "init":
			if should {
				if r != "alreadyInitialized" || len(wire) > 0 {
					violate("lifecycle:second-initialize-not-refused:"+recv, "Initialize on an initialized client is not refused (or touches the network)", i, map[string]any{"result": r, "wire": wire, "error": fmt.Sprint(e)})
				}
				res.refused = true
			} else {
				switch {
				case r == "ok" && op.S != "" && scenarioByName[op.S].Refusal:
					violate("lifecycle:handshake-succeeds-despite-failure:"+recv+":"+op.S, "Initialize reports success although the peer refused the handshake: its answer carries a JSON-RPC error object (whatever else it carries)", i, map[string]any{"wire": wire, "answer": scenarioByName[op.S].Body})
					should = true
				case r == "ok" && op.E != "ok":
					violate("lifecycle:handshake-succeeds-despite-failure:"+recv+":"+op.peerName(), "Initialize reports success although a stage of the handshake failed", i, map[string]any{"wire": wire})
					should = true
				case r == "ok":
					should = true
					res.handshake = true
				case r == "alreadyInitialized":
					violate("lifecycle:initialize-refused-while-uninitialized:"+recv, "Initialize refused as already initialized although no handshake is in force", i, fmt.Sprint(e))
				case op.E == "ok" && op.S == "" && !(transportClosed && kind != "streamable"):
					// network and peer behave, nothing closed the transport: a fresh handshake must work, whatever earlier failed ones left behind
					violate("lifecycle:handshake-fails-in-benign-environment:"+kind, "Initialize fails although network and server behave and the client was not closed (after earlier failed handshakes a fresh one must work)", i, map[string]any{"error": fmt.Sprint(e), "wire": wire})
				}
			}
		case "req", "roots":
			if !should {
				if len(wire) > 0 {
					violate("lifecycle:traffic-before-handshake:"+recv+"."+op.method(), op.method()+" without a successful handshake in force puts messages on the wire", i, map[string]any{"result": r, "wire": wire})
				} else if op.T == "req" && r != "notInitialized" {
					violate("lifecycle:not-refused-before-handshake:"+recv+"."+op.method(), op.method()+" without a successful handshake in force does not fail with the not-initialized error", i, map[string]any{"result": r, "error": fmt.Sprint(e)})
				}
				res.refused = true
			} else if r == "notInitialized" {
				violate("lifecycle:refused-after-handshake:"+recv+"."+op.method(), op.method()+" refused as not initialized although the handshake succeeded and nothing closed the client", i, fmt.Sprint(e))
			}
		case "close", "restart":
			should = false
			transportClosed = true
		}
		want := "disconnected"
		if should {
			want = "initialized"
		}
		if state != want && !stateReported {
			stateReported = true // later steps of this history inherit the disagreement: one report per history
			violate("lifecycle:state-inconsistent:"+recv+":after-"+op.method(), "GetState does not agree with what happened (initialized exactly while the last of {handshake ok, handshake failed, Close} is a successful handshake)", i, map[string]any{"reported": state, "expected": want, "result": r})
		}
	}
	return res
}

var closeStats struct{ races, envs, faults int }

func cOpsJSON(ops []cOp) []any {
	out := []any{}
	for _, o := range ops {
		out = append(out, o.json())
	}
	return out
}

// ---------- histories

func reducedAlphabet(kind string) []cOp {
	if kind == "stdio" {
		return []cOp{{T: "init", E: "ok"}, {T: "init", E: "rpcErr"}, {T: "init", E: "badResult"}, {T: "req", K: "ListTools"}, {T: "req", K: "CallTool", Fail: true},
			{T: "roots"}, {T: "restart"}, {T: "close"}}
	}
	return []cOp{{T: "init", E: "ok"}, {T: "init", E: "netErr"}, {T: "init", E: "http500"}, {T: "init", E: "rpcErr"}, {T: "init", E: "badResult"}, {T: "init", E: "dropNotif"},
		{T: "req", K: "ListTools"}, {T: "req", K: "CallTool", Fail: true}, {T: "roots"}, {T: "sendInitialized"}, {T: "terminate"}, {T: "close"}}
}

func lifecycleAlphabet(kind string) []cOp {
	var out []cOp
	for _, o := range reducedAlphabet(kind) {
		if o.T != "req" && o.T != "roots" && o.T != "sendInitialized" {
			out = append(out, o)
		}
	}
	return out
}

func words(alpha []cOp, n int) [][]cOp {
	if n == 0 {
		return [][]cOp{{}}
	}
	var out [][]cOp
	for _, w := range words(alpha, n-1) {
		for _, a := range alpha {
			out = append(out, append(append([]cOp{}, w...), a))
		}
	}
	return out
}

type job struct {
	kind string
	ops  []cOp
	tag  string
}

func clientJobs(c *hk.Ctx) []job {
	var jobs []job
	for _, kind := range []string{"streamable", "sse", "stdio"} {
		alpha := reducedAlphabet(kind)
		n := 3
		if c.Thorough() {
			n = 4
		}
		if kind == "stdio" && !c.Thorough() {
			n = 2 // a child process per history, and Close may stall 5 s: length 3 only in the thorough tier
		}
		for l := 1; l <= n; l++ {
			for _, w := range words(alpha, l) {
				jobs = append(jobs, job{kind, w, fmt.Sprintf("exhaustive-len%d", l)})
			}
		}
		if kind == "stdio" && !c.Thorough() {
			// selected length-3/4 histories around the interesting transitions
			for _, mid := range alpha {
				for _, last := range []cOp{{T: "req", K: "ReadResource"}, {T: "init", E: "ok"}, {T: "roots"}} {
					jobs = append(jobs, job{kind, []cOp{{T: "init", E: "ok"}, mid, last}, "selected"})
					jobs = append(jobs, job{kind, []cOp{{T: "init", E: "badResult"}, mid, last, {T: "req", K: "GetPrompt"}}, "selected"})
				}
			}
		}
		// a handshake broken at each stage, then a good one — and the same again (after Close on the streamable client, whose
		// transport reopens; back to back on the others), each followed by an operation that needs the handshake
		for _, a := range alpha {
			if a.T != "init" || a.E == "ok" {
				continue
			}
			ok, use := cOp{T: "init", E: "ok"}, cOp{T: "req", K: "ListResources"}
			jobs = append(jobs, job{kind, []cOp{a, ok, use}, "recovery"})
			jobs = append(jobs, job{kind, []cOp{a, a, ok, use, ok}, "recovery"})
			jobs = append(jobs, job{kind, []cOp{a, ok, use, {T: "close"}, a, ok, use}, "recovery"})
			for _, b := range alpha {
				if b.T == "init" && b.E != "ok" {
					mid := cOp{T: "terminate"}
					if kind == "stdio" {
						mid = cOp{T: "roots"}
					}
					jobs = append(jobs, job{kind, []cOp{a, b, ok, use, mid, {T: "close"}, b, a, ok, use}, "recovery"})
				}
			}
		}
		// every public request operation (answered ok / with an error) after every life-cycle prefix of length <= 2
		life := lifecycleAlphabet(kind)
		for l := 0; l <= 2; l++ {
			for _, pre := range words(life, l) {
				for _, k := range reqKinds {
					for _, fail := range []bool{false, true} {
						if kind == "stdio" && !c.Thorough() && (l == 2 || (fail && l == 1)) {
							continue
						}
						jobs = append(jobs, job{kind, append(append([]cOp{}, pre...), cOp{T: "req", K: k, Fail: fail}), "each-operation"})
					}
				}
			}
		}
		// seeded random longer histories over the full alphabet
		nr, maxLen := 200, 12
		if kind == "stdio" {
			nr = 40
		}
		if c.Thorough() {
			nr, maxLen = nr*20, 30
		}
		full := append([]cOp{}, alpha...)
		for _, k := range reqKinds {
			full = append(full, cOp{T: "req", K: k}, cOp{T: "req", K: k, Fail: true})
		}
		for i := 0; i < nr; i++ {
			l := 4 + c.Rng.Intn(maxLen-3)
			var w []cOp
			for j := 0; j < l; j++ {
				switch x := c.Rng.Intn(10); {
				case x < 2:
					w = append(w, cOp{T: "init", E: "ok"})
				case x < 3:
					w = append(w, cOp{T: "close"})
				default:
					w = append(w, full[c.Rng.Intn(len(full))])
				}
			}
			jobs = append(jobs, job{kind, w, "random"})
		}
	}
	return jobs
}

func newPeers(c *hk.Ctx) (*peers, func()) {
	p := &peers{streamable: newFakeStreamable(), sse: newFakeSSE(), logDir: filepath.Join(c.Dir, "lifecycle-stdio-logs")}
	os.MkdirAll(p.logDir, 0o755)
	return p, func() {
		os.RemoveAll(p.logDir)
		p.streamable.CloseClientConnections()
		p.streamable.Close()
		p.sse.CloseClientConnections()
		p.sse.Close()
	}
}

func runClientSide(c *hk.Ctx) {
	p, done := newPeers(c)
	defer done()
	runClientJobs(c, p, clientJobs(c))
}

// runClientJobs runs the histories on the three real clients (stdio ones on their own wide pool), applies the statement
// to the observations and emits one model line per history.
func runClientJobs(c *hk.Ctx, p *peers, jobs []job) {
	results := make([]histResult, len(jobs))
	var wg sync.WaitGroup
	next := make(chan int, len(jobs))
	for i := range jobs {
		next <- i
	}
	close(next)
	// stdio histories mostly wait (process start, and up to 5 s inside StdioClient.Close): their own wide pool
	nextStdio := make(chan int, len(jobs))
	nextHTTP := make(chan int, len(jobs))
	for i := range next {
		if jobs[i].kind == "stdio" {
			nextStdio <- i
		} else {
			nextHTTP <- i
		}
	}
	close(nextStdio)
	close(nextHTTP)
	pool := func(n int, ch chan int) {
		for w := 0; w < n; w++ {
			wg.Add(1)
			go func() {
				defer wg.Done()
				for i := range ch {
					results[i] = runClientHistory(p, jobs[i].kind, jobs[i].ops, i)
				}
			}()
		}
	}
	pool(8, nextHTTP)
	pool(96, nextStdio)
	wg.Wait()
	for _, r := range results {
		closeStats.races += r.closeRaces
		closeStats.envs += r.closeEnvs
		closeStats.faults += r.closeFaults
	}
	c.SetExtra("stdio_close_returned_race_error", closeStats.races)
	c.SetExtra("close_under_fault_environment", map[string]int{"closes": closeStats.envs, "transport_close_reported_error": closeStats.faults})
	for i, r := range results {
		for _, v := range r.violations {
			c.Violate(v)
		}
		c.Emit(map[string]any{"c": "lifecycle.client", "kind": r.kind, "ops": cOpsJSON(r.ops)},
			map[string]any{"outs": r.outs, "sends": r.sends}, r.handshake && r.refused,
			"client-"+r.kind, "client-"+jobs[i].tag, fmt.Sprintf("client-len-%02d", min(len(r.ops), 20)))
	}
}

// endStdioPeer winds a StdioClient down without waiting for the possible 5 s stall of Close(): kill the (still live,
// still ours) child, then Close() in the background — it marks the transport closed at once, which stops the transport's
// read loop (that loop spins on the dead pipe until then); whether it then stalls is nobody's concern any more.
func endStdioPeer(sc *mcp.StdioClient, alreadyClosed bool) {
	if alreadyClosed {
		return
	}
	if pid := sc.GetProcessID(); pid > 0 {
		syscall.Kill(pid, syscall.SIGKILL)
	}
	go sc.Close()
}
