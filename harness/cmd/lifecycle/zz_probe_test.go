package main

import (
	"context"
	"fmt"
	"net/http"
	"os"
	"sync"
	"testing"
	"time"

	mcp "trpc.group/trpc-go/trpc-mcp-go"
	"verif/harness/hk"
)

func TestProbe(t *testing.T) {
	installRecorder()
	ts := newFakeStreamable()
	defer ts.Close()
	deferCancel := os.Getenv("DEFER_CANCEL") != ""
	var mu sync.Mutex
	errs := map[string]int{}
	var wg sync.WaitGroup
	for w := 0; w < 16; w++ {
		wg.Add(1)
		go func(w int) {
			defer wg.Done()
			for i := 0; i < 3000; i++ {
				tag := fmt.Sprintf("p-%d-%d", w, i)
				ct := &ctl{kind: "streamable"}
				ctls.Store(tag, ct)
				cl, _ := mcp.NewClient(ts.URL+"/mcp", mcp.Implementation{Name: "x"}, mcp.WithClientLogger(hk.QuietLogger{}), mcp.WithHTTPHeaders(http.Header{tagHeader: {tag}}), mcp.WithClientGetSSEEnabled(os.Getenv("GETSSE") != "" && i%2 == 0))
				var cancels []context.CancelFunc
				envs := []string{"dropNotif", "netErr", "ok"}
				if i%2 == 0 {
					envs = []string{"ok"}
				}
				for _, e := range envs {
					ctx, cancel := context.WithTimeout(context.Background(), 20*time.Second)
					ct.setEnv(e)
					_, err := cl.Initialize(ctx, &mcp.InitializeRequest{Params: mcp.InitializeParams{ProtocolVersion: "2025-03-26", ClientInfo: mcp.Implementation{Name: e}}})
					if deferCancel {
						cancels = append(cancels, cancel)
					} else {
						cancel()
					}
					if e == "ok" && err != nil {
						mu.Lock()
						errs[err.Error()[:60]]++
						mu.Unlock()
					}
				}
				for _, c := range cancels {
					c()
				}
				cl.Close()
				ctls.Delete(tag)
			}
		}(w)
	}
	wg.Wait()
	fmt.Println("failures of the benign third Initialize:", errs)
}
