package main

// This binary re-executed as the peer of a StdioClient:
//   fake: the scripted recording peer (every received message's method is appended to a log file before it is answered),
//   real: a real mcp.NewStdioServer with the registrations given in the environment.

import (
	"bufio"
	"encoding/json"
	"os"
	"os/signal"

	mcp "trpc.group/trpc-go/trpc-mcp-go"
	"verif/harness/hk"
)

const (
	childEnv        = "VERIF_LIFECYCLE_CHILD"
	childLogEnv     = "VERIF_LIFECYCLE_LOG"
	childRegEnv     = "VERIF_LIFECYCLE_REG"
	childNameEnv    = "VERIF_LIFECYCLE_NAME"
	childVersionEnv = "VERIF_LIFECYCLE_VERSION"
)

func childMain(mode string) {
	signal.Ignore(os.Interrupt) // Close() signals before it waits; the peer leaves when its stdin ends or it is killed
	switch mode {
	case "real":
		childReal()
	default:
		childFake()
	}
}

func childFake() {
	logf, err := os.OpenFile(os.Getenv(childLogEnv), os.O_APPEND|os.O_CREATE|os.O_WRONLY, 0o644)
	if err != nil {
		os.Exit(3)
	}
	defer logf.Close()
	in := bufio.NewReaderSize(os.Stdin, 1<<20)
	out := bufio.NewWriter(os.Stdout)
	dec := json.NewDecoder(in)
	for {
		var raw json.RawMessage
		if err := dec.Decode(&raw); err != nil {
			return
		}
		var m rpcIn
		_ = json.Unmarshal(raw, &m)
		label := m.Method
		if label == "" {
			label = "answer"
		}
		logf.WriteString(label + "\n")
		if a := answer(m); a != nil {
			out.Write(a)
			out.WriteByte('\n')
			out.Flush()
		}
	}
}

func childReal() {
	s := mcp.NewStdioServer(os.Getenv(childNameEnv), os.Getenv(childVersionEnv), mcp.WithStdioServerLogger(hk.QuietLogger{}))
	var regs []map[string]any
	_ = json.Unmarshal([]byte(os.Getenv(childRegEnv)), &regs)
	for _, r := range regs {
		o := sOp{}
		o.T, _ = r["t"].(string)
		o.N, _ = r["n"].(string)
		o.Via, _ = r["via"].(string)
		applyReg(s, o)
	}
	_ = s.Start()
}
