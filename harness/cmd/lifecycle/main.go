// Component "lifecycle" (property C16): handshake — version negotiation and advertised capabilities of the real servers,
// state machine of the three real clients against scripted recording peers.
package main

import (
	"os"
	"time"

	"verif/harness/hk"
)

func main() {
	if mode := os.Getenv(childEnv); mode != "" {
		childMain(mode) // this binary re-executed as the stdio peer of a StdioClient
		return
	}
	if dir := os.Getenv("VERIF_LIFECYCLE_PROBE"); dir != "" {
		probeMalformed(dir) // prints what the clients do under every malformed-answer scenario (see malformed.go)
		return
	}
	hk.Main(&hk.Component{Name: "lifecycle", Rule: "server: histories over {RegisterTool, UnregisterTools, RegisterPrompt, RegisterResource(s), RegisterResourceTemplate (incl. empty keys), initialize(v)} " +
		"with v over supported versions, near misses, empty, long, control and non-ASCII strings, against the real streamable server (raw POSTs; 3 session modes, JSON and SSE answers) " +
		"and through the three real clients against the real streamable / SSE / stdio servers: all 8 subsets of capability kinds x all versions, every pair of registrations between three initializes, seeded random longer ones; " +
		"several initializes on ONE session / connection of the real streamable (Mcp-Session-Id re-sent, JSON and SSE answers; public client Initialize / Close / Initialize), legacy SSE (raw connection) and stdio (pipes, child process) servers: " +
		"all ordered pairs (a registration in between) and triples over {2025-03-26, 2024-11-05, 1999-01-01, 9999-12-31, empty, 2025-01-01}, seeded random longer ones; " +
		"non-trivial = a history whose answers differ in version or capabilities. " +
		"concurrent: 16 goroutines x 600 handshakes behind a common gate straight into the streamable handler (stateful / stateless / sessions off, fresh session each), 8 stdio connections x 150 pipelined initializes, 8 raw SSE connections x 64 " +
		"against one server with a prompt and a resource registered (every answer must advertise both) and one with none (never); thorough = 10 rounds; non-trivial = an answer of a server with registrations. " +
		"filtered: the server histories (8 subsets x 6 initializes, every pair of registrations between initializes, seeded random ones) on streamable (3 session modes, JSON / SSE answers) and legacy SSE servers configured with tool + prompt + resource list filters " +
		"{pass, hide-all, some (keys containing 2), role (header X-Verif-Role via the context function: admin sees all, guest / no header nothing)}, every initialize by its own caller (guest, admin, guest again, none, …), raw and through the public clients (WithHTTPHeaders), " +
		"list answers cross-checked per caller; non-trivial = a history in which the filter hides a registered entry from an initializing caller. " +
		"client: call histories over {Initialize x (ok, network error, HTTP 500, JSON-RPC error, unparsable result, undeliverable initialized notification), the six request operations (answered ok / with an error), " +
		"SendRootsListChangedNotification, SendInitialized, TerminateSession, RestartProcess, Close} on mcp.NewClient, mcp.NewSSEClient (every HTTP round trip recorded at the RoundTripper) and mcp.NewStdioClient " +
		"(every line recorded by the child process): every history of length 3 over a reduced alphabet, every request operation after every prefix of length <= 2, seeded random longer ones; " +
		"non-trivial = a history with a successful handshake and at least one refused call; " +
		"Close under a fault on every client kind (stdio: the child was killed and reaped first, so the transport's close() reports an error; streamable / legacy SSE: the server is gone while Close runs; " +
		"legacy SSE: the server ended the event stream first): 7-12 fixed histories per environment (handshake, faulted Close, every operation, new handshake; double Close; Close on a fresh client; with RestartProcess / TerminateSession / SendInitialized) " +
		"and seeded random ones; the Close event of the model line carries whether the transport's close() reported an error; " +
		"malformed answers to initialize (both result and error, error / result of a wrong type, neither, null / empty result, missing / unsupported version, wrong id, silence, a notification instead, invalid JSON, wrong jsonrpc member: " +
		"26 scenarios x {streamable JSON, streamable SSE-framed, legacy SSE, stdio}), each followed by every kind of operation and a good handshake, repeated, around Close, and mixed into seeded random histories",
		Run: run})
}

func run(c *hk.Ctx) {
	installRecorder()
	t0 := time.Now()
	timing := map[string]float64{}
	runServerSide(c)
	timing["server_s"] = time.Since(t0).Seconds()
	t0 = time.Now()
	runEndToEnd(c)
	timing["end_to_end_s"] = time.Since(t0).Seconds()
	t0 = time.Now()
	runClientSide(c)
	timing["client_s"] = time.Since(t0).Seconds()
	// (the phases below were added later: they come last so that the seeded choices of the earlier ones stay what they were)
	t0 = time.Now()
	runSameSessionPhase(c)
	timing["same_session_s"] = time.Since(t0).Seconds()
	t0 = time.Now()
	runConcurrentPhase(c)
	timing["concurrent_s"] = time.Since(t0).Seconds()
	t0 = time.Now()
	runFilteredPhase(c)
	timing["filtered_s"] = time.Since(t0).Seconds()
	t0 = time.Now()
	runCloseFaultPhase(c)
	timing["close_fault_s"] = time.Since(t0).Seconds()
	t0 = time.Now()
	runMalformedPhase(c)
	timing["malformed_answer_s"] = time.Since(t0).Seconds()
	c.SetExtra("timing", timing)
}
