package main

// Concurrent initialize requests (property C16): with a prompt and a resource registered (and nothing being registered
// meanwhile) EVERY initialize answer advertises tools, prompts and resources, carries the right version and server info
// — also when many clients shake hands at the same time; with none registered no answer ever advertises them.
// (updateCapabilities / buildInitializeResponse share one capability map per server: a recomputation that publishes an
// intermediate map is invisible to sequential handshakes and to the race detector.)
//
// Bulk: the streamable server's http.Handler called directly (POST initialize, no session header => a fresh session per
// handshake; stateful / stateless / sessions off), no TCP, so that the handshakes really overlap.
// Also: the stdio server (several connections of one server on in-process pipes; each line is served in its own goroutine)
// and the legacy SSE server (several raw connections of one server).

import (
	"bytes"
	"context"
	"encoding/json"
	"fmt"
	"io"
	"net/http"
	"net/http/httptest"
	"net/url"
	"runtime"
	"sort"
	"strings"
	"sync"
	"time"

	mcp "trpc.group/trpc-go/trpc-mcp-go"
	"verif/harness/hk"
)

type concCfg struct {
	Transport     string   `json:"transport"`
	Goroutines    int      `json:"goroutines"`
	Iterations    int      `json:"iterations_per_goroutine"`
	Registrations []any    `json:"registrations"`
	Versions      []string `json:"requested_versions"`
	GOMAXPROCS    int      `json:"gomaxprocs"`
}

type concAnswer struct {
	g, i      int
	requested string
	id        int
	raw       []byte
	err       string
}

// memWriter: the minimum of an http.ResponseWriter (the JSON responder needs no Flusher).
type memWriter struct {
	h      http.Header
	status int
	buf    bytes.Buffer
}

func (w *memWriter) Header() http.Header { return w.h }
func (w *memWriter) WriteHeader(s int) {
	if w.status == 0 {
		w.status = s
	}
}
func (w *memWriter) Write(b []byte) (int, error) {
	if w.status == 0 {
		w.status = 200
	}
	return w.buf.Write(b)
}

var concVersions = []string{"2025-03-26", "2024-11-05", "2025-03-27", ""}

const concName, concVersion = "verif-concurrent", "4.5.6"

var (
	concRegsBoth = []sOp{{T: "tool", N: "calc"}, {T: "prompt", N: "greet"}, {T: "resource", N: "verif://doc"}}
	// registrations that must NOT make the server advertise prompts / resources
	concRegsNone = []sOp{{T: "tool", N: "calc"}, {T: "template", N: "tm"}, {T: "prompt", N: ""}, {T: "resource", N: "", Via: "RegisterResources"}}
)

// concStreamable: G goroutines x N handshakes straight into the handler, each on a fresh session.
func concStreamable(mode string, regs []sOp, G, N int) []concAnswer {
	cfg := hk.SrvCfg{Mode: mode, Get: false, PostSSE: false}
	s := mcp.NewServer(concName, concVersion, cfg.Opts()...)
	for _, o := range regs {
		applyReg(s, o)
	}
	h := s.Handler()
	u, _ := url.Parse("http://verif.invalid/mcp")
	hdr := http.Header{"Content-Type": {"application/json"}, "Accept": {"application/json"}}
	out := make([]concAnswer, G*N)
	gate := make(chan struct{})
	var wg sync.WaitGroup
	for g := 0; g < G; g++ {
		wg.Add(1)
		go func(g int) {
			defer wg.Done()
			bodies := make([]string, len(concVersions))
			for k, v := range concVersions {
				bodies[k] = initBody(v, g+1)
			}
			<-gate
			for i := 0; i < N; i++ {
				k := (g + i) % len(concVersions)
				req := &http.Request{Method: "POST", URL: u, Proto: "HTTP/1.1", ProtoMajor: 1, ProtoMinor: 1, Header: hdr.Clone(),
					Body: io.NopCloser(strings.NewReader(bodies[k])), ContentLength: int64(len(bodies[k])), Host: u.Host, RemoteAddr: "192.0.2.1:1234"}
				w := &memWriter{h: http.Header{}}
				h.ServeHTTP(w, req)
				a := concAnswer{g: g, i: i, requested: concVersions[k], id: g + 1, raw: w.buf.Bytes()}
				if w.status != 200 {
					a.err = fmt.Sprintf("status %d %s", w.status, w.buf.Bytes())
				}
				out[g*N+i] = a
			}
		}(g)
	}
	close(gate)
	wg.Wait()
	return out
}

// concStdio: G connections of ONE stdio server (own pipes each); every connection gets N initialize lines written
// back to back — the transport serves every line in its own goroutine — and reads its N answers (in any order).
func concStdio(regs []sOp, G, N int) []concAnswer {
	s := mcp.NewStdioServer(concName, concVersion, mcp.WithStdioServerLogger(hk.QuietLogger{}))
	for _, o := range regs {
		applyReg(s, o)
	}
	out := make([]concAnswer, G*N)
	gate := make(chan struct{})
	var wg sync.WaitGroup
	for g := 0; g < G; g++ {
		wg.Add(1)
		go func(g int) {
			defer wg.Done()
			inR, inW := io.Pipe()
			outR, outW := io.Pipe()
			ctx, cancel := context.WithCancel(context.Background())
			defer cancel()
			served := make(chan struct{})
			go func() {
				defer close(served)
				_ = mcp.VerifServeStdio(ctx, s, inR, outW)
			}()
			lines := make(chan []byte, N)
			go pumpLines(outR, lines)
			for i := 0; i < N; i++ {
				out[g*N+i] = concAnswer{g: g, i: i, requested: concVersions[(g+i)%len(concVersions)], id: i + 1, err: "no answer line"}
			}
			<-gate
			go func() {
				for i := 0; i < N; i++ {
					if _, err := io.WriteString(inW, initBody(out[g*N+i].requested, i+1)+"\n"); err != nil {
						return
					}
				}
			}()
			deadline := time.After(3 * answerWait)
		recv:
			for n := 0; n < N; n++ {
				select {
				case line, ok := <-lines:
					if !ok {
						break recv
					}
					var m struct {
						ID *float64 `json:"id"`
					}
					if json.Unmarshal(line, &m) == nil && m.ID != nil && int(*m.ID) >= 1 && int(*m.ID) <= N {
						a := &out[g*N+int(*m.ID)-1]
						a.raw, a.err = line, ""
					}
				case <-deadline:
					break recv
				}
			}
			inW.Close()
			select {
			case <-served:
			case <-time.After(answerWait):
			}
			cancel()
			outW.Close()
			for range lines {
			}
		}(g)
	}
	close(gate)
	wg.Wait()
	return out
}

// concSSE: G raw connections of ONE legacy SSE server; every connection keeps a window of W initialize requests in
// flight (the server answers each in its own goroutine; its per-session event queue holds 100).
func concSSE(regs []sOp, G, N int) ([]concAnswer, error) {
	s := mcp.NewSSEServer(concName, concVersion, mcp.WithSSEServerLogger(hk.QuietLogger{}), mcp.WithKeepAlive(false))
	for _, o := range regs {
		applyReg(s, o)
	}
	ts := httptest.NewUnstartedServer(s)
	ts.Config.ErrorLog = hk.QuietStdLog()
	ts.Start()
	defer func() { ts.CloseClientConnections(); ts.Close() }()
	out := make([]concAnswer, G*N)
	peers := make([]*ssePeer, G)
	for g := range peers {
		p, err := attachSSEPeer(s, ts)
		if err != nil {
			for _, q := range peers[:g] {
				q.detach()
			}
			return nil, err
		}
		peers[g] = p
	}
	const W = 8
	gate := make(chan struct{})
	var wg sync.WaitGroup
	for g := 0; g < G; g++ {
		wg.Add(1)
		go func(g int) {
			defer wg.Done()
			p := peers[g]
			defer p.detach()
			<-gate
			for base := 0; base < N; base += W {
				end := base + W
				if end > N {
					end = N
				}
				chans := make([]chan []byte, end-base)
				for i := base; i < end; i++ {
					a := &out[g*N+i]
					*a = concAnswer{g: g, i: i, requested: concVersions[(g+i)%len(concVersions)], id: i + 1}
					ch, errs := p.post(initBody(a.requested, i+1), i+1)
					if ch == nil {
						a.err = errs
					}
					chans[i-base] = ch
				}
				for i := base; i < end; i++ {
					a := &out[g*N+i]
					if chans[i-base] == nil {
						continue
					}
					select {
					case d := <-chans[i-base]:
						a.raw = d
					case <-p.ended:
						a.err = "stream ended before the answer"
					case <-time.After(answerWait):
						a.err = "no answer on the stream"
					}
				}
			}
		}(g)
	}
	close(gate)
	wg.Wait()
	return out, nil
}

// judgeConcurrent applies the statement to every answer of one concurrent run.
func judgeConcurrent(c *hk.Ctx, cfg concCfg, regs []sOp, answers []concAnswer) {
	var exp expectTrack
	for _, o := range regs {
		exp.apply(o)
	}
	type key struct {
		requested string
		obs       string
	}
	seen := map[key]initObs{}
	bad := map[string]int{}
	for n, a := range answers {
		where := map[string]any{"answer_index": n, "goroutine": a.g, "iteration": a.i, "requested": a.requested}
		if a.err != "" {
			c.Violate(hk.Violation{Fingerprint: "lifecycle:concurrent-initialize:not-answered", What: "well-formed initialize, sent while other clients shake hands, not answered with a result", Input: cfg, Observed: map[string]any{"at": where, "error": a.err}})
			continue
		}
		res, errs := resultOf(a.raw, a.id)
		if res == nil {
			c.Violate(hk.Violation{Fingerprint: "lifecycle:concurrent-initialize:not-answered", What: "well-formed initialize, sent while other clients shake hands, not answered with a result", Input: cfg, Observed: map[string]any{"at": where, "error": errs}})
			continue
		}
		obs, extra, noLC := obsFromWire(res)
		offending := map[string]any{"at": where, "answer": obs}
		if exp.prompts && !obs.Caps["prompts"] {
			bad["prompts-capability-missing"]++
			c.Violate(hk.Violation{Fingerprint: "lifecycle:concurrent-initialize:prompts-capability-missing", What: "an initialize answered while other clients shake hands lacks the prompts capability although a prompt is registered (and nothing is being registered)", Input: cfg, Observed: offending, Expected: "prompts advertised in every answer"})
		}
		if exp.resources && !obs.Caps["resources"] {
			bad["resources-capability-missing"]++
			c.Violate(hk.Violation{Fingerprint: "lifecycle:concurrent-initialize:resources-capability-missing", What: "an initialize answered while other clients shake hands lacks the resources capability although a resource is registered (and nothing is being registered)", Input: cfg, Observed: offending, Expected: "resources advertised in every answer"})
		}
		if (!exp.prompts && obs.Caps["prompts"]) || (!exp.resources && obs.Caps["resources"]) {
			bad["capability-advertised-with-none-registered"]++
			c.Violate(hk.Violation{Fingerprint: "lifecycle:concurrent-initialize:capability-advertised-with-none-registered", What: "an initialize answered while other clients shake hands advertises prompts / resources although none is registered", Input: cfg, Observed: offending})
		}
		// version, serverInfo, tools, foreign capabilities, listChanged (prompts / resources: all four ways of being wrong
		// are reported above under the phase's own fingerprints, so checkAnswer is told what was observed for these two)
		checkAnswer(c, "concurrent initialize, "+cfg.Transport, concName, concVersion, a.requested,
			expectTrack{prompts: obs.Caps["prompts"], resources: obs.Caps["resources"]}, obs, extra, noLC,
			map[string]any{"configuration": cfg, "at": where})
		seen[key{a.requested, fmt.Sprint(obs)}] = obs
		c.Count("concurrent:"+cfg.Transport+":"+a.requested+":"+fmt.Sprint(obs.Caps), exp.prompts || exp.resources, nil, "concurrent-"+cfg.Transport)
	}
	// the model's side, compactly: one line per distinct (requested version, answer) — a handshake is a history
	// registrations ++ [initialize v] whatever the other clients do
	keys := make([]key, 0, len(seen))
	for k := range seen {
		keys = append(keys, k)
	}
	sort.Slice(keys, func(i, j int) bool {
		if keys[i].requested != keys[j].requested {
			return keys[i].requested < keys[j].requested
		}
		return keys[i].obs < keys[j].obs
	})
	for _, k := range keys {
		ops := append(append([]sOp{}, regs...), sOp{T: "init", N: k.requested})
		c.Emit(map[string]any{"c": "lifecycle.server", "cfg": map[string]any{"name": concName, "version": concVersion}, "ops": opsJSON(ops), "via": "concurrent:" + cfg.Transport},
			map[string]any{"outs": []initObs{seen[k]}}, exp.prompts || exp.resources, "concurrent-distinct-answers")
	}
	if len(bad) > 0 {
		c.SetExtra("concurrent_offending:"+cfg.Transport, bad)
	}
}

func runConcurrentPhase(c *hk.Ctx) {
	prev := runtime.GOMAXPROCS(0)
	if prev < 8 {
		runtime.GOMAXPROCS(8)
		defer runtime.GOMAXPROCS(prev)
	}
	scale := 1
	if c.Thorough() {
		scale = 10
	}
	mk := func(transport string, G, N int, regs []sOp) concCfg {
		return concCfg{Transport: transport, Goroutines: G, Iterations: N, Registrations: opsJSON(regs), Versions: concVersions, GOMAXPROCS: runtime.GOMAXPROCS(0)}
	}
	total := 0
	t0 := time.Now()
	for round := 0; round < scale; round++ {
		for _, mode := range []string{"stateful", "sessionsOff", "stateless"} {
			G, N := 16, 600
			answers := concStreamable(mode, concRegsBoth, G, N)
			judgeConcurrent(c, mk("streamable-handler:"+mode, G, N, concRegsBoth), concRegsBoth, answers)
			total += len(answers)
		}
		{
			G, N := 16, 300
			answers := concStreamable("stateful", concRegsNone, G, N)
			judgeConcurrent(c, mk("streamable-handler:stateful", G, N, concRegsNone), concRegsNone, answers)
			total += len(answers)
		}
		for _, regs := range [][]sOp{concRegsBoth, concRegsNone} {
			G, N := 8, 150
			answers := concStdio(regs, G, N)
			judgeConcurrent(c, mk("stdio-pipes", G, N, regs), regs, answers)
			total += len(answers)
		}
		for _, regs := range [][]sOp{concRegsBoth, concRegsNone} {
			G, N := 8, 64
			answers, err := concSSE(regs, G, N)
			if err != nil {
				c.Violate(hk.Violation{Fingerprint: "lifecycle:same-session:connection-not-established:sse", What: "the raw peer cannot open its connection to the real server", Input: mk("sse", G, N, regs), Observed: fmt.Sprint(err)})
				continue
			}
			judgeConcurrent(c, mk("sse", G, N, regs), regs, answers)
			total += len(answers)
		}
	}
	c.SetExtra("concurrent", map[string]any{"handshakes": total, "seconds": time.Since(t0).Seconds(), "gomaxprocs": runtime.GOMAXPROCS(0)})
}
