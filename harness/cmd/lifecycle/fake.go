package main

// Scripted recording peers for the client state machine:
//   - a RoundTripper installed as http.DefaultTransport (the library's clients use &http.Client{}): it records every
//     HTTP round trip a tagged client attempts and injects network failures,
//   - a fake streamable-HTTP server and a fake legacy-SSE server whose answers are chosen by the request itself
//     (clientInfo.name of initialize selects the handshake scenario; cursor/name/uri "fail" selects an error answer),
//   - the same script as a stdio child process (child.go).

import (
	"bytes"
	"encoding/json"
	"errors"
	"fmt"
	"io"
	"net/http"
	"net/http/httptest"
	"strings"
	"sync"
	"time"

	"verif/harness/hk"
)

const tagHeader = "X-Verif-Client"

// ctl is the harness' handle on one client under test.
type ctl struct {
	// base is this client's own connection pool.  One pool per client: with a shared pool net/http lets one client's
	// cancelled request (the streamable client's asynchronous GET, cancelled by Close) tear down a pooled connection another
	// client's request has just been handed, which then fails with a spurious "context canceled".
	base *http.Transport
	mu   sync.Mutex
	env  string // "", netErr, http500, dropNotif: what the network does during the current call
	log  []string
	kind string
}

func (c *ctl) setEnv(e string) { c.mu.Lock(); c.env = e; c.mu.Unlock() }
func (c *ctl) take() []string {
	c.mu.Lock()
	defer c.mu.Unlock()
	l := c.log
	c.log = nil
	if l == nil {
		l = []string{}
	}
	return l
}

var ctls sync.Map // tag -> *ctl

type recorder struct{ base http.RoundTripper }

func installRecorder() {
	base := &http.Transport{MaxIdleConnsPerHost: 64, DisableCompression: true}
	http.DefaultTransport = &recorder{base: base}
}

func (r *recorder) RoundTrip(req *http.Request) (*http.Response, error) {
	tag := req.Header.Get(tagHeader)
	if tag == "" {
		return r.base.RoundTrip(req)
	}
	v, ok := ctls.Load(tag)
	if !ok {
		return r.base.RoundTrip(req)
	}
	c := v.(*ctl)
	base := http.RoundTripper(r.base)
	if c.base != nil {
		base = c.base
	}
	label := req.Method
	if req.Method == http.MethodPost && req.Body != nil {
		b, _ := io.ReadAll(req.Body)
		req.Body.Close()
		req.Body = io.NopCloser(bytes.NewReader(b))
		var m struct {
			Method string `json:"method"`
		}
		_ = json.Unmarshal(b, &m)
		if m.Method != "" {
			label = m.Method
		} else {
			label = "POST"
		}
	}
	c.mu.Lock()
	env := c.env
	// the streamable client's optional listening stream is opened asynchronously after the handshake: not part of a call
	if !(c.kind == "streamable" && label == "GET") {
		c.log = append(c.log, label)
	}
	c.mu.Unlock()
	switch {
	case env == "netErr":
		return nil, errors.New("dial tcp 127.0.0.1:9: connect: connection refused (injected)")
	case env == "dropNotif" && label == "notifications/initialized":
		return nil, errors.New("write tcp 127.0.0.1:9: connection reset by peer (injected)")
	case (env == "http500" && label == "initialize") || (env == "del500" && label == "DELETE"):
		return &http.Response{Status: "500 Internal Server Error", StatusCode: 500, Proto: "HTTP/1.1", ProtoMajor: 1, ProtoMinor: 1,
			Header: http.Header{"Content-Type": {"text/plain"}}, Body: io.NopCloser(strings.NewReader("injected failure")), Request: req}, nil
	}
	return base.RoundTrip(req)
}

// ---------- the script shared by the three fake peers

type rpcIn struct {
	ID     json.RawMessage `json:"id"`
	Method string          `json:"method"`
	Params struct {
		Cursor     string `json:"cursor"`
		Name       string `json:"name"`
		URI        string `json:"uri"`
		ClientInfo struct {
			Name string `json:"name"`
		} `json:"clientInfo"`
	} `json:"params"`
}

const okResult = `{"tools":[],"content":[],"prompts":[],"messages":[],"resources":[],"contents":[]}`

// answer returns the JSON-RPC answer for a request (nil for notifications and answers).
func answer(in rpcIn) []byte {
	if len(in.ID) == 0 || in.Method == "" {
		return nil
	}
	errAns := fmt.Sprintf(`{"jsonrpc":"2.0","id":%s,"error":{"code":-32000,"message":"scripted refusal"}}`, in.ID)
	switch in.Method {
	case "initialize":
		if a, known := malformedAnswer(in.Params.ClientInfo.Name, in.ID); known {
			return a // a malformed-answer scenario (malformed.go); nil = the peer stays silent
		}
		switch in.Params.ClientInfo.Name {
		case "rpcErr":
			return []byte(errAns)
		case "badResult":
			return []byte(fmt.Sprintf(`{"jsonrpc":"2.0","id":%s,"result":{"protocolVersion":5,"capabilities":[]}}`, in.ID))
		}
		return []byte(fmt.Sprintf(`{"jsonrpc":"2.0","id":%s,"result":{"protocolVersion":"2025-03-26","capabilities":{"tools":{"listChanged":true}},"serverInfo":{"name":"fake","version":"0"}}}`, in.ID))
	default:
		if in.Params.Cursor == "fail" || in.Params.Name == "fail" || in.Params.URI == "fail" {
			return []byte(errAns)
		}
		return []byte(fmt.Sprintf(`{"jsonrpc":"2.0","id":%s,"result":%s}`, in.ID, okResult))
	}
}

// ---------- fake streamable-HTTP server

func newFakeStreamable() *httptest.Server {
	h := http.HandlerFunc(func(w http.ResponseWriter, r *http.Request) {
		switch r.Method {
		case http.MethodPost:
			b, _ := io.ReadAll(r.Body)
			var in rpcIn
			if err := json.Unmarshal(b, &in); err != nil {
				http.Error(w, "bad json", 400)
				return
			}
			a := answer(in)
			if a == nil {
				w.WriteHeader(http.StatusAccepted)
				return
			}
			if in.Method == "initialize" {
				w.Header().Set("Mcp-Session-Id", "fake-session-0123456789abcdef")
				if _, framed, _ := scenarioOf(in.Params.ClientInfo.Name); framed {
					// the same answer as the single event of an SSE-framed POST response
					w.Header().Set("Content-Type", "text/event-stream")
					w.WriteHeader(200)
					fmt.Fprintf(w, "event: message\ndata: %s\n\n", a)
					return
				}
			}
			w.Header().Set("Content-Type", "application/json")
			w.WriteHeader(200)
			w.Write(a)
		case http.MethodDelete:
			w.WriteHeader(200)
		default:
			// the listening stream is refused; the connection is not kept, so that the client's later cancellation of this
			// (asynchronous) request cannot hit a pooled connection that already carries another request
			w.Header().Set("Connection", "close")
			w.WriteHeader(http.StatusMethodNotAllowed)
		}
	})
	ts := httptest.NewUnstartedServer(h)
	ts.Config.ErrorLog = hk.QuietStdLog()
	ts.Start()
	return ts
}

// ---------- fake legacy-SSE server (2024-11-05 transport: GET opens the stream, answers arrive on it)

type fakeSSE struct {
	mu      sync.Mutex
	next    int
	streams map[string]chan []byte
}

func newFakeSSE() *httptest.Server {
	f := &fakeSSE{streams: map[string]chan []byte{}}
	mux := http.NewServeMux()
	mux.HandleFunc("/sse", func(w http.ResponseWriter, r *http.Request) {
		fl, ok := w.(http.Flusher)
		if !ok || r.Method != http.MethodGet {
			w.WriteHeader(405)
			return
		}
		f.mu.Lock()
		f.next++
		id := fmt.Sprint(f.next)
		ch := make(chan []byte, 16)
		f.streams[id] = ch
		f.mu.Unlock()
		defer func() { f.mu.Lock(); delete(f.streams, id); f.mu.Unlock() }()
		// the harness can end the stream of one client under test from the server side (breakSSEStream)
		brk := &sseBreak{kill: make(chan struct{}), done: make(chan struct{})}
		if tag := r.Header.Get(tagHeader); tag != "" {
			sseBreaks.Store(tag, brk)
			defer sseBreaks.CompareAndDelete(tag, brk)
		}
		defer close(brk.done)
		w.Header().Set("Content-Type", "text/event-stream")
		w.Header().Set("Cache-Control", "no-cache")
		w.WriteHeader(200)
		fmt.Fprintf(w, "event: endpoint\ndata: /message?sid=%s\n\n", id)
		fl.Flush()
		for {
			select {
			case <-r.Context().Done():
				return
			case <-brk.kill:
				return
			case m := <-ch:
				fmt.Fprintf(w, "event: message\ndata: %s\n\n", m)
				fl.Flush()
			}
		}
	})
	mux.HandleFunc("/message", func(w http.ResponseWriter, r *http.Request) {
		b, _ := io.ReadAll(r.Body)
		var in rpcIn
		if err := json.Unmarshal(b, &in); err != nil {
			http.Error(w, "bad json", 400)
			return
		}
		f.mu.Lock()
		ch := f.streams[r.URL.Query().Get("sid")]
		f.mu.Unlock()
		if ch == nil {
			http.Error(w, "no stream", 404)
			return
		}
		if a := answer(in); a != nil {
			ch <- a
		}
		w.WriteHeader(http.StatusAccepted)
	})
	ts := httptest.NewUnstartedServer(mux)
	ts.Config.ErrorLog = hk.QuietStdLog()
	ts.Start()
	return ts
}

type sseBreak struct {
	kill, done chan struct{}
	once       sync.Once
}

var sseBreaks sync.Map // client tag -> *sseBreak of its open event stream

// breakSSEStream makes the fake legacy-SSE server end the event stream of the tagged client and waits (ceiling 5 s) until
// the handler has returned, i.e. the response is finished.  false = that client has no open stream.
func breakSSEStream(tag string) bool {
	v, ok := sseBreaks.Load(tag)
	if !ok {
		return false
	}
	b := v.(*sseBreak)
	b.once.Do(func() { close(b.kill) })
	select {
	case <-b.done:
	case <-time.After(5 * time.Second):
	}
	return true
}

func newClientPool() *http.Transport {
	return &http.Transport{MaxIdleConnsPerHost: 4, DisableCompression: true}
}
