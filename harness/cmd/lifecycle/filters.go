package main

// Servers configured with LIST FILTERS (property C16: the prompts / resources capabilities are advertised exactly when
// at least one prompt / resource is REGISTERED at that time — list filters narrow what prompts/list, resources/list and
// tools/list return to a given caller, they must not change what the handshake advertises, and an answer must not
// depend on who shook hands before: the capability map is state shared by all callers).
//
// The server histories (registrations x initialize) run on the real streamable server (3 session modes, JSON and
// SSE-framed answers; raw POSTs with / without the role header; the public client with WithHTTPHeaders) and on the real
// legacy SSE server (raw peer; the public SSE client) with tool + prompt + resource list filters in four variants:
//   pass      every entry stays             hide-all  nothing stays
//   some      entries whose key contains "2" stay
//   role      keyed on a context value set by the context function from the header X-Verif-Role:
//             admin sees everything, anybody else (guest, no header) nothing.
// (The stdio server has no list-filter option.)  Every initialize of a history names its caller (admin / guest / none).
// That the filter really is in force is cross-checked in the same history with prompts/list and resources/list as
// guest and as admin (otherwise the phase would be vacuous).

import (
	"context"
	"fmt"
	"io"
	"net/http"
	"net/http/httptest"
	"sort"
	"strings"
	"time"

	mcp "trpc.group/trpc-go/trpc-mcp-go"
	"verif/harness/hk"
)

const roleHeader = "X-Verif-Role"

type roleKey struct{}

func roleCtx(ctx context.Context, r *http.Request) context.Context {
	return context.WithValue(ctx, roleKey{}, r.Header.Get(roleHeader))
}

func roleOf(ctx context.Context) string {
	s, _ := ctx.Value(roleKey{}).(string)
	return s
}

var filterVariants = []string{"pass", "hide-all", "some", "role"}

var callerRoles = []string{"admin", "guest", ""}

// visible: what the fixture's filters let through (the reference the cross-check compares the list answers with).
func visible(filter, role, key string) bool {
	switch filter {
	case "pass":
		return true
	case "hide-all":
		return false
	case "some":
		return strings.Contains(key, "2")
	case "role":
		return role == "admin"
	}
	panic(filter)
}

func promptFilter(filter string) mcp.PromptListFilter {
	return func(ctx context.Context, in []*mcp.Prompt) []*mcp.Prompt {
		out := []*mcp.Prompt{}
		for _, p := range in {
			if p != nil && visible(filter, roleOf(ctx), p.Name) {
				out = append(out, p)
			}
		}
		return out
	}
}

func resourceFilter(filter string) mcp.ResourceListFilter {
	return func(ctx context.Context, in []*mcp.Resource) []*mcp.Resource {
		out := []*mcp.Resource{}
		for _, p := range in {
			if p != nil && visible(filter, roleOf(ctx), p.URI) {
				out = append(out, p)
			}
		}
		return out
	}
}

func toolFilter(filter string) mcp.ToolListFilter {
	return func(ctx context.Context, in []*mcp.Tool) []*mcp.Tool {
		out := []*mcp.Tool{}
		for _, p := range in {
			if p != nil && visible(filter, roleOf(ctx), p.Name) {
				out = append(out, p)
			}
		}
		return out
	}
}

func roleHdr(role string) map[string]string {
	if role == "" {
		return map[string]string{}
	}
	return map[string]string{roleHeader: role}
}

// ---------- the two server kinds behind one interface

type filteredPeer interface {
	reg(o sOp)
	initialize(version, role string, id int) (map[string]any, string)
	// list: the keys (prompt names / resource URIs) a prompts/list / resources/list answer carries for this caller
	list(method, role string, id int) ([]string, string)
	close()
}

func wirePayload(r hk.RawResp) []byte {
	if !strings.Contains(r.Header.Get("Content-Type"), "text/event-stream") {
		return r.Body
	}
	var payload []byte
	for _, line := range strings.Split(string(r.Body), "\n") {
		line = strings.TrimRight(line, "\r")
		if strings.HasPrefix(line, "data:") {
			payload = []byte(strings.TrimPrefix(strings.TrimPrefix(line, "data:"), " "))
		}
	}
	return payload
}

func listKeys(res map[string]any, method string) []string {
	field, key := "prompts", "name"
	if method == "resources/list" {
		field, key = "resources", "uri"
	}
	out := []string{}
	arr, _ := res[field].([]any)
	for _, e := range arr {
		if m, ok := e.(map[string]any); ok {
			s, _ := m[key].(string)
			out = append(out, s)
		}
	}
	sort.Strings(out)
	return out
}

func listBody(method string, id int) string {
	return fmt.Sprintf(`{"jsonrpc":"2.0","id":%d,"method":%q,"params":{}}`, id, method)
}

// ----- streamable, raw

type filteredStreamable struct {
	f   *hk.Fixture
	v   srvVariant
	sid string // stateful: a session to send the list requests on
}

func newFilteredStreamable(name, version string, v srvVariant, filter string) *filteredStreamable {
	cfg := hk.SrvCfg{Mode: v.Mode, Get: false, PostSSE: v.PostSSE}
	opts := append(cfg.Opts(), mcp.WithHTTPContextFunc(roleCtx),
		mcp.WithToolListFilter(toolFilter(filter)), mcp.WithPromptListFilter(promptFilter(filter)), mcp.WithResourceListFilter(resourceFilter(filter)))
	s := mcp.NewServer(name, version, opts...)
	ts := httptest.NewUnstartedServer(s.Handler())
	ts.Config.ErrorLog = hk.QuietStdLog()
	ts.Start()
	tr := &http.Transport{MaxIdleConnsPerHost: 8, DisableCompression: true}
	return &filteredStreamable{f: &hk.Fixture{S: s, TS: ts, URL: ts.URL + "/mcp", HC: &http.Client{Transport: tr}}, v: v}
}

func (p *filteredStreamable) reg(o sOp) { applyReg(p.f.S, o) }
func (p *filteredStreamable) close()    { p.f.Close() }

func (p *filteredStreamable) post(body, role string, withSession bool, id int) (map[string]any, string) {
	hdr := roleHdr(role)
	hdr["Accept"] = p.v.Accept
	if withSession && p.sid != "" {
		hdr["Mcp-Session-Id"] = p.sid
	}
	r := p.f.Post(hdr, body)
	if r.Status != 200 {
		return nil, fmt.Sprintf("status %d %s %v", r.Status, r.Body, r.Err)
	}
	if sid := r.Header.Get("Mcp-Session-Id"); sid != "" && !withSession {
		p.sid = sid
	}
	return resultOf(wirePayload(r), id)
}

func (p *filteredStreamable) initialize(version, role string, id int) (map[string]any, string) {
	return p.post(initBody(version, id), role, false, id) // no session header: a fresh session per handshake
}

func (p *filteredStreamable) list(method, role string, id int) ([]string, string) {
	if p.v.Mode == "stateful" && p.sid == "" {
		if res, errs := p.initialize("2025-03-26", role, id); res == nil {
			return nil, "no session for the list request: " + errs
		}
	}
	res, errs := p.post(listBody(method, id), role, true, id)
	if res == nil {
		return nil, errs
	}
	return listKeys(res, method), ""
}

// ----- legacy SSE, raw (the context function sees the POST to the message endpoint)

type filteredSSE struct{ p *ssePeer }

func newFilteredSSEServer(name, version, filter string) (*mcp.SSEServer, *httptest.Server) {
	s := mcp.NewSSEServer(name, version, mcp.WithSSEServerLogger(hk.QuietLogger{}), mcp.WithKeepAlive(false), mcp.WithSSEContextFunc(roleCtx),
		mcp.WithSSEToolListFilter(toolFilter(filter)), mcp.WithSSEPromptListFilter(promptFilter(filter)), mcp.WithSSEResourceListFilter(resourceFilter(filter)))
	ts := httptest.NewUnstartedServer(s)
	ts.Config.ErrorLog = hk.QuietStdLog()
	ts.Start()
	return s, ts
}

func newFilteredSSE(name, version, filter string) (*filteredSSE, error) {
	s, ts := newFilteredSSEServer(name, version, filter)
	p, err := attachSSEPeer(s, ts)
	if err != nil {
		ts.CloseClientConnections()
		ts.Close()
		return nil, err
	}
	p.ownTS = true
	return &filteredSSE{p: p}, nil
}

func (q *filteredSSE) reg(o sOp) { applyReg(q.p.s, o) }
func (q *filteredSSE) close()    { q.p.close() }

// call posts one request with the caller's role header and waits for its answer on the stream.
func (q *filteredSSE) call(body, role string, id int) (map[string]any, string) {
	p := q.p
	ch := make(chan []byte, 1)
	p.mu.Lock()
	p.waiters[id] = ch
	p.mu.Unlock()
	req, _ := http.NewRequest("POST", p.msgURL, strings.NewReader(body))
	req.Header.Set("Content-Type", "application/json")
	for k, v := range roleHdr(role) {
		req.Header.Set(k, v)
	}
	resp, err := p.hc.Do(req)
	if err != nil {
		return nil, "POST message: " + err.Error()
	}
	io.Copy(io.Discard, resp.Body)
	resp.Body.Close()
	if resp.StatusCode != http.StatusAccepted && resp.StatusCode != http.StatusOK {
		return nil, fmt.Sprintf("POST message: status %d", resp.StatusCode)
	}
	select {
	case d := <-ch:
		return resultOf(d, id)
	case <-p.ended:
		return nil, "stream ended before the answer"
	case <-time.After(answerWait):
		return nil, "no answer on the stream"
	}
}

func (q *filteredSSE) initialize(version, role string, id int) (map[string]any, string) {
	return q.call(initBody(version, id), role, id)
}

func (q *filteredSSE) list(method, role string, id int) ([]string, string) {
	res, errs := q.call(listBody(method, id), role, id)
	if res == nil {
		return nil, errs
	}
	return listKeys(res, method), ""
}

// ---------- one history

// registry as the statement sees it: the keys registered so far (non-empty ones; re-registration keeps one entry)
type regKeys struct{ prompts, resources map[string]bool }

func (k *regKeys) apply(o sOp) {
	if o.N == "" {
		return
	}
	switch o.T {
	case "prompt":
		k.prompts[o.N] = true
	case "resource":
		k.resources[o.N] = true
	}
}

func (k *regKeys) seenBy(filter, role string) (prompts, resources []string) {
	prompts, resources = []string{}, []string{}
	for n := range k.prompts {
		if visible(filter, role, n) {
			prompts = append(prompts, n)
		}
	}
	for n := range k.resources {
		if visible(filter, role, n) {
			resources = append(resources, n)
		}
	}
	sort.Strings(prompts)
	sort.Strings(resources)
	return
}

func rolesOf(ops []sOp) []any {
	out := []any{}
	for _, o := range ops {
		if o.T == "init" {
			out = append(out, o.Via)
		}
	}
	return out
}

// judgeFiltered: the phase's own fingerprints (the answer follows the caller's filtered view instead of the registry),
// then checkAnswer (the statement in general).
func judgeFiltered(c *hk.Ctx, where, filter, role, name, version, requested string, keys *regKeys, exp expectTrack, obs initObs, extra, noLC []string, input map[string]any) {
	vp, vr := keys.seenBy(filter, role)
	detail := map[string]any{"answer_caps": obs.Caps, "registered_prompts": len(keys.prompts), "registered_resources": len(keys.resources),
		"prompts_visible_to_caller": len(vp), "resources_visible_to_caller": len(vr), "caller": role, "filter": filter}
	if obs.Caps["prompts"] != exp.prompts && obs.Caps["prompts"] == (len(vp) > 0) {
		c.Violate(hk.Violation{Fingerprint: "lifecycle:filtered:prompts-capability-follows-filter", What: "the prompts capability of the initialize answer follows what the list filter shows this caller, not whether a prompt is registered (" + where + ")", Input: input, Observed: detail, Expected: exp.prompts})
	}
	if obs.Caps["resources"] != exp.resources && obs.Caps["resources"] == (len(vr) > 0) {
		c.Violate(hk.Violation{Fingerprint: "lifecycle:filtered:resources-capability-follows-filter", What: "the resources capability of the initialize answer follows what the list filter shows this caller, not whether a resource is registered (" + where + ")", Input: input, Observed: detail, Expected: exp.resources})
	}
	checkAnswer(c, where, name, version, requested, exp, obs, extra, noLC, input)
}

// crossCheck: the filter is in force — the list answers for guest and admin are the registry narrowed by the fixture's filter.
func crossCheck(c *hk.Ctx, p filteredPeer, kind, filter string, keys *regKeys, input map[string]any, id int) {
	for i, role := range []string{"guest", "admin"} {
		wp, wr := keys.seenBy(filter, role)
		for j, m := range []string{"prompts/list", "resources/list"} {
			want := wp
			if j == 1 {
				want = wr
			}
			got, errs := p.list(m, role, id+2*i+j)
			if got == nil || fmt.Sprint(got) != fmt.Sprint(want) {
				c.Violate(hk.Violation{Fingerprint: "lifecycle:filtered:fixture-filter-not-in-force", What: "the list answer is not the registry narrowed by the configured list filter for this caller: the filtered-server phase would prove nothing (" + kind + ")",
					Input: map[string]any{"history": input, "method": m, "caller": role}, Observed: map[string]any{"keys": got, "error": errs}, Expected: want})
			}
			c.Count("filtered-crosscheck:"+kind+":"+filter+":"+role+":"+m+":"+fmt.Sprint(len(want), len(keys.prompts), len(keys.resources)), len(want) != len(keys.prompts) && j == 0 || len(want) != len(keys.resources) && j == 1, nil, "filtered-crosscheck")
		}
	}
}

// runFilteredHistory: registrations and initializes (each by its own caller: sOp.Via = role) against one filtered server.
func runFilteredHistory(c *hk.Ctx, kind string, v srvVariant, filter, name, version string, ops []sOp, tag string) {
	input0 := map[string]any{"server": []string{name, version}, "kind": kind, "variant": v, "filter": filter}
	var p filteredPeer
	if kind == "streamable" {
		p = newFilteredStreamable(name, version, v, filter)
	} else {
		q, err := newFilteredSSE(name, version, filter)
		if err != nil {
			c.Violate(hk.Violation{Fingerprint: "lifecycle:same-session:connection-not-established:sse", What: "the raw peer cannot open its connection to the real server", Input: input0, Observed: fmt.Sprint(err)})
			return
		}
		p = q
	}
	defer p.close()
	outs := []initObs{}
	var exp expectTrack
	keys := &regKeys{map[string]bool{}, map[string]bool{}}
	distinct := map[string]bool{}
	hidden := false
	for i, o := range ops {
		if o.T != "init" {
			p.reg(o)
			exp.apply(o)
			keys.apply(o)
			continue
		}
		input := map[string]any{"server": []string{name, version}, "kind": kind, "variant": v, "filter": filter, "caller": o.Via, "callers_so_far": rolesOf(ops[:i+1]), "history": opsJSON(ops[:i+1])}
		res, errs := p.initialize(o.N, o.Via, i+1)
		if res == nil {
			c.Violate(hk.Violation{Fingerprint: "lifecycle:initialize-not-answered", What: "well-formed initialize (server with list filters) not answered with a result", Input: input, Observed: errs})
			outs = append(outs, initObs{Caps: map[string]bool{}})
			continue
		}
		obs, extra, noLC := obsFromWire(res)
		judgeFiltered(c, "wire, "+kind+" server with list filter "+filter, filter, o.Via, name, version, o.N, keys, exp, obs, extra, noLC, input)
		outs = append(outs, obs)
		distinct[fmt.Sprint(obs.Protocol, obs.Caps)] = true
		if vp, vr := keys.seenBy(filter, o.Via); len(vp) < len(keys.prompts) || len(vr) < len(keys.resources) {
			hidden = true
		}
	}
	crossCheck(c, p, kind, filter, keys, map[string]any{"server": []string{name, version}, "kind": kind, "variant": v, "filter": filter, "history": opsJSON(ops)}, len(ops)+1)
	// the model has no caller and no filter: that is the property
	c.Emit(map[string]any{"c": "lifecycle.server", "cfg": map[string]any{"name": name, "version": version}, "ops": opsJSON(ops), "via": "filtered:" + kind + ":" + filter, "callers": rolesOf(ops)},
		map[string]any{"outs": outs}, hidden, "filtered-"+tag, "filtered-"+kind, "filtered-"+filter)
}

// runFilteredClients: the public clients, one per initialize (WithHTTPHeaders carries the role), against one filtered server.
func runFilteredClients(c *hk.Ctx, kind, filter, name, version string, ops []sOp, tag string) {
	info := mcp.Implementation{Name: "verif-client", Version: "1"}
	ctx, cancel := context.WithTimeout(context.Background(), 30*time.Second)
	defer cancel()
	var srv any
	var url string
	var hc *http.Client
	if kind == "streamable" {
		p := newFilteredStreamable(name, version, srvVariant{Mode: "stateful"}, filter)
		defer p.close()
		srv, url, hc = p.f.S, p.f.URL, p.f.HC
	} else {
		s, ts := newFilteredSSEServer(name, version, filter)
		defer func() { ts.CloseClientConnections(); ts.Close() }()
		hc = &http.Client{Transport: &http.Transport{MaxIdleConnsPerHost: 8, DisableCompression: true}}
		defer hc.CloseIdleConnections()
		srv, url = s, ts.URL+"/sse"
	}
	outs := []initObs{}
	var exp expectTrack
	keys := &regKeys{map[string]bool{}, map[string]bool{}}
	hidden := false
	for i, o := range ops {
		if o.T != "init" {
			applyReg(srv, o)
			exp.apply(o)
			keys.apply(o)
			continue
		}
		input := map[string]any{"client": kind, "server": []string{name, version}, "filter": filter, "caller": o.Via, "callers_so_far": rolesOf(ops[:i+1]), "history": opsJSON(ops[:i+1])}
		copts := []mcp.ClientOption{mcp.WithProtocolVersion(o.N), mcp.WithClientLogger(hk.QuietLogger{}), mcp.VerifWithHTTPClient(hc)}
		if o.Via != "" {
			copts = append(copts, mcp.WithHTTPHeaders(http.Header{roleHeader: []string{o.Via}}))
		}
		var cl *mcp.Client
		var err error
		if kind == "streamable" {
			cl, err = mcp.NewClient(url, info, append(copts, mcp.WithClientGetSSEEnabled(false))...)
		} else {
			cl, err = mcp.NewSSEClient(url, info, copts...)
		}
		if err != nil {
			panic(err)
		}
		res, err := cl.Initialize(ctx, nil)
		if err != nil || res == nil {
			c.Violate(hk.Violation{Fingerprint: "lifecycle:handshake-fails:" + kind, What: "handshake of the real " + kind + " client with the real server (list filters configured) fails", Input: input, Observed: fmt.Sprint(err)})
			outs = append(outs, initObs{Caps: map[string]bool{}})
			cl.Close()
			continue
		}
		obs, extra, noLC := obsFromResult(res)
		judgeFiltered(c, "at the "+kind+" client, server with list filter "+filter, filter, o.Via, name, version, o.N, keys, exp, obs, extra, noLC, input)
		outs = append(outs, obs)
		// the filter is in force for this very client (its header reaches the context function)
		wp, wr := keys.seenBy(filter, o.Via)
		gp, gr := []string{}, []string{}
		lp, e1 := cl.ListPrompts(ctx, &mcp.ListPromptsRequest{})
		lr, e2 := cl.ListResources(ctx, &mcp.ListResourcesRequest{})
		if lp != nil {
			for _, x := range lp.Prompts {
				gp = append(gp, x.Name)
			}
		}
		if lr != nil {
			for _, x := range lr.Resources {
				gr = append(gr, x.URI)
			}
		}
		sort.Strings(gp)
		sort.Strings(gr)
		if e1 != nil || e2 != nil || fmt.Sprint(gp) != fmt.Sprint(wp) || fmt.Sprint(gr) != fmt.Sprint(wr) {
			c.Violate(hk.Violation{Fingerprint: "lifecycle:filtered:fixture-filter-not-in-force", What: "the list answer is not the registry narrowed by the configured list filter for this caller: the filtered-server phase would prove nothing (" + kind + " client)",
				Input: input, Observed: map[string]any{"prompts": gp, "resources": gr, "errors": fmt.Sprint(e1, e2)}, Expected: map[string]any{"prompts": wp, "resources": wr}})
		}
		if len(wp) < len(keys.prompts) || len(wr) < len(keys.resources) {
			hidden = true
		}
		cl.Close()
	}
	c.Emit(map[string]any{"c": "lifecycle.server", "cfg": map[string]any{"name": name, "version": version}, "ops": opsJSON(ops), "via": "filtered:client:" + kind + ":" + filter, "callers": rolesOf(ops)},
		map[string]any{"outs": outs}, hidden, "filtered-"+tag, "filtered-client-"+kind, "filtered-"+filter)
}

// ---------- the histories

func withRoles(ops []sOp, roles []string, start int) []sOp {
	out := append([]sOp{}, ops...)
	k := start
	for i := range out {
		if out[i].T == "init" {
			out[i].Via = roles[k%len(roles)]
			k++
		}
	}
	return out
}

func runFilteredPhase(c *hk.Ctx) {
	names := [][2]string{{"verif-server", "1.2.3"}, {"名前 🙂", "v\"1\\"}}
	vs := []string{"2025-03-26", "2024-11-05", "2025-03-27", ""}
	interleaved := []string{"guest", "admin", "guest", "", "admin", ""} // guest, admin, guest again, …
	k := 0
	both := func(ops []sOp, filter, tag string) {
		nm := names[k%len(names)]
		runFilteredHistory(c, "streamable", srvVariants[k%len(srvVariants)], filter, nm[0], nm[1], ops, tag)
		runFilteredHistory(c, "sse", srvVariant{}, filter, nm[0], nm[1], ops, tag)
		k++
	}
	// all subsets of capability kinds: six initializes by interleaved callers, all four filters, raw and public clients
	for mask := 0; mask < 8; mask++ {
		ops := subsetRegs(mask)
		if mask&2 != 0 { // a second entry of the kind, one the filter "some" lets through
			ops = append(ops, sOp{T: "prompt", N: "greet2"})
		}
		if mask&4 != 0 {
			ops = append(ops, sOp{T: "resource", N: "verif://doc2", Via: "RegisterResources"})
		}
		for i := 0; i < 6; i++ {
			ops = append(ops, sOp{T: "init", N: vs[(mask+i)%len(vs)]})
		}
		for fi, filter := range filterVariants {
			h := withRoles(ops, interleaved, fi)
			both(h, filter, "subsets")
			runFilteredClients(c, "streamable", filter, "e2e-filtered", "9.9", h, "subsets")
			runFilteredClients(c, "sse", filter, "e2e-filtered", "9.9", h, "subsets")
		}
	}
	// registrations changing between initializes by different callers: every ordered pair of registration operations
	p := 0
	for _, r1 := range regAlphabet {
		for _, r2 := range regAlphabet {
			ops := []sOp{{T: "init", N: "2024-11-05"}, r1, {T: "init", N: vs[p%len(vs)]}, r2, {T: "init", N: "2025-03-26"}, {T: "init", N: "2025-03-26"}}
			filters := []string{"role", filterVariants[p%len(filterVariants)]}
			if c.Thorough() {
				filters = filterVariants
			}
			for _, filter := range filters {
				both(withRoles(ops, interleaved, p), filter, "pairs-between-initializes")
			}
			p++
		}
	}
	// seeded random longer ones
	n := 60
	if c.Thorough() {
		n = 1200
	}
	wide := versionStrings(c)
	for i := 0; i < n; i++ {
		l := 3 + c.Rng.Intn(12)
		var ops []sOp
		for j := 0; j < l; j++ {
			if c.Rng.Intn(3) == 0 {
				ops = append(ops, sOp{T: "init", N: randomVersion(c, wide), Via: callerRoles[c.Rng.Intn(len(callerRoles))]})
			} else {
				o := regAlphabet[c.Rng.Intn(len(regAlphabet))]
				if c.Rng.Intn(4) == 0 && o.N != "" {
					o.N = o.N + fmt.Sprint(c.Rng.Intn(3))
				}
				ops = append(ops, o)
			}
		}
		ops = append(ops, sOp{T: "init", N: randomVersion(c, wide), Via: callerRoles[c.Rng.Intn(len(callerRoles))]})
		filter := filterVariants[c.Rng.Intn(len(filterVariants))]
		nm := names[c.Rng.Intn(len(names))]
		switch c.Rng.Intn(4) {
		case 0:
			runFilteredHistory(c, "sse", srvVariant{}, filter, nm[0], nm[1], ops, "random")
		case 1:
			runFilteredClients(c, []string{"streamable", "sse"}[c.Rng.Intn(2)], filter, nm[0], nm[1], ops, "random")
		default:
			runFilteredHistory(c, "streamable", srvVariants[c.Rng.Intn(len(srvVariants))], filter, nm[0], nm[1], ops, "random")
		}
	}
}
