package main

// Several initialize requests on ONE server session / connection (property C16: the answer to an initialize follows
// the version rule for ITS request alone — requested if supported, else latest — whatever was negotiated on that
// session before), on all three server kinds:
//   streamable  raw POSTs that carry the Mcp-Session-Id returned by the first initialize (JSON and SSE-framed answers),
//               and the public client: Initialize / Close / Initialize with another version (the transport keeps its id);
//   sse         one raw legacy-SSE connection (GET /sse -> endpoint event -> POST /message, answers on the stream);
//   stdio       a real mcp.NewStdioServer on in-process pipes (hook VerifServeStdio) and as a child process (os.Stdin).
// Every answer goes through checkAnswer (the statement) and the whole history through the model (lifecycle.server).

import (
	"bufio"
	"context"
	"encoding/json"
	"fmt"
	"io"
	"net/http"
	"net/http/httptest"
	"os"
	"os/exec"
	"strings"
	"sync"
	"time"

	mcp "trpc.group/trpc-go/trpc-mcp-go"
	"verif/harness/hk"
)

// the small alphabet: both supported versions, strings sorting below / between / above them, the empty string
var sameSessionVersions = []string{"2025-03-26", "2024-11-05", "1999-01-01", "9999-12-31", "", "2025-01-01"}

const answerWait = 10 * time.Second // ceiling for one answer to arrive (event based, never a sleep)

func initBody(version string, id int) string {
	vb, _ := json.Marshal(version)
	return fmt.Sprintf(`{"jsonrpc":"2.0","id":%d,"method":"initialize","params":{"protocolVersion":%s,"capabilities":{},"clientInfo":{"name":"verif","version":"1"}}}`, id, vb)
}

// ---------- a connection-like view of the three server kinds

type sessionPeer interface {
	reg(o sOp)
	// initialize sends one initialize on the peer's one session and returns the `result` object of its answer.
	initialize(version string, id int) (map[string]any, string)
	session() string
	close()
}

// ----- streamable, raw

type streamablePeer struct {
	f   *hk.Fixture
	v   srvVariant
	sid string
}

func (p *streamablePeer) reg(o sOp)       { applyReg(p.f.S, o) }
func (p *streamablePeer) session() string { return p.sid }
func (p *streamablePeer) close()          { p.f.Close() }

func (p *streamablePeer) initialize(version string, id int) (map[string]any, string) {
	hdr := map[string]string{"Accept": p.v.Accept}
	if p.sid != "" {
		hdr["Mcp-Session-Id"] = p.sid
	}
	r := p.f.Post(hdr, initBody(version, id))
	if r.Status != 200 {
		return nil, fmt.Sprintf("status %d %s %v", r.Status, r.Body, r.Err)
	}
	got := r.Header.Get("Mcp-Session-Id")
	if p.sid == "" {
		if got == "" {
			return nil, "first initialize answered without Mcp-Session-Id"
		}
		p.sid = got
	} else if got != "" && got != p.sid {
		return nil, "initialize with Mcp-Session-Id " + p.sid + " answered for session " + got
	}
	payload := r.Body
	if strings.Contains(r.Header.Get("Content-Type"), "text/event-stream") {
		payload = nil
		for _, line := range strings.Split(string(r.Body), "\n") {
			line = strings.TrimRight(line, "\r")
			if strings.HasPrefix(line, "data:") {
				payload = []byte(strings.TrimPrefix(strings.TrimPrefix(line, "data:"), " "))
			}
		}
	}
	return resultOf(payload, id)
}

func resultOf(payload []byte, id int) (map[string]any, string) {
	var msg map[string]any
	if err := json.Unmarshal(payload, &msg); err != nil {
		return nil, "unparsable answer: " + string(payload)
	}
	if f, ok := msg["id"].(float64); !ok || int(f) != id {
		return nil, fmt.Sprintf("answer for id %v, want %d: %s", msg["id"], id, payload)
	}
	res, ok := msg["result"].(map[string]any)
	if !ok {
		return nil, "no result: " + string(payload)
	}
	return res, ""
}

// ----- legacy SSE, raw

type ssePeer struct {
	s       *mcp.SSEServer
	ts      *httptest.Server
	hc      *http.Client
	cancel  context.CancelFunc
	body    io.ReadCloser
	msgURL  string
	sid     string
	mu      sync.Mutex
	waiters map[int]chan []byte
	ended   chan struct{}
	ownTS   bool
}

func openSSEPeer(name, version string) (*ssePeer, error) {
	s := mcp.NewSSEServer(name, version, mcp.WithSSEServerLogger(hk.QuietLogger{}), mcp.WithKeepAlive(false))
	ts := httptest.NewUnstartedServer(s)
	ts.Config.ErrorLog = hk.QuietStdLog()
	ts.Start()
	p, err := attachSSEPeer(s, ts)
	if err != nil {
		ts.CloseClientConnections()
		ts.Close()
		return nil, err
	}
	p.ownTS = true
	return p, nil
}

// attachSSEPeer opens one more raw connection (GET /sse, endpoint event) to a running legacy SSE server.
func attachSSEPeer(s *mcp.SSEServer, ts *httptest.Server) (*ssePeer, error) {
	p := &ssePeer{s: s, ts: ts, hc: &http.Client{Transport: &http.Transport{MaxIdleConnsPerHost: 4, DisableCompression: true}},
		waiters: map[int]chan []byte{}, ended: make(chan struct{})}
	ctx, cancel := context.WithCancel(context.Background())
	p.cancel = cancel
	req, _ := http.NewRequestWithContext(ctx, "GET", ts.URL+"/sse", nil)
	req.Header.Set("Accept", "text/event-stream")
	resp, err := p.hc.Do(req)
	if err != nil {
		p.detach()
		return nil, err
	}
	p.body = resp.Body
	if resp.StatusCode != 200 {
		p.detach()
		return nil, fmt.Errorf("GET /sse: status %d", resp.StatusCode)
	}
	ep := make(chan string, 1)
	go p.read(ep)
	select {
	case e := <-ep:
		p.msgURL = ts.URL + e
		if i := strings.Index(e, "sessionId="); i >= 0 {
			p.sid = e[i+len("sessionId="):]
		}
	case <-p.ended:
		p.detach()
		return nil, fmt.Errorf("stream ended before the endpoint event")
	case <-time.After(answerWait):
		p.detach()
		return nil, fmt.Errorf("no endpoint event")
	}
	return p, nil
}

func (p *ssePeer) read(ep chan string) {
	defer close(p.ended)
	br := bufio.NewReaderSize(p.body, 1<<16)
	evType := ""
	var data []string
	for {
		line, err := br.ReadString('\n')
		if err != nil {
			return
		}
		line = strings.TrimSuffix(strings.TrimSuffix(line, "\n"), "\r")
		if line == "" {
			if len(data) > 0 {
				d := strings.Join(data, "\n")
				if evType == "endpoint" {
					select {
					case ep <- d:
					default:
					}
				} else {
					var m struct {
						ID *float64 `json:"id"`
					}
					if json.Unmarshal([]byte(d), &m) == nil && m.ID != nil {
						p.mu.Lock()
						ch := p.waiters[int(*m.ID)]
						delete(p.waiters, int(*m.ID))
						p.mu.Unlock()
						if ch != nil {
							ch <- []byte(d)
						}
					}
				}
			}
			evType, data = "", nil
			continue
		}
		if strings.HasPrefix(line, ":") {
			continue
		}
		field, val := line, ""
		if i := strings.Index(line, ":"); i >= 0 {
			field, val = line[:i], strings.TrimPrefix(line[i+1:], " ")
		}
		switch field {
		case "event":
			evType = val
		case "data":
			data = append(data, val)
		}
	}
}

func (p *ssePeer) reg(o sOp)       { applyReg(p.s, o) }
func (p *ssePeer) session() string { return p.sid }

// detach closes this connection only.
func (p *ssePeer) detach() {
	if p.cancel != nil {
		p.cancel()
	}
	if p.body != nil {
		p.body.Close()
	}
	p.hc.CloseIdleConnections()
}

func (p *ssePeer) close() {
	p.detach()
	if p.ownTS {
		p.ts.CloseClientConnections()
		p.ts.Close()
	}
}

// post sends one message on the connection's message endpoint and returns the channel its answer will arrive on.
func (p *ssePeer) post(body string, id int) (chan []byte, string) {
	ch := make(chan []byte, 1)
	p.mu.Lock()
	p.waiters[id] = ch
	p.mu.Unlock()
	req, _ := http.NewRequest("POST", p.msgURL, strings.NewReader(body))
	req.Header.Set("Content-Type", "application/json")
	resp, err := p.hc.Do(req)
	if err != nil {
		return nil, "POST message: " + err.Error()
	}
	io.Copy(io.Discard, resp.Body)
	resp.Body.Close()
	if resp.StatusCode != http.StatusAccepted && resp.StatusCode != http.StatusOK {
		return nil, fmt.Sprintf("POST message: status %d", resp.StatusCode)
	}
	return ch, ""
}

func (p *ssePeer) initialize(version string, id int) (map[string]any, string) {
	ch, errs := p.post(initBody(version, id), id)
	if ch == nil {
		return nil, errs
	}
	select {
	case d := <-ch:
		return resultOf(d, id)
	case <-p.ended:
		return nil, "stream ended before the answer"
	case <-time.After(answerWait):
		return nil, "no answer on the stream"
	}
}

// ----- stdio: in-process pipes, or this binary as a child process

type stdioPeer struct {
	s      *mcp.StdioServer // nil in child mode
	in     io.WriteCloser
	lines  chan []byte
	cancel context.CancelFunc
	cmd    *exec.Cmd
	regs   []sOp
	done   chan struct{}
}

func pumpLines(r io.Reader, out chan []byte) {
	defer close(out)
	br := bufio.NewReaderSize(r, 1<<16)
	for {
		line, err := br.ReadBytes('\n')
		if len(line) > 1 {
			out <- line
		}
		if err != nil {
			return
		}
	}
}

func openStdioPipes(name, version string) *stdioPeer {
	s := mcp.NewStdioServer(name, version, mcp.WithStdioServerLogger(hk.QuietLogger{}))
	inR, inW := io.Pipe()
	outR, outW := io.Pipe()
	ctx, cancel := context.WithCancel(context.Background())
	p := &stdioPeer{s: s, in: inW, lines: make(chan []byte, 64), cancel: cancel, done: make(chan struct{})}
	go func() {
		defer close(p.done)
		_ = mcp.VerifServeStdio(ctx, s, inR, outW)
		outW.Close()
	}()
	go pumpLines(outR, p.lines)
	return p
}

// openStdioChild: registrations cannot change once the process runs, so they are all handed over at the start.
func openStdioChild(name, version string, regs []sOp) (*stdioPeer, error) {
	rj, _ := json.Marshal(opsJSON(regs))
	cmd := exec.Command(selfExe())
	cmd.Env = append(os.Environ(), childEnv+"=real", childRegEnv+"="+string(rj), childNameEnv+"="+name, childVersionEnv+"="+version)
	in, err := cmd.StdinPipe()
	if err != nil {
		return nil, err
	}
	out, err := cmd.StdoutPipe()
	if err != nil {
		return nil, err
	}
	if err := cmd.Start(); err != nil {
		return nil, err
	}
	p := &stdioPeer{in: in, lines: make(chan []byte, 64), cmd: cmd, done: make(chan struct{})}
	go pumpLines(out, p.lines)
	go func() { cmd.Wait(); close(p.done) }()
	return p, nil
}

func (p *stdioPeer) reg(o sOp) {
	if p.s != nil {
		applyReg(p.s, o)
	}
}
func (p *stdioPeer) session() string { return "stdio" }

func (p *stdioPeer) close() {
	p.in.Close() // end of input: the server loop returns
	select {
	case <-p.done:
	case <-time.After(answerWait):
		if p.cmd != nil {
			p.cmd.Process.Kill()
		}
	}
	if p.cancel != nil {
		p.cancel()
	}
	go func() {
		for range p.lines {
		}
	}()
}

func (p *stdioPeer) initialize(version string, id int) (map[string]any, string) {
	if _, err := io.WriteString(p.in, initBody(version, id)+"\n"); err != nil {
		return nil, "write: " + err.Error()
	}
	select {
	case line, ok := <-p.lines:
		if !ok {
			return nil, "output ended before the answer"
		}
		return resultOf(line, id)
	case <-time.After(answerWait):
		return nil, "no answer line"
	}
}

// ---------- one history on one session

func openPeer(kind string, variant srvVariant, name, version string, childRegs []sOp) (sessionPeer, error) {
	switch kind {
	case "streamable":
		return &streamablePeer{f: newSrv(name, version, variant), v: variant}, nil
	case "sse":
		return openSSEPeer(name, version)
	case "stdio":
		return openStdioPipes(name, version), nil
	case "stdio-child":
		return openStdioChild(name, version, childRegs)
	}
	panic(kind)
}

// runSameSession: every initialize of `ops` travels on the same session / connection of one real server.
func runSameSession(c *hk.Ctx, kind string, variant srvVariant, name, version string, ops []sOp, tag string) {
	via := "same-session:" + kind
	var childRegs []sOp
	if kind == "stdio-child" { // all registrations first (a running process cannot be given more)
		var regs, inits []sOp
		for _, o := range ops {
			if o.T == "init" {
				inits = append(inits, o)
			} else {
				regs = append(regs, o)
			}
		}
		ops = append(regs, inits...)
		childRegs = regs
	}
	input0 := map[string]any{"server": []string{name, version}, "kind": kind, "variant": variant}
	p, err := openPeer(kind, variant, name, version, childRegs)
	if err != nil {
		c.Violate(hk.Violation{Fingerprint: "lifecycle:same-session:connection-not-established:" + kind, What: "the raw peer cannot open its connection to the real server", Input: input0, Observed: fmt.Sprint(err)})
		return
	}
	defer p.close()
	outs := []initObs{}
	var exp expectTrack
	distinct := map[string]bool{}
	nInit := 0
	for i, o := range ops {
		if o.T != "init" {
			p.reg(o)
			exp.apply(o)
			continue
		}
		nInit++
		input := map[string]any{"server": []string{name, version}, "kind": kind, "variant": variant, "session": "one session for all initializes", "history": opsJSON(ops[:i+1])}
		res, errs := p.initialize(o.N, i+1)
		if res == nil {
			c.Violate(hk.Violation{Fingerprint: "lifecycle:initialize-not-answered", What: "well-formed initialize (on a session that was initialized before) not answered with a result", Input: input, Observed: errs})
			outs = append(outs, initObs{Caps: map[string]bool{}})
			continue
		}
		obs, extra, noLC := obsFromWire(res)
		checkAnswer(c, fmt.Sprintf("initialize #%d on one %s session", nInit, kind), name, version, o.N, exp, obs, extra, noLC, input)
		outs = append(outs, obs)
		distinct[fmt.Sprint(obs.Protocol, obs.Caps)] = true
	}
	c.Emit(map[string]any{"c": "lifecycle.server", "cfg": map[string]any{"name": name, "version": version}, "ops": opsJSON(ops), "via": via},
		map[string]any{"outs": outs}, len(distinct) > 1, "same-session-"+tag, "same-session-"+kind)
}

// runSameSessionClient: the public streamable client — Initialize, Close, Initialize with another version, … on ONE
// client: Close keeps the transport's session id, so every handshake lands on the same server session.
func runSameSessionClient(c *hk.Ctx, name, version string, ops []sOp, tag string) {
	f := newSrv(name, version, srvVariant{Mode: "stateful"})
	defer f.Close()
	info := mcp.Implementation{Name: "verif-client", Version: "1"}
	cl, err := mcp.NewClient(f.URL, info, mcp.WithClientLogger(hk.QuietLogger{}), mcp.WithClientGetSSEEnabled(false), mcp.VerifWithHTTPClient(f.HC)) // own connection pool
	if err != nil {
		panic(err)
	}
	defer cl.Close()
	ctx, cancel := context.WithTimeout(context.Background(), 30*time.Second)
	defer cancel()
	outs := []initObs{}
	var exp expectTrack
	distinct := map[string]bool{}
	sid := ""
	for i, o := range ops {
		if o.T != "init" {
			applyReg(f.S, o)
			exp.apply(o)
			continue
		}
		input := map[string]any{"client": "streamable", "server": []string{name, version}, "session": "one client: Initialize / Close / Initialize …", "history": opsJSON(ops[:i+1])}
		res, err := cl.Initialize(ctx, &mcp.InitializeRequest{Params: mcp.InitializeParams{ProtocolVersion: o.N, ClientInfo: info}})
		if err != nil || res == nil {
			c.Violate(hk.Violation{Fingerprint: "lifecycle:handshake-fails:streamable", What: "handshake of the real streamable client (re-used after Close) with the real server fails", Input: input, Observed: fmt.Sprint(err)})
			outs = append(outs, initObs{Caps: map[string]bool{}})
			_ = cl.Close()
			continue
		}
		if got := cl.GetSessionID(); sid == "" {
			sid = got
		} else if got != sid {
			// the premise of this phase (Close keeps the session id); reported, not silently accepted
			c.Violate(hk.Violation{Fingerprint: "lifecycle:same-session:client-session-changed", What: "the streamable client did not stay on its session across Close / Initialize", Input: input, Observed: got, Expected: sid})
		}
		if st := cl.GetState(); st != mcp.StateInitialized {
			c.Violate(hk.Violation{Fingerprint: "lifecycle:state-after-handshake:streamable", What: "client does not report initialized after a successful handshake", Input: input, Observed: string(st)})
		}
		obs, extra, noLC := obsFromResult(res)
		checkAnswer(c, "at the streamable client re-used after Close", name, version, o.N, exp, obs, extra, noLC, input)
		outs = append(outs, obs)
		distinct[fmt.Sprint(obs.Protocol, obs.Caps)] = true
		_ = cl.Close()
	}
	c.Emit(map[string]any{"c": "lifecycle.server", "cfg": map[string]any{"name": name, "version": version}, "ops": opsJSON(ops), "via": "same-session:client:streamable"},
		map[string]any{"outs": outs}, len(distinct) > 1, "same-session-"+tag, "same-session-client-streamable")
}

// ---------- the histories

var sameSessionRegs = []sOp{
	{T: "prompt", N: "p1"}, {T: "resource", N: "verif://r1"}, {T: "tool", N: "t1"}, {T: "prompt", N: ""},
	{T: "resource", N: "verif://r2", Via: "RegisterResources"}, {T: "template", N: "tm1"},
}

var statefulVariants = []srvVariant{
	{"stateful", false, "application/json"},
	{"stateful", true, "application/json, text/event-stream"},
}

type sameJob struct {
	kind    string
	variant srvVariant
	name    string
	version string
	ops     []sOp
	tag     string
}

func runSameSessionPhase(c *hk.Ctx) {
	vs := sameSessionVersions
	names := [][2]string{{"verif-server", "1.2.3"}, {"", ""}, {"名前 🙂", "v\"1\\"}}
	var jobs []sameJob
	k := 0
	add := func(kind string, ops []sOp, tag string) {
		nm := names[k%len(names)]
		jobs = append(jobs, sameJob{kind, statefulVariants[k%2], nm[0], nm[1], ops, tag})
	}
	kinds := []string{"streamable", "sse", "stdio"}
	// every ordered pair, with a registration between the two initializes
	for _, a := range vs {
		for _, b := range vs {
			ops := []sOp{{T: "init", N: a}, sameSessionRegs[k%len(sameSessionRegs)], {T: "init", N: b}}
			for _, kind := range kinds {
				add(kind, ops, "pairs")
			}
			add("client-streamable", ops, "pairs")
			if c.Thorough() || k%6 == 1 {
				add("stdio-child", ops, "pairs")
			}
			k++
		}
	}
	// every ordered triple
	for _, a := range vs {
		for _, b := range vs {
			for _, d := range vs {
				ops := []sOp{{T: "init", N: a}, {T: "init", N: b}, {T: "init", N: d}}
				for _, kind := range kinds {
					add(kind, ops, "triples")
				}
				if c.Thorough() || k%4 == 0 {
					add("client-streamable", ops, "triples")
				}
				k++
			}
		}
	}
	// seeded random longer ones: mostly initializes (alphabet, the wide list, one-edit mutants), some registrations
	wide := versionStrings(c)
	n := 40
	if c.Thorough() {
		n = 800
	}
	for i := 0; i < n; i++ {
		l := 4 + c.Rng.Intn(9)
		var ops []sOp
		for j := 0; j < l; j++ {
			switch r := c.Rng.Intn(10); {
			case r < 5:
				ops = append(ops, sOp{T: "init", N: vs[c.Rng.Intn(len(vs))]})
			case r < 7:
				ops = append(ops, sOp{T: "init", N: randomVersion(c, wide)})
			default:
				ops = append(ops, regAlphabet[c.Rng.Intn(len(regAlphabet))])
			}
		}
		ops = append(ops, sOp{T: "init", N: []string{"2024-11-05", "2025-03-26"}[c.Rng.Intn(2)]})
		kind := append(kinds, "client-streamable")[c.Rng.Intn(4)]
		add(kind, ops, "random")
		k++
	}
	for _, j := range jobs {
		if j.kind == "client-streamable" {
			runSameSessionClient(c, j.name, j.version, j.ops, j.tag)
		} else {
			runSameSession(c, j.kind, j.variant, j.name, j.version, j.ops, j.tag)
		}
	}
}
