package main

import (
	"context"
	"encoding/json"
	"fmt"
	"net/http"
	"net/http/httptest"
	"os"
	"strings"
	"sync"
	"time"

	mcp "trpc.group/trpc-go/trpc-mcp-go"
	"verif/harness/hk"
)

// ---------- server operations

type sOp struct {
	T   string // init | tool | untool | prompt | resource | template
	N   string // key (name / URI) or requested version
	Via string // API variant (RegisterResource / RegisterResources)
}

func (o sOp) json() map[string]any {
	if o.T == "init" {
		return map[string]any{"t": "init", "v": o.N}
	}
	m := map[string]any{"t": o.T, "n": o.N}
	if o.Via != "" {
		m["via"] = o.Via
	}
	return m
}

func opsJSON(ops []sOp) []any {
	out := []any{}
	for _, o := range ops {
		out = append(out, o.json())
	}
	return out
}

var (
	toolH = func(ctx context.Context, req *mcp.CallToolRequest) (*mcp.CallToolResult, error) {
		return mcp.NewTextResult("ok"), nil
	}
	promptH = func(ctx context.Context, req *mcp.GetPromptRequest) (*mcp.GetPromptResult, error) {
		return &mcp.GetPromptResult{}, nil
	}
	resourceH = func(ctx context.Context, req *mcp.ReadResourceRequest) (mcp.ResourceContents, error) {
		return mcp.TextResourceContents{URI: req.Params.URI, Text: "x"}, nil
	}
	resourcesH = func(ctx context.Context, req *mcp.ReadResourceRequest) ([]mcp.ResourceContents, error) {
		return []mcp.ResourceContents{mcp.TextResourceContents{URI: req.Params.URI, Text: "x"}}, nil
	}
)

// applyReg performs one registration on a real server of any of the three kinds.
func applyReg(srv any, o sOp) {
	tool := mcp.NewTool(o.N)
	prompt := &mcp.Prompt{Name: o.N}
	res := &mcp.Resource{URI: o.N, Name: "r-" + o.N}
	var tmpl *mcp.ResourceTemplate
	if o.T == "template" {
		tmpl = mcp.NewResourceTemplate("verif:///{x}/"+fmt.Sprint(len(o.N)), o.N)
	}
	switch s := srv.(type) {
	case *mcp.Server:
		switch o.T {
		case "tool":
			s.RegisterTool(tool, toolH)
		case "untool":
			_ = s.UnregisterTools(o.N)
		case "prompt":
			s.RegisterPrompt(prompt, promptH)
		case "resource":
			if o.Via == "RegisterResources" {
				s.RegisterResources(res, resourcesH)
			} else {
				s.RegisterResource(res, resourceH)
			}
		case "template":
			s.RegisterResourceTemplate(tmpl, resourcesH)
		}
	case *mcp.SSEServer:
		switch o.T {
		case "tool":
			s.RegisterTool(tool, toolH)
		case "untool":
			_ = s.UnregisterTools(o.N)
		case "prompt":
			s.RegisterPrompt(prompt, promptH)
		case "resource":
			if o.Via == "RegisterResources" {
				s.RegisterResources(res, resourcesH)
			} else {
				s.RegisterResource(res, resourceH)
			}
		case "template":
			s.RegisterResourceTemplate(tmpl, resourcesH)
		}
	case *mcp.StdioServer:
		switch o.T {
		case "tool":
			s.RegisterTool(tool, toolH)
		case "untool":
			_ = s.UnregisterTools(o.N)
		case "prompt":
			s.RegisterPrompt(prompt, promptH)
		case "resource":
			if o.Via == "RegisterResources" {
				s.RegisterResources(res, resourcesH)
			} else {
				s.RegisterResource(res, resourceH)
			}
		case "template":
			s.RegisterResourceTemplate(tmpl, resourcesH)
		}
	}
}

// ---------- what the statement says, kept independently of the Lean model

var stmtSupported = map[string]bool{"2024-11-05": true, "2025-03-26": true}

const stmtLatest = "2025-03-26"

type expectTrack struct {
	prompts, resources bool
}

func (e *expectTrack) apply(o sOp) {
	if o.N == "" {
		return
	}
	switch o.T {
	case "prompt":
		e.prompts = true
	case "resource":
		e.resources = true
	}
}

type initObs struct {
	Protocol string          `json:"protocol"`
	Name     string          `json:"name"`
	Version  string          `json:"version"`
	Caps     map[string]bool `json:"caps"`
}

// checkAnswer applies the statement directly to one observed initialize answer.
func checkAnswer(c *hk.Ctx, where string, name, version, requested string, exp expectTrack, obs initObs, extraCaps []string, notListChanged []string, input any) {
	if !stmtSupported[obs.Protocol] {
		c.Violate(hk.Violation{Fingerprint: "lifecycle:unsupported-version-answered", What: "initialize answered with a protocol version the server does not support (" + where + ")", Input: input, Observed: obs.Protocol})
	} else if stmtSupported[requested] && obs.Protocol != requested {
		c.Violate(hk.Violation{Fingerprint: "lifecycle:supported-version-not-kept", What: "initialize with a supported version answered with another one (" + where + ")", Input: input, Observed: obs.Protocol, Expected: requested})
	} else if !stmtSupported[requested] && obs.Protocol != stmtLatest {
		c.Violate(hk.Violation{Fingerprint: "lifecycle:fallback-not-latest", What: "initialize with an unsupported version not answered with the latest supported one (" + where + ")", Input: input, Observed: obs.Protocol, Expected: stmtLatest})
	}
	if obs.Name != name || obs.Version != version {
		c.Violate(hk.Violation{Fingerprint: "lifecycle:server-info-differs", What: "serverInfo differs from the configured name/version (" + where + ")", Input: input, Observed: obs.Name + " / " + obs.Version, Expected: name + " / " + version})
	}
	if !obs.Caps["tools"] {
		c.Violate(hk.Violation{Fingerprint: "lifecycle:tools-capability-missing", What: "initialize answer without the tools capability (" + where + ")", Input: input})
	}
	if obs.Caps["prompts"] != exp.prompts {
		c.Violate(hk.Violation{Fingerprint: "lifecycle:prompts-capability-wrong", What: "prompts capability advertised although none is registered at that time, or missing although one is (" + where + ")", Input: input, Observed: obs.Caps["prompts"], Expected: exp.prompts})
	}
	if obs.Caps["resources"] != exp.resources {
		c.Violate(hk.Violation{Fingerprint: "lifecycle:resources-capability-wrong", What: "resources capability advertised although none is registered at that time, or missing although one is (" + where + ")", Input: input, Observed: obs.Caps["resources"], Expected: exp.resources})
	}
	if len(extraCaps) > 0 {
		c.Violate(hk.Violation{Fingerprint: "lifecycle:unexpected-capability", What: "initialize answer advertises a capability nobody configured (" + where + ")", Input: input, Observed: extraCaps})
	}
	if len(notListChanged) > 0 {
		c.Violate(hk.Violation{Fingerprint: "lifecycle:capability-without-listChanged", What: "advertised capability object lacks listChanged:true (" + where + ")", Input: input, Observed: notListChanged})
	}
}

// obsFromWire decodes the `result` object of an initialize answer as it travels on the wire.
func obsFromWire(result map[string]any) (initObs, []string, []string) {
	o := initObs{Caps: map[string]bool{"tools": false, "prompts": false, "resources": false}}
	o.Protocol, _ = result["protocolVersion"].(string)
	if si, ok := result["serverInfo"].(map[string]any); ok {
		o.Name, _ = si["name"].(string)
		o.Version, _ = si["version"].(string)
	}
	var extra, noLC []string
	if caps, ok := result["capabilities"].(map[string]any); ok {
		for k, v := range caps {
			if _, known := o.Caps[k]; !known {
				extra = append(extra, k)
				continue
			}
			o.Caps[k] = true
			if m, ok := v.(map[string]any); !ok || m["listChanged"] != true {
				noLC = append(noLC, k)
			}
		}
	}
	return o, extra, noLC
}

func obsFromResult(r *mcp.InitializeResult) (initObs, []string, []string) {
	o := initObs{Protocol: r.ProtocolVersion, Name: r.ServerInfo.Name, Version: r.ServerInfo.Version,
		Caps: map[string]bool{"tools": r.Capabilities.Tools != nil, "prompts": r.Capabilities.Prompts != nil, "resources": r.Capabilities.Resources != nil}}
	var extra, noLC []string
	if r.Capabilities.Logging != nil {
		extra = append(extra, "logging")
	}
	if r.Capabilities.Completions != nil {
		extra = append(extra, "completions")
	}
	if len(r.Capabilities.Experimental) > 0 {
		extra = append(extra, "experimental")
	}
	if r.Capabilities.Tools != nil && !r.Capabilities.Tools.ListChanged {
		noLC = append(noLC, "tools")
	}
	if r.Capabilities.Prompts != nil && !r.Capabilities.Prompts.ListChanged {
		noLC = append(noLC, "prompts")
	}
	if r.Capabilities.Resources != nil && !r.Capabilities.Resources.ListChanged {
		noLC = append(noLC, "resources")
	}
	return o, extra, noLC
}

// ---------- version strings

func versionStrings(c *hk.Ctx) []string {
	long := strings.Repeat("2025-03-26", 900)
	return []string{
		"2025-03-26", "2024-11-05",
		"", " ", "2025-03-26 ", " 2025-03-26", "2025-03-26\n", "2025-03-26\x00", "\x002025-03-26", "2025-03-27", "2025-03-25", "2025-3-26", "2025-03-2", "2025-03-266",
		"2024-11-05 ", "2024-11-5", "2024-11-04", "2024-11-06", "2024-11-05,2025-03-26", "2025-03-26,2024-11-05", "2025‑03‑26", "２０２５-03-26", "2025-03-26​",
		"2025-06-18", "2024-10-07", "9999-12-31", "0000-00-00", "latest", "DRAFT-2025-v2", "1", "1.0", "null", "true", "[\"2025-03-26\"]", "2025-03-26\"", "\\", "版本", "🙂", "é",
		long, long + "x", strings.Repeat("a", 70000),
	}
}

// ---------- part 1: the real streamable server, raw POSTs

type srvVariant struct {
	Mode    string
	PostSSE bool
	Accept  string
}

func newSrv(name, version string, v srvVariant) *hk.Fixture {
	cfg := hk.SrvCfg{Mode: v.Mode, Get: false, PostSSE: v.PostSSE}
	s := mcp.NewServer(name, version, cfg.Opts()...)
	ts := httptest.NewUnstartedServer(s.Handler())
	ts.Config.ErrorLog = hk.QuietStdLog()
	ts.Start()
	tr := &http.Transport{MaxIdleConnsPerHost: 8, DisableCompression: true}
	return &hk.Fixture{S: s, TS: ts, URL: ts.URL + "/mcp", HC: &http.Client{Transport: tr}}
}

func rawInitialize(f *hk.Fixture, v srvVariant, version string, id int) (map[string]any, string) {
	vb, _ := json.Marshal(version)
	body := fmt.Sprintf(`{"jsonrpc":"2.0","id":%d,"method":"initialize","params":{"protocolVersion":%s,"capabilities":{},"clientInfo":{"name":"verif","version":"1"}}}`, id, vb)
	r := f.Post(map[string]string{"Accept": v.Accept}, body)
	if r.Status != 200 {
		return nil, fmt.Sprintf("status %d %s", r.Status, r.Body)
	}
	payload := r.Body
	if strings.Contains(r.Header.Get("Content-Type"), "text/event-stream") {
		payload = nil
		for _, line := range strings.Split(string(r.Body), "\n") {
			line = strings.TrimRight(line, "\r")
			if strings.HasPrefix(line, "data:") {
				payload = []byte(strings.TrimPrefix(strings.TrimPrefix(line, "data:"), " "))
			}
		}
	}
	var msg map[string]any
	if err := json.Unmarshal(payload, &msg); err != nil {
		return nil, "unparsable answer: " + string(r.Body)
	}
	res, ok := msg["result"].(map[string]any)
	if !ok {
		return nil, "no result: " + string(payload)
	}
	return res, ""
}

var srvVariants = []srvVariant{
	{"stateful", false, "application/json"},
	{"stateful", true, "application/json, text/event-stream"},
	{"stateless", false, "application/json, text/event-stream"},
	{"sessionsOff", true, "application/json, text/event-stream"},
	{"stateless", true, "application/json, text/event-stream"},
	{"sessionsOff", false, "application/json"},
}

func runServerHistory(c *hk.Ctx, name, version string, v srvVariant, ops []sOp, tag string) {
	f := newSrv(name, version, v)
	defer f.Close()
	outs := []initObs{}
	var exp expectTrack
	distinct := map[string]bool{}
	for i, o := range ops {
		if o.T != "init" {
			applyReg(f.S, o)
			exp.apply(o)
			continue
		}
		input := map[string]any{"server": []string{name, version}, "variant": v, "history": opsJSON(ops[:i+1])}
		res, errs := rawInitialize(f, v, o.N, i+1)
		if res == nil {
			c.Violate(hk.Violation{Fingerprint: "lifecycle:initialize-not-answered", What: "well-formed initialize not answered with a result", Input: input, Observed: errs})
			outs = append(outs, initObs{Caps: map[string]bool{}})
			continue
		}
		obs, extra, noLC := obsFromWire(res)
		checkAnswer(c, "wire", name, version, o.N, exp, obs, extra, noLC, input)
		outs = append(outs, obs)
		distinct[fmt.Sprint(obs.Protocol, obs.Caps)] = true
	}
	c.Emit(map[string]any{"c": "lifecycle.server", "cfg": map[string]any{"name": name, "version": version}, "ops": opsJSON(ops), "via": "raw-post:" + v.Mode},
		map[string]any{"outs": outs}, len(distinct) > 1, "server-"+tag, "server-mode-"+v.Mode)
}

var regAlphabet = []sOp{
	{T: "tool", N: "t1"}, {T: "untool", N: "t1"}, {T: "prompt", N: "p1"}, {T: "prompt", N: ""}, {T: "resource", N: "verif://r1"},
	{T: "resource", N: "", Via: "RegisterResources"}, {T: "resource", N: "verif://r2", Via: "RegisterResources"}, {T: "template", N: "tm1"},
}

func subsetRegs(mask int) []sOp {
	var ops []sOp
	if mask&1 != 0 {
		ops = append(ops, sOp{T: "tool", N: "calc"}, sOp{T: "tool", N: "echo"})
	}
	if mask&2 != 0 {
		ops = append(ops, sOp{T: "prompt", N: "greet"})
	}
	if mask&4 != 0 {
		ops = append(ops, sOp{T: "resource", N: "verif://doc"})
	}
	return ops
}

func runServerSide(c *hk.Ctx) {
	versions := versionStrings(c)
	names := [][2]string{{"verif-server", "1.2.3"}, {"", ""}, {"名前 🙂", "v\"1\\"}, {strings.Repeat("n", 3000), "0"}}
	// all subsets of capability kinds x all version strings
	for mask := 0; mask < 8; mask++ {
		ops := subsetRegs(mask)
		for _, v := range versions {
			ops = append(ops, sOp{T: "init", N: v})
		}
		nm := names[mask%len(names)]
		runServerHistory(c, nm[0], nm[1], srvVariants[mask%len(srvVariants)], ops, "subsets-x-versions")
	}
	// registrations changing between initializes: every ordered pair of registration operations
	k := 0
	for _, r1 := range regAlphabet {
		for _, r2 := range regAlphabet {
			ops := []sOp{{T: "init", N: "2024-11-05"}, r1, {T: "init", N: versions[k%len(versions)]}, r2, {T: "init", N: "2025-03-26"}}
			nm := names[k%len(names)]
			runServerHistory(c, nm[0], nm[1], srvVariants[k%len(srvVariants)], ops, "pairs-between-initializes")
			k++
		}
	}
	// random longer histories
	n := 150
	if c.Thorough() {
		n = 3000
	}
	for i := 0; i < n; i++ {
		l := 3 + c.Rng.Intn(12)
		var ops []sOp
		for j := 0; j < l; j++ {
			if c.Rng.Intn(3) == 0 {
				ops = append(ops, sOp{T: "init", N: randomVersion(c, versions)})
			} else {
				o := regAlphabet[c.Rng.Intn(len(regAlphabet))]
				if c.Rng.Intn(4) == 0 && o.N != "" {
					o.N = o.N + fmt.Sprint(c.Rng.Intn(3))
				}
				ops = append(ops, o)
			}
		}
		ops = append(ops, sOp{T: "init", N: randomVersion(c, versions)})
		nm := names[c.Rng.Intn(len(names))]
		runServerHistory(c, nm[0], nm[1], srvVariants[c.Rng.Intn(len(srvVariants))], ops, "random")
	}
}

func randomVersion(c *hk.Ctx, versions []string) string {
	switch c.Rng.Intn(4) {
	case 0:
		return "2024-11-05"
	case 1:
		return "2025-03-26"
	case 2:
		return versions[c.Rng.Intn(len(versions))]
	}
	// mutate a supported version by one edit
	b := []rune([]string{"2024-11-05", "2025-03-26"}[c.Rng.Intn(2)])
	i := c.Rng.Intn(len(b))
	switch c.Rng.Intn(3) {
	case 0:
		b[i] = rune('0' + c.Rng.Intn(10))
	case 1:
		b = append(b[:i], b[i+1:]...)
	default:
		b = append(b[:i], append([]rune{rune(0x20 + c.Rng.Intn(0x60))}, b[i:]...)...)
	}
	return string(b)
}

// ---------- part 2: the three real clients against the three real servers (what the client is handed)

type e2eJob struct {
	kind, name, version string
	regs                []sOp
	v                   string
}

type e2eResult struct {
	res   *mcp.InitializeResult
	err   error
	state mcp.State
}

func runEndToEnd(c *hk.Ctx) {
	vs := []string{"2025-03-26", "2024-11-05", "2025-03-27", "", "2024-11-05 ", "1999-01-01", "版本"}
	if c.Thorough() {
		vs = versionStrings(c)[:30]
	}
	var jobs []e2eJob
	k := 0
	for mask := 0; mask < 8; mask++ {
		for _, v := range vs {
			regs := subsetRegs(mask)
			if k%3 == 1 {
				regs = append(regs, sOp{T: "template", N: "tm"}, sOp{T: "prompt", N: ""})
			}
			for _, kind := range []string{"streamable", "sse", "stdio"} {
				if kind == "stdio" && !c.Thorough() && k%2 == 1 {
					continue // a process per case: every other one in the quick tier
				}
				jobs = append(jobs, e2eJob{kind, "e2e-" + kind, "9.9", regs, v})
			}
			k++
		}
	}
	results := make([]e2eResult, len(jobs))
	var wg sync.WaitGroup
	next := make(chan int, len(jobs))
	for i := range jobs {
		next <- i
	}
	close(next)
	for w := 0; w < 16; w++ {
		wg.Add(1)
		go func() {
			defer wg.Done()
			for i := range next {
				results[i] = endToEnd(jobs[i])
			}
		}()
	}
	wg.Wait()
	for i, j := range jobs {
		reportEndToEnd(c, j, results[i])
	}
}

func endToEnd(j e2eJob) (out e2eResult) {
	info := mcp.Implementation{Name: "verif-client", Version: "1"}
	ctx, cancel := context.WithTimeout(context.Background(), 20*time.Second)
	defer cancel()
	switch j.kind {
	case "streamable":
		f := newSrv(j.name, j.version, srvVariant{Mode: "stateful"})
		defer f.Close()
		for _, o := range j.regs {
			applyReg(f.S, o)
		}
		cl, e := mcp.NewClient(f.URL, info, mcp.WithProtocolVersion(j.v), mcp.WithClientLogger(hk.QuietLogger{}), mcp.WithClientGetSSEEnabled(false))
		if e != nil {
			panic(e)
		}
		out.res, out.err = cl.Initialize(ctx, &mcp.InitializeRequest{})
		out.state = cl.GetState()
		cl.Close()
	case "sse":
		s := mcp.NewSSEServer(j.name, j.version, mcp.WithSSEServerLogger(hk.QuietLogger{}), mcp.WithKeepAlive(false))
		for _, o := range j.regs {
			applyReg(s, o)
		}
		ts := httptest.NewUnstartedServer(s)
		ts.Config.ErrorLog = hk.QuietStdLog()
		ts.Start()
		defer func() { ts.CloseClientConnections(); ts.Close() }()
		cl, e := mcp.NewSSEClient(ts.URL+"/sse", info, mcp.WithProtocolVersion(j.v), mcp.WithClientLogger(hk.QuietLogger{}))
		if e != nil {
			panic(e)
		}
		out.res, out.err = cl.Initialize(ctx, nil)
		out.state = cl.GetState()
		cl.Close()
	case "stdio":
		rj, _ := json.Marshal(opsJSON(j.regs))
		cl, e := mcp.NewStdioClient(mcp.StdioTransportConfig{
			ServerParams: mcp.StdioServerParameters{Command: selfExe(), Env: map[string]string{childEnv: "real", childRegEnv: string(rj), childNameEnv: j.name, childVersionEnv: j.version}},
			Timeout:      15 * time.Second}, info, mcp.WithStdioLogger(hk.QuietLogger{}), mcp.WithStdioProtocolVersion(j.v))
		if e != nil {
			panic(e)
		}
		out.res, out.err = cl.Initialize(ctx, nil)
		out.state = cl.GetState()
		endStdioPeer(cl, false) // not a bare cl.Close(): it can stall 5 s (see client.go)
	}
	return out
}

func reportEndToEnd(c *hk.Ctx, j e2eJob, r e2eResult) {
	kind, name, version, v := j.kind, j.name, j.version, j.v
	ops := append(append([]sOp{}, j.regs...), sOp{T: "init", N: v})
	var exp expectTrack
	for _, o := range j.regs {
		exp.apply(o)
	}
	res, err, state := r.res, r.err, r.state
	input := map[string]any{"client": kind, "server": []string{name, version}, "history": opsJSON(ops)}
	if err != nil || res == nil {
		c.Violate(hk.Violation{Fingerprint: "lifecycle:handshake-fails:" + kind, What: "handshake of the real " + kind + " client with the real server fails", Input: input, Observed: fmt.Sprint(err)})
		c.Emit(map[string]any{"c": "lifecycle.server", "cfg": map[string]any{"name": name, "version": version}, "ops": opsJSON(ops), "via": "client:" + kind},
			map[string]any{"outs": []initObs{}}, false, "e2e-"+kind)
		return
	}
	if state != mcp.StateInitialized {
		c.Violate(hk.Violation{Fingerprint: "lifecycle:state-after-handshake:" + kind, What: "client does not report initialized after a successful handshake", Input: input, Observed: string(state)})
	}
	obs, extra, noLC := obsFromResult(res)
	checkAnswer(c, "at the "+kind+" client", name, version, v, exp, obs, extra, noLC, input)
	c.Emit(map[string]any{"c": "lifecycle.server", "cfg": map[string]any{"name": name, "version": version}, "ops": opsJSON(ops), "via": "client:" + kind},
		map[string]any{"outs": []initObs{obs}}, exp.prompts != exp.resources, "e2e-"+kind)
}

func selfExe() string {
	p, err := os.Executable()
	if err != nil {
		return os.Args[0]
	}
	return p
}
