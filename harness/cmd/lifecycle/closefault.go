package main

// Close meeting a fault, on every kind of client (seed C16-7: a Close that returns the transport's error before it resets
// flag and state).  The environments: stdio — the server child was killed and has been reaped, so the transport finds its
// pipes already closed ("close errors: […file already closed…]"); streamable and legacy SSE — the server is gone (every
// round trip refused) while Close runs; legacy SSE — the server has ended the event stream already.  After Close,
// whatever it returned: disconnected, every operation refused as not initialized without traffic, a fresh handshake
// possible where the transport reopens (streamable).  The histories go through runClientHistory like all others: the
// statement is applied to every step and the history is diffed with the model, whose Close event carries the fault.

import (
	"verif/harness/hk"
)

var closeEnvs = map[string][]string{
	"stdio":      {"dead"},
	"streamable": {"netErr"},
	"sse":        {"netErr", "brokenStream"},
}

func closeFaultJobs(c *hk.Ctx) []job {
	var jobs []job
	ok, bad := cOp{T: "init", E: "ok"}, cOp{T: "init", E: "rpcErr"}
	plain := cOp{T: "close"}
	lt, ct := cOp{T: "req", K: "ListTools"}, cOp{T: "req", K: "CallTool", Fail: true}
	for _, kind := range []string{"streamable", "sse", "stdio"} {
		add := func(ops ...cOp) { jobs = append(jobs, job{kind, ops, "close-fault"}) }
		for _, env := range closeEnvs[kind] {
			cf := cOp{T: "close", E: env}
			// handshake, faulted Close, every operation, a new handshake and an operation
			all := []cOp{ok, cf}
			for _, k := range reqKinds {
				all = append(all, cOp{T: "req", K: k})
			}
			add(append(all, cOp{T: "roots"}, ok, lt)...)
			add(ok, ct, cf, plain, lt, ok, lt)
			add(ok, cf, cf, lt, cOp{T: "roots"})
			add(ok, plain, cf, ct)
			add(cf, lt, ok, lt) // a client that never did anything
			add(bad, cf, lt, ok, ct)
			add(ok, lt, cf, bad, lt, ok)
			switch kind {
			case "stdio":
				add(ok, cf, cOp{T: "restart"}, lt)
				add(ok, cOp{T: "restart"}, cf, lt)
			case "streamable":
				add(ok, cOp{T: "terminate"}, cf, lt, ok, lt)
				// the DELETE answered 500 / refused (the session survives it), then Close with the server gone
				for _, tenv := range []string{"del500", "netErr"} {
					tf := cOp{T: "terminate", E: tenv}
					add(ok, tf, cf, lt, ok, lt, cOp{T: "terminate"})
					add(ok, tf, cOp{T: "terminate"}, tf, plain, ct, tf)
					add(tf, ok, tf, lt, cf, tf, lt)
				}
				add(ok, cf, cOp{T: "terminate"}, ok, lt, cf, ct)
				add(ok, cf, cOp{T: "sendInitialized"}, lt)
			case "sse":
				add(ok, cf, cOp{T: "sendInitialized"}, cOp{T: "terminate"}, lt)
			}
		}
		// seeded random histories in which every Close meets one of the environments of its kind (or none)
		n := 30
		if kind == "stdio" {
			n = 8
		}
		if c.Thorough() {
			n *= 15
		}
		alpha := reducedAlphabet(kind)
		for i := 0; i < n; i++ {
			l := 4 + c.Rng.Intn(7)
			var w []cOp
			for j := 0; j < l; j++ {
				switch x := c.Rng.Intn(10); {
				case x < 3:
					w = append(w, ok)
				case x < 6:
					envs := append([]string{""}, closeEnvs[kind]...)
					w = append(w, cOp{T: "close", E: envs[c.Rng.Intn(len(envs))]})
				default:
					w = append(w, alpha[c.Rng.Intn(len(alpha))])
				}
			}
			jobs = append(jobs, job{kind, w, "close-fault-random"})
		}
	}
	return jobs
}

func runCloseFaultPhase(c *hk.Ctx) {
	p, done := newPeers(c)
	defer done()
	runClientJobs(c, p, closeFaultJobs(c))
}
