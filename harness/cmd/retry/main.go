package main

import (
	"encoding/json"
	"io"

	"verif/harness/hk"

	"context"
	"errors"
	"fmt"
	"math"
	"math/big"
	"net"
	"net/http"
	"net/http/httptest"
	"sort"
	"strings"
	"sync"
	"sync/atomic"
	"time"

	mcp "trpc.group/trpc-go/trpc-mcp-go"
)

func main() {
	hk.Main(&hk.Component{Name: "retry", Rule: "validate: full boundary grid (field at min-1,min,mid,max,max+1,extremes; factor incl. NaN/±Inf), non-trivial = some field clamped; " +
		"classify: every status 100..599 in the real error texts of each transport + network error texts from the real net stack + mixed noise, non-trivial = classified retryable; " +
		"execute: outcome scripts up to MaxRetries+2 over {success, EOF, 5xx text, 4xx text} x cancel instants with millisecond-scale back-offs on the real clock, non-trivial = at least one retry happened",
		Run: runRetry})
}

func factorJSON(f float64) any {
	switch {
	case math.IsNaN(f):
		return "nan"
	case math.IsInf(f, 1):
		return "+inf"
	case math.IsInf(f, -1):
		return "-inf"
	}
	r := new(big.Rat).SetFloat64(f)
	return map[string]any{"n": jsonBig(r.Num()), "d": jsonBig(r.Denom())}
}

type jsonBigT struct{ s string }

func (j jsonBigT) MarshalJSON() ([]byte, error) { return []byte(j.s), nil }
func jsonBig(b *big.Int) any                    { return jsonBigT{b.String()} }

func cfgJSON(c mcp.VerifRetryConfig) map[string]any {
	return map[string]any{"mr": c.MaxRetries, "ib": int64(c.InitialBackoff), "bf": factorJSON(c.BackoffFactor), "mb": int64(c.MaxBackoff)}
}

func runRetry(c *hk.Ctx) {
	retryValidate(c)
	retryClassify(c)
	retryClassifyReal(c)
	retryExecute(c)
	retryEndToEnd(c)
	retryConnectE2E(c)
	retryOptionsAhead(c)
	if c.Thorough() {
		retryOverflowReachable(c)
	}
}

func retryValidate(c *hk.Ctx) {
	mrs := []int{math.MinInt64, -5, -1, 0, 1, 5, 10, 11, 1000, math.MaxInt64}
	ibs := []int64{math.MinInt64, -1, 0, 1, 999999, 1000000, 1000001, 500000000, 30000000000, 30000000001, 1000000000000, math.MaxInt64}
	bfs := []float64{math.NaN(), math.Inf(-1), math.Inf(1), -1, 0, 0.5, math.Nextafter(1, 0), 1, 1.5, 2, 9.75, 10, math.Nextafter(10, 11), 1e300, -1e300, math.SmallestNonzeroFloat64}
	mbsAbs := []int64{math.MinInt64, -1, 0, 999999, 1000000, 8000000000, 300000000000, 300000000001, math.MaxInt64}
	if c.Thorough() {
		for i := 0; i < 40; i++ {
			mrs = append(mrs, c.Rng.Intn(30)-10)
			ibs = append(ibs, c.Rng.Int63n(60000000000)-1000000)
			bfs = append(bfs, float64(c.Rng.Intn(400))/32-1)
		}
	}
	for _, mr := range mrs {
		for _, ib := range ibs {
			for _, bf := range bfs {
				mbs := append([]int64{}, mbsAbs...)
				if ib > math.MinInt64 && ib < math.MaxInt64 {
					mbs = append(mbs, ib-1, ib+1)
				}
				mbs = append(mbs, ib)
				for _, mb := range mbs {
					in := mcp.VerifRetryConfig{MaxRetries: mr, InitialBackoff: time.Duration(ib), BackoffFactor: bf, MaxBackoff: time.Duration(mb)}
					out := mcp.VerifRetryValidate(in)
					clamped := out != in && !(math.IsNaN(bf) && out.MaxRetries == in.MaxRetries && out.InitialBackoff == in.InitialBackoff && out.MaxBackoff == in.MaxBackoff)
					c.Emit(map[string]any{"c": "retry.validate", "cfg": cfgJSON(in)}, map[string]any{"cfg": cfgJSON(out)}, clamped, "validate")
					// implementation-level oracle: documented ranges + idempotence
					inRange := out.MaxRetries >= 0 && out.MaxRetries <= 10 &&
						out.InitialBackoff >= time.Millisecond && out.InitialBackoff <= 30*time.Second &&
						out.BackoffFactor >= 1 && out.BackoffFactor <= 10 &&
						out.MaxBackoff >= out.InitialBackoff && out.MaxBackoff <= 5*time.Minute
					if !inRange {
						fp := "retry.validate:out-of-range"
						if math.IsNaN(out.BackoffFactor) && out.MaxRetries >= 0 && out.MaxRetries <= 10 &&
							out.InitialBackoff >= time.Millisecond && out.InitialBackoff <= 30*time.Second &&
							out.MaxBackoff >= out.InitialBackoff && out.MaxBackoff <= 5*time.Minute {
							fp = "retry.validate:nan-factor-not-clamped"
						}
						c.Violate(hk.Violation{Fingerprint: fp, What: "Validate() result outside the documented ranges", Input: cfgJSON(in), Observed: cfgJSON(out)})
					}
					again := mcp.VerifRetryValidate(out)
					same := again.MaxRetries == out.MaxRetries && again.InitialBackoff == out.InitialBackoff && again.MaxBackoff == out.MaxBackoff &&
						(again.BackoffFactor == out.BackoffFactor || (math.IsNaN(again.BackoffFactor) && math.IsNaN(out.BackoffFactor)))
					if !same {
						c.Violate(hk.Violation{Fingerprint: "retry.validate:not-idempotent", What: "Validate(Validate(c)) != Validate(c)", Input: cfgJSON(in), Observed: cfgJSON(again), Expected: cfgJSON(out)})
					}
				}
			}
		}
	}
	// public options: the configuration a client ends up with is the validated one
	for _, mr := range []int{-3, 0, 2, 10, 50} {
		cl, err := mcp.NewClient("http://127.0.0.1:1/mcp", mcp.Implementation{Name: "v", Version: "1"}, mcp.WithSimpleRetry(mr))
		if err != nil {
			continue
		}
		got := mcp.VerifClientRetryConfig(cl)
		in := mcp.VerifRetryConfig{MaxRetries: mr, InitialBackoff: 500 * time.Millisecond, BackoffFactor: 2, MaxBackoff: 8 * time.Second}
		if got == nil {
			c.Violate(hk.Violation{Fingerprint: "retry.option:no-config", What: "WithSimpleRetry left no retry configuration", Input: mr})
			continue
		}
		c.Emit(map[string]any{"c": "retry.validate", "cfg": cfgJSON(in)}, map[string]any{"cfg": cfgJSON(*got)}, true, "validate-option")
		cl.Close()
	}
}

// realNetErrors produces error texts from the real network stack.
func realNetErrors() map[string]string {
	out := map[string]string{}
	// connection refused
	l, _ := net.Listen("tcp", "127.0.0.1:0")
	addr := l.Addr().String()
	l.Close()
	if _, err := http.Get("http://" + addr + "/"); err != nil {
		out["refused"] = err.Error()
	}
	// EOF: server closes without answering
	l2, _ := net.Listen("tcp", "127.0.0.1:0")
	go func() {
		for {
			cn, err := l2.Accept()
			if err != nil {
				return
			}
			cn.Close()
		}
	}()
	cl := &http.Client{Transport: &http.Transport{DisableKeepAlives: true}}
	if _, err := cl.Post("http://"+l2.Addr().String()+"/", "application/json", strings.NewReader("{}")); err != nil {
		out["eof"] = err.Error()
	}
	l2.Close()
	// i/o timeout
	srv := httptest.NewServer(http.HandlerFunc(func(w http.ResponseWriter, r *http.Request) { time.Sleep(300 * time.Millisecond) }))
	cl2 := &http.Client{Transport: &http.Transport{ResponseHeaderTimeout: 20 * time.Millisecond}}
	if _, err := cl2.Get(srv.URL); err != nil {
		out["hdr-timeout"] = err.Error()
	}
	ctx, cancel := context.WithTimeout(context.Background(), 20*time.Millisecond)
	req, _ := http.NewRequestWithContext(ctx, "GET", srv.URL, nil)
	if _, err := http.DefaultClient.Do(req); err != nil {
		out["ctx-deadline"] = err.Error()
	}
	cancel()
	srv.Close()
	return out
}

func isASCII(s string) bool {
	for _, r := range s {
		if r > 127 {
			return false
		}
	}
	return true
}

func retryClassify(c *hk.Ctx) {
	classify := func(msg, kind string, status int) {
		got := mcp.VerifRetryIsRetryable(errors.New(msg))
		c.Emit(map[string]any{"c": "retry.classify", "msg": msg}, map[string]any{"retryable": got}, got, "classify-"+kind)
		// oracle (only-if direction + "never after any other 4xx")
		if status >= 400 && status <= 499 && status != 408 && status != 409 && status != 429 && got {
			fp := fmt.Sprintf("retry.classify:%s:4xx-retryable", kind)
			c.Violate(hk.Violation{Fingerprint: fp, What: "a non-transient 4xx failure is classified retryable", Input: msg, Observed: got})
		}
		if (status == 408 || status == 409 || status == 429 || status == 500 || status == 502 || status == 503 || status == 504) && !got && (kind == "streamable" || kind == "sse") {
			c.Violate(hk.Violation{Fingerprint: fmt.Sprintf("retry.classify:%s:transient-not-retried:%d", kind, status), What: "a transient status is not classified retryable", Input: msg, Observed: got})
		}
	}
	for n := 100; n <= 599; n++ {
		classify(fmt.Sprintf("HTTP request failed: status code %d", n), "streamable", n)
		classify(fmt.Sprintf("HTTP request failed: status code %d, body: ", n), "sse", n)
		classify(fmt.Sprintf("HTTP request failed: status code %d, body: {\"error\":\"bad request\"}", n), "sse", n)
		classify(fmt.Sprintf("failed to start transport: unexpected status code: %d, body: not found", n), "sse-start", n)
	}
	// bodies chosen by the server (legacy SSE appends them to the error text)
	bodies := []string{"error 500 things", "see RFC 7231 503 ", "port 5001", "retry after 429 seconds", "HTTP 502", "status: 504", "x", "500", " 500", "500\n"}
	for _, b := range bodies {
		for _, n := range []int{400, 401, 403, 404, 422} {
			classify(fmt.Sprintf("HTTP request failed: status code %d, body: %s", n, b), "sse-body", n)
		}
	}
	for k, v := range realNetErrors() {
		classify("HTTP request failed: "+v, "net-"+k, 0)
		classify(v, "net-"+k, 0)
	}
	// the transports quote the URL in front of the cause: a long URL must not hide the cause
	long := "http://127.0.0.1:1/" + strings.Repeat("tenant-0123456789/", 30)
	for _, cause := range []string{"EOF", "read tcp 127.0.0.1:1->127.0.0.1:2: read: connection reset by peer", "dial tcp 127.0.0.1:1: connect: connection refused", "dial tcp: i/o timeout", "unexpected EOF"} {
		classify(fmt.Sprintf("HTTP request failed: Post %q: %s", long, cause), "net-long-url", 0)
	}
	for _, n := range []int{404, 503} {
		classify(fmt.Sprintf("HTTP request failed: status code %d, body: %s", n, strings.Repeat("x", 600)), "sse-long-body", n)
	}
	for _, m := range []string{"EOF", "eof", "unexpected EOF", "read: EOF", "x: EOF", "EOFx", "", "connection refused", "Connection Reset by peer", "dial tcp: i/o timeout",
		"authentication failed", "context canceled", "context deadline exceeded", "JSON-RPC error -32603: internal", "port 5001 unreachable", "code 500", "code: 500x", "http 5000", "status 50"} {
		classify(m, "misc", 0)
	}
	// random ASCII noise with embedded fragments
	frags := []string{"http ", "status ", "status: ", "code ", "code: ", " ", "408", "409", "429", "500", "511", "512", "404", "eof", ": eof", "connection ", "reset", "refused", "timeout", "i/o ", "X", "é", "\n"}
	n := 300
	if c.Thorough() {
		n = 5000
	}
	for i := 0; i < n; i++ {
		var sb strings.Builder
		k := 1 + c.Rng.Intn(6)
		for j := 0; j < k; j++ {
			f := frags[c.Rng.Intn(len(frags))]
			if c.Rng.Intn(4) == 0 {
				f = strings.ToUpper(f)
			}
			sb.WriteString(f)
		}
		classify(sb.String(), "noise", 0)
	}
}

var errSentinel = errors.New("HTTP request failed")

var ctxFlavour, e2eRun int

type scriptedOp struct {
	mu    sync.Mutex
	times []time.Time   // start of each attempt
	ends  []time.Time   // end of each attempt
	outs  []any         // nil or string
	takes time.Duration // every attempt takes this long before it returns (a real request is not instantaneous)
}

func (s *scriptedOp) call() error {
	s.mu.Lock()
	defer s.mu.Unlock()
	i := len(s.times)
	s.times = append(s.times, time.Now())
	if s.takes > 0 {
		time.Sleep(s.takes)
	}
	defer func() { s.ends = append(s.ends, time.Now()) }()
	if i >= len(s.outs) || s.outs[i] == nil {
		return nil
	}
	msg := s.outs[i].(string)
	// build the error the way the transports do: a shared sentinel wrapped with %w
	if rest, ok := strings.CutPrefix(msg, errSentinel.Error()+": "); ok {
		return fmt.Errorf("%w: %s", errSentinel, rest)
	}
	return errors.New(msg)
}

func retryExecute(c *hk.Ctx) {
	ms := int64(time.Millisecond)
	type cas struct {
		cfg    *mcp.VerifRetryConfig
		script []any
		cancel *int64 // ns on the virtual clock; nil = never
	}
	var cases []cas
	outcomes := []any{nil, "EOF", "HTTP request failed: status code 503", "HTTP request failed: status code 404", "read tcp 127.0.0.1:1->127.0.0.1:2: read: connection reset by peer"}
	retryable := map[any]bool{"EOF": true, "HTTP request failed: status code 503": true, "read tcp 127.0.0.1:1->127.0.0.1:2: read: connection reset by peer": true}
	// exhaustive small space: MaxRetries 0..3, scripts up to MaxRetries+2 over 4 outcome kinds (collapsed: the two retryable texts alternate)
	var gen func(prefix []any, depth int, emit func([]any))
	gen = func(prefix []any, depth int, emit func([]any)) {
		emit(append([]any{}, prefix...))
		if depth == 0 {
			return
		}
		for _, o := range outcomes[:4] {
			if o == nil {
				continue // success ends every run: longer scripts add nothing
			}
			gen(append(prefix, o), depth-1, emit)
		}
	}
	maxMR := 2
	if c.Thorough() {
		maxMR = 3
	}
	for mr := 0; mr <= maxMR; mr++ {
		cfg := &mcp.VerifRetryConfig{MaxRetries: mr, InitialBackoff: time.Duration(12 * ms), BackoffFactor: 2, MaxBackoff: time.Duration(30 * ms)}
		gen(nil, mr+2, func(s []any) {
			cases = append(cases, cas{cfg: cfg, script: s})
			cases = append(cases, cas{cfg: cfg, script: append(s, nil)})
		})
	}
	// nil config: exactly once
	for _, o := range outcomes {
		cases = append(cases, cas{cfg: nil, script: []any{o, nil}})
	}
	// factors, caps, including configurations the public API cannot produce (Execute is the unit under test here)
	for _, f := range []float64{1, 1.5, 2, 3, 10} {
		for _, mbm := range []int64{12, 20, 100} {
			cfg := &mcp.VerifRetryConfig{MaxRetries: 3, InitialBackoff: time.Duration(12 * ms), BackoffFactor: f, MaxBackoff: time.Duration(mbm * ms)}
			cases = append(cases, cas{cfg: cfg, script: []any{"EOF", outcomes[4], "EOF", nil}})
		}
	}
	// long sequences: all MaxRetries+1 attempts of the largest configuration, so that the 9th and 10th waits are observed
	{
		long := []any{}
		for i := 0; i < 11; i++ {
			long = append(long, "EOF")
		}
		cases = append(cases, cas{cfg: &mcp.VerifRetryConfig{MaxRetries: 10, InitialBackoff: time.Duration(ms), BackoffFactor: 2, MaxBackoff: 5 * time.Minute}, script: long})
		cases = append(cases, cas{cfg: &mcp.VerifRetryConfig{MaxRetries: 10, InitialBackoff: time.Duration(4 * ms), BackoffFactor: 1.5, MaxBackoff: time.Duration(100 * ms)}, script: long})
	}
	// overflow region of the wait computation (unreachable through WithRetry; exercises the conversion the reachable
	// case 9.3s x 10^9 hits after 84 s — see retryOverflowReachable)
	cases = append(cases, cas{cfg: &mcp.VerifRetryConfig{MaxRetries: 3, InitialBackoff: time.Duration(1 << 61), BackoffFactor: 8, MaxBackoff: time.Duration(15 * ms)}, script: []any{"EOF", "EOF", "EOF", nil}})
	cases = append(cases, cas{cfg: &mcp.VerifRetryConfig{MaxRetries: 2, InitialBackoff: time.Duration(10 * ms), BackoffFactor: math.NaN(), MaxBackoff: time.Duration(15 * ms)}, script: []any{"EOF", "EOF", nil}})
	// cancellation instants: before the call, inside the first wait, inside the second wait, after the end
	for _, at := range []int64{0, 6 * ms, 12*ms + 12*ms, 500 * ms} {
		at := at
		cfg := &mcp.VerifRetryConfig{MaxRetries: 3, InitialBackoff: time.Duration(12 * ms), BackoffFactor: 2, MaxBackoff: time.Duration(40 * ms)}
		cases = append(cases, cas{cfg: cfg, script: []any{"EOF", "EOF", "EOF", nil}, cancel: &at})
		cases = append(cases, cas{cfg: cfg, script: []any{"EOF", "HTTP request failed: status code 404"}, cancel: &at})
	}
	if c.Thorough() {
		for i := 0; i < 200; i++ {
			mr := c.Rng.Intn(5)
			ib := int64(5+c.Rng.Intn(10)) * ms
			f := float64(4+c.Rng.Intn(12)) / 4
			mb := ib + int64(c.Rng.Intn(40))*ms
			var s []any
			for j := 0; j < mr+2; j++ {
				s = append(s, outcomes[c.Rng.Intn(len(outcomes))])
			}
			cs := cas{cfg: &mcp.VerifRetryConfig{MaxRetries: mr, InitialBackoff: time.Duration(ib), BackoffFactor: f, MaxBackoff: time.Duration(mb)}, script: s}
			if c.Rng.Intn(3) == 0 {
				at := int64(c.Rng.Intn(60))*ms + ms/2
				// the real clock cannot resolve a cancellation that falls within a millisecond of the instant an attempt
				// starts (a timer that fires late under load flips the outcome): keep the instant at least 3 ms (or half a
				// wait) away from every attempt instant of this configuration
				bound, w := int64(0), float64(ib)
				for k := 0; k <= mr; k++ {
					wait := int64(math.Min(w, float64(mb)))
					if d := at - bound; d > -3*ms && d < 3*ms {
						shift := 3 * ms
						if k < mr && wait/2 < shift {
							shift = wait / 2
						}
						at = bound + shift
						break
					}
					bound += wait
					w *= f
				}
				cs.cancel = &at
			}
			cases = append(cases, cs)
		}
	}
	_ = retryable

	var wg sync.WaitGroup
	sem := make(chan struct{}, 8)
	type res struct {
		op   map[string]any
		impl map[string]any
		nt   bool
	}
	results := make([]res, len(cases))
	for i, cs := range cases {
		wg.Add(1)
		sem <- struct{}{}
		go func(i int, cs cas) {
			defer wg.Done()
			defer func() { <-sem }()
			results[i] = runExecuteCase(c, cs.cfg, cs.script, cs.cancel)
		}(i, cs)
	}
	wg.Wait()
	for _, r := range results {
		c.Emit(r.op, r.impl, r.nt, "execute")
	}
}

func runExecuteCase(c *hk.Ctx, cfg *mcp.VerifRetryConfig, script []any, cancelAt *int64) (r struct {
	op   map[string]any
	impl map[string]any
	nt   bool
}) {
	op := &scriptedOp{outs: script}
	if ctxFlavour%3 == 1 && cancelAt == nil {
		op.takes = 7 * time.Millisecond // the k-th wait counts from the failure of the attempt, however long the attempt took
	}
	// the caller's context in the flavours callers use: plain cancel, cancel with an application cause, a child of a context
	// cancelled with a cause. Whatever the flavour, a cancelled sequence ends with the context's error (ctx.Err()).
	ctxFlavour++
	var ctx context.Context
	var cancel func()
	if cancelAt == nil && ctxFlavour%2 == 0 {
		// a caller's deadline far beyond anything the sequence needs: it must not change the sequence
		c2, cc := context.WithTimeout(context.Background(), 10*time.Minute)
		ctx, cancel = c2, cc
	} else {
		ctx, cancel = flavouredContext(ctxFlavour)
	}
	defer cancel()
	return runExecuteWith(c, cfg, script, cancelAt, op, ctx, cancel)
}

func flavouredContext(n int) (ctx context.Context, cancel func()) {
	switch n % 3 {
	case 0:
		ctx, cancel = context.WithCancel(context.Background())
	case 1:
		c2, cc := context.WithCancelCause(context.Background())
		ctx, cancel = c2, func() { cc(errors.New("application: shutting down")) }
	default:
		parent, pc := context.WithCancelCause(context.Background())
		c2, cc := context.WithCancel(parent)
		ctx, cancel = c2, func() { pc(errors.New("application: tenant removed")); cc() }
	}
	return
}

func runExecuteWith(c *hk.Ctx, cfg *mcp.VerifRetryConfig, script []any, cancelAt *int64, op *scriptedOp, ctx context.Context, cancel func()) (r struct {
	op   map[string]any
	impl map[string]any
	nt   bool
}) {
	var cj any
	if cfg != nil {
		cj = cfgJSON(*cfg)
	}
	var ca any
	if cancelAt != nil {
		ca = *cancelAt
		if *cancelAt <= 0 {
			cancel()
		} else {
			t := time.AfterFunc(time.Duration(*cancelAt), cancel)
			defer t.Stop()
		}
	}
	// watchdog (C17_total_wait_bounded: the whole sequence sleeps at most MaxRetries x MaxBackoff): a run that is still
	// going a generous 20 s after that bound is ended through its context and reported with its configuration, instead of
	// sleeping an uncapped wait in full
	var overslept atomic.Bool
	if cfg != nil && cfg.MaxRetries > 0 && cfg.MaxRetries <= 10 && cfg.MaxBackoff > 0 && cfg.MaxBackoff <= 5*time.Second {
		wd := time.AfterFunc(time.Duration(cfg.MaxRetries)*cfg.MaxBackoff+20*time.Second, func() { overslept.Store(true); cancel() })
		defer wd.Stop()
	}
	start := time.Now()
	err := mcp.VerifRetryExecute(ctx, op.call, cfg, "verif")
	end := time.Now()
	var result string
	switch {
	case err == nil:
		result = "success"
	case ctx.Err() != nil && err == ctx.Err():
		result = "ctxErr"
	default:
		idx := -1
		// the error returned must be the error of one of the calls; identify which (last matching call)
		for i := len(op.times) - 1; i >= 0; i-- {
			if i < len(script) && script[i] != nil && script[i].(string) == err.Error() {
				idx = i + 1
				break
			}
		}
		result = fmt.Sprintf("opErr:%d", idx)
		if idx == -1 {
			c.Violate(hk.Violation{Fingerprint: "retry.execute:foreign-error", What: "Execute returned an error that is neither an error of the operation nor the caller's context error (the context was " + map[bool]string{true: "done", false: "still live"}[ctx.Err() != nil] + ")",
				Input: map[string]any{"cfg": cj, "script": script, "cancelAt": ca}, Observed: err.Error()})
		}
	}
	gaps := []int64{}
	for i := 1; i < len(op.times); i++ {
		gaps = append(gaps, int64(op.times[i].Sub(op.ends[i-1]))) // the wait starts when the failed attempt has returned
	}
	r.op = map[string]any{"c": "retry.execute", "cfg": cj, "script": script, "cancelAt": ca}
	r.impl = map[string]any{"attempts": len(op.times), "result": result, "waits": gaps, "elapsed": int64(end.Sub(start))}
	r.nt = len(op.times) > 1
	if overslept.Load() {
		c.Violate(hk.Violation{Fingerprint: "retry.execute:sleeps-beyond-maxretries-x-maxbackoff", What: "Execute was still waiting 20 s after MaxRetries x MaxBackoff had passed (every wait is capped at MaxBackoff and there are at most MaxRetries of them)", Input: r.op, Observed: r.impl})
	}
	// implementation-level oracles that need no model
	if cfg != nil && cfg.MaxRetries >= 0 && len(op.times) > cfg.MaxRetries+1 {
		c.Violate(hk.Violation{Fingerprint: "retry.execute:too-many-attempts", What: "more than MaxRetries+1 attempts", Input: r.op, Observed: r.impl})
	}
	if cfg == nil && len(op.times) != 1 {
		c.Violate(hk.Violation{Fingerprint: "retry.execute:no-option-not-once", What: "without retry configuration the operation did not run exactly once", Input: r.op, Observed: r.impl})
	}
	// search oracle that needs no model: when InitialBackoff >= MaxBackoff and the factor is a number >= 1, every wait is the cap
	if cfg != nil && cfg.InitialBackoff >= cfg.MaxBackoff && cfg.BackoffFactor >= 1 && cfg.MaxBackoff > 0 {
		for k, g := range gaps {
			if g < int64(cfg.MaxBackoff) {
				c.Violate(hk.Violation{Fingerprint: "retry.execute:wait-shorter-than-cap", What: fmt.Sprintf("wait %d was %d ns although InitialBackoff x Factor^k >= MaxBackoff = %d ns", k+1, g, int64(cfg.MaxBackoff)), Input: r.op, Observed: r.impl})
				break
			}
		}
	}
	for i := 0; i+1 < len(op.times); i++ {
		if i < len(script) && script[i] == nil {
			c.Violate(hk.Violation{Fingerprint: "retry.execute:retry-after-success", What: "another attempt after a success", Input: r.op, Observed: r.impl})
		}
		if i < len(script) && script[i] != nil && strings.Contains(script[i].(string), "status code 404") {
			c.Violate(hk.Violation{Fingerprint: "retry.execute:retry-after-4xx", What: "another attempt after a non-transient failure", Input: r.op, Observed: r.impl})
		}
	}
	return
}

// retryOverflowReachable runs the reachable D28 configuration for real (≈ 84 s): 9.3 s initial, factor 10, 10 retries, cap 9.3 s.
// The 10th wait must be the cap (9.3 s), not zero.
func retryOverflowReachable(c *hk.Ctx) {
	cfg := mcp.VerifRetryValidate(mcp.VerifRetryConfig{MaxRetries: 10, InitialBackoff: 9300 * time.Millisecond, BackoffFactor: 10, MaxBackoff: 9300 * time.Millisecond})
	script := []any{}
	for i := 0; i < 11; i++ {
		script = append(script, "EOF")
	}
	op := &scriptedOp{outs: script}
	_ = mcp.VerifRetryExecute(context.Background(), op.call, &cfg, "verif-overflow")
	gaps := []int64{}
	for i := 1; i < len(op.times); i++ {
		gaps = append(gaps, int64(op.times[i].Sub(op.times[i-1])))
	}
	sort.Slice(gaps, func(i, j int) bool { return false })
	c.Count("overflow-reachable", true, map[string]any{"cfg": cfgJSON(cfg), "gaps_ns": gaps}, "execute-overflow-reachable")
	for k, g := range gaps {
		if g < int64(9300*time.Millisecond) {
			c.Violate(hk.Violation{Fingerprint: "retry.execute:wait-collapses-on-overflow", What: fmt.Sprintf("wait %d of a validated configuration was %d ns instead of the 9.3 s cap", k+1, g),
				Input: map[string]any{"cfg": cfgJSON(cfg), "script": "11 x EOF"}, Observed: gaps})
			break
		}
	}
}

// retryEndToEnd drives the real Streamable client (WithRetry) against a scripted HTTP server and counts the attempts the
// server sees for one tools/list call; the model predicts them from the transports' real error texts.
type e2eStep struct {
	retryAfter string // Retry-After header of a non-200 answer
	st         int    // HTTP status of this attempt; 200 = a valid answer; 0 = read the request, then close the connection without answering
	body       string // body of a non-200 answer ("" = "scripted")
	bare       bool   // the status line carries no reason phrase ("HTTP/1.1 503"), as some proxies and embedded servers write it
}

func e2eScripts() [][]e2eStep {
	plain := [][]int{{200}, {503, 200}, {503, 404, 404, 404, 404}, {404, 200}, {500, 502, 503, 504, 200}, {429, 200}, {408, 409, 200}, {400}, {401, 200}, {503, 503, 503, 503, 503, 503},
		{0, 200}, {503, 400, 200}, {502, 403, 403}, {200, 503}, {0, 0, 0, 0, 0, 0}, {503, 0, 200}}
	var out [][]e2eStep
	for _, p := range plain {
		var sc []e2eStep
		for _, st := range p {
			sc = append(sc, e2eStep{st: st})
		}
		out = append(out, sc)
	}
	// a server-chosen Retry-After must not stretch the waits beyond the configured schedule
	out = append(out, []e2eStep{{st: 503, retryAfter: "2"}, {st: 429, retryAfter: "2"}, {st: 200}})
	// transient statuses on a status line without reason phrase
	out = append(out, []e2eStep{{st: 503, bare: true}, {st: 200}}, []e2eStep{{st: 429, bare: true}, {st: 502, bare: true}, {st: 200}}, []e2eStep{{st: 404, bare: true}, {st: 200}})
	// non-transient 4xx answers whose BODY (chosen by the server / a gateway) mentions transient codes
	for _, st := range []int{400, 403, 404} {
		for _, body := range []string{"upstream said 503 Service Unavailable", "HTTP 502", "code 429 from backend", "status: 504 gateway", "error 500 things"} {
			out = append(out, []e2eStep{{st: st, body: body}, {st: st, body: body}, {st: st, body: body}, {st: st, body: body}, {st: st, body: body}})
		}
	}
	return out
}

// retryEndToEnd: the real clients (Streamable HTTP and legacy SSE) against a scripted server that counts the copies of one
// request that reach it. The initialize exchange before it leaves an idle keep-alive connection, so a "0" step is a
// connection dropped after the request was read on a REUSED connection (a replay below the retry loop would be counted).
func retryEndToEnd(c *hk.Ctx) {
	for _, kind := range []string{"streamable", "sse"} {
		for _, how := range []string{"deadline", "cancel"} {
			runE2ECancel(c, kind, how)
		}
	}
	for _, kind := range []string{"streamable", "sse"} {
		for _, mr := range []int{0, 1, 3} {
			for _, sc := range e2eScripts() {
				runE2E(c, kind, mr, sc)
			}
		}
	}
}

func runE2E(c *hk.Ctx, kind string, mr int, sc []e2eStep) {
	var mu sync.Mutex
	attempts := 0
	var arrivals []time.Time
	push := make(chan string, 16) // legacy SSE: answers go out on the event stream
	answer := func(w http.ResponseWriter, id any, result string) {
		msg := fmt.Sprintf(`{"jsonrpc":"2.0","id":%v,"result":%s}`, jsonID(id), result)
		if kind == "sse" {
			w.WriteHeader(202)
			push <- msg
			return
		}
		w.Header().Set("Content-Type", "application/json")
		fmt.Fprint(w, msg)
	}
	mux := http.NewServeMux()
	post := func(w http.ResponseWriter, r *http.Request) {
		body, _ := io.ReadAll(r.Body)
		var m map[string]any
		json.Unmarshal(body, &m)
		method, _ := m["method"].(string)
		switch method {
		case "initialize":
			answer(w, m["id"], `{"protocolVersion":"2025-03-26","capabilities":{"tools":{}},"serverInfo":{"name":"s","version":"1"}}`)
		case "tools/list":
			mu.Lock()
			i := attempts
			attempts++
			arrivals = append(arrivals, time.Now())
			mu.Unlock()
			step := e2eStep{st: 200}
			if i < len(sc) {
				step = sc[i]
			}
			switch step.st {
			case 200:
				answer(w, m["id"], `{"tools":[]}`)
			case 0:
				if hj, ok := w.(http.Hijacker); ok {
					cn, _, _ := hj.Hijack()
					cn.Close()
				}
			default:
				b := step.body
				if b == "" {
					b = "scripted"
				}
				if step.bare {
					if hj, ok := w.(http.Hijacker); ok {
						cn, _, _ := hj.Hijack()
						fmt.Fprintf(cn, "HTTP/1.1 %d\r\nContent-Type: text/plain\r\nContent-Length: %d\r\nConnection: close\r\n\r\n%s\n", step.st, len(b)+1, b)
						cn.Close()
					}
					return
				}
				if step.retryAfter != "" {
					w.Header().Set("Retry-After", step.retryAfter)
				}
				http.Error(w, b, step.st)
			}
		default:
			w.WriteHeader(202)
		}
	}
	if kind == "sse" {
		mux.HandleFunc("/", func(w http.ResponseWriter, r *http.Request) {
			if r.Method == http.MethodPost {
				post(w, r)
				return
			}
			w.Header().Set("Content-Type", "text/event-stream")
			w.WriteHeader(200)
			fl, _ := w.(http.Flusher)
			fmt.Fprintf(w, "event: endpoint\ndata: %s?sessionId=s1\n\n", strings.TrimSuffix(r.URL.Path, "/sse")+"/message")
			fl.Flush()
			for {
				select {
				case msg := <-push:
					fmt.Fprintf(w, "event: message\ndata: %s\n\n", msg)
					fl.Flush()
				case <-r.Context().Done():
					return
				}
			}
		})
	} else {
		mux.HandleFunc("/", post)
	}
	srv := httptest.NewServer(mux)
	defer srv.Close()
	opts := []mcp.ClientOption{mcp.WithClientLogger(hk.QuietLogger{}), mcp.WithClientGetSSEEnabled(false)}
	if mr > 0 {
		opts = append(opts, mcp.WithRetry(mcp.RetryConfig{MaxRetries: mr, InitialBackoff: time.Millisecond, BackoffFactor: 1, MaxBackoff: 3 * time.Second}))
	}
	var cl *mcp.Client
	var err error
	e2eRun++
	longPath := ""
	if e2eRun%3 == 0 {
		longPath = "/" + strings.Repeat("tenant-0123456789/", 20) // the transports quote the URL in their error texts
	}
	if kind == "sse" {
		cl, err = mcp.NewSSEClient(srv.URL+longPath+"/sse", mcp.Implementation{Name: "v", Version: "1"}, opts...)
	} else {
		cl, err = mcp.NewClient(srv.URL+longPath+"/mcp", mcp.Implementation{Name: "v", Version: "1"}, opts...)
	}
	if err != nil {
		return
	}
	ctx, cancel := context.WithTimeout(context.Background(), 10*time.Second)
	_, ierr := cl.Initialize(ctx, &mcp.InitializeRequest{})
	var callErr error
	if ierr == nil {
		_, callErr = cl.ListTools(ctx, &mcp.ListToolsRequest{})
	}
	cancel()
	cl.Close()
	srv.CloseClientConnections()
	if ierr != nil {
		c.Noise()
		return
	}
	mu.Lock()
	seen := attempts
	mu.Unlock()
	// the op for the model: the script as the error texts this client builds
	var texts []any
	var sts []any
	for _, step := range sc {
		sts = append(sts, map[string]any{"status": step.st, "body": step.body})
		switch step.st {
		case 200:
			texts = append(texts, nil)
		case 0:
			texts = append(texts, "HTTP request failed: Post \"http://x\": EOF")
		default:
			if kind == "sse" {
				b := step.body
				if b == "" {
					b = "scripted"
				}
				texts = append(texts, fmt.Sprintf("HTTP request failed: status code %d, body: %s\n", step.st, b))
			} else {
				texts = append(texts, fmt.Sprintf("HTTP request failed: status code %d", step.st))
			}
		}
	}
	var cj any
	if mr > 0 {
		cj = cfgJSON(mcp.VerifRetryConfig{MaxRetries: mr, InitialBackoff: time.Millisecond, BackoffFactor: 1, MaxBackoff: 3 * time.Second})
	}
	res := "success"
	if callErr != nil {
		res = fmt.Sprintf("opErr:%d", seen)
	}
	c.Emit(map[string]any{"c": "retry.e2e", "cfg": cj, "script": texts}, map[string]any{"attempts": seen, "result": res}, seen > 1, "e2e-"+kind)
	// model-free oracles
	pre := "retry.e2e"
	name := "Streamable"
	if kind == "sse" {
		pre, name = "retry.e2e-sse", "legacy SSE"
	}
	for i := 0; i+1 < seen && i < len(sc); i++ {
		st := sc[i].st
		if st == 200 || (st >= 400 && st < 500 && st != 408 && st != 409 && st != 429) {
			fp := fmt.Sprintf("%s:retried-after-%d", pre, st)
			if sc[i].body != "" {
				fp += ":body-mentions-transient-code"
			}
			c.Violate(hk.Violation{Fingerprint: fp, What: "the " + name + " client re-attempted a request after a success or a non-transient 4xx answer",
				Input: map[string]any{"max_retries": mr, "script": sts}, Observed: map[string]any{"attempts_seen_by_server": seen}})
		}
	}
	mu.Lock()
	for i := 1; i < len(arrivals); i++ {
		if g := arrivals[i].Sub(arrivals[i-1]); g > 900*time.Millisecond {
			c.Violate(hk.Violation{Fingerprint: pre + ":wait-longer-than-schedule", What: "with a 1 ms back-off schedule two attempts of the " + name + " client were " + g.Round(time.Millisecond).String() + " apart (the k-th wait is InitialBackoff x Factor^(k-1) capped at MaxBackoff, whatever the server says)",
				Input: map[string]any{"max_retries": mr, "script": sts}, Observed: g.String()})
			break
		}
	}
	mu.Unlock()
	if seen > mr+1 {
		c.Violate(hk.Violation{Fingerprint: pre + ":too-many-attempts", What: "more than MaxRetries+1 copies of one request reached the server (" + name + " client)", Input: map[string]any{"max_retries": mr, "script": sts}, Observed: seen})
	}
}

func jsonID(v any) string {
	b, _ := json.Marshal(v)
	return string(b)
}

// runE2ECancel: the real client is backing off after a transient failure when the caller's context ends (by deadline or
// by cancel): the call ends at once with the context's error.
func runE2ECancel(c *hk.Ctx, kind, how string) {
	push := make(chan string, 4)
	mux := http.NewServeMux()
	post := func(w http.ResponseWriter, r *http.Request) {
		body, _ := io.ReadAll(r.Body)
		var m map[string]any
		json.Unmarshal(body, &m)
		switch m["method"] {
		case "initialize":
			msg := fmt.Sprintf(`{"jsonrpc":"2.0","id":%v,"result":{"protocolVersion":"2025-03-26","capabilities":{"tools":{}},"serverInfo":{"name":"s","version":"1"}}}`, jsonID(m["id"]))
			if kind == "sse" {
				w.WriteHeader(202)
				push <- msg
				return
			}
			w.Header().Set("Content-Type", "application/json")
			fmt.Fprint(w, msg)
		case "tools/list":
			http.Error(w, "scripted", 503)
		default:
			w.WriteHeader(202)
		}
	}
	mux.HandleFunc("/", func(w http.ResponseWriter, r *http.Request) {
		if r.Method == http.MethodPost {
			post(w, r)
			return
		}
		w.Header().Set("Content-Type", "text/event-stream")
		w.WriteHeader(200)
		fl, _ := w.(http.Flusher)
		fmt.Fprint(w, "event: endpoint\ndata: /message?sessionId=s1\n\n")
		fl.Flush()
		for {
			select {
			case msg := <-push:
				fmt.Fprintf(w, "event: message\ndata: %s\n\n", msg)
				fl.Flush()
			case <-r.Context().Done():
				return
			}
		}
	})
	srv := httptest.NewServer(mux)
	defer srv.Close()
	opts := []mcp.ClientOption{mcp.WithClientLogger(hk.QuietLogger{}), mcp.WithClientGetSSEEnabled(false),
		mcp.WithRetry(mcp.RetryConfig{MaxRetries: 3, InitialBackoff: 600 * time.Millisecond, BackoffFactor: 1, MaxBackoff: 600 * time.Millisecond})}
	var cl *mcp.Client
	var err error
	if kind == "sse" {
		cl, err = mcp.NewSSEClient(srv.URL+"/sse", mcp.Implementation{Name: "v", Version: "1"}, opts...)
	} else {
		cl, err = mcp.NewClient(srv.URL+"/mcp", mcp.Implementation{Name: "v", Version: "1"}, opts...)
	}
	if err != nil {
		return
	}
	defer srv.CloseClientConnections()
	defer cl.Close()
	ictx, icancel := context.WithTimeout(context.Background(), 5*time.Second)
	_, ierr := cl.Initialize(ictx, &mcp.InitializeRequest{})
	icancel()
	if ierr != nil {
		c.Noise()
		return
	}
	var ctx context.Context
	var cancel context.CancelFunc
	if how == "deadline" {
		ctx, cancel = context.WithTimeout(context.Background(), 200*time.Millisecond) // ends inside the first 600 ms back-off
	} else {
		ctx, cancel = context.WithCancel(context.Background())
		time.AfterFunc(200*time.Millisecond, cancel)
	}
	defer cancel()
	t0 := time.Now()
	_, callErr := cl.ListTools(ctx, &mcp.ListToolsRequest{})
	el := time.Since(t0)
	want := ctx.Err()
	// the clients wrap transport errors as text ("list tools request failed: context deadline exceeded"): the caller sees the
	// context's error by its text (errors.Is holds at the level of retry.Execute, which the scripted part checks)
	carries := callErr != nil && want != nil && (errors.Is(callErr, want) || strings.Contains(callErr.Error(), want.Error()))
	good := carries && el < 200*time.Millisecond+400*time.Millisecond
	c.Count("retry.e2e-cancel", true, map[string]any{"client": kind, "how": how, "elapsed_ms": el.Milliseconds(), "error": fmt.Sprint(callErr)}, "e2e-cancel-"+kind+"-"+how)
	if !good {
		c.Violate(hk.Violation{Fingerprint: "retry.e2e:context-end-during-backoff:" + kind + ":" + how,
			What:     "the caller's context ended (" + how + ") while the client was backing off after a 503: the call must end at once with the context's error",
			Input:    map[string]any{"client": kind, "backoff_ms": 600, "context_ends_after_ms": 200, "how": how},
			Observed: map[string]any{"elapsed_ms": el.Milliseconds(), "error": fmt.Sprint(callErr), "carries_the_contexts_error": carries}, Expected: fmt.Sprint(want)})
	}
}
