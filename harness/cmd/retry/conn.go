package main

// Phases added for the connection-level side of C17:
//   retryClassifyReal  IsRetryableError on REAL error values produced by real net operations (dial i/o timeout, connection
//                      refused, reset, EOF, Client.Timeout, read deadline, request-context deadline), passed bare and wrapped
//                      with %v / %w (once, twice, under a sentinel): the class is the one of the error's TEXT (the model), a
//                      connection failure is transient, and the class does not depend on how the error is wrapped.
//   retryConnectE2E    the two real clients whose HTTP transport fails the first N dials with a genuine 1 ns dial timeout:
//                      with retries configured the call succeeds after N+1 attempts while the caller's context is alive.
//   retryOptionsAhead  several retry options are BUILT first, the clients constructed afterwards (and interleaved): every
//                      client retries according to its own option.

import (
	"context"
	"encoding/json"
	"errors"
	"fmt"
	"io"
	"net"
	"net/http"
	"net/http/httptest"
	"strings"
	"sync"
	"time"

	mcp "trpc.group/trpc-go/trpc-mcp-go"
	"verif/harness/hk"
)

type realErr struct {
	name      string
	err       error
	transient bool // a connection-level failure: must be classified retryable
}

func realErrValues() []realErr {
	var out []realErr
	add := func(name string, err error, transient bool) {
		if err != nil {
			out = append(out, realErr{name, err, transient})
		}
	}
	// genuine dial timeout: the deadline of the dial has passed before the connection is up
	l, _ := net.Listen("tcp", "127.0.0.1:0")
	_, err := (&net.Dialer{Timeout: time.Nanosecond}).DialContext(context.Background(), "tcp", l.Addr().String())
	add("dial-timeout", err, true)
	// the same through net/http (a *url.Error around the *net.OpError)
	hc := &http.Client{Transport: &http.Transport{DisableKeepAlives: true, DialContext: (&net.Dialer{Timeout: time.Nanosecond}).DialContext}}
	_, err = hc.Post("http://"+l.Addr().String()+"/mcp", "application/json", strings.NewReader("{}"))
	add("http-dial-timeout", err, true)
	addr := l.Addr().String()
	l.Close()
	// connection refused
	_, err = net.Dial("tcp", addr)
	add("refused", err, true)
	_, err = (&http.Client{Transport: &http.Transport{DisableKeepAlives: true}}).Post("http://"+addr+"/mcp", "application/json", strings.NewReader("{}"))
	add("http-refused", err, true)
	// reset: the peer closes with unread data and SO_LINGER 0
	l2, _ := net.Listen("tcp", "127.0.0.1:0")
	closed := make(chan struct{})
	go func() {
		cn, err := l2.Accept()
		if err == nil {
			b := make([]byte, 1)
			cn.Read(b)
			cn.(*net.TCPConn).SetLinger(0)
			cn.Close()
		}
		close(closed)
	}()
	if cn, err := net.Dial("tcp", l2.Addr().String()); err == nil {
		cn.Write([]byte("xx"))
		<-closed
		cn.SetReadDeadline(time.Now().Add(2 * time.Second))
		_, err = cn.Read(make([]byte, 8))
		if err != nil && err != io.EOF {
			add("reset", err, strings.Contains(err.Error(), "reset"))
		}
		cn.Close()
	}
	l2.Close()
	// EOF: the server closes without answering
	l3, _ := net.Listen("tcp", "127.0.0.1:0")
	go func() {
		for {
			cn, err := l3.Accept()
			if err != nil {
				return
			}
			cn.Close()
		}
	}()
	_, err = (&http.Client{Transport: &http.Transport{DisableKeepAlives: true}}).Post("http://"+l3.Addr().String()+"/", "application/json", strings.NewReader("{}"))
	add("http-eof", err, err != nil && strings.HasSuffix(strings.ToLower(err.Error()), ": eof"))
	l3.Close()
	add("bare-eof", io.EOF, true)
	// read deadline on a connection (os.ErrDeadlineExceeded inside a *net.OpError)
	l4, _ := net.Listen("tcp", "127.0.0.1:0")
	if cn, err := net.Dial("tcp", l4.Addr().String()); err == nil {
		cn.SetReadDeadline(time.Now().Add(-time.Second))
		_, err = cn.Read(make([]byte, 1))
		add("read-deadline", err, true)
		cn.Close()
	}
	l4.Close()
	// http.Client.Timeout and a request-context deadline: classified by the model on the text (no connection-level claim)
	srv := httptest.NewServer(http.HandlerFunc(func(w http.ResponseWriter, r *http.Request) {
		select {
		case <-r.Context().Done():
		case <-time.After(300 * time.Millisecond):
		}
	}))
	_, err = (&http.Client{Timeout: 20 * time.Millisecond}).Get(srv.URL)
	add("client-timeout", err, false)
	_, err = (&http.Client{Transport: &http.Transport{ResponseHeaderTimeout: 20 * time.Millisecond}}).Get(srv.URL)
	add("header-timeout", err, false)
	ctx, cancel := context.WithTimeout(context.Background(), 20*time.Millisecond)
	req, _ := http.NewRequestWithContext(ctx, "GET", srv.URL, nil)
	_, err = http.DefaultClient.Do(req)
	add("request-context-deadline", err, false)
	cancel()
	srv.CloseClientConnections()
	srv.Close()
	return out
}

func retryClassifyReal(c *hk.Ctx) {
	sentinel := errors.New("HTTP request failed")
	for _, re := range realErrValues() {
		wraps := []struct {
			name string
			err  error
		}{
			{"bare", re.err},
			{"text-only", errors.New(re.err.Error())},
			{"%v", fmt.Errorf("HTTP request failed: %v", re.err)},
			{"%w", fmt.Errorf("HTTP request failed: %w", re.err)},
			{"sentinel-%w:%v", fmt.Errorf("%w: %v", sentinel, re.err)},
			{"sentinel-%w:%w", fmt.Errorf("%w: %w", sentinel, re.err)},
			{"twice-%w", fmt.Errorf("sendRequest(tools/list): %w", fmt.Errorf("%w: %w", sentinel, re.err))},
			{"joined", errors.Join(sentinel, re.err)},
		}
		byText := map[string]bool{}
		for _, w := range wraps {
			msg := w.err.Error()
			got := mcp.VerifRetryIsRetryable(w.err)
			c.Emit(map[string]any{"c": "retry.classify", "msg": msg}, map[string]any{"retryable": got}, true, "classify-real-"+re.name, "wrap:"+w.name)
			in := map[string]any{"error": re.name, "wrapped": w.name, "text": msg, "type": fmt.Sprintf("%T", re.err)}
			if re.transient && !got && w.name != "joined" {
				c.Violate(hk.Violation{Fingerprint: "retry.classify:real-error:" + re.name + ":not-retryable", What: "a genuine connection-level failure (produced by a real net operation) is not classified retryable", Input: in, Observed: got})
			}
			// the class is a function of the text: the same text as a plain errors.New value must classify alike
			plain := mcp.VerifRetryIsRetryable(errors.New(msg))
			byText[msg] = plain
			if plain != got {
				c.Violate(hk.Violation{Fingerprint: "retry.classify:real-error:" + re.name + ":class-depends-on-chain", What: "the same error text classifies differently as a real error value (with its chain) and as a plain text error",
					Input: in, Observed: map[string]any{"real": got, "plain-text": plain}})
			}
		}
	}
}

// ---------- scripted MCP server for the two HTTP clients

type scriptSrv struct {
	*httptest.Server
	mu       sync.Mutex
	attempts int
}

func (s *scriptSrv) seen() int { s.mu.Lock(); defer s.mu.Unlock(); return s.attempts }

// newScriptSrv: initialize is answered; the i-th tools/list gets status(i) (200 = a valid answer)
func newScriptSrv(kind string, status func(i int) int) *scriptSrv {
	s := &scriptSrv{}
	push := make(chan string, 64)
	answer := func(w http.ResponseWriter, id any, result string) {
		msg := fmt.Sprintf(`{"jsonrpc":"2.0","id":%v,"result":%s}`, jsonID(id), result)
		if kind == "sse" {
			w.WriteHeader(202)
			push <- msg
			return
		}
		w.Header().Set("Content-Type", "application/json")
		fmt.Fprint(w, msg)
	}
	post := func(w http.ResponseWriter, r *http.Request) {
		body, _ := io.ReadAll(r.Body)
		var m map[string]any
		json.Unmarshal(body, &m)
		switch m["method"] {
		case "initialize":
			answer(w, m["id"], `{"protocolVersion":"2025-03-26","capabilities":{"tools":{}},"serverInfo":{"name":"s","version":"1"}}`)
		case "tools/list":
			s.mu.Lock()
			i := s.attempts
			s.attempts++
			s.mu.Unlock()
			if st := status(i); st != 200 {
				http.Error(w, "scripted", st)
				return
			}
			answer(w, m["id"], `{"tools":[]}`)
		default:
			w.WriteHeader(202)
		}
	}
	mux := http.NewServeMux()
	mux.HandleFunc("/", func(w http.ResponseWriter, r *http.Request) {
		if r.Method == http.MethodPost || kind != "sse" {
			post(w, r)
			return
		}
		w.Header().Set("Content-Type", "text/event-stream")
		w.WriteHeader(200)
		fl, _ := w.(http.Flusher)
		fmt.Fprintf(w, "event: endpoint\ndata: %s?sessionId=s1\n\n", strings.TrimSuffix(r.URL.Path, "/sse")+"/message")
		fl.Flush()
		for {
			select {
			case msg := <-push:
				fmt.Fprintf(w, "event: message\ndata: %s\n\n", msg)
				fl.Flush()
			case <-r.Context().Done():
				return
			}
		}
	})
	s.Server = httptest.NewServer(mux)
	return s
}

func newE2EClient(kind, url string, opts ...mcp.ClientOption) (*mcp.Client, error) {
	opts = append([]mcp.ClientOption{mcp.WithClientLogger(hk.QuietLogger{}), mcp.WithClientGetSSEEnabled(false)}, opts...)
	if kind == "sse" {
		return mcp.NewSSEClient(url+"/sse", mcp.Implementation{Name: "v", Version: "1"}, opts...)
	}
	return mcp.NewClient(url+"/mcp", mcp.Implementation{Name: "v", Version: "1"}, opts...)
}

// ---------- connect timeouts

// flakyDial fails the next `fails` dials with a genuine dial timeout (a dial whose 1 ns budget is over), then dials for real
type flakyDial struct {
	mu    sync.Mutex
	fails int
	dials int // dials since arm()
	armed bool
}

func (f *flakyDial) arm(n int)  { f.mu.Lock(); f.fails, f.dials, f.armed = n, 0, true; f.mu.Unlock() }
func (f *flakyDial) count() int { f.mu.Lock(); defer f.mu.Unlock(); return f.dials }

func (f *flakyDial) DialContext(ctx context.Context, network, addr string) (net.Conn, error) {
	f.mu.Lock()
	fail := false
	if f.armed {
		f.dials++
		if f.fails > 0 {
			f.fails--
			fail = true
		}
	}
	f.mu.Unlock()
	if fail {
		return (&net.Dialer{Timeout: time.Nanosecond}).DialContext(ctx, network, addr)
	}
	return (&net.Dialer{Timeout: 5 * time.Second}).DialContext(ctx, network, addr)
}

type ownClientHandler struct{ cl *http.Client }

func (h ownClientHandler) Handle(ctx context.Context, _ *http.Client, req *http.Request) (*http.Response, error) {
	return h.cl.Do(req)
}

func retryConnectE2E(c *hk.Ctx) {
	for _, kind := range []string{"streamable", "sse"} {
		for _, tc := range [][2]int{{3, 1}, {3, 2}, {3, 3}, {1, 1}, {2, 3}, {0, 1}, {1, 2}} {
			mr, n := tc[0], tc[1]
			srv := newScriptSrv(kind, func(int) int { return 200 })
			fd := &flakyDial{}
			hcl := &http.Client{Transport: &http.Transport{DisableKeepAlives: true, DialContext: fd.DialContext}}
			opts := []mcp.ClientOption{mcp.WithHTTPReqHandler(ownClientHandler{hcl})}
			if mr > 0 {
				opts = append(opts, mcp.WithRetry(mcp.RetryConfig{MaxRetries: mr, InitialBackoff: time.Millisecond, BackoffFactor: 1, MaxBackoff: 50 * time.Millisecond}))
			}
			cl, err := newE2EClient(kind, srv.URL, opts...)
			if err != nil {
				srv.Close()
				c.Noise()
				continue
			}
			ctx, cancel := context.WithTimeout(context.Background(), 10*time.Second)
			_, ierr := cl.Initialize(ctx, &mcp.InitializeRequest{})
			var callErr error
			if ierr == nil {
				fd.arm(n)
				_, callErr = cl.ListTools(ctx, &mcp.ListToolsRequest{})
			}
			alive := ctx.Err() == nil
			cancel()
			cl.Close()
			srv.CloseClientConnections()
			srv.Close()
			if ierr != nil {
				c.Noise()
				continue
			}
			dials := fd.count()
			in := map[string]any{"client": kind, "maxRetries": mr, "dials_that_time_out": n, "backoff": "1ms", "caller_context_alive": alive}
			obs := map[string]any{"dial_attempts": dials, "requests_at_server": srv.seen(), "error": fmt.Sprint(callErr)}
			wantDials, wantOK := n+1, true
			if mr < n {
				wantDials, wantOK = mr+1, false
			}
			c.Count("retry.e2e-connect:"+kind, true, nil, "e2e-connect-timeout")
			switch {
			case wantOK && (callErr != nil || dials < wantDials):
				c.Violate(hk.Violation{Fingerprint: "retry.e2e:" + kind + ":connect-timeout-not-retried", What: "a dial that times out (dial tcp …: i/o timeout) is not retried although retries are configured and the caller's context is alive",
					Input: in, Observed: obs, Expected: map[string]any{"dial_attempts": wantDials, "error": nil}})
			case dials > wantDials:
				c.Violate(hk.Violation{Fingerprint: "retry.e2e:" + kind + ":connect-timeout:too-many-attempts", What: "more than MaxRetries+1 attempts", Input: in, Observed: obs, Expected: map[string]any{"dial_attempts": wantDials}})
			case !wantOK && callErr == nil:
				c.Violate(hk.Violation{Fingerprint: "retry.e2e:" + kind + ":connect-timeout:succeeded-beyond-budget", What: "the call succeeded although more dials time out than attempts are allowed", Input: in, Observed: obs})
			case !wantOK && dials < wantDials:
				c.Violate(hk.Violation{Fingerprint: "retry.e2e:" + kind + ":connect-timeout-not-retried", What: "fewer attempts than MaxRetries+1 on dials that time out", Input: in, Observed: obs, Expected: map[string]any{"dial_attempts": wantDials}})
			}
		}
	}
}

// ---------- options built ahead of the clients

func retryOptionsAhead(c *hk.Ctx) {
	type spec struct {
		name string
		n    int // the option's MaxRetries
		mk   func() mcp.ClientOption
	}
	simple := func(n int) spec {
		return spec{fmt.Sprintf("WithSimpleRetry(%d)", n), n, func() mcp.ClientOption { return mcp.WithSimpleRetry(n) }}
	}
	custom := func(n int) spec {
		return spec{fmt.Sprintf("WithRetry(MaxRetries:%d)", n), n, func() mcp.ClientOption {
			return mcp.WithRetry(mcp.RetryConfig{MaxRetries: n, InitialBackoff: time.Millisecond, BackoffFactor: 1, MaxBackoff: 5 * time.Millisecond})
		}}
	}
	orders := [][]spec{
		{simple(1), simple(4), simple(0)},
		{simple(3), simple(1)},
		{simple(0), custom(2), simple(2), simple(1)},
		{custom(3), simple(1), custom(0), simple(3)},
	}
	run := func(kind string, sp spec, cl *mcp.Client, srv *scriptSrv, history []string, mode string) {
		got := mcp.VerifClientRetryConfig(cl)
		in := map[string]any{"client": kind, "option": sp.name, "mode": mode, "built_in_this_order": history}
		if got == nil {
			if sp.n > 0 {
				c.Violate(hk.Violation{Fingerprint: "retry.e2e:options-built-ahead:no-config", What: "the option left no retry configuration", Input: in})
			}
		} else if got.MaxRetries != sp.n {
			c.Violate(hk.Violation{Fingerprint: "retry.e2e:options-built-ahead:config-differs", What: "the client's MaxRetries is not the one its own option was built with", Input: in, Observed: got.MaxRetries, Expected: sp.n})
		}
		if got != nil {
			// WithSimpleRetry keeps the default 500 ms / 8 s waits: shortened through the configuration the client and its
			// transport share; MaxRetries stays what the option made it
			got.InitialBackoff, got.BackoffFactor, got.MaxBackoff = time.Millisecond, 1, 5*time.Millisecond
		}
		ctx, cancel := context.WithTimeout(context.Background(), 20*time.Second)
		_, ierr := cl.Initialize(ctx, &mcp.InitializeRequest{})
		if ierr == nil {
			cl.ListTools(ctx, &mcp.ListToolsRequest{})
		}
		cancel()
		cl.Close()
		srv.CloseClientConnections()
		if ierr != nil {
			c.Noise()
			return
		}
		c.Count("retry.e2e-options:"+kind, true, nil, "e2e-options-built-ahead")
		if seen := srv.seen(); seen != sp.n+1 {
			c.Violate(hk.Violation{Fingerprint: "retry.e2e:options-built-ahead:attempts-differ", What: "against a server that always answers 503 a client makes a number of attempts other than its own option's MaxRetries+1",
				Input: in, Observed: map[string]any{"attempts": seen}, Expected: map[string]any{"attempts": sp.n + 1}})
		}
	}
	for _, kind := range []string{"streamable", "sse"} {
		for _, order := range orders {
			var history []string
			for _, sp := range order {
				history = append(history, sp.name)
			}
			// (1) all options first, then the clients, then the runs
			optsBuilt := make([]mcp.ClientOption, len(order))
			for i, sp := range order {
				optsBuilt[i] = sp.mk()
			}
			type built struct {
				cl  *mcp.Client
				srv *scriptSrv
			}
			bs := make([]built, len(order))
			for i := range order {
				srv := newScriptSrv(kind, func(int) int { return 503 })
				cl, err := newE2EClient(kind, srv.URL, optsBuilt[i])
				if err != nil {
					srv.Close()
					continue
				}
				bs[i] = built{cl, srv}
			}
			for i, sp := range order {
				if bs[i].cl != nil {
					run(kind, sp, bs[i].cl, bs[i].srv, history, "all options, then all clients")
					bs[i].srv.Close()
				}
			}
			// (2) interleaved: option A built, option B built, client(A) constructed and run, option C built, client(B) …
			for i := 0; i+1 < len(order); i++ {
				a := order[i].mk()
				_ = order[i+1].mk() // somebody else's option, built after ours and before our client exists
				srv := newScriptSrv(kind, func(int) int { return 503 })
				cl, err := newE2EClient(kind, srv.URL, a)
				if err == nil {
					run(kind, order[i], cl, srv, []string{order[i].name, order[i+1].name}, "option, another option, then the first one's client")
				}
				srv.Close()
			}
		}
	}
}
