package main

// Recording reference servers (hand-written, independent of the library's server side): a minimal Streamable-HTTP
// endpoint and a minimal 2024-11-05 SSE endpoint. Every request that arrives — whatever its path — is recorded
// with method, path, query, headers and body before it is answered.

import (
	"encoding/json"
	"fmt"
	"io"
	"net"
	"net/http"
	"net/http/httptest"
	"sync"
	"sync/atomic"
	"time"

	"verif/harness/hk"
)

const (
	streamablePath = "/mcp"
	ssePath        = "/sse"
	sseMsgPath     = "/message"
	wrongPath      = "/wrong"
)

type rec struct {
	Seq    int
	Method string
	Path   string
	Query  string
	Hdr    http.Header
	Body   []byte
	Kind   string // request | notification | answer | stream | connect | delete | other
	RPC    string // JSON-RPC method of a request / notification
	ID     string // JSON-RPC id (canonical text) of a request / answer
	Issued bool   // a session id had been issued (and not terminated) when the request arrived
}

type refServer struct {
	legacy bool
	ts     *httptest.Server
	sid    string

	mu      sync.Mutex
	recs    []rec
	changed chan struct{}
	issued  bool

	push      chan string // JSON-RPC messages for the listening stream
	streamUp  chan struct{}
	upOnce    sync.Once
	cur       *liveStream // the listening stream in service (nil: none) — a newer GET supersedes the older one
	ups       int         // number of listening streams that came up so far
	done      chan struct{}
	failTools atomic.Int32 // answer the next tools/list with this status (0: normally)
	failNotif atomic.Int32 // answer the next roots/list_changed notification with this status
	fail503   atomic.Bool  // answer the next tools/list with 503
	failInit  atomic.Value // "503" | "type": fail the next handshake's first request (initialize POST / legacy connect) that way
}

// liveStream is one listening stream being served.
type liveStream struct {
	stop chan string   // "close": end the stream gracefully; "reset": drop the connection; "superseded": a newer stream took over
	gone chan struct{} // closed when the handler has returned
}

// alive: the server has a listening stream to push on.
func (s *refServer) alive() bool {
	s.mu.Lock()
	defer s.mu.Unlock()
	return s.cur != nil
}

func (s *refServer) upCount() int {
	s.mu.Lock()
	defer s.mu.Unlock()
	return s.ups
}

func (s *refServer) isIssued() bool {
	s.mu.Lock()
	defer s.mu.Unlock()
	return s.issued
}

// waitUps waits (event based) until n listening streams have come up.
func (s *refServer) waitUps(n int, ceiling time.Duration) bool {
	deadline := time.After(ceiling)
	for {
		s.mu.Lock()
		ok, ch := s.ups >= n, s.changed
		s.mu.Unlock()
		if ok {
			return true
		}
		select {
		case <-ch:
		case <-deadline:
			return false
		}
	}
}

// endStream makes the server end the listening stream in service (gracefully, or by dropping the connection) and
// waits until its handler has returned.
func (s *refServer) endStream(reset bool) bool {
	s.mu.Lock()
	ls := s.cur
	s.mu.Unlock()
	if ls == nil {
		return false
	}
	how := "close"
	if reset {
		how = "reset"
	}
	select {
	case ls.stop <- how:
	default:
	}
	select {
	case <-ls.gone:
		return true
	case <-time.After(5 * time.Second):
		return false
	}
}

// failedFirst answers the first request of a handshake with the failure that was ordered (once).
func (s *refServer) failedFirst(w http.ResponseWriter) bool {
	how, _ := s.failInit.Swap("").(string)
	switch how {
	case "503":
		http.Error(w, "warming up", 503)
		return true
	case "type":
		w.Header().Set("Content-Type", "text/plain")
		w.WriteHeader(200)
		io.WriteString(w, "not what you expected")
		return true
	}
	return false
}

func newRefServer(legacy bool, sid string) *refServer {
	s := &refServer{legacy: legacy, sid: sid, changed: make(chan struct{}), push: make(chan string, 16),
		streamUp: make(chan struct{}), done: make(chan struct{})}
	s.failInit.Store("")
	s.ts = httptest.NewUnstartedServer(http.HandlerFunc(s.serve))
	s.ts.Config.ErrorLog = hk.QuietStdLog()
	s.ts.Start()
	return s
}

func (s *refServer) close() {
	close(s.done)
	s.ts.CloseClientConnections()
	s.ts.Close()
}

func classify(legacy bool, method string, body []byte) (kind, rpc, id string) {
	switch method {
	case http.MethodGet:
		if legacy {
			return "connect", "", ""
		}
		return "stream", "", ""
	case http.MethodDelete:
		return "delete", "", ""
	case http.MethodPost:
		var m map[string]json.RawMessage
		if json.Unmarshal(body, &m) != nil {
			return "other", "", ""
		}
		rawID, hasID := m["id"]
		var meth string
		hasMethod := false
		if rm, ok := m["method"]; ok && json.Unmarshal(rm, &meth) == nil {
			hasMethod = true
		}
		switch {
		case hasID && hasMethod:
			return "request", meth, string(rawID)
		case hasMethod:
			return "notification", meth, ""
		case hasID:
			return "answer", "", string(rawID)
		}
	}
	return "other", "", ""
}

func (s *refServer) record(r *http.Request, body []byte) rec {
	kind, rpc, id := classify(s.legacy, r.Method, body)
	s.mu.Lock()
	defer s.mu.Unlock()
	rc := rec{Seq: len(s.recs), Method: r.Method, Path: r.URL.Path, Query: r.URL.RawQuery, Hdr: r.Header.Clone(), Body: body,
		Kind: kind, RPC: rpc, ID: id, Issued: s.issued}
	s.recs = append(s.recs, rc)
	close(s.changed)
	s.changed = make(chan struct{})
	return rc
}

func (s *refServer) snapshot() []rec {
	s.mu.Lock()
	defer s.mu.Unlock()
	return append([]rec{}, s.recs...)
}

// waitRec waits (event based) until a record satisfying pred exists.
func (s *refServer) waitRec(pred func(rec) bool, ceiling time.Duration) bool {
	deadline := time.After(ceiling)
	for {
		s.mu.Lock()
		for _, r := range s.recs {
			if pred(r) {
				s.mu.Unlock()
				return true
			}
		}
		ch := s.changed
		s.mu.Unlock()
		select {
		case <-ch:
		case <-deadline:
			return false
		}
	}
}

func (s *refServer) serve(w http.ResponseWriter, r *http.Request) {
	body, _ := io.ReadAll(r.Body)
	rc := s.record(r, body)
	if s.legacy {
		s.serveLegacy(w, r, rc)
	} else {
		s.serveStreamable(w, r, rc)
	}
}

func resultFor(rpc string) string {
	switch rpc {
	case "initialize":
		return `{"protocolVersion":"2025-03-26","capabilities":{},"serverInfo":{"name":"verif-ref","version":"1"}}`
	case "tools/list":
		return `{"tools":[]}`
	}
	return `{}`
}

func (s *refServer) stream(w http.ResponseWriter, r *http.Request, first string, frame func(n int, msg string) string) {
	fl, ok := w.(http.Flusher)
	if !ok {
		http.Error(w, "no flusher", 500)
		return
	}
	w.Header().Set("Content-Type", "text/event-stream")
	w.Header().Set("Cache-Control", "no-cache")
	w.WriteHeader(200)
	if first != "" {
		io.WriteString(w, first)
	}
	fl.Flush()
	// take over from the stream in service, if any: it ends before this one is announced as up
	ls := &liveStream{stop: make(chan string, 1), gone: make(chan struct{})}
	s.mu.Lock()
	prev := s.cur
	s.cur = ls
	s.mu.Unlock()
	defer func() {
		s.mu.Lock()
		if s.cur == ls {
			s.cur = nil
		}
		s.mu.Unlock()
		close(ls.gone)
	}()
	if prev != nil {
		select {
		case prev.stop <- "superseded":
		default:
		}
		select {
		case <-prev.gone:
		case <-time.After(5 * time.Second):
		}
	}
	s.mu.Lock()
	s.ups++
	close(s.changed)
	s.changed = make(chan struct{})
	s.mu.Unlock()
	s.upOnce.Do(func() { close(s.streamUp) })
	n := 0
	for {
		select {
		case msg := <-s.push:
			n++
			io.WriteString(w, frame(n, msg))
			fl.Flush()
		case how := <-ls.stop:
			if how == "reset" {
				// drop the connection under the stream: no terminating chunk, the client's read fails
				if hj, ok := w.(http.Hijacker); ok {
					if conn, _, err := hj.Hijack(); err == nil {
						if tc, ok := conn.(*net.TCPConn); ok {
							tc.SetLinger(0)
						}
						conn.Close()
					}
				}
			}
			return
		case <-r.Context().Done():
			return
		case <-s.done:
			return
		}
	}
}

func (s *refServer) serveStreamable(w http.ResponseWriter, r *http.Request, rc rec) {
	if r.URL.Path != streamablePath {
		http.Error(w, "no such endpoint", 404)
		return
	}
	switch rc.Kind {
	case "request":
		if rc.RPC == "tools/list" && s.fail503.CompareAndSwap(true, false) {
			http.Error(w, "busy", 503)
			return
		}
		if rc.RPC == "tools/list" {
			if code := s.failTools.Swap(0); code != 0 {
				http.Error(w, "refused by the reference server", int(code))
				return
			}
		}
		if rc.RPC == "initialize" && s.failedFirst(w) {
			return
		}
		if rc.RPC == "initialize" {
			w.Header().Set("Mcp-Session-Id", s.sid)
			s.mu.Lock()
			s.issued = true
			s.mu.Unlock()
		}
		w.Header().Set("Content-Type", "application/json")
		fmt.Fprintf(w, `{"jsonrpc":"2.0","id":%s,"result":%s}`, rc.ID, resultFor(rc.RPC))
	case "notification", "answer":
		if rc.RPC == "notifications/roots/list_changed" {
			if code := s.failNotif.Swap(0); code != 0 {
				http.Error(w, "refused by the reference server", int(code))
				return
			}
		}
		w.WriteHeader(202)
	case "stream":
		s.stream(w, r, "", func(n int, msg string) string { return fmt.Sprintf("id: %d\ndata: %s\n\n", n, msg) })
	case "delete":
		s.mu.Lock()
		s.issued = false
		s.mu.Unlock()
		w.WriteHeader(200)
	default:
		http.Error(w, "bad request", 400)
	}
}

func (s *refServer) serveLegacy(w http.ResponseWriter, r *http.Request, rc rec) {
	switch {
	case r.URL.Path == ssePath && rc.Kind == "connect":
		if s.failedFirst(w) {
			return
		}
		s.stream(w, r, fmt.Sprintf("event: endpoint\ndata: %s?sessionId=%s\n\n", sseMsgPath, s.sid),
			func(n int, msg string) string { return fmt.Sprintf("event: message\ndata: %s\n\n", msg) })
	case r.URL.Path == sseMsgPath && r.Method == http.MethodPost:
		switch rc.Kind {
		case "request":
			if rc.RPC == "tools/list" && s.fail503.CompareAndSwap(true, false) {
				http.Error(w, "busy", 503)
				return
			}
			if rc.RPC == "tools/list" {
				if code := s.failTools.Swap(0); code != 0 {
					http.Error(w, "refused by the reference server", int(code))
					return
				}
			}
			w.WriteHeader(202)
			select {
			case s.push <- fmt.Sprintf(`{"jsonrpc":"2.0","id":%s,"result":%s}`, rc.ID, resultFor(rc.RPC)):
			case <-s.done:
			}
		case "notification", "answer":
			if rc.RPC == "notifications/roots/list_changed" {
				if code := s.failNotif.Swap(0); code != 0 {
					http.Error(w, "refused by the reference server", int(code))
					return
				}
			}
			w.WriteHeader(202)
		default:
			http.Error(w, "bad request", 400)
		}
	case r.URL.Path == ssePath || r.URL.Path == sseMsgPath:
		http.Error(w, "method not allowed", 405)
	default:
		http.Error(w, "no such endpoint", 404)
	}
}
