// Component reqpaths (property C19): the real Streamable and legacy SSE clients, configured with every combination of
// {static headers, before-request function, custom request handler, custom path, custom http.Client}, run call
// histories against a recording reference server. For every request that reaches the server the observation
// (verb, path, headers, session, handler, http.Client, before-request count and context) is compared with the
// Lean model's prediction from the regenerated facts (Mcp.Gen.ReqPaths), and checked directly against the
// property (implementation-level oracle, fingerprints reqpaths:<function>:<aspect>).
package main

import (
	"context"
	"encoding/json"
	"errors"
	"fmt"
	"io"
	"net/http"
	"os"
	"reflect"
	"runtime"
	"sort"
	"strconv"
	"strings"
	"sync"
	"sync/atomic"
	"time"

	mcp "trpc.group/trpc-go/trpc-mcp-go"
	"verif/harness/hk"
)

func main() {
	hk.Main(&hk.Component{Name: "reqpaths", Rule: "clients {Streamable with GET SSE, legacy SSE} x all 2^5 combinations of {static headers (2 keys, 3 values), before-request function, " +
		"custom HTTPReqHandler, custom path (client URL points at a wrong path, WithClientPath at the served one), custom http.Client} x call histories " +
		"{initialize, initialize failing at its first request (503 / useless content type / refused by the before-request function) and repeated with another context value, tools/list, tools/list retried after a 503, notification, answer to a server-issued roots/list and to an unknown server request, session DELETE; " +
		"a tools/list or a notification answered 404 / 400 / 401 / 403 / 500 / 503 at a chosen position, the server going on normally afterwards; session ids over the whole visible-ASCII alphabet 0x21..0x7E (leading / trailing '~', long ids); " +
		"Streamable: roots/list under a slow roots provider while the server closes / resets the listening stream or the stream is replaced, stream reopened} " +
		"(per combination: the shortest history emitting each request kind and the full history; edge histories; seeded random histories) against a recording reference server; plus, for every combination with a " +
		"before-request function and every request kind, a run in which the function fails for that kind; plus clients built from option LISTS in which " +
		"WithHTTPHeaders (different keys, the same key twice, overlapping keys), WithHTTPBeforeRequest, WithHTTPReqHandler and WithClientPath occur several times (fixed lists and seeded random ones). " +
		"non-trivial = a distinct (client, configuration, history) with at least one customisation configured and at least three observed requests, or a refused request",
		Run: run})
}

// ---------------------------------------------------------------- configuration

type cfg struct {
	Headers bool `json:"headers"`
	Before  bool `json:"before"`
	Handler bool `json:"handler"`
	Path    bool `json:"path"`
	Client  bool `json:"client"`
}

func (c cfg) bits() int {
	n := 0
	for _, b := range []bool{c.Headers, c.Before, c.Handler, c.Path, c.Client} {
		if b {
			n++
		}
	}
	return n
}

func allCfgs() []cfg {
	var out []cfg
	for m := 0; m < 32; m++ {
		out = append(out, cfg{m&1 != 0, m&2 != 0, m&4 != 0, m&8 != 0, m&16 != 0})
	}
	return out
}

var staticHeaders = http.Header{"X-Verif-A": {"a1"}, "X-Verif-B": {"b1", "b2"}}

const urlQuery = "tenant=verif"

const (
	hVia    = "X-Verif-Via"
	hClient = "X-Verif-Client"
	hBefore = "X-Verif-Before"
	hCtx    = "X-Verif-Ctx"
)

// markHandler is a request handler that marks the request and sends it with the client it was handed.
type markHandler struct {
	mark string
	sc   *scenario // nil: the scenario being run (handlers made by the default factory)
}

func (h *markHandler) Handle(ctx context.Context, c *http.Client, req *http.Request) (*http.Response, error) {
	req.Header.Add(hVia, h.mark)
	sc := h.sc
	if sc == nil {
		sc = curScenario.Load()
	}
	if sc != nil {
		sc.flight(1)
	}
	resp, err := c.Do(req.WithContext(ctx))
	if sc != nil {
		sc.flight(-1)
	}
	if err == nil && resp != nil && req.Method == http.MethodGet && sc != nil {
		// the client is done with a stream when it closes the body: an event the harness can wait for
		resp.Body = &watchBody{ReadCloser: resp.Body, sc: sc}
	}
	return resp, err
}

var curScenario atomic.Pointer[scenario]

type watchBody struct {
	io.ReadCloser
	sc   *scenario
	once sync.Once
}

func (b *watchBody) Close() error {
	err := b.ReadCloser.Close()
	b.once.Do(func() {
		b.sc.mu.Lock()
		b.sc.bodyCloses++
		close(b.sc.changed)
		b.sc.changed = make(chan struct{})
		b.sc.mu.Unlock()
	})
	return err
}

// gateRoots is a roots provider that can be made slow: when armed, the next GetRoots reports that it was entered
// (and whether it runs on the goroutine that reads the listening stream) and waits until it is released.
type gateRoots struct {
	inner mcp.RootsProvider
	gate  atomic.Pointer[rootsGate]
}

type rootsGate struct {
	entered chan bool // true: called from the stream's reader (handleGetSSEEvents is on the stack)
	release chan struct{}
}

func (g *gateRoots) GetRoots() []mcp.Root {
	if gt := g.gate.Swap(nil); gt != nil {
		buf := make([]byte, 1<<14)
		buf = buf[:runtime.Stack(buf, false)]
		gt.entered <- strings.Contains(string(buf), "handleGetSSEEvents")
		select {
		case <-gt.release:
		case <-time.After(2 * ceiling):
		}
	}
	return g.inner.GetRoots()
}

// markRT is the transport of the custom http.Client.
type markRT struct{ base http.RoundTripper }

func (t *markRT) RoundTrip(r *http.Request) (*http.Response, error) {
	r2 := r.Clone(r.Context())
	r2.Header.Add(hClient, "1")
	return t.base.RoundTrip(r2)
}

type ctxKey struct{}

var errBefore = errors.New("verif-before-request-refused")

var fnOf = map[string]map[string]string{
	"streamable": {"request": "send", "notification": "sendNotification", "stream": "connectGetSSE", "answer": "sendResponseToServer", "delete": "terminateSession"},
	"sse":        {"request": "sendRequestInternal", "notification": "sendNotification", "connect": "start", "answer": "sendResponseMessage"},
}

func background(kind string) bool { return kind == "answer" || kind == "stream" || kind == "connect" }

// ---------------------------------------------------------------- one scenario

type beforeCall struct {
	Kind, RPC, Tag string
}

type failTarget struct {
	Kind string // request kind the before-request function refuses
	RPC  string // for request / notification: the JSON-RPC method ("" = any)
}

type scenario struct {
	c      *hk.Ctx
	client string // streamable | sse
	cfg    cfg
	retry  bool
	fail   *failTarget

	srv *refServer
	cl  *mcp.Client
	tr  *http.Transport

	mu         sync.Mutex
	calls      []beforeCall
	changed    chan struct{}
	bodyCloses int // listening-stream bodies the client has closed
	inflight   int // requests handed to the request handler that have not been answered yet

	roots    *gateRoots
	initDone bool      // a handshake has succeeded
	opts     []optSpec // options runs: the client is built from this list instead of cfg

	histLen int

	nonce      atomic.Int64
	nonces     map[string]bool            // nonces already seen on an earlier request
	refuseOnce atomic.Pointer[failTarget] // the before-request function refuses the next matching request, once
	noStream   bool                       // Streamable: a failed initialize answer disabled the listening stream for good
}

// Findings are collected and handed to the kit at the end, one witness per fingerprint: the one in which the
// customisation concerned is configured, with the fewest other customisations and the shortest history.
type witness struct {
	score [3]int
	v     hk.Violation
}

var witnesses = map[string]witness{}

func report(cf cfg, aspect string, histLen int, v hk.Violation) {
	relevant := map[string]bool{"path": cf.Path, "staticHeaders": cf.Headers, "handler": cf.Handler, "httpClient": cf.Client,
		"beforeRequest": cf.Before, "ctx": cf.Before, "errorBlocks": cf.Before}
	sc := [3]int{1, cf.bits(), histLen}
	if r, ok := relevant[aspect]; !ok || r {
		sc[0] = 0
	}
	if old, ok := witnesses[v.Fingerprint]; ok {
		for i := range sc {
			if sc[i] != old.score[i] {
				if sc[i] > old.score[i] {
					return
				}
				break
			}
			if i == len(sc)-1 {
				return
			}
		}
	}
	witnesses[v.Fingerprint] = witness{sc, v}
}

func flushWitnesses(c *hk.Ctx) {
	var fps []string
	for fp := range witnesses {
		fps = append(fps, fp)
	}
	sort.Strings(fps)
	for _, fp := range fps {
		c.Violate(witnesses[fp].v)
	}
}

func (sc *scenario) before(ctx context.Context, req *http.Request) error {
	var body []byte
	if req.GetBody != nil {
		if rc, err := req.GetBody(); err == nil {
			body, _ = io.ReadAll(rc)
			rc.Close()
		}
	}
	kind, rpc, _ := classify(sc.client == "sse", req.Method, body)
	tag, _ := ctx.Value(ctxKey{}).(string)
	sc.mu.Lock()
	sc.calls = append(sc.calls, beforeCall{kind, rpc, tag})
	close(sc.changed)
	sc.changed = make(chan struct{})
	sc.mu.Unlock()
	if sc.fail != nil && sc.fail.Kind == kind && (sc.fail.RPC == "" || sc.fail.RPC == rpc) {
		return errBefore
	}
	if ft := sc.refuseOnce.Load(); ft != nil && ft.Kind == kind && (ft.RPC == "" || ft.RPC == rpc) && sc.refuseOnce.CompareAndSwap(ft, nil) {
		return errBefore
	}
	req.Header.Add(hBefore, strconv.FormatInt(sc.nonce.Add(1), 10)) // a fresh nonce per call: a copied header is no proof of a call
	if tag == "" {
		tag = "-"
	}
	req.Header.Add(hCtx, tag)
	return nil
}

func (sc *scenario) targetCalls() int {
	sc.mu.Lock()
	defer sc.mu.Unlock()
	n := 0
	for _, b := range sc.calls {
		if sc.fail != nil && b.Kind == sc.fail.Kind && (sc.fail.RPC == "" || sc.fail.RPC == b.RPC) {
			n++
		}
	}
	return n
}

const ceiling = 5 * time.Second

// waitTargetOrRec waits until the before-request function has been called for the failing target or a record
// satisfying pred has arrived.
func (sc *scenario) waitTargetOrRec(pred func(rec) bool) {
	deadline := time.After(streamCeiling())
	for {
		if sc.targetCalls() > 0 {
			return
		}
		sc.mu.Lock()
		ch1 := sc.changed
		sc.mu.Unlock()
		sc.srv.mu.Lock()
		for _, r := range sc.srv.recs {
			if pred(r) {
				sc.srv.mu.Unlock()
				return
			}
		}
		ch2 := sc.srv.changed
		sc.srv.mu.Unlock()
		if sc.targetCalls() > 0 {
			return
		}
		select {
		case <-ch1:
		case <-ch2:
		case <-deadline:
			return
		}
	}
}

func (sc *scenario) open(sid string) error {
	legacy := sc.client == "sse"
	if legacy {
		sid = urlSafe(sid)
	}
	sc.srv = newRefServer(legacy, sid)
	sc.changed = make(chan struct{})
	curScenario.Store(sc)
	good := streamablePath
	if legacy {
		good = ssePath
	}
	url := sc.srv.ts.URL + good + "?" + urlQuery // the configured URL carries a query, which is part of where requests must go
	opts := []mcp.ClientOption{mcp.WithClientLogger(hk.QuietLogger{})}
	if !legacy {
		opts = append(opts, mcp.WithClientGetSSEEnabled(true))
	}
	if sc.opts != nil {
		var extra []mcp.ClientOption
		if extra, url = sc.optionList(url, good); true {
			opts = append(opts, extra...)
		}
	}
	if sc.cfg.Headers && sc.opts == nil {
		opts = append(opts, mcp.WithHTTPHeaders(staticHeaders.Clone()))
	}
	if sc.cfg.Before && sc.opts == nil {
		opts = append(opts, mcp.WithHTTPBeforeRequest(sc.before))
	}
	if sc.cfg.Handler && sc.opts == nil {
		opts = append(opts, mcp.WithHTTPReqHandler(&markHandler{mark: "custom"}))
	}
	if sc.cfg.Path && sc.opts == nil {
		url = sc.srv.ts.URL + wrongPath + "?" + urlQuery
		opts = append(opts, mcp.WithClientPath(good))
	}
	if sc.cfg.Client {
		sc.tr = &http.Transport{MaxIdleConnsPerHost: 8, DisableCompression: true}
		opts = append(opts, mcp.VerifWithHTTPClient(&http.Client{Transport: &markRT{sc.tr}}))
	}
	if sc.retry {
		opts = append(opts, mcp.WithRetry(mcp.RetryConfig{MaxRetries: 2, InitialBackoff: time.Millisecond, BackoffFactor: 1, MaxBackoff: 5 * time.Millisecond}))
	}
	info := mcp.Implementation{Name: "verif-client", Version: "1"}
	var err error
	if legacy {
		sc.cl, err = mcp.NewSSEClient(url, info, opts...)
	} else {
		sc.cl, err = mcp.NewClient(url, info, opts...)
	}
	if err != nil {
		return err
	}
	sc.roots = &gateRoots{inner: mcp.NewDefaultRootsProvider(mcp.Root{URI: "file:///verif", Name: "verif"})}
	sc.cl.SetRootsProvider(sc.roots)
	return nil
}

func (sc *scenario) shut() {
	if sc.cl != nil {
		sc.cl.Close()
	}
	sc.srv.close()
	if sc.tr != nil {
		sc.tr.CloseIdleConnections()
	}
	if t, ok := http.DefaultTransport.(*http.Transport); ok {
		t.CloseIdleConnections()
	}
}

func tagged(tag string) (context.Context, context.CancelFunc) {
	return context.WithTimeout(context.WithValue(context.Background(), ctxKey{}, tag), 20*time.Second)
}

// opWindow: the records [From, To) arrived while operation Op (with context tag Tag) ran.
type opWindow struct {
	Succeeded bool // a handshake operation that completed
	Reopened  bool // the listening stream was (re)opened with this operation's context
	Op, Tag   string
	InitTag   string // tag of the successful handshake preceding (or being) this operation
	From, To  int
	Err       error
}

// do runs one operation of a history and returns its window of records.
func (sc *scenario) do(op string, i int, nextID *int) opWindow {
	w := opWindow{Op: op, Tag: fmt.Sprintf("%s#%d", op, i+1), From: len(sc.srv.snapshot())} // context value of the i-th operation: i+1
	ctx, cancel := tagged(w.Tag)
	defer cancel()
	switch op {
	case "initFail503", "initFailType", "initFailRefused":
		// a handshake that fails at its first request (legacy: the connect; Streamable: the initialize POST)
		switch op {
		case "initFail503":
			sc.srv.failInit.Store("503")
		case "initFailType":
			sc.srv.failInit.Store("type")
		default:
			ft := &failTarget{Kind: "request", RPC: "initialize"}
			if sc.client == "sse" {
				ft = &failTarget{Kind: "connect"}
			}
			sc.refuseOnce.Store(ft)
		}
		_, w.Err = sc.cl.Initialize(ctx, &mcp.InitializeRequest{})
		if sc.srv.failInit.Swap("") == "" && op != "initFailRefused" && sc.client == "streamable" {
			sc.noStream = true // the failure was delivered: the transport now believes the server is stateless
		}
		sc.refuseOnce.Store(nil)
		if w.Err == nil {
			w.Succeeded = true // unexpectedly successful: shows up in the trace
		}
	case "initialize":
		_, w.Err = sc.cl.Initialize(ctx, &mcp.InitializeRequest{})
		if w.Err == nil {
			w.Succeeded = true
			sc.initDone = true
		}
		if w.Err == nil && sc.client == "streamable" && !sc.noStream {
			// the listening stream is opened by a goroutine: wait until the GET arrived (any path) — or, when the
			// before-request function refuses GETs, until it has been asked
			if sc.fail != nil && sc.fail.Kind == "stream" {
				sc.waitTargetOrRec(func(r rec) bool { return r.Kind == "stream" })
			} else if !sc.srv.waitRec(func(r rec) bool { return r.Kind == "stream" }, streamCeiling()) {
				streamTimeouts++
			}
			// … and, when it arrived at the served path, until the server has the stream ready for pushing
			for _, r := range sc.srv.snapshot() {
				if r.Kind == "stream" && r.Path == streamablePath {
					select {
					case <-sc.srv.streamUp:
					case <-time.After(streamCeiling()):
					}
				}
			}
		}
	case "tools":
		_, w.Err = sc.cl.ListTools(ctx, &mcp.ListToolsRequest{})
	case "toolsRetry":
		sc.srv.fail503.Store(true)
		_, w.Err = sc.cl.ListTools(ctx, &mcp.ListToolsRequest{})
		sc.srv.fail503.Store(false)
	case "notify":
		w.Err = sc.cl.SendRootsListChangedNotification(ctx)
	case "toolsErr404", "toolsErr400", "toolsErr401", "toolsErr403", "toolsErr500", "toolsErr503":
		// the server answers this tools/list with an error status and then goes on normally
		code, _ := strconv.Atoi(strings.TrimPrefix(op, "toolsErr"))
		sc.srv.failTools.Store(int32(code))
		_, w.Err = sc.cl.ListTools(ctx, &mcp.ListToolsRequest{})
		sc.srv.failTools.Store(0)
	case "notifyErr404", "notifyErr400", "notifyErr401", "notifyErr403", "notifyErr500", "notifyErr503":
		code, _ := strconv.Atoi(strings.TrimPrefix(op, "notifyErr"))
		sc.srv.failNotif.Store(int32(code))
		w.Err = sc.cl.SendRootsListChangedNotification(ctx)
		sc.srv.failNotif.Store(0)
	case "roots", "rootsUnknown":
		if !sc.srv.alive() {
			w.Err = errors.New("no listening stream to push on")
			w.To = len(sc.srv.snapshot())
			return w
		}
		*nextID++
		id := fmt.Sprintf("%d", *nextID)
		method := "roots/list"
		if op == "rootsUnknown" {
			method = "sampling/createMessage"
		}
		sc.srv.push <- fmt.Sprintf(`{"jsonrpc":"2.0","id":%s,"method":"%s"}`, id, method)
		sc.waitTargetOrRecIf(sc.fail != nil && sc.fail.Kind == "answer", func(r rec) bool { return r.Kind == "answer" && r.ID == id })
	case "terminate":
		w.Err = sc.cl.TerminateSession(ctx)
	case "rootsSlowEnd", "rootsSlowReset":
		// the server sends roots/list and ENDS the listening stream while the roots provider is still working
		if sc.client != "streamable" || !sc.srv.alive() {
			w.Err = errors.New("no listening stream to push on")
			break
		}
		gt, id, onReader, ok := sc.pushSlowRoots(nextID)
		if !ok {
			w.Err = errors.New("the roots provider was not asked")
			break
		}
		sc.mu.Lock()
		closes := sc.bodyCloses
		sc.mu.Unlock()
		sc.srv.endStream(op == "rootsSlowReset")
		if !onReader {
			// the answer is being built off the stream's reader: let the reader see the end of the stream first (it
			// closes the body when it is done), and give its exit path a moment — this only sharpens the case, it is
			// no precondition of any verdict
			sc.waitBodyClose(closes + 1)
			time.Sleep(2 * time.Millisecond)
		}
		close(gt.release)
		sc.srv.waitRec(func(r rec) bool { return r.Kind == "answer" && r.ID == id }, streamCeiling())
	case "reopen":
		if sc.client != "streamable" {
			break
		}
		sc.reopen(ctx, &w)
	case "rootsSlowReplace":
		// the server sends roots/list; the listening stream is replaced while the roots provider is still working
		if sc.client != "streamable" {
			break
		}
		if !sc.srv.alive() {
			sc.reopen(ctx, &w)
			break
		}
		gt, id, _, ok := sc.pushSlowRoots(nextID)
		if !ok {
			w.Err = errors.New("the roots provider was not asked")
			break
		}
		sc.reopen(ctx, &w)
		close(gt.release)
		sc.srv.waitRec(func(r rec) bool { return r.Kind == "answer" && r.ID == id }, streamCeiling())
	}
	w.To = len(sc.srv.snapshot())
	return w
}

// pushSlowRoots arms the roots provider, pushes a roots/list request and waits until the provider has been entered.
func (sc *scenario) pushSlowRoots(nextID *int) (gt *rootsGate, id string, onReader, ok bool) {
	gt = &rootsGate{entered: make(chan bool, 1), release: make(chan struct{})}
	sc.roots.gate.Store(gt)
	*nextID++
	id = fmt.Sprintf("%d", *nextID)
	sc.srv.push <- fmt.Sprintf(`{"jsonrpc":"2.0","id":%s,"method":"roots/list"}`, id)
	select {
	case onReader = <-gt.entered:
		return gt, id, onReader, true
	case <-time.After(streamCeiling()):
		sc.roots.gate.Store(nil)
		close(gt.release)
		return gt, id, false, false
	}
}

// reopen opens a new listening stream with the operation's context (hook VerifReopenGetStream) and waits until the
// server has it in service (a GET is only sent when the client has a session id).
func (sc *scenario) reopen(ctx context.Context, w *opWindow) {
	// Replacing the stream cancels the old stream's context, which the answers inherit: an answer POST that has
	// reached the server but whose response the client has not read yet would be cancelled under the transport's
	// feet (and, sharing the http.Transport, can take the new GET's connection attempt with it — seen as
	// "context canceled" on the new GET). The server record alone does not say the client is done with the POST.
	sc.waitIdle()
	ups := sc.srv.upCount()
	expectGet := sc.srv.isIssued()
	if !mcp.VerifReopenGetStream(ctx, sc.cl) {
		w.Err = errors.New("client has no listening stream")
		return
	}
	w.Reopened = sc.initDone
	if expectGet {
		if !sc.srv.waitUps(ups+1, streamCeiling()) {
			w.Err = errors.New("the reopened listening stream did not come up")
			streamTimeouts++
		}
	}
}

// flight counts the requests the client has handed to its request handler and not got an answer for yet.
func (sc *scenario) flight(d int) {
	sc.mu.Lock()
	sc.inflight += d
	close(sc.changed)
	sc.changed = make(chan struct{})
	sc.mu.Unlock()
}

// waitIdle waits (event based) until no request of the client is in flight.
func (sc *scenario) waitIdle() bool {
	deadline := time.After(ceiling)
	for {
		sc.mu.Lock()
		ok, ch := sc.inflight <= 0, sc.changed
		sc.mu.Unlock()
		if ok {
			return true
		}
		select {
		case <-ch:
		case <-deadline:
			return false
		}
	}
}

func (sc *scenario) waitBodyClose(n int) bool {
	deadline := time.After(2 * time.Second)
	for {
		sc.mu.Lock()
		ok, ch := sc.bodyCloses >= n, sc.changed
		sc.mu.Unlock()
		if ok {
			return true
		}
		select {
		case <-ch:
		case <-deadline:
			return false
		}
	}
}

// streamCeiling: how long to wait for the listening stream's GET after a successful handshake. On the unchanged tree
// the GET always comes (the wait is on its arrival). When it has failed to come a few times the finding is already
// there (the trace lacks the stream): later scenarios then wait only briefly, so that a broken tree does not cost
// five seconds per scenario.
var streamTimeouts int

func streamCeiling() time.Duration {
	switch {
	case streamTimeouts >= 12:
		return 30 * time.Millisecond
	case streamTimeouts >= 3:
		return 200 * time.Millisecond
	}
	return ceiling
}

func (sc *scenario) waitTargetOrRecIf(target bool, pred func(rec) bool) {
	if target {
		sc.waitTargetOrRec(pred)
		return
	}
	sc.srv.waitRec(pred, streamCeiling())
}

// observe renders one recorded request in the shape of the Lean model's Obs.
func (sc *scenario) observe(r rec, w opWindow) map[string]any {
	fn := fnOf[sc.client][r.Kind]
	if fn == "" {
		fn = "?" + r.Kind
	}
	pathOK, sessionOK := false, false
	if sc.client == "streamable" {
		pathOK = r.Path == streamablePath && r.Query == urlQuery
		sessionOK = !r.Issued || r.Hdr.Get("Mcp-Session-Id") == sc.srv.sid
	} else {
		if r.Kind == "connect" {
			pathOK = r.Path == ssePath && r.Query == urlQuery
			sessionOK = true
		} else {
			pathOK = r.Path == sseMsgPath
			sessionOK = r.Query == "sessionId="+sc.srv.sid
		}
	}
	headersOK := true
	if sc.cfg.Headers {
		for k, vs := range staticHeaders {
			if !reflect.DeepEqual(r.Hdr.Values(k), vs) {
				headersOK = false
			}
		}
	}
	via := "bare"
	switch vs := r.Hdr.Values(hVia); {
	case len(vs) == 1 && (vs[0] == "custom" || vs[0] == "factory"):
		via = vs[0]
	case len(vs) > 1:
		via = "unknown"
	}
	// how often the before-request function ran for THIS request: nonces it put on it that no earlier request carried
	nBefore := 0
	if sc.nonces == nil {
		sc.nonces = map[string]bool{}
	}
	for _, n := range r.Hdr.Values(hBefore) {
		if !sc.nonces[n] {
			sc.nonces[n] = true
			nBefore++
		}
	}
	ctx := "unseen"
	if nBefore > 0 {
		tags := r.Hdr.Values(hCtx)
		want := w.Tag
		good := "caller"
		if r.Kind == "connect" {
			good = "handshake" // the legacy connect is made by, and inherits from, the operation that starts the transport
		} else if background(r.Kind) {
			want, good = w.InitTag, "handshake"
		}
		switch {
		case len(tags) >= 1 && allEq(tags, want):
			ctx = good
		case len(tags) >= 1 && allEq(tags, "-"):
			ctx = "none"
		default:
			ctx = "other"
		}
	}
	var seen any // the context value the before-request function saw (the number after '#' in the tag)
	if tags := r.Hdr.Values(hCtx); nBefore > 0 && len(tags) > 0 {
		if i := strings.LastIndex(tags[0], "#"); i >= 0 {
			if n, err := strconv.Atoi(tags[0][i+1:]); err == nil && (ctx == "caller" || ctx == "handshake" || ctx == "other") {
				seen = n
			}
		}
	}
	if ctx == "other" {
		// the model has no value for a context it cannot classify; keep the class as the disagreement
		seen = nil
	}
	return map[string]any{"seen": seen, "fn": fn, "kind": r.Kind, "verb": r.Method, "path": pathOK, "headers": headersOK, "session": sessionOK,
		"via": via, "client": len(r.Hdr.Values(hClient)) > 0, "before": nBefore, "ctx": ctx}
}

func allEq(xs []string, v string) bool {
	for _, x := range xs {
		if x != v {
			return false
		}
	}
	return true
}

// judge is the implementation-level oracle for one observed request: the property itself.
func (sc *scenario) judge(o map[string]any, input any, r rec, w opWindow) {
	fn := o["fn"].(string)
	bad := func(aspect, what string) {
		report(sc.cfg, aspect, sc.histLen, hk.Violation{Fingerprint: "reqpaths:" + fn + ":" + aspect,
			What:  fmt.Sprintf("%s client, %s request built by %s: %s", sc.client, o["kind"], fn, what),
			Input: input, Observed: o})
	}
	wantVerb := map[string]string{"request": "POST", "notification": "POST", "answer": "POST", "stream": "GET", "connect": "GET", "delete": "DELETE"}[o["kind"].(string)]
	if o["verb"] != wantVerb {
		bad("verb", "wrong HTTP method")
	}
	if !o["path"].(bool) {
		bad("path", fmt.Sprintf("did not go to the configured URL (custom path ignored, or the URL's query dropped): %s?%s", r.Path, r.Query))
	}
	if !o["headers"].(bool) {
		bad("staticHeaders", "configured static headers missing")
	}
	if !o["session"].(bool) {
		bad("sessionId", "issued session id missing")
	}
	wantVia := "factory"
	if sc.cfg.Handler {
		wantVia = "custom"
	}
	if o["via"] != wantVia {
		bad("handler", fmt.Sprintf("did not go through the configured request handler (went via %v, want %s)", o["via"], wantVia))
	}
	if o["client"].(bool) != sc.cfg.Client {
		bad("httpClient", "not sent with the configured http.Client")
	}
	if sc.cfg.Before {
		if o["before"].(int) != 1 {
			bad("beforeRequest", fmt.Sprintf("before-request function ran %d times for this request, want exactly 1", o["before"]))
		} else {
			want := "caller"
			if background(o["kind"].(string)) {
				want = "handshake"
			}
			if o["ctx"] != want {
				wantTag := w.Tag
				if o["kind"] == "answer" || o["kind"] == "stream" {
					wantTag = w.InitTag
				}
				bad("ctx", fmt.Sprintf("before-request function saw context value %q (%v), want the %s's %q", strings.Join(r.Hdr.Values(hCtx), ","), o["ctx"], want, wantTag))
			}
		}
	}
}

// runHistory runs one full history and emits the trace op.
func runHistory(c *hk.Ctx, client string, cf cfg, retry bool, hist []string, sid string) {
	sc := &scenario{c: c, client: client, cfg: cf, retry: retry, histLen: len(hist)}
	input := map[string]any{"client": client, "cfg": cf, "hist": hist, "retry": retry}
	if err := sc.open(sid); err != nil {
		sc.srv.close()
		c.Emit(map[string]any{"c": "reqpaths.trace", "client": client, "cfg": cf, "hist": hist}, map[string]any{"error": err.Error()}, false)
		return
	}
	var wins []opWindow
	nextID := 9000
	initTag := ""
	for i, op := range hist {
		w := sc.do(op, i, &nextID)
		if w.Succeeded || w.Reopened {
			initTag = w.Tag // the handshake (or reopened stream) whose context the background requests inherit
		}
		w.InitTag = initTag
		wins = append(wins, w)
	}
	sc.shut()
	recs := sc.srv.snapshot()
	reqs := []any{}
	for _, w := range wins {
		for _, r := range recs[w.From:w.To] {
			o := sc.observe(r, w)
			reqs = append(reqs, o)
			sc.judge(o, input, r, w)
		}
	}
	// anything that arrived outside every window (must not happen: every wait is on the arrival)
	last := 0
	if len(wins) > 0 {
		last = wins[len(wins)-1].To
	}
	for _, r := range recs[last:] {
		o := sc.observe(r, opWindow{Tag: "late", InitTag: initTag})
		o["late"] = true
		reqs = append(reqs, o)
	}
	nontrivial := cf.bits() > 0 && len(reqs) >= 3
	c.Emit(map[string]any{"c": "reqpaths.trace", "client": client, "cfg": cf, "hist": hist}, map[string]any{"reqs": reqs}, nontrivial,
		"client:"+client, fmt.Sprintf("customisations:%d", cf.bits()), fmt.Sprintf("requests:%d", len(reqs)))
}

// runBlocked: the before-request function refuses one request kind.
func runBlocked(c *hk.Ctx, client string, cf cfg, kind, variant string, sid string) {
	ft := &failTarget{Kind: kind}
	// the history up to and including the operation that emits the refused request
	var hist []string
	switch variant {
	case "handshake": // the refused request is part of the handshake itself
		hist = []string{"initialize"}
		if kind == "request" {
			ft.RPC = "initialize"
		} else if kind == "notification" {
			ft.RPC = "notifications/initialized"
		}
	default:
		switch kind {
		case "request":
			hist, ft.RPC = []string{"initialize", "tools"}, "tools/list"
		case "notification":
			hist, ft.RPC = []string{"initialize", "notify"}, "notifications/roots/list_changed"
		case "answer":
			hist = []string{"initialize", "roots", "tools"} // the trailing tools/list is a synchronisation point
		case "stream":
			hist = []string{"initialize", "tools"}
		case "delete":
			hist = []string{"initialize", "terminate"}
		}
	}
	sc := &scenario{c: c, client: client, cfg: cf, fail: ft}
	op := map[string]any{"c": "reqpaths.blocked", "client": client, "kind": kind, "cfg": cf, "variant": variant}
	if err := sc.open(sid); err != nil {
		sc.srv.close()
		c.Emit(op, map[string]any{"error": err.Error()}, false)
		return
	}
	nextID := 9000
	var errs []error
	for i, o := range hist {
		w := sc.do(o, i, &nextID)
		errs = append(errs, w.Err)
	}
	sc.shut()
	// the operations leading up to the refused request must have worked, otherwise nothing can be concluded about
	// the refused request itself (reported as a disagreement with the model, not as a finding about this path)
	emitter := len(hist) - 1
	if kind == "answer" {
		emitter = 1
	} else if kind == "stream" {
		emitter = 0
	}
	for i := 0; i < emitter; i++ {
		if errs[i] != nil {
			c.Emit(op, map[string]any{"inconclusive": fmt.Sprintf("%s failed before the refused request could be emitted: %v", hist[i], errs[i])}, false)
			return
		}
	}
	if (kind == "answer" || kind == "stream") && errs[0] != nil {
		c.Emit(op, map[string]any{"inconclusive": fmt.Sprintf("handshake failed: %v", errs[0])}, false)
		return
	}
	sent := false
	for _, r := range sc.srv.snapshot() {
		if r.Kind == kind && (ft.RPC == "" || r.RPC == ft.RPC) {
			sent = true
		}
	}
	fn := fnOf[client][kind]
	var failed any
	if kind != "answer" && kind != "stream" {
		// the operation that emits the refused request
		failed = errs[emitter] != nil && strings.Contains(errs[emitter].Error(), errBefore.Error())
	}
	nb := sc.targetCalls()
	impl := map[string]any{"fn": fn, "before": nb, "sent": sent, "failed": failed}
	input := map[string]any{"client": client, "cfg": cf, "refused": map[string]any{"kind": kind, "variant": variant, "rpc": ft.RPC}, "hist": hist}
	bad := func(aspect, what string) {
		report(cf, aspect, len(hist), hk.Violation{Fingerprint: "reqpaths:" + fn + ":" + aspect,
			What: fmt.Sprintf("%s client, %s request built by %s, before-request function returning an error: %s", client, kind, fn, what), Input: input, Observed: impl})
	}
	if nb == 0 && (!sent || (failed != nil && errs[emitter] != nil)) {
		// the refused request was never built (the operation broke earlier, or emitted nothing): no conclusion
		// about this path; the model predicts otherwise, so this surfaces as a disagreement
		c.Emit(op, map[string]any{"inconclusive": fmt.Sprintf("the %s request was never built (operation error: %v)", kind, errs[emitter]), "impl": impl}, false)
		return
	}
	switch {
	case nb == 0:
		bad("beforeRequest", "the function was never asked")
	case sent:
		bad("errorBlocks", "the request was sent although the function refused it")
	case failed == false:
		bad("errorBlocks", "the operation did not fail with the function's error")
	case nb != 1:
		bad("beforeRequest", fmt.Sprintf("the function ran %d times for one refused request", nb))
	}
	c.Emit(op, impl, true, "blocked:"+client+":"+kind)
}

// ---------------------------------------------------------------- replay of one recorded input

func replay(c *hk.Ctx, sid func() string) {
	b, err := os.ReadFile(hk.ReplayFile)
	if err != nil {
		panic(err)
	}
	var rf struct {
		Input struct {
			Client  string   `json:"client"`
			Cfg     cfg      `json:"cfg"`
			Hist    []string `json:"hist"`
			Retry   bool     `json:"retry"`
			Refused *struct {
				Kind    string `json:"kind"`
				Variant string `json:"variant"`
			} `json:"refused"`
			Options *[]struct {
				K    string  `json:"k"`
				H    [][]any `json:"h"`
				ID   int     `json:"id"`
				Good bool    `json:"good"`
			} `json:"options"`
		} `json:"input"`
	}
	if err := json.Unmarshal(b, &rf); err != nil {
		panic(err)
	}
	in := rf.Input
	if in.Client == "" {
		panic("replay file has no reqpaths input")
	}
	if in.Options != nil {
		opts := []optSpec{}
		for _, o := range *in.Options {
			sp := optSpec{K: o.K, ID: o.ID, Good: o.Good}
			for _, kv := range o.H {
				if len(kv) != 2 {
					continue
				}
				k, _ := kv[0].(string)
				var vals []string
				if l, ok := kv[1].([]any); ok {
					for _, v := range l {
						if sv, ok := v.(string); ok {
							vals = append(vals, sv)
						}
					}
				}
				sp.H = append(sp.H, hdrKV{k, vals})
			}
			opts = append(opts, sp)
		}
		runOptions(c, in.Client, opts, sid())
		return
	}
	if in.Refused != nil {
		runBlocked(c, in.Client, in.Cfg, in.Refused.Kind, in.Refused.Variant, sid())
		return
	}
	runHistory(c, in.Client, in.Cfg, in.Retry, in.Hist, sid())
}

// withoutRefusals drops the refused handshakes from a history when no before-request function is configured.
func withoutRefusals(h []string, cf cfg) []string {
	if cf.Before {
		return h
	}
	var out []string
	for _, op := range h {
		if op != "initFailRefused" {
			out = append(out, op)
		}
	}
	return out
}

// visibleSid: the n-th session id. Ids range over the whole visible-ASCII alphabet 0x21..0x7E (every character many
// times over a run: a window of 9 characters sliding by 7), some start or end with '~' / '!' / '"', every 10th is
// long (the whole alphabet twice). The legacy server puts its id into the endpoint's query: urlSafe() maps it.
func visibleSid(seed int64, n int) string {
	const first, last = 0x21, 0x7e
	span := last - first + 1
	var b []byte
	for i := 0; i < 9; i++ {
		b = append(b, byte(first+(n*7+i)%span))
	}
	id := fmt.Sprintf("s%d.%d.", seed, n) + string(b)
	switch n % 5 {
	case 0:
		id = "~" + id
	case 1:
		id += "~"
	case 2:
		id = "!" + id + "\""
	}
	if n%10 == 3 {
		var all []byte
		for k := 0; k < 2*span; k++ {
			all = append(all, byte(first+k%span))
		}
		id += string(all)
	}
	return id
}

// urlSafe: the same id restricted to characters that travel unchanged in a URL query.
func urlSafe(id string) string {
	var b []byte
	for i := 0; i < len(id); i++ {
		c := id[i]
		switch {
		case c >= '0' && c <= '9', c >= 'a' && c <= 'z', c >= 'A' && c <= 'Z', c == '-', c == '.', c == '_', c == '~':
			b = append(b, c)
		default:
			b = append(b, "0123456789abcdef"[c>>4], "0123456789abcdef"[c&15])
		}
	}
	return string(b)
}

// ---------------------------------------------------------------- the search

var fullHistory = []string{"initialize", "tools", "toolsRetry", "notify", "roots", "rootsUnknown", "terminate"}

func run(c *hk.Ctx) {
	// every handler that is not explicitly configured comes from the (replaceable) default factory: mark it, so
	// that "default handler" and "no handler at all" can be told apart on the wire
	mcp.NewHTTPReqHandler = func(string, ...mcp.HTTPReqHandlerOption) mcp.HTTPReqHandler { return &markHandler{mark: "factory"} }
	sidN := 0
	sid := func() string { sidN++; return visibleSid(c.Seed, sidN) }
	clients := []string{"streamable", "sse"}
	cfgs := allCfgs()
	sort.SliceStable(cfgs, func(i, j int) bool { return cfgs[i].bits() < cfgs[j].bits() })

	defer flushWitnesses(c)
	if hk.ReplayFile != "" {
		replay(c, sid)
		return
	}

	// 0. every combination x the shortest history that emits each kind of request (few customisations first, so
	//    that the witness of a finding is small)
	for _, h := range [][]string{{"initialize"}, {"initialize", "tools"}, {"initialize", "notify"}, {"initialize", "roots"}, {"initialize", "rootsUnknown"}, {"initialize", "terminate"}} {
		for _, cf := range cfgs {
			for _, cl := range clients {
				runHistory(c, cl, cf, false, h, sid())
			}
		}
	}

	// 1. every combination x the full history (retry configured, so that a repeated attempt is seen too)
	for _, cl := range clients {
		for _, cf := range cfgs {
			runHistory(c, cl, cf, true, fullHistory, sid())
		}
	}
	// 2. edge histories: traffic before / twice the handshake, termination in the middle, no retry configured
	edge := [][]string{
		{"notify", "initialize", "initialize", "tools"},
		{"tools", "terminate", "initialize", "roots", "terminate", "tools", "roots", "notify", "terminate"},
		{"initialize", "rootsUnknown", "roots", "roots", "tools"},
	}
	for _, cl := range clients {
		for _, h := range edge {
			n := 4
			if c.Thorough() {
				n = 32
			}
			for _, k := range c.Rng.Perm(32)[:n] {
				runHistory(c, cl, cfgs[k], false, h, sid())
			}
		}
	}
	// 2b. failed handshakes (first request answered 503 / with a useless content type / refused by the before-request
	//     function) followed by a successful one called with another context value, then every kind of request:
	//     nothing of a failed attempt's context may survive into the connect, the listening stream or the answers
	failed := [][]string{
		{"initFail503", "initialize", "tools", "notify", "roots", "rootsUnknown", "terminate"},
		{"initFailType", "initialize", "roots", "tools", "notify", "terminate"},
		{"initFailRefused", "initialize", "tools", "notify", "roots", "rootsUnknown", "terminate"},
		{"initFailRefused", "initFail503", "initFailRefused", "initFailType", "initialize", "initialize", "roots", "tools"},
		{"initFailRefused", "initFailRefused", "initialize", "roots", "notify", "terminate", "roots"},
	}
	for _, h := range failed {
		for _, cf := range cfgs {
			for _, cl := range clients {
				runHistory(c, cl, cf, false, withoutRefusals(h, cf), sid())
			}
		}
	}
	// 2b'. the server answers one request / notification (at a chosen position) with an error status and then goes on:
	//      everything later still carries the issued session id, the static headers and meets the before-request function
	for _, code := range []string{"404", "400", "401", "403", "500", "503"} {
		hs := [][]string{
			{"initialize", "toolsErr" + code, "tools", "notify", "roots", "terminate"},
			{"initialize", "tools", "notifyErr" + code, "notify", "tools", "rootsUnknown", "terminate"},
			{"initialize", "toolsErr" + code, "notifyErr" + code, "toolsErr" + code, "roots", "tools", "notify", "terminate", "tools"},
		}
		for i, h := range hs {
			for _, cl := range clients {
				for _, k := range c.Rng.Perm(32)[:6] {
					runHistory(c, cl, cfgs[k], false, h, sid())
				}
				// always: everything configured, and nothing configured
				if i == 0 {
					runHistory(c, cl, cfg{true, true, true, true, true}, false, h, sid())
					runHistory(c, cl, cfg{}, false, h, sid())
				}
			}
		}
	}
	// 2c. Streamable: the server ends (closes / resets) the listening stream while a slow roots provider is still working
	//     on the request it has just sent; the stream is reopened; the stream is replaced under a slow provider
	ended := [][]string{
		{"initialize", "rootsSlowEnd"},
		{"initialize", "rootsSlowReset"},
		{"initialize", "rootsSlowReplace", "roots"},
		{"initialize", "tools", "rootsSlowEnd", "roots", "tools", "reopen", "roots", "rootsSlowReplace", "rootsUnknown", "rootsSlowReset", "notify", "rootsSlowEnd", "terminate"},
		{"initFail503", "initialize", "reopen", "roots", "rootsSlowEnd", "reopen", "rootsSlowReset"},
	}
	for _, h := range ended {
		for _, cf := range cfgs {
			runHistory(c, "streamable", cf, false, h, sid())
		}
	}
	// 2d. the same option given several times (fixed lists, then seeded random ones), both clients
	for _, ol := range fixedOptionLists() {
		for _, cl := range clients {
			runOptions(c, cl, ol, sid())
		}
	}
	nOpt := 24
	if c.Thorough() {
		nOpt = 600
	}
	for i := 0; i < nOpt; i++ {
		runOptions(c, clients[i%2], randomOptionList(c), sid())
	}
	// 3. a failing before-request function, for every kind of request
	kinds := map[string][][2]string{
		"streamable": {{"request", "handshake"}, {"notification", "handshake"}, {"request", ""}, {"notification", ""}, {"stream", ""}, {"answer", ""}, {"delete", ""}},
		"sse":        {{"connect", "handshake"}, {"request", "handshake"}, {"notification", "handshake"}, {"request", ""}, {"notification", ""}, {"answer", ""}},
	}
	for _, cl := range clients {
		for _, cf := range cfgs {
			if !cf.Before {
				continue
			}
			for _, kv := range kinds[cl] {
				runBlocked(c, cl, cf, kv[0], kv[1], sid())
			}
		}
	}
	// 4. seeded random histories
	nRand, maxLen := 24, 8
	if c.Thorough() {
		nRand, maxLen = 4000, 20
	}
	alphabet := []string{"tools", "toolsRetry", "notify", "roots", "rootsUnknown", "terminate", "initialize", "rootsSlowEnd", "rootsSlowReset", "reopen", "rootsSlowReplace", "toolsErr", "notifyErr"}
	weights := []int{4, 2, 3, 3, 2, 1, 1, 1, 1, 2, 1, 2, 1}
	codes := []string{"404", "400", "401", "403", "500", "503"}
	total := 0
	for _, w := range weights {
		total += w
	}
	for i := 0; i < nRand; i++ {
		cl := clients[c.Rng.Intn(2)]
		cf := cfgs[c.Rng.Intn(32)]
		var h []string
		retry := c.Rng.Intn(2) == 0
		if !retry && c.Rng.Intn(3) == 0 {
			for k := 1 + c.Rng.Intn(3); k > 0; k-- {
				h = append(h, []string{"initFail503", "initFailType", "initFailRefused"}[c.Rng.Intn(3)])
			}
			h = withoutRefusals(h, cf)
		}
		if c.Rng.Intn(8) != 0 {
			h = append(h, "initialize")
		}
		n := 1 + c.Rng.Intn(maxLen)
		for j := 0; j < n; j++ {
			x := c.Rng.Intn(total)
			for k, w := range weights {
				if x < w {
					op := alphabet[k]
					if op == "toolsRetry" && !retry {
						op = "tools"
					}
					if op == "toolsErr" || op == "notifyErr" {
						if retry { // with a retry policy an error status may be retried: that is toolsRetry's subject
							op = strings.TrimSuffix(op, "Err")
						} else {
							op += codes[c.Rng.Intn(len(codes))]
						}
					}
					switch op {
					case "rootsSlowEnd", "rootsSlowReset", "reopen", "rootsSlowReplace":
						// Streamable only; a stream is not reopened after the session was terminated (without a session
						// id the client sends no GET, and when the old stream then ends is not observable)
						terminated := false
						for _, e := range h {
							if e == "terminate" {
								terminated = true
							}
						}
						if cl != "streamable" || (terminated && (op == "reopen" || op == "rootsSlowReplace")) {
							op = "roots"
						}
					}
					h = append(h, op)
					break
				}
				x -= w
			}
		}
		runHistory(c, cl, cf, retry, h, sid())
	}
	c.SetExtra("combinations", len(cfgs)*len(clients))
}
