package main

// Options runs (property C19): a client built from a LIST of options in which the same option occurs several times —
// WithHTTPHeaders with different keys, the same key twice, overlapping keys; several before-request functions,
// request handlers and paths. Today's code: headers merge per key (the last option naming a key wins), the other
// three are assignments (the last option wins). Every request of a short history must carry every configured static
// header, meet exactly the before-request function in force once, and go through the handler / to the path in force.

import (
	"context"
	"fmt"
	"net/http"
	"reflect"
	"sort"
	"strconv"
	"strings"

	mcp "trpc.group/trpc-go/trpc-mcp-go"
	"verif/harness/hk"
)

type hdrKV struct {
	Key  string
	Vals []string
}

type optSpec struct {
	K    string  // headers | before | handler | path
	H    []hdrKV // headers
	ID   int     // before / handler
	Good bool    // path: the served one (true) or a path nothing is served at
}

func (o optSpec) json() map[string]any {
	switch o.K {
	case "headers":
		var h []any
		for _, kv := range o.H {
			h = append(h, []any{kv.Key, kv.Vals})
		}
		return map[string]any{"k": "headers", "h": h}
	case "path":
		return map[string]any{"k": "path", "good": o.Good}
	}
	return map[string]any{"k": o.K, "id": o.ID}
}

const (
	hBeforeID = "X-Verif-Before-Id"
	nowhere   = "/nowhere"
)

// optionList turns sc.opts into client options, in order; the URL points at a wrong path when a path option is given.
func (sc *scenario) optionList(url, good string) ([]mcp.ClientOption, string) {
	var out []mcp.ClientOption
	for _, o := range sc.opts {
		o := o
		switch o.K {
		case "headers":
			h := http.Header{}
			for _, kv := range o.H {
				h[kv.Key] = append([]string{}, kv.Vals...)
			}
			out = append(out, mcp.WithHTTPHeaders(h))
		case "before":
			out = append(out, mcp.WithHTTPBeforeRequest(func(ctx context.Context, req *http.Request) error {
				if err := sc.before(ctx, req); err != nil {
					return err
				}
				req.Header.Add(hBeforeID, strconv.Itoa(o.ID))
				return nil
			}))
		case "handler":
			out = append(out, mcp.WithHTTPReqHandler(&markHandler{mark: "custom" + strconv.Itoa(o.ID), sc: sc}))
		case "path":
			url = sc.srv.ts.URL + wrongPath + "?" + urlQuery
			p := good
			if !o.Good {
				p = nowhere
			}
			out = append(out, mcp.WithClientPath(p))
		}
	}
	return out, url
}

func runOptions(c *hk.Ctx, client string, opts []optSpec, sid string) {
	cf := cfg{}
	jopts := []any{}
	union := []string{} // header keys, first mention first
	want := map[string][]string{}
	wantBefore, wantHandler := -1, -1
	pathGood, anyPath := true, false
	for _, o := range opts {
		jopts = append(jopts, o.json())
		switch o.K {
		case "headers":
			cf.Headers = true
			for _, kv := range o.H {
				if _, seen := want[kv.Key]; !seen {
					union = append(union, kv.Key)
				}
				want[kv.Key] = kv.Vals
			}
		case "before":
			cf.Before, wantBefore = true, o.ID
		case "handler":
			cf.Handler, wantHandler = true, o.ID
		case "path":
			cf.Path, anyPath, pathGood = true, true, o.Good
		}
	}
	_ = anyPath
	hist := []string{"initialize", "tools", "notify", "roots", "terminate"}
	sc := &scenario{c: c, client: client, cfg: cf, histLen: len(hist), opts: opts}
	if sc.opts == nil {
		sc.opts = []optSpec{}
	}
	op := map[string]any{"c": "reqpaths.options", "client": client, "opts": jopts}
	input := map[string]any{"client": client, "options": jopts, "hist": hist}
	if err := sc.open(sid); err != nil {
		sc.srv.close()
		c.Emit(op, map[string]any{"error": err.Error()}, false)
		return
	}
	nextID := 9000
	for i, o := range hist {
		sc.do(o, i, &nextID)
	}
	sc.shut()
	recs := sc.srv.snapshot()
	// what every request was configured with, as observed on the wire
	type seen struct {
		fn      string
		headers map[string][]string
		before  []string
		via     []string
		pathOK  bool
		judged  bool // the path of this request says something about the path option
	}
	var all []seen
	for _, r := range recs {
		fn := fnOf[client][r.Kind]
		if fn == "" {
			fn = "?" + r.Kind
		}
		o := seen{fn: fn, headers: map[string][]string{}, before: r.Hdr.Values(hBeforeID), via: r.Hdr.Values(hVia)}
		for _, k := range union {
			if vs := r.Hdr.Values(k); len(vs) > 0 {
				o.headers[k] = vs
			}
		}
		switch {
		case client == "streamable":
			o.pathOK, o.judged = r.Path == streamablePath, true
		case r.Kind == "connect":
			o.pathOK, o.judged = r.Path == ssePath, true
		}
		all = append(all, o)
		bad := func(aspect, what string) {
			report(cf, aspect, len(hist), hk.Violation{Fingerprint: "reqpaths:" + fn + ":" + aspect,
				What:  fmt.Sprintf("%s client built from a list of options with repetitions, %s request built by %s: %s", client, r.Kind, fn, what),
				Input: input, Observed: map[string]any{"headers": o.headers, "before": o.before, "via": o.via, "path": r.Path}})
		}
		for _, k := range union {
			if !reflect.DeepEqual(r.Hdr.Values(k), want[k]) {
				bad("staticHeaders", fmt.Sprintf("static header %s is %q, configured (by the last WithHTTPHeaders option naming it): %q", k, r.Hdr.Values(k), want[k]))
			}
		}
		if wantBefore >= 0 && !(len(o.before) == 1 && o.before[0] == strconv.Itoa(wantBefore)) {
			bad("beforeRequest", fmt.Sprintf("before-request functions that ran for this request: %v, want exactly the one configured last (%d), once", o.before, wantBefore))
		}
		wantVia := "factory"
		if wantHandler >= 0 {
			wantVia = "custom" + strconv.Itoa(wantHandler)
		}
		if !(len(o.via) == 1 && o.via[0] == wantVia) {
			bad("handler", fmt.Sprintf("went via %v, want the request handler configured last (%s)", o.via, wantVia))
		}
		if o.judged && o.pathOK != pathGood {
			bad("path", fmt.Sprintf("went to %s although the path configured last is %v", r.Path, map[bool]string{true: "the served one", false: nowhere}[pathGood]))
		}
	}
	// one observation for the whole client when all its requests agree (they must: there is one configuration)
	render := func(o seen) map[string]any {
		var before any
		switch {
		case len(o.before) == 1:
			if n, err := strconv.Atoi(o.before[0]); err == nil {
				before = n
			} else {
				before = o.before
			}
		case len(o.before) > 1:
			before = o.before
		}
		var handler any
		switch {
		case len(o.via) == 1 && o.via[0] == "factory":
		case len(o.via) == 1 && strings.HasPrefix(o.via[0], "custom"):
			if n, err := strconv.Atoi(strings.TrimPrefix(o.via[0], "custom")); err == nil {
				handler = n
			} else {
				handler = o.via
			}
		default:
			handler = append([]string{"?"}, o.via...)
		}
		h := map[string]any{}
		for k, v := range o.headers {
			h[k] = v
		}
		return map[string]any{"headers": h, "before": before, "handler": handler}
	}
	if len(all) == 0 {
		c.Emit(op, map[string]any{"error": "no request reached the server"}, false)
		return
	}
	impl := render(all[0])
	uniform := true
	for _, o := range all[1:] {
		if !reflect.DeepEqual(render(o), impl) {
			uniform = false
		}
	}
	path := true
	for _, o := range all {
		if o.judged && !o.pathOK {
			path = false
		}
	}
	impl["path"] = path
	if !uniform {
		var per []any
		for _, o := range all {
			m := render(o)
			m["fn"] = o.fn
			per = append(per, m)
		}
		impl = map[string]any{"mixed": per}
	}
	reps := 0
	for _, k := range []string{"headers", "before", "handler", "path"} {
		n := 0
		for _, o := range opts {
			if o.K == k {
				n++
			}
		}
		if n > 1 {
			reps++
		}
	}
	c.Emit(op, impl, reps > 0 && len(all) >= 3, "options:"+client, fmt.Sprintf("repeated-option-kinds:%d", reps))
}

var optKeys = []string{"X-Verif-A", "X-Verif-B", "X-Verif-C", "X-Verif-D"}

func hdrOpt(kvs ...string) optSpec { // "Key=v1|v2"
	o := optSpec{K: "headers"}
	for _, kv := range kvs {
		i := strings.Index(kv, "=")
		o.H = append(o.H, hdrKV{kv[:i], strings.Split(kv[i+1:], "|")})
	}
	sort.Slice(o.H, func(i, j int) bool { return o.H[i].Key < o.H[j].Key })
	return o
}

// fixedOptionLists: run whatever the seed.
func fixedOptionLists() [][]optSpec {
	b := func(id int) optSpec { return optSpec{K: "before", ID: id} }
	h := func(id int) optSpec { return optSpec{K: "handler", ID: id} }
	p := func(good bool) optSpec { return optSpec{K: "path", Good: good} }
	return [][]optSpec{
		{hdrOpt("X-Verif-A=a1"), hdrOpt("X-Verif-B=b1|b2")},                                                 // different keys
		{hdrOpt("X-Verif-A=a1"), hdrOpt("X-Verif-A=a2")},                                                    // the same key twice
		{hdrOpt("X-Verif-A=a1", "X-Verif-B=b1"), hdrOpt("X-Verif-B=b2|b3", "X-Verif-C=c1")},                 // overlapping
		{hdrOpt("X-Verif-A=a1"), hdrOpt("X-Verif-B=b1"), hdrOpt("X-Verif-A=a2"), hdrOpt("X-Verif-D=d1|d2")}, // three and more
		{hdrOpt("X-Verif-A=a1"), b(1), hdrOpt("X-Verif-B=b1"), b(2)},                                        // interleaved with before-request functions
		{b(1), b(2), b(3)}, //
		{h(1), hdrOpt("X-Verif-C=c1"), h(2), hdrOpt("X-Verif-D=d1")},        // handlers
		{p(false), p(true), hdrOpt("X-Verif-A=a1"), hdrOpt("X-Verif-B=b1")}, // paths: the last one is the served one
		{p(true), p(false)}, // … or not
		{hdrOpt("X-Verif-A=a1", "X-Verif-B=b1"), b(1), h(1), p(false), hdrOpt("X-Verif-C=c1"), b(2), h(2), p(true), hdrOpt("X-Verif-A=a2")},
		{hdrOpt("X-Verif-A=a1")}, // a single option (baseline)
		{},
	}
}

func randomOptionList(c *hk.Ctx) []optSpec {
	n := 2 + c.Rng.Intn(6)
	var out []optSpec
	ids := map[string]int{}
	val := 0
	for i := 0; i < n; i++ {
		switch x := c.Rng.Intn(10); {
		case x < 6:
			o := optSpec{K: "headers"}
			for _, k := range optKeys {
				if c.Rng.Intn(5) < 2 {
					val++
					vs := []string{fmt.Sprintf("v%d", val)}
					if c.Rng.Intn(3) == 0 {
						val++
						vs = append(vs, fmt.Sprintf("v%d", val))
					}
					o.H = append(o.H, hdrKV{k, vs})
				}
			}
			if len(o.H) == 0 {
				val++
				o.H = []hdrKV{{optKeys[c.Rng.Intn(len(optKeys))], []string{fmt.Sprintf("v%d", val)}}}
			}
			out = append(out, o)
		case x < 8:
			ids["before"]++
			out = append(out, optSpec{K: "before", ID: ids["before"]})
		case x < 9:
			ids["handler"]++
			out = append(out, optSpec{K: "handler", ID: ids["handler"]})
		default:
			out = append(out, optSpec{K: "path", Good: c.Rng.Intn(3) != 0})
		}
	}
	return out
}
