package main

// "… a modification [is] for that request only": a result-modifying middleware that decorates the result object IN PLACE
// (see addMod) must not reach any other request — not a later one on the same server, not one on another server of the
// same process whose chain only passes.  That holds iff every method handler hands out a FRESH result per request.
// Sequential and first in the run: per method, request 1 on server A passes a stamping stage, request 2 on A passes no
// modifying stage, request 3 goes to server B (no middlewares at all): 2 and 3 must come back without any stamp, 3
// exactly as the method's baseline.  If a stamp leaks, in-place stamping is switched off for the rest of the run (the
// concurrent phases would otherwise die of "concurrent map writes" on the shared object instead of reporting it).

import (
	"fmt"

	"verif/harness/hk"
)

func sharedResults(c *hk.Ctx, bases map[string]map[string]baseline, si0 int) int {
	n := 0
	for ki, name := range []string{"st-json", "st-postsse", "legacy-sse"} {
		k, ok := kindByName(name)
		if !ok {
			continue
		}
		ensureBase(bases, k)
		a, err := newServer(k, [][]int{{0}, {1}}, false)
		if err != nil {
			panic(fmt.Sprintf("shared-result server %s: %v", name, err))
		}
		b, err := newServer(k, nil, false)
		if err != nil {
			panic(fmt.Sprintf("shared-result server %s: %v", name, err))
		}
		n += 2
		i := 0
		for _, m := range methods {
			base := bases[k.Name][m.Name]
			mk := func(s *server, plan []stage, tag string) *tcase {
				return &tcase{k: k, groups: s.groups, plan: plan, m: m, which: i % 2, tags: []string{"shared-result", tag}}
			}
			steps := []struct {
				s     *server
				tc    *tcase
				clean bool // no result-modifying stage on its path: the answer must carry no stamp at all
			}{
				{a, mk(a, []stage{mkStage(0, "modRes", 0), mkStage(1, "pass", 0)}, "stamping"), false},
				{a, mk(a, []stage{mkStage(0, "pass", 0), mkStage(1, "pass", 0)}, "after-a-stamped-one"), true},
				{b, mk(b, nil, "other-server"), true},
				{a, mk(a, []stage{mkStage(0, "pass", 0), mkStage(1, "modRes", 0)}, "stamping"), false},
				{a, mk(a, []stage{mkStage(0, "modRes", 0), mkStage(1, "modRes", 0)}, "stamping-twice"), false},
				{b, mk(b, nil, "other-server"), true},
			}
			for _, st := range steps {
				si := si0 + 10*ki
				if st.s == b {
					si++
				}
				runCase(st.s, st.tc, si, i, base)
				i++
				if st.clean {
					if rm, ok := st.tc.ans.msg["result"].(map[string]any); ok {
						_, hasMods := rm["_mods"]
						_, hasStamp := rm["_stamp"]
						if hasMods || hasStamp {
							inPlace.Store(false)
							c.Violate(hk.Violation{Fingerprint: "middleware:result-shared-between-requests:" + m.Name + ":" + k.Tr,
								What:  "the answer to a " + m.Method + " request that passed no result-modifying middleware (" + st.tc.tags[1] + ") carries what such a middleware wrote in place into the result of an EARLIER request: the method hands out one result object to several requests",
								Input: st.tc.input(), Observed: rm, Expected: "a fresh result per request: a modification is for that request only"})
						}
					}
				}
				evaluate(c, st.s, st.tc, base)
			}
		}
		finishServer(c, a, name+"|shared-result|A")
		finishServer(c, b, name+"|shared-result|B")
		a.close()
		b.close()
	}
	c.SetExtra("in_place_result_stamping", inPlace.Load())
	return n
}
