package main

// Two cheap phases besides the exhaustive chain enumeration:
//
//   sessionMatrix  — "with the request's own … session", in EVERY server configuration x response mode: which session does
//                    each stage (before / after) and the method handler of one request see?
//   optionOrders   — the chain that runs is exactly the registered middlewares, in registration order, whatever OTHER
//                    constructor options stand before, between and behind the middleware options.

import (
	"fmt"
	"strings"

	"verif/harness/hk"
)

// ---------------------------------------------------------------------------------------------------------------------
// session matrix

// sessOf: the session an event's code can work with. Stages: GetSessionFromContext (on legacy SSE also
// ClientSessionFromContext; the two are compared with each other by evaluate). Tool handler: ClientSessionFromContext is
// what the library hands to tools, GetSessionFromContext the other way; list filters: GetSessionFromContext.
func sessOf(e event) string {
	if e.T == "h" && e.HasP && e.CSid != "" {
		return e.CSid
	}
	if e.Sid != "" {
		return e.Sid
	}
	return e.CSid
}

func eventName(e event) string {
	switch e.T {
	case "b":
		return fmt.Sprintf("m%d-before", e.ID)
	case "a":
		return fmt.Sprintf("m%d-after", e.ID)
	}
	if e.HasP {
		return "tool-handler"
	}
	return "list-handler"
}

// sessionOracle: all stages of one request see the same session as each other and as the method handler of that request
// ("none" only where the handler has none). Read directly off the recorded events, independent of the model and of the
// transport-specific expectations of evaluate.
func sessionOracle(c *hk.Ctx, s *server, tc *tcase) string {
	var obs []map[string]any
	stageVals := []string{}
	distinct := map[string]bool{}
	handlerRan, handlerSess := false, ""
	first := ""
	for _, e := range tc.events {
		v := sessOf(e)
		obs = append(obs, map[string]any{"event": eventName(e), "GetSessionFromContext": e.Sid, "ClientSessionFromContext": e.CSid})
		if v != "" && first == "" {
			first = v
		}
		if e.T == "h" {
			handlerRan, handlerSess = true, v
			continue
		}
		stageVals = append(stageVals, v)
		distinct[v] = true
	}
	in := tc.input()
	if len(distinct) > 1 {
		c.Violate(hk.Violation{Fingerprint: "middleware:stages-disagree-on-session:" + tc.k.Tr,
			What:  "the stages of ONE request do not all see the same session in their context (some see none or another one)",
			Input: in, Observed: obs})
	}
	if handlerRan {
		for _, v := range stageVals {
			if v != handlerSess {
				c.Violate(hk.Violation{Fingerprint: "middleware:stage-session-differs-from-handler:" + tc.k.Tr,
					What:  "a middleware ran with a context whose session is not the session the method handler of the same request ran with (none instead of the request's session, or a different one)",
					Input: in, Observed: obs, Expected: handlerSess})
				break
			}
		}
	}
	c.Tag("session-oracle")
	return first
}

// matrixPlans: every chain of three stages over all six behaviours (216), each on `per` methods (rotating, so that every
// (position, behaviour, method) combination occurs), both sessions.
func matrixPlans(per int, ms []*methodSpec) [][2]int { // (chain index, method index)
	var l [][2]int
	nb := len(behKinds)
	for ci := 0; ci < nb*nb*nb; ci++ {
		for j := 0; j < per; j++ {
			l = append(l, [2]int{ci, (ci + ci/nb + ci/(nb*nb) + j*3) % len(ms)})
		}
	}
	return l
}

func sessionMatrix(c *hk.Ctx, bases map[string]map[string]baseline, si0 int) int {
	// methods with an observable handler + ping / initialize
	var ms []*methodSpec
	for _, m := range methods {
		if m.Hobs || m.Name == "ping" || m.Name == "initialize" {
			ms = append(ms, m)
		}
	}
	per := 2
	if c.Thorough() {
		per = len(ms)
	}
	plans := matrixPlans(per, ms)
	nb := len(behKinds)
	n := 0
	for ki, k := range matrixKinds {
		ensureBase(bases, k)
		mxForms := [][][]int{{{0, 1, 2}}, {{0}, {1, 2}}}
		for fi, groups := range mxForms {
			s, err := newServer(k, groups, false)
			if err != nil {
				panic(fmt.Sprintf("session-matrix server %s: %v", k.Name, err))
			}
			n++
			var g []*tcase
			for pi, pm := range plans {
				if pi%len(mxForms) != fi {
					continue
				}
				ci := pm[0]
				plan := []stage{mkStage(0, behKinds[ci/(nb*nb)], ci), mkStage(1, behKinds[ci/nb%nb], ci+1), mkStage(2, behKinds[ci%nb], ci+2)}
				m := ms[pm[1]]
				g = append(g, &tcase{k: k, groups: groups, plan: plan, m: m, which: (len(g) / 2) % 2,
					newSess: m.Name == "initialize" && k.Mode == "stateful" && len(g)%3 == 0, tags: []string{"session-matrix"}})
			}
			key := fmt.Sprintf("%s|session-matrix|%d", k.Name, fi)
			runGroup(c, s, g, si0+10*ki+fi, key, bases)
			bySess := map[string]*tcase{}
			for _, tc := range g {
				sid := sessionOracle(c, s, tc)
				// a stateless server works with a temporary session per request: two requests must never see the same one
				if k.Mode == "stateless" && sid != "" {
					if o, dup := bySess[sid]; dup {
						c.Violate(hk.Violation{Fingerprint: "middleware:temporary-session-shared:" + k.Tr,
							What:  "two different requests to a stateless server saw the same temporary session",
							Input: map[string]any{"first": o.input(), "second": tc.input()}, Observed: sid})
					}
					bySess[sid] = tc
				}
				// the answer framing is what distinguishes the cells of the matrix: record what the server really did, so that a
				// cell that silently stops being what its name says shows up in the distribution
				if k.Tr == "streamable" {
					framing := "json"
					if strings.HasPrefix(tc.ans.ctype, "text/event-stream") {
						framing = "sse"
					}
					c.Tag("matrix-" + k.Name + "-answered-as-" + framing)
				}
			}
			s.close()
		}
	}
	return n
}

// ---------------------------------------------------------------------------------------------------------------------
// option orders

// optionOrderOracle: a middleware registered by an option must run for a request that passes it, wherever its option stood.
func optionOrderOracle(c *hk.Ctx, s *server, tc *tcase, b baseline) {
	wantTags, _ := expect(tc.plan, b, tc.m)
	got := map[string]bool{}
	for _, t := range tagsOf(tc.events) {
		got[t] = true
	}
	var missing []int
	for _, st := range tc.plan {
		t := fmt.Sprintf("b%d", st.ID)
		want := false
		for _, w := range wantTags {
			if w == t {
				want = true
			}
		}
		if want && !got[t] {
			missing = append(missing, st.ID)
		}
	}
	if len(missing) > 0 {
		c.Violate(hk.Violation{Fingerprint: "middleware:option-order:" + tc.k.Tr,
			What:  "a middleware registered through a constructor option never ran for a request that must pass it: it was lost because of the position of its option among the other options",
			Input: tc.input(), Observed: map[string]any{"ran": tagsOf(tc.events), "neverRan": missing}, Expected: wantTags})
	}
	c.Tag("option-order-oracle")
}

// numberMW replaces the placeholders "mw" of an option order by "mw:0", "mw:1", … in order of appearance and returns the
// groups (sizes[i] middlewares in the i-th middleware option; ids count up in registration order).
func numberMW(order []string, sizes []int) ([]string, [][]int) {
	var out []string
	var groups [][]int
	id := 0
	for _, o := range order {
		if o != "mw" {
			out = append(out, o)
			continue
		}
		gi := len(groups)
		var g []int
		for j := 0; j < sizes[gi]; j++ {
			g = append(g, id)
			id++
		}
		groups = append(groups, g)
		out = append(out, fmt.Sprintf("mw:%d", gi))
	}
	return out, groups
}

// orderCases: the requests sent through one server of the option-order phase.
func orderCases(k kind, groups [][]int, order []string, post bool, salt int, tags []string) []*tcase {
	var ids []int
	for _, g := range groups {
		ids = append(ids, g...)
	}
	n := len(ids)
	mk := func(f func(i int) string) []stage {
		var p []stage
		for i, id := range ids {
			p = append(p, mkStage(id, f(i), salt+i))
		}
		return p
	}
	callers := []string{"modReq", "modRes", "pass"}
	plans := []struct {
		plan []stage
		m    *methodSpec
	}{
		// every stage calls next and leaves its mark: the echo shows the request modifications in registration order
		{mk(func(i int) string { return callers[(i+salt)%2] }), methods[0]},
		{mk(func(i int) string { return "modReq" }), methods[0]},
		{mk(func(i int) string { return callers[(i+salt+1)%3] }), methods[3]},
		// the LAST registered middleware answers itself
		{mk(func(i int) string {
			if i == n-1 {
				return "shortOk"
			}
			return callers[(i+1)%3]
		}), methods[0]},
		// the FIRST registered middleware refuses: nothing else may run
		{mk(func(i int) string {
			if i == 0 {
				return "shortRpc"
			}
			return "pass"
		}), methods[3]},
		// one in the middle fails
		{mk(func(i int) string {
			if i == n/2 {
				return "fail"
			}
			return callers[i%3]
		}), methods[6]},
	}
	var g []*tcase
	for i, p := range plans {
		g = append(g, &tcase{k: k, groups: groups, plan: p.plan, m: p.m, which: i % 2, order: order, post: post, tags: tags})
	}
	return g
}

func optionOrders(c *hk.Ctx, bases map[string]map[string]baseline, si0 int) int {
	n := 0
	runOne := func(k kind, order []string, groups [][]int, post bool, tags ...string) {
		ensureBase(bases, k)
		s, err := buildServer(buildSpec{k: k, groups: groups, reg: &registry{}, order: order, post: post})
		if err != nil {
			panic(fmt.Sprintf("option-order server %s %v: %v", k.Name, order, err))
		}
		n++
		g := orderCases(k, groups, order, post, n, append([]string{"option-order"}, tags...))
		runGroup(c, s, g, si0+n, k.Name+"|option-order|"+strings.Join(order, ","), bases)
		for _, tc := range g {
			optionOrderOracle(c, s, tc, bases[k.Name][tc.m.Name])
			sessionOracle(c, s, tc)
		}
		s.close()
	}
	var streamable, sessionsOff []kind
	var legacy kind
	for _, k := range matrixKinds {
		switch {
		case k.Tr == "sse":
			legacy = k
		case k.Mode == "sessionsOff":
			sessionsOff = append(sessionsOff, k)
			streamable = append(streamable, k)
		default:
			streamable = append(streamable, k)
		}
	}
	without := func(l []string, x string) []string {
		var o []string
		for _, y := range l {
			if y != x {
				o = append(o, y)
			}
		}
		return o
	}
	// ---- every other option X against two middleware options: [mw0, X, mw1], [X, mw0, mw1], [mw0, mw1, X]; the remaining
	// options stand in front (first form), behind (second form), half in front and half behind (third form)
	triples := func(k kind, x string, xi int) {
		rest := without(otherOptions(k), x)
		half := len(rest) / 2
		orders := [][]string{
			append(append([]string{}, rest...), "mw", x, "mw"),
			append([]string{x, "mw", "mw"}, rest...),
			append(append(append([]string{}, rest[:half]...), "mw", "mw", x), rest[half:]...),
		}
		for oi, o := range orders {
			sizes := []int{1 + (xi+oi)%2, 1 + (xi+oi+1)%2}
			order, groups := numberMW(o, sizes)
			runOne(k, order, groups, k.Tr == "streamable" && (xi+oi)%2 == 0, "option-order-triple", "option-order-x-"+x)
		}
	}
	for xi, x := range streamableOthers {
		k := streamable[(5*xi+1)%len(streamable)]
		if x == "WithoutSession" {
			k = sessionsOff[xi%len(sessionsOff)]
		}
		triples(k, x, xi)
	}
	for xi, x := range sseOthers {
		triples(legacy, x, xi)
	}
	// ---- seeded random permutations of ALL options with 2–4 middleware options (and sometimes an empty one) interleaved
	perms := 16
	if c.Thorough() {
		perms = 160
	}
	for pi := 0; pi < perms; pi++ {
		k := legacy
		if pi%2 == 1 {
			k = streamable[c.Rng.Intn(len(streamable))]
		}
		o := otherOptions(k)
		nmw := 2 + c.Rng.Intn(3)
		sizes := make([]int, nmw)
		for i := range sizes {
			sizes[i] = 1 + c.Rng.Intn(2)
			o = append(o, "mw")
		}
		if c.Rng.Intn(3) == 0 {
			o = append(o, "mw:empty")
		}
		c.Rng.Shuffle(len(o), func(i, j int) { o[i], o[j] = o[j], o[i] })
		order, groups := numberMW(o, sizes)
		runOne(k, order, groups, k.Tr == "streamable" && c.Rng.Intn(2) == 0, "option-order-permutation")
	}
	return n
}
