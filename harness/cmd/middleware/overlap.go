package main

// Overlap phase: "every request passes m1-before … handler … m1-after, each exactly once" while MANY requests of ONE
// session are in flight at the same time. N tools/call requests of one session are sent in parallel; the tool handler of
// each parks at a gate (event-based: it signals "I am inside the handler"), the harness waits — bounded — until all of
// them are parked, sends further requests of the same session while they are (tools/list, ping, tools/call, a
// short-circuited call), then opens the gates (legacy SSE: in batches, so that the session's answer queue of 100 slots
// never fills) and collects every answer. Every request is evaluated as in the other phases (trace = exactly the expected
// onion, each stage once, the expected answer with the right id) and emits its model line.

import (
	"fmt"
	"net/http"
	"os"
	"sync"
	"time"

	"verif/harness/hk"
)

const (
	overlapEnterBound  = 6 * time.Second // all N must be parked inside their handlers within this bound
	overlapAnswerBound = 6 * time.Second // a request that is not (or no longer) parked must be answered within this bound
	overlapBatch       = 40              // legacy SSE: gates opened per batch (the session's event queue has 100 slots)
)

// closedAfter: a channel that is CLOSED after d (unlike time.After it can be waited on any number of times).
func closedAfter(d time.Duration) <-chan struct{} {
	ch := make(chan struct{})
	time.AfterFunc(d, func() { close(ch) })
	return ch
}

type ovReq struct {
	tc   *tcase
	done chan struct{} // closed when the exchange of this request is over (answered, failed, or given up)
}

func overlapPlans() [][]string {
	return [][]string{
		{"pass", "modReq", "modRes"},
		{"modReq", "modRes", "pass"},
		{"modRes", "pass", "modReq"},
		{"modReq", "modReq", "modRes"},
	}
}

func ovPlan(bs []string, salt int) []stage {
	var p []stage
	for i, b := range bs {
		p = append(p, mkStage(i, b, salt+i))
	}
	return p
}

// overlapRound runs one round of N overlapping requests on session 0 of server s.
// Returns false when a bound expired (the violation is reported): the caller stops using this server.
// `degraded`: an earlier round on this server already failed (the verdict is in); this round only adds what else goes wrong
// at this N, with short bounds.
func overlapRound(c *hk.Ctx, s *server, n int, si int, round int, bases map[string]map[string]baseline, degraded bool) bool {
	k := s.k
	t0 := time.Now()
	// once a bound has expired in this round the verdict is in: the remaining waits of the round are short
	intact := !degraded
	enterBound := overlapEnterBound
	if degraded {
		enterBound = 1500 * time.Millisecond
	}
	answerBound := func() <-chan struct{} {
		if intact {
			return closedAfter(overlapAnswerBound)
		}
		return closedAfter(300 * time.Millisecond)
	}
	groups := s.groups
	tags := []string{"overlap", fmt.Sprintf("overlap-%d", n)}
	plans := overlapPlans()
	echo := methods[0]
	var reqs, xs []*ovReq // the N overlapping requests; the requests sent while they are parked
	var wg sync.WaitGroup
	launch := func(tc *tcase, i int) *ovReq {
		b := bases[k.Name][tc.m.Name]
		prepareCase(s, tc, si, round*1000+i, b)
		if tc.held {
			tc.r.hold = make(chan struct{})
			tc.r.parked = make(chan struct{})
		}
		q := &ovReq{tc: tc, done: make(chan struct{})}
		wg.Add(1)
		go func() {
			defer wg.Done()
			defer close(q.done)
			sendCase(s, tc)
		}()
		return q
	}
	count := func() map[string]any {
		entered, parked, answered, held := 0, 0, 0, 0
		for _, q := range append(append([]*ovReq{}, reqs...), xs...) {
			r := q.tc.r
			select {
			case <-r.entered:
				entered++
			default:
			}
			if q.tc.held {
				held++
				select {
				case <-r.parked:
					parked++
				default:
				}
			}
			select {
			case <-q.done:
				if q.tc.ans.msg != nil {
					answered++
				}
			default:
			}
		}
		return map[string]any{"requests": len(reqs) + len(xs), "enteredChain": entered, "parkedInHandler": parked, "ofParking": held, "answered": answered}
	}
	awaitDone := func(q *ovReq, deadline <-chan struct{}) bool {
		select {
		case <-q.done:
			return true
		default:
		}
		select {
		case <-q.done:
			return true
		case <-deadline:
			return false
		}
	}
	notAnswered := func(q *ovReq, when string) {
		intact = false
		c.Violate(hk.Violation{Fingerprint: "middleware:overlap:request-not-answered:" + k.Tr,
			What:  "a request of a session got no answer " + when + " (other requests of the same session are in flight at the same time)",
			Input: q.tc.input(), Observed: count()})
	}

	// ---- N overlapping tools/call requests of one session; every 5th is answered by its second stage (never parks)
	for i := 0; i < n; i++ {
		tc := &tcase{k: k, groups: groups, m: echo, which: 0, tags: tags, overlapN: n, overlapIdx: i}
		if i%5 == 4 {
			tc.plan = ovPlan([]string{"modRes", "shortOk", "pass"}, i)
		} else {
			tc.plan = ovPlan(plans[(i+round)%len(plans)], i)
			tc.held = true
		}
		reqs = append(reqs, launch(tc, i))
	}
	// ---- all parking requests must arrive inside their handlers (event-based, bounded)
	deadline := closedAfter(enterBound)
	timedOut := false
	for _, q := range reqs {
		if !q.tc.held || timedOut {
			continue
		}
		select {
		case <-q.tc.r.parked:
		case <-q.done: // answered (or failed) without ever parking: evaluate will say what is wrong with it
		case <-deadline:
			timedOut = true
		}
	}
	if timedOut {
		intact = false
		for _, q := range reqs {
			if !q.tc.held {
				continue
			}
			r := q.tc.r
			select {
			case <-r.parked:
				continue
			default:
			}
			select {
			case <-q.done:
				continue
			default:
			}
			select {
			case <-r.entered:
				c.Violate(hk.Violation{Fingerprint: "middleware:overlap:request-did-not-reach-handler:" + k.Tr,
					What:  fmt.Sprintf("a request entered the chain but its method handler did not start within %v while the other requests of the session are parked in theirs", enterBound),
					Input: q.tc.input(), Observed: count()})
			default:
				c.Violate(hk.Violation{Fingerprint: "middleware:overlap:request-never-entered-chain:" + k.Tr,
					What:  fmt.Sprintf("a request the transport took on never entered the middleware chain (its first stage did not run within %v) while the other requests of the same session are parked in their handlers", enterBound),
					Input: q.tc.input(), Observed: count()})
			}
		}
	}
	// ---- the short-circuited ones are answered while the others are parked
	deadline = answerBound()
	for _, q := range reqs {
		if !q.tc.held && !awaitDone(q, deadline) {
			notAnswered(q, "although a middleware answered it itself, while the others are parked")
		}
	}
	// ---- further requests of the same session while N-n/5 handlers are parked: they pass the chain and are answered
	extras := []struct {
		m    *methodSpec
		plan []string
	}{
		{methods[3], []string{"pass", "modReq", "modRes"}}, // tools/list
		{methods[6], []string{"modRes", "pass", "pass"}},   // ping
		{echo, []string{"modReq", "pass", "modRes"}},       // another tools/call that does not park
		{echo, []string{"shortRpc", "pass", "pass"}},       // refused by the first stage
		{methods[5], []string{"modRes", "modRes", "pass"}}, // resources/list
	}
	for i, x := range extras {
		tc := &tcase{k: k, groups: groups, m: x.m, plan: ovPlan(x.plan, i+round), which: 0, tags: append([]string{"overlap-while-parked"}, tags...), overlapN: n, overlapIdx: -1}
		q := launch(tc, 500+i)
		xs = append(xs, q)
	}
	deadline = answerBound()
	for _, q := range xs {
		if !awaitDone(q, deadline) {
			notAnswered(q, fmt.Sprintf("within %v; it was sent while %d tool calls of the session are parked in their handlers", overlapAnswerBound, n-n/5))
		}
	}
	// ---- open the gates (legacy SSE: batch-wise) and collect the answers
	batch := len(reqs)
	if k.Tr == "sse" {
		batch = overlapBatch
	}
	var held []*ovReq
	for _, q := range reqs {
		if q.tc.held {
			held = append(held, q)
		}
	}
	for i := 0; i < len(held); i += batch {
		j := i + batch
		if j > len(held) {
			j = len(held)
		}
		for _, q := range held[i:j] {
			close(q.tc.r.hold)
		}
		deadline = answerBound()
		for _, q := range held[i:j] {
			if !awaitDone(q, deadline) {
				notAnswered(q, fmt.Sprintf("within %v after its handler was released", overlapAnswerBound))
			}
		}
	}
	// nobody waits any longer than this
	if os.Getenv("C15_OVERLAP_TIMING") != "" {
		fmt.Fprintf(os.Stderr, "  giving up at %v, intact=%v\n", time.Since(t0), intact)
	}
	close(s.giveUp)
	wg.Wait()
	s.giveUp = make(chan struct{})
	for _, q := range append(reqs, xs...) {
		evaluate(c, s, q.tc, bases[k.Name][q.tc.m.Name])
	}
	return intact && !degraded
}

// overlaps: N = 20 and 40 on every kind of the matrix, 120 on legacy SSE and three Streamable cells (thorough: 120 on all,
// three rounds each).
func overlaps(c *hk.Ctx, bases map[string]map[string]baseline, si0 int) int {
	n := 0
	big := map[string]bool{"mx-legacy-sse": true, "mx-stateful-json+sse-postsse-on": true, "mx-stateless-json-postsse-off": true, "mx-sessionsOff-json+sse-postsse-off": true}
	for ki, k := range matrixKinds {
		ensureBase(bases, k)
		s, err := newServer(k, [][]int{{0}, {1, 2}}, false)
		if err != nil {
			panic(fmt.Sprintf("overlap server %s: %v", k.Name, err))
		}
		n++
		// room for 120 parallel POSTs (+ the two SSE streams)
		s.fx.HC.CloseIdleConnections()
		s.fx.HC = &http.Client{Transport: &http.Transport{MaxIdleConnsPerHost: 256, MaxIdleConns: 512, MaxConnsPerHost: 0, DisableCompression: true}}
		s.answerWait = holdCeiling + overlapAnswerBound
		s.giveUp = make(chan struct{})
		sizes := []int{20, 40}
		if big[k.Name] || c.Thorough() {
			sizes = append(sizes, 120)
		}
		rounds := 1
		if c.Thorough() {
			rounds = 3
		}
		r := 0
		ok := true
		for ri := 0; ri < rounds && (ok || ri == 0); ri++ {
			for _, sz := range sizes {
				t0 := time.Now()
				// after a failed round (the violation is reported) the remaining sizes of the first pass still run, with short bounds
				if !overlapRound(c, s, sz, si0+ki, r, bases, !ok) {
					ok = false
				}
				if os.Getenv("C15_OVERLAP_TIMING") != "" {
					fmt.Fprintf(os.Stderr, "overlap %s N=%d: %v\n", k.Name, sz, time.Since(t0))
				}
				r++
			}
		}
		finishServer(c, s, k.Name+"|overlap")
		s.close()
	}
	return n
}
