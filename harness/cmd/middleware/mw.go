package main

// Instrumented middlewares, tools and list filters: everything they observe goes into the per-request record
// found through the nonce carried in the request parameters (fallback: the per-request token the HTTP
// context function put into the context).

import (
	"context"
	"encoding/json"
	"errors"
	"fmt"
	"net/http"
	"sort"
	"strings"
	"sync"
	"sync/atomic"
	"time"

	mcp "trpc.group/trpc-go/trpc-mcp-go"
)

// stage = what one registered middleware does on one request.
type stage struct {
	ID   int
	B    string // pass | modReq | modRes | shortOk | shortRpc | fail
	R    int    // shortOk payload
	Code int    // shortRpc
	Msg  string // shortRpc
	E    string // fail
	Wrap string // fail: "" = errors.New(E); "deadline" / "canceled" = an error wrapping context.DeadlineExceeded / context.Canceled
	//            that does not stem from the HTTP request (E is its text)
}

func (s stage) calls() bool { return s.B == "pass" || s.B == "modReq" || s.B == "modRes" }

func (s stage) json() map[string]any {
	m := map[string]any{"id": s.ID, "b": s.B}
	switch s.B {
	case "shortOk":
		m["r"] = s.R
	case "shortRpc":
		m["code"] = s.Code
		m["msg"] = s.Msg
	case "fail":
		m["e"] = s.E
		if s.Wrap != "" {
			m["wrap"] = s.Wrap
		}
	}
	return m
}

// event as recorded by the instrumentation (raw: with what the stage saw of context and session).
type event struct {
	T     string // b | a | h
	ID    int
	Mods  []int          // request modifications seen in the request parameters (tool: in the arguments)
	CMods []int          // request modifications seen in the context
	HasP  bool           // Mods is meaningful
	O     map[string]any // after: canonical outcome of next
	Tok   string         // token seen in the context
	Sid   string         // GetSessionFromContext
	CSid  string         // ClientSessionFromContext
}

func (e event) canon() map[string]any {
	switch e.T {
	case "b":
		return map[string]any{"t": "b", "id": e.ID, "mods": nz(e.Mods)}
	case "a":
		return map[string]any{"t": "a", "id": e.ID, "o": e.O}
	default:
		if e.HasP {
			return map[string]any{"t": "h", "mods": nz(e.Mods)}
		}
		return map[string]any{"t": "h", "mods": nz(e.CMods)}
	}
}

func nz(l []int) []int {
	if l == nil {
		return []int{}
	}
	return l
}

type rec struct {
	mu     sync.Mutex
	nonce  string
	token  string
	plan   map[int]stage
	events []event
	m      *methodSpec
	base   string // canonical JSON of the method's own result on this kind of server
	notif  chan struct{}
	// id-collision rounds: `entered` is closed when this request first enters the chain; the tool handler of a request
	// waits (bounded) until its partner request — another session, same JSON-RPC id — is inside the chain as well.
	entered     chan struct{}
	enteredOnce sync.Once
	partner     *rec
	// overlap phase: the tool handler of this request parks at a gate — it closes `parked` ("I am inside the method
	// handler") and waits until the harness closes `hold` (bounded by holdCeiling, so that nothing can hang for good).
	hold       chan struct{}
	parked     chan struct{}
	parkedOnce sync.Once
}

const holdCeiling = 20 * time.Second

func (r *rec) park() {
	if r == nil || r.hold == nil {
		return
	}
	r.parkedOnce.Do(func() { close(r.parked) })
	select {
	case <-r.hold:
	case <-time.After(holdCeiling):
	}
}

func (r *rec) markEntered() {
	if r != nil && r.entered != nil {
		r.enteredOnce.Do(func() { close(r.entered) })
	}
}

func (r *rec) awaitPartner() {
	if r != nil && r.partner != nil && r.partner.entered != nil {
		select {
		case <-r.partner.entered:
		case <-time.After(2 * time.Second):
		}
	}
}

func (r *rec) add(e event) {
	r.mu.Lock()
	r.events = append(r.events, e)
	r.mu.Unlock()
}

func (r *rec) snapshot() []event {
	r.mu.Lock()
	defer r.mu.Unlock()
	return append([]event{}, r.events...)
}

// registry of the requests in flight on one server.
type registry struct {
	byNonce sync.Map // nonce -> *rec
	byToken sync.Map // token -> *rec
	entered atomic.Int64
	setup   rec // session set-up traffic of the harness itself (every stage passes)
	strayMu sync.Mutex
	stray   []event
}

func (g *registry) register(r *rec) {
	g.byNonce.Store(r.nonce, r)
	g.byToken.Store(r.token, r)
}

func (g *registry) unregister(r *rec) {
	g.byNonce.Delete(r.nonce)
	g.byToken.Delete(r.token)
}

type tokKey struct{}
type modsKey struct{}

const tokenHeader = "X-Verif-Token"

func ctxFunc(ctx context.Context, r *http.Request) context.Context {
	return context.WithValue(ctx, tokKey{}, r.Header.Get(tokenHeader))
}

func tokOf(ctx context.Context) string {
	s, _ := ctx.Value(tokKey{}).(string)
	return s
}

func ctxMods(ctx context.Context) []int {
	l, _ := ctx.Value(modsKey{}).([]int)
	return append([]int{}, l...)
}

func sids(ctx context.Context) (string, string) {
	sid, csid := "", ""
	if s, ok := mcp.GetSessionFromContext(ctx); ok && s != nil {
		sid = s.GetID()
	}
	if s := mcp.ClientSessionFromContext(ctx); s != nil {
		csid = s.GetID()
	}
	return sid, csid
}

func intList(v any) []int {
	out := []int{}
	switch l := v.(type) {
	case []any:
		for _, x := range l {
			switch n := x.(type) {
			case float64:
				out = append(out, int(n))
			case int:
				out = append(out, n)
			case json.Number:
				i, _ := n.Int64()
				out = append(out, int(i))
			}
		}
	case []int:
		out = append(out, l...)
	}
	return out
}

func paramsOf(req *mcp.JSONRPCRequest) map[string]any {
	if m, ok := req.Params.(map[string]any); ok {
		return m
	}
	// anything else (a typed params struct of a re-built request): look through JSON
	if req.Params != nil {
		if b, err := json.Marshal(req.Params); err == nil {
			var m map[string]any
			if json.Unmarshal(b, &m) == nil {
				if af, ok := m["AdditionalFields"].(map[string]any); ok {
					for k, v := range af {
						m[k] = v
					}
				}
				return m
			}
		}
	}
	return nil
}

// find the record of the request a stage / handler is working on.
func (g *registry) find(nonce string, ctx context.Context) *rec {
	if nonce != "" {
		if r, ok := g.byNonce.Load(nonce); ok {
			return r.(*rec)
		}
	}
	if t := tokOf(ctx); t != "" {
		if r, ok := g.byToken.Load(t); ok {
			return r.(*rec)
		}
		if t == "setup" {
			return &g.setup
		}
	}
	return nil
}

func (g *registry) record(r *rec, e event) {
	if r == nil {
		g.strayMu.Lock()
		g.stray = append(g.stray, e)
		g.strayMu.Unlock()
		return
	}
	r.add(e)
}

// canonOut: what a HandlerFunc returned, in the shape of the model's `Out`.
func canonOut(res any, err error, m *methodSpec, base string) map[string]any {
	if err != nil {
		return map[string]any{"k": "err", "e": err.Error()}
	}
	if e, ok := res.(*mcp.JSONRPCError); ok && e != nil {
		return map[string]any{"k": "rpc", "code": e.Error.Code, "msg": e.Error.Message, "rm": intList(e.Error.Data)}
	}
	b, jerr := json.Marshal(res)
	if jerr != nil {
		return map[string]any{"k": "ok", "v": map[string]any{"unmarshalable": jerr.Error()}, "rm": []int{}}
	}
	var v any
	json.Unmarshal(b, &v)
	val, rm := canonResult(v, m, base)
	return map[string]any{"k": "ok", "v": val, "rm": rm}
}

// canonResult classifies a result object: the short-circuit object, or the method's own result (compared with the
// result the same method gives on a server without middlewares), plus the marks of result-modifying stages.
func canonResult(v any, m *methodSpec, base string) (map[string]any, []int) {
	mm, ok := v.(map[string]any)
	if !ok {
		return map[string]any{"unexpected": v}, []int{}
	}
	rm := intList(mm["_mods"])
	cp := map[string]any{}
	for k, x := range mm {
		if k != "_mods" && k != "_stamp" {
			cp[k] = x
		}
	}
	if sb, ok := cp["shortBy"]; ok && len(cp) == 1 {
		n, _ := sb.(float64)
		return map[string]any{"short": int(n)}, rm
	}
	echo := []int{}
	if m != nil && m.Echo {
		// content[0].text = "echo [..]"
		if cl, ok := cp["content"].([]any); ok && len(cl) == 1 {
			if c0, ok := cl[0].(map[string]any); ok {
				if t, ok := c0["text"].(string); ok && strings.HasPrefix(t, "echo ") {
					var l []any
					if json.Unmarshal([]byte(t[5:]), &l) == nil {
						echo = intList(l)
						c1 := map[string]any{}
						for k, x := range c0 {
							c1[k] = x
						}
						c1["text"] = "echo []"
						cp["content"] = []any{c1}
					}
				}
			}
		}
	}
	sortListing(cp)
	cb, _ := json.Marshal(cp)
	if string(cb) == base {
		return map[string]any{"handler": echo}, rm
	}
	return map[string]any{"unexpected": cp}, rm
}

// sortListing: tools/list answers in map-iteration order; the order of a listing is no concern of this property.
func sortListing(m map[string]any) {
	for _, k := range []string{"tools", "prompts", "resources"} {
		if l, ok := m[k].([]any); ok {
			sort.SliceStable(l, func(i, j int) bool {
				a, _ := l[i].(map[string]any)
				b, _ := l[j].(map[string]any)
				an, _ := a["name"].(string)
				bn, _ := b["name"].(string)
				return an < bn
			})
		}
	}
}

// inPlace: a result that IS a map is decorated in place — the usual way a middleware adds a field to the object it was
// handed (`res["k"] = v; return res`); everything else is re-built.  Switched off for the rest of the run by the
// shared-result phase when it finds a result object shared between requests (in-place writes to a shared map from 8
// connections would kill the process with "concurrent map writes" before anything could be reported).
var inPlace atomic.Bool

func init() { inPlace.Store(true) }

// addMod: the mark of a result-modifying stage (`_mods`) and a request-specific stamp (`_stamp` = the nonce of the request
// the stage is working on).
func addMod(res any, id int, nonce string) any {
	if e, ok := res.(*mcp.JSONRPCError); ok && e != nil {
		cp := *e
		cp.Error.Data = append(intList(e.Error.Data), id)
		return &cp
	}
	if m, ok := res.(map[string]any); ok && m != nil && inPlace.Load() {
		l, _ := m["_mods"].([]any)
		m["_mods"] = append(append([]any{}, l...), id)
		m["_stamp"] = nonce
		return m
	}
	b, err := json.Marshal(res)
	if err != nil {
		return res
	}
	var m map[string]any
	if json.Unmarshal(b, &m) != nil || m == nil {
		return res
	}
	l := []any{}
	if old, ok := m["_mods"].([]any); ok {
		l = old
	}
	m["_mods"] = append(l, id)
	m["_stamp"] = nonce
	return m
}

func copyReq(req *mcp.JSONRPCRequest, id int) *mcp.JSONRPCRequest {
	r2 := *req
	pm := map[string]any{}
	if b, err := json.Marshal(req.Params); err == nil {
		json.Unmarshal(b, &pm)
	}
	if pm == nil {
		pm = map[string]any{}
	}
	ml, _ := pm["mods"].([]any)
	pm["mods"] = append(append([]any{}, ml...), id)
	if a, ok := pm["arguments"].(map[string]any); ok {
		al, _ := a["mods"].([]any)
		a["mods"] = append(append([]any{}, al...), id)
	}
	r2.Params = pm
	return &r2
}

// middleware builds the instrumented middleware registered at position id.
func (g *registry) middleware(id int) mcp.Middleware {
	return func(next mcp.HandlerFunc) mcp.HandlerFunc {
		return func(ctx context.Context, req *mcp.JSONRPCRequest) (mcp.JSONRPCMessage, error) {
			g.entered.Add(1)
			pm := paramsOf(req)
			nonce, _ := pm["nonce"].(string)
			r := g.find(nonce, ctx)
			beh := stage{ID: id, B: "pass"}
			var m *methodSpec
			base := ""
			if r != nil {
				if b, ok := r.plan[id]; ok {
					beh = b
				}
				m, base = r.m, r.base
			}
			r.markEntered()
			sid, csid := sids(ctx)
			cm := ctxMods(ctx)
			g.record(r, event{T: "b", ID: id, Mods: intList(pm["mods"]), CMods: cm, HasP: true, Tok: tokOf(ctx), Sid: sid, CSid: csid})
			after := func(res any, err error) {
				g.record(r, event{T: "a", ID: id, O: canonOut(res, err, m, base), Tok: tokOf(ctx), Sid: sid, CSid: csid})
			}
			switch beh.B {
			case "modReq":
				ctx2 := context.WithValue(ctx, modsKey{}, append(cm, id))
				res, err := next(ctx2, copyReq(req, id))
				after(res, err)
				return res, err
			case "modRes":
				res, err := next(ctx, req)
				after(res, err)
				if err == nil {
					res = addMod(res, id, nonce)
				}
				return res, err
			case "shortOk":
				return map[string]any{"shortBy": beh.R}, nil
			case "shortRpc":
				e := &mcp.JSONRPCError{JSONRPC: "2.0", ID: req.ID}
				e.Error.Code = beh.Code
				e.Error.Message = beh.Msg
				return e, nil
			case "fail":
				switch beh.Wrap {
				case "deadline":
					return nil, fmt.Errorf("budget exceeded: %w", context.DeadlineExceeded)
				case "canceled":
					return nil, fmt.Errorf("upstream gave up: %w", context.Canceled)
				}
				return nil, errors.New(beh.E)
			default:
				res, err := next(ctx, req)
				after(res, err)
				return res, err
			}
		}
	}
}

func (g *registry) toolHandler(fail bool) func(ctx context.Context, req *mcp.CallToolRequest) (*mcp.CallToolResult, error) {
	return func(ctx context.Context, req *mcp.CallToolRequest) (*mcp.CallToolResult, error) {
		nonce, _ := req.Params.Arguments["nonce"].(string)
		r := g.find(nonce, ctx)
		r.awaitPartner()
		sid, csid := sids(ctx)
		mods := intList(req.Params.Arguments["mods"])
		g.record(r, event{T: "h", Mods: mods, CMods: ctxMods(ctx), HasP: true, Tok: tokOf(ctx), Sid: sid, CSid: csid})
		r.park()
		if fail {
			return nil, errors.New("boom-error")
		}
		b, _ := json.Marshal(mods)
		return mcp.NewTextResult("echo " + string(b)), nil
	}
}

func (g *registry) listSeen(ctx context.Context) {
	r := g.find("", ctx)
	sid, csid := sids(ctx)
	g.record(r, event{T: "h", CMods: ctxMods(ctx), Tok: tokOf(ctx), Sid: sid, CSid: csid})
}

func (g *registry) toolFilter(ctx context.Context, tools []*mcp.Tool) []*mcp.Tool {
	g.listSeen(ctx)
	return tools
}
func (g *registry) promptFilter(ctx context.Context, ps []*mcp.Prompt) []*mcp.Prompt {
	g.listSeen(ctx)
	return ps
}
func (g *registry) resourceFilter(ctx context.Context, rs []*mcp.Resource) []*mcp.Resource {
	g.listSeen(ctx)
	return rs
}

// notification handler: signals that the notification was processed.
func (g *registry) notifHandler(ctx context.Context, n *mcp.JSONRPCNotification) error {
	if t := tokOf(ctx); t != "" {
		if r, ok := g.byToken.Load(t); ok {
			rr := r.(*rec)
			select {
			case rr.notif <- struct{}{}:
			default:
			}
		}
	}
	return nil
}

func tagsOf(evs []event) []string {
	var t []string
	for _, e := range evs {
		switch e.T {
		case "b":
			t = append(t, fmt.Sprintf("b%d", e.ID))
		case "a":
			t = append(t, fmt.Sprintf("a%d", e.ID))
		default:
			t = append(t, "h")
		}
	}
	return t
}
