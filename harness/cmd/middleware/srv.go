package main

// Real servers (Streamable HTTP in four configurations, legacy SSE) with instrumented middlewares, and raw peers.

import (
	"bufio"
	"context"
	"encoding/json"
	"fmt"
	"io"
	"net/http"
	"net/http/httptest"
	"strings"
	"sync"
	"sync/atomic"
	"time"

	"verif/harness/hk"

	mcp "trpc.group/trpc-go/trpc-mcp-go"
)

type kind struct {
	Name      string
	Tr        string // streamable | sse   (the model's transport)
	Mode      string // stateful | stateless | sessionsOff (streamable)
	AcceptSSE bool   // the client's Accept header contains text/event-stream (besides application/json)
	PostSSE   bool   // WithPostSSEEnabled(true); with AcceptSSE the POST is answered as an SSE stream (the other responder branch of handlePostRequest)
}

// the kinds of the exhaustive chain enumeration
var kinds = []kind{
	{"st-json", "streamable", "stateful", false, false},
	{"st-postsse", "streamable", "stateful", true, true},
	{"stateless", "streamable", "stateless", false, false},
	{"nosession", "streamable", "sessionsOff", false, false},
	{"legacy-sse", "sse", "", false, false},
}

// matrixKinds: every server configuration x response mode — {stateful, stateless, sessions disabled} x
// {Accept: application/json, Accept: application/json + text/event-stream} x {POST-SSE enabled, disabled} — and legacy SSE
// (the session matrix and the option-order phase; NOT the exhaustive enumeration).
var matrixKinds = func() []kind {
	var l []kind
	for _, mode := range []string{"stateful", "stateless", "sessionsOff"} {
		for _, acc := range []bool{false, true} {
			for _, post := range []bool{true, false} {
				an, pn := "json", "postsse-off"
				if acc {
					an = "json+sse"
				}
				if post {
					pn = "postsse-on"
				}
				l = append(l, kind{"mx-" + mode + "-" + an + "-" + pn, "streamable", mode, acc, post})
			}
		}
	}
	return append(l, kind{"mx-legacy-sse", "sse", "", false, false})
}()

func kindByName(name string) (kind, bool) {
	for _, k := range kinds {
		if k.Name == name {
			return k, true
		}
	}
	for _, k := range matrixKinds {
		if k.Name == name {
			return k, true
		}
	}
	return kind{}, false
}

type server struct {
	k        kind
	groups   [][]int
	reg      *registry
	fx       *hk.Fixture
	sse      *mcp.SSEServer
	ts       *httptest.Server
	sessions []string
	peers    []*ssePeer
	nextID   atomic.Int64
	order    []string // explicit option order the server was built with (nil = the classic order)
	// overlap phase: how long a legacy-SSE request waits for its answer on the stream (0 = 10 s), and a channel whose
	// closing makes every waiting request give up at once (nil = never)
	answerWait time.Duration
	giveUp     chan struct{}
}

var notifMethods = []string{"notifications/initialized", "notifications/cancelled", "notifications/verif"}

func newServer(k kind, groups [][]int, emptyOption bool) (*server, error) {
	return buildServer(buildSpec{k: k, groups: groups, emptyOpt: emptyOption, reg: &registry{}})
}

// newServerWith: `pre` (optional) = ready-made middleware slices, one per option, handed to WithMiddleware /
// WithSSEMiddleware exactly as they are (`pre[i]...`), so that callers can share a slice between servers.
func newServerWith(k kind, groups [][]int, emptyOption bool, reg *registry, pre [][]mcp.Middleware) (*server, error) {
	return buildServer(buildSpec{k: k, groups: groups, emptyOpt: emptyOption, reg: reg, pre: pre})
}

// buildSpec: how one server is constructed.
type buildSpec struct {
	k        kind
	groups   [][]int
	emptyOpt bool
	reg      *registry
	pre      [][]mcp.Middleware
	// order = explicit order of ALL constructor options (nil = the classic order: configuration options first, then the
	// middleware options). Entries: "mw:<i>" = the middleware option of groups[i], "mw:empty" = a middleware option without
	// arguments, anything else = the name of an option constructor of the library (see streamableOption / sseOption).
	order []string
	// post: after construction call the public configuration methods that exist besides the options (Server.SetMethodNameModifier)
	post bool
}

const (
	xPath       = "/verif/mcp-x" // WithServerPath in an explicit order
	xBasePath   = "/verif-base"  // WithBasePath
	xSSEEnd     = "/events"      // WithSSEEndpoint
	xMessageEnd = "/msg"         // WithMessageEndpoint
)

// streamableOthers / sseOthers: every option the constructors accept besides the middleware option.
// WithServerAddress, WithCustomServer and WithHTTPServer only matter to Start() (which binds a port and is never called
// in-process); they are applied all the same.
var streamableOthers = []string{"WithServerLogger", "WithServerPath", "WithGetSSEEnabled", "WithPostSSEEnabled", "WithStatelessMode", "WithoutSession",
	"WithNotificationBufferSize", "WithHTTPContextFunc", "WithToolListFilter", "WithPromptListFilter", "WithResourceListFilter", "WithServerAddress", "WithCustomServer"}

var sseOthers = []string{"WithSSEServerLogger", "WithBasePath", "WithMessageEndpoint", "WithSSEEndpoint", "WithHTTPServer", "WithKeepAlive", "WithKeepAliveInterval",
	"WithSSEContextFunc", "WithSSEToolListFilter", "WithSSEPromptListFilter", "WithSSEResourceListFilter", "WithSSESessionIDGenerator"}

// otherOptions: the options (besides middlewares) a server of this kind is built with in an explicit order: all of them,
// WithoutSession only where sessions are disabled (it cannot be applied without changing the configuration).
func otherOptions(k kind) []string {
	if k.Tr == "sse" {
		return append([]string{}, sseOthers...)
	}
	var l []string
	for _, o := range streamableOthers {
		if o == "WithoutSession" && k.Mode != "sessionsOff" {
			continue
		}
		l = append(l, o)
	}
	return l
}

type seqIDs struct{ n atomic.Int64 }

func (g *seqIDs) GenerateSessionID(r *http.Request) string {
	return fmt.Sprintf("verif-sse-%d", g.n.Add(1))
}

func noopModifier(ctx context.Context, method, toolName string) {}

func (b *buildSpec) middlewares(entry string) ([]mcp.Middleware, bool) {
	if entry == "mw:empty" {
		return nil, true
	}
	var gi int
	if n, err := fmt.Sscanf(entry, "mw:%d", &gi); err != nil || n != 1 || gi < 0 || gi >= len(b.groups) {
		return nil, false
	}
	if b.pre != nil {
		return b.pre[gi], true
	}
	var ms []mcp.Middleware
	for _, id := range b.groups[gi] {
		ms = append(ms, b.reg.middleware(id))
	}
	return ms, true
}

func (b *buildSpec) streamableOption(name string) (mcp.ServerOption, error) {
	g := b.reg
	if ms, ok := b.middlewares(name); ok {
		return mcp.WithMiddleware(ms...), nil
	}
	switch name {
	case "WithServerLogger":
		return mcp.WithServerLogger(hk.QuietLogger{}), nil
	case "WithServerPath":
		return mcp.WithServerPath(xPath), nil
	case "WithGetSSEEnabled":
		return mcp.WithGetSSEEnabled(false), nil
	case "WithPostSSEEnabled":
		return mcp.WithPostSSEEnabled(b.k.PostSSE), nil
	case "WithStatelessMode":
		return mcp.WithStatelessMode(b.k.Mode == "stateless"), nil
	case "WithoutSession":
		if b.k.Mode != "sessionsOff" {
			return nil, fmt.Errorf("WithoutSession on a server of mode %s", b.k.Mode)
		}
		return mcp.WithoutSession(), nil
	case "WithNotificationBufferSize":
		return mcp.WithNotificationBufferSize(7), nil
	case "WithHTTPContextFunc":
		return mcp.WithHTTPContextFunc(ctxFunc), nil
	case "WithToolListFilter":
		return mcp.WithToolListFilter(g.toolFilter), nil
	case "WithPromptListFilter":
		return mcp.WithPromptListFilter(g.promptFilter), nil
	case "WithResourceListFilter":
		return mcp.WithResourceListFilter(g.resourceFilter), nil
	case "WithServerAddress":
		return mcp.WithServerAddress("127.0.0.1:0"), nil
	case "WithCustomServer":
		return mcp.WithCustomServer(&http.Server{}), nil
	}
	return nil, fmt.Errorf("unknown streamable option %q", name)
}

func (b *buildSpec) sseOption(name string) (mcp.SSEOption, error) {
	g := b.reg
	if ms, ok := b.middlewares(name); ok {
		return mcp.WithSSEMiddleware(ms...), nil
	}
	switch name {
	case "WithSSEServerLogger":
		return mcp.WithSSEServerLogger(hk.QuietLogger{}), nil
	case "WithBasePath":
		return mcp.WithBasePath(xBasePath), nil
	case "WithMessageEndpoint":
		return mcp.WithMessageEndpoint(xMessageEnd), nil
	case "WithSSEEndpoint":
		return mcp.WithSSEEndpoint(xSSEEnd), nil
	case "WithHTTPServer":
		return mcp.WithHTTPServer(&http.Server{}), nil
	case "WithKeepAlive":
		return mcp.WithKeepAlive(false), nil
	case "WithKeepAliveInterval":
		return mcp.WithKeepAliveInterval(time.Hour), nil
	case "WithSSEContextFunc":
		return mcp.WithSSEContextFunc(ctxFunc), nil
	case "WithSSEToolListFilter":
		return mcp.WithSSEToolListFilter(g.toolFilter), nil
	case "WithSSEPromptListFilter":
		return mcp.WithSSEPromptListFilter(g.promptFilter), nil
	case "WithSSEResourceListFilter":
		return mcp.WithSSEResourceListFilter(g.resourceFilter), nil
	case "WithSSESessionIDGenerator":
		return mcp.WithSSESessionIDGenerator(&seqIDs{}), nil
	}
	return nil, fmt.Errorf("unknown SSE option %q", name)
}

func has(l []string, x string) bool {
	for _, y := range l {
		if x == y {
			return true
		}
	}
	return false
}

func buildServer(b buildSpec) (*server, error) {
	k, groups, emptyOption, pre := b.k, b.groups, b.emptyOpt, b.pre
	s := &server{k: k, groups: groups, reg: b.reg, order: b.order}
	g := s.reg
	echo := mcp.NewTool("echo", mcp.WithDescription("echoes the request modifications it sees"))
	boom := mcp.NewTool("boom", mcp.WithDescription("always fails"))
	prompt := &mcp.Prompt{Name: "p1", Description: "a prompt"}
	resource := &mcp.Resource{Name: "r1", URI: "verif://r1", Description: "a resource", MimeType: "text/plain"}
	if k.Tr == "streamable" {
		if b.order == nil {
			extra := []mcp.ServerOption{mcp.WithHTTPContextFunc(ctxFunc),
				mcp.WithToolListFilter(g.toolFilter), mcp.WithPromptListFilter(g.promptFilter), mcp.WithResourceListFilter(g.resourceFilter)}
			for gi, grp := range groups {
				var ms []mcp.Middleware
				if pre != nil {
					ms = pre[gi]
				} else {
					for _, id := range grp {
						ms = append(ms, g.middleware(id))
					}
				}
				extra = append(extra, mcp.WithMiddleware(ms...))
			}
			if emptyOption {
				extra = append(extra, mcp.WithMiddleware())
			}
			s.fx = hk.NewFixture(hk.SrvCfg{Mode: k.Mode, Get: false, PostSSE: k.PostSSE}, extra...)
		} else {
			// the options exactly in the order asked for; the fixture literal as hk.NewFixture builds it
			var opts []mcp.ServerOption
			for _, name := range b.order {
				o, err := b.streamableOption(name)
				if err != nil {
					return nil, err
				}
				opts = append(opts, o)
			}
			srv := mcp.NewServer("verif-server", "1.2.3", opts...)
			if b.post {
				srv.SetMethodNameModifier(noopModifier)
			}
			ts := httptest.NewUnstartedServer(srv.Handler())
			ts.Config.ErrorLog = hk.QuietStdLog()
			ts.Start()
			path := "/mcp"
			if has(b.order, "WithServerPath") {
				path = xPath
			}
			tr := &http.Transport{MaxIdleConnsPerHost: 64, DisableCompression: true}
			s.fx = &hk.Fixture{S: srv, TS: ts, URL: ts.URL + path, HC: &http.Client{Transport: tr}}
		}
		s.fx.S.RegisterTool(echo, g.toolHandler(false))
		s.fx.S.RegisterTool(boom, g.toolHandler(true))
		s.fx.S.RegisterPrompt(prompt, func(ctx context.Context, req *mcp.GetPromptRequest) (*mcp.GetPromptResult, error) {
			return &mcp.GetPromptResult{}, nil
		})
		s.fx.S.RegisterResource(resource, func(ctx context.Context, req *mcp.ReadResourceRequest) (mcp.ResourceContents, error) {
			return mcp.TextResourceContents{URI: "verif://r1", Text: "x"}, nil
		})
		for _, m := range notifMethods {
			s.fx.S.RegisterNotificationHandler(m, g.notifHandler)
		}
		if k.Mode == "stateful" {
			for i := 0; i < 2; i++ {
				r := s.fx.Post(map[string]string{"Accept": "application/json", tokenHeader: "setup"}, fmt.Sprintf(`{"jsonrpc":"2.0","id":"setup-%d","method":"initialize","params":{"protocolVersion":"2025-03-26","capabilities":{},"clientInfo":{"name":"verif","version":"1"}}}`, i))
				sid := r.Header.Get("Mcp-Session-Id")
				if r.Status != 200 || sid == "" {
					return nil, fmt.Errorf("setup initialize: status %d body %s", r.Status, r.Body)
				}
				s.sessions = append(s.sessions, sid)
			}
		}
		return s, nil
	}
	var opts []mcp.SSEOption
	ssePath := "/sse"
	if b.order == nil {
		opts = []mcp.SSEOption{mcp.WithSSEServerLogger(hk.QuietLogger{}), mcp.WithSSEContextFunc(ctxFunc),
			mcp.WithSSEToolListFilter(g.toolFilter), mcp.WithSSEPromptListFilter(g.promptFilter), mcp.WithSSEResourceListFilter(g.resourceFilter)}
		for gi, grp := range groups {
			var ms []mcp.Middleware
			if pre != nil {
				ms = pre[gi]
			} else {
				for _, id := range grp {
					ms = append(ms, g.middleware(id))
				}
			}
			opts = append(opts, mcp.WithSSEMiddleware(ms...))
		}
		if emptyOption {
			opts = append(opts, mcp.WithSSEMiddleware())
		}
	} else {
		for _, name := range b.order {
			o, err := b.sseOption(name)
			if err != nil {
				return nil, err
			}
			opts = append(opts, o)
		}
		if has(b.order, "WithSSEEndpoint") {
			ssePath = xSSEEnd
		}
		if has(b.order, "WithBasePath") {
			ssePath = xBasePath + ssePath
		}
	}
	s.sse = mcp.NewSSEServer("verif-server", "1.2.3", opts...)
	s.sse.RegisterTool(echo, g.toolHandler(false))
	s.sse.RegisterTool(boom, g.toolHandler(true))
	s.sse.RegisterPrompt(prompt, func(ctx context.Context, req *mcp.GetPromptRequest) (*mcp.GetPromptResult, error) {
		return &mcp.GetPromptResult{}, nil
	})
	s.sse.RegisterResource(resource, func(ctx context.Context, req *mcp.ReadResourceRequest) (mcp.ResourceContents, error) {
		return mcp.TextResourceContents{URI: "verif://r1", Text: "x"}, nil
	})
	for _, m := range notifMethods {
		s.sse.RegisterNotificationHandler(m, g.notifHandler)
	}
	s.ts = httptest.NewUnstartedServer(s.sse)
	s.ts.Config.ErrorLog = hk.QuietStdLog()
	s.ts.Start()
	tr := &http.Transport{MaxIdleConnsPerHost: 64, DisableCompression: true}
	s.fx = &hk.Fixture{TS: s.ts, URL: s.ts.URL + ssePath, HC: &http.Client{Transport: tr}}
	for i := 0; i < 2; i++ {
		p, err := openSSE(s.ts.URL, ssePath, s.fx.HC)
		if err != nil {
			return nil, err
		}
		s.peers = append(s.peers, p)
	}
	return s, nil
}

func (s *server) close() {
	for _, p := range s.peers {
		p.close()
	}
	if s.k.Tr == "streamable" {
		s.fx.Close()
		return
	}
	s.fx.HC.CloseIdleConnections()
	s.ts.CloseClientConnections()
	s.ts.Close()
}

// answer = what the peer got for one message.
type answer struct {
	status  int
	sid     string         // session the server says the answer belongs to (header) / the SSE session
	msg     map[string]any // the JSON-RPC answer (nil = none)
	problem string
	ctype   string // Content-Type of the answer (streamable)
}

func parseStreamableBody(r hk.RawResp) (map[string]any, string) {
	body := string(r.Body)
	if strings.HasPrefix(r.Header.Get("Content-Type"), "text/event-stream") {
		var data []string
		for _, l := range strings.Split(body, "\n") {
			l = strings.TrimSuffix(l, "\r")
			if strings.HasPrefix(l, "data:") {
				data = append(data, strings.TrimPrefix(strings.TrimPrefix(l, "data:"), " "))
			}
		}
		body = strings.Join(data, "\n")
	}
	if strings.TrimSpace(body) == "" {
		return nil, ""
	}
	var m map[string]any
	if err := json.Unmarshal([]byte(body), &m); err != nil {
		return nil, "unparsable answer: " + err.Error() + ": " + body
	}
	return m, ""
}

// send one JSON-RPC message; which = which session / peer to use; newSession = no session header (initialize).
func (s *server) send(body map[string]any, token string, which int, newSession bool, isRequest bool) answer {
	b, _ := json.Marshal(body)
	if s.k.Tr == "streamable" {
		hdr := map[string]string{tokenHeader: token, "Accept": "application/json"}
		if s.k.AcceptSSE {
			hdr["Accept"] = "application/json, text/event-stream"
		}
		want := ""
		if s.k.Mode == "stateful" && !newSession {
			want = s.sessions[which%len(s.sessions)]
			hdr["Mcp-Session-Id"] = want
		}
		r := s.fx.Post(hdr, string(b))
		a := answer{status: r.Status}
		if r.Err != nil {
			a.problem = "transport: " + r.Err.Error()
			return a
		}
		a.sid = r.Header.Get("Mcp-Session-Id")
		a.ctype = r.Header.Get("Content-Type")
		if want != "" && a.sid != want {
			a.problem = fmt.Sprintf("answer carries session %q, request carried %q", a.sid, want)
		}
		var pb string
		a.msg, pb = parseStreamableBody(r)
		if pb != "" {
			a.problem = pb
		}
		return a
	}
	p := s.peers[which%len(s.peers)]
	a := answer{sid: p.sid}
	var ch chan map[string]any
	key := fmt.Sprint(body["id"])
	if isRequest {
		ch = p.expect(key)
	}
	r := s.fx.Do("POST", p.msgURL, map[string]string{"Content-Type": "application/json", tokenHeader: token}, b)
	a.status = r.Status
	if r.Err != nil || r.Status != 202 {
		a.problem = fmt.Sprintf("message POST: status %d err %v", r.Status, r.Err)
		return a
	}
	if !isRequest {
		return a
	}
	wait := 10 * time.Second
	if s.answerWait > 0 {
		wait = s.answerWait
	}
	select {
	case m := <-ch:
		a.msg = m
	case <-time.After(wait):
		a.problem = fmt.Sprintf("no answer on the SSE stream within %v", wait)
		p.forget(key)
	case <-s.giveUp:
		// a last look: the answer may have arrived together with the signal
		select {
		case m := <-ch:
			a.msg = m
		default:
			a.problem = "no answer on the SSE stream when the round's bound had passed"
			p.forget(key)
		}
	}
	return a
}

// ssePeer: raw legacy-SSE client (reference reader, independent of the library's).
type ssePeer struct {
	msgURL  string
	sid     string
	cancel  context.CancelFunc
	body    io.ReadCloser
	mu      sync.Mutex
	waiters map[string]chan map[string]any
	extra   []string
}

func openSSE(base, ssePath string, hc *http.Client) (*ssePeer, error) {
	ctx, cancel := context.WithCancel(context.Background())
	req, _ := http.NewRequestWithContext(ctx, "GET", base+ssePath, nil)
	req.Header.Set("Accept", "text/event-stream")
	req.Header.Set(tokenHeader, "stream-open")
	resp, err := hc.Do(req)
	if err != nil {
		cancel()
		return nil, err
	}
	if resp.StatusCode != 200 {
		cancel()
		return nil, fmt.Errorf("GET %s: status %d", ssePath, resp.StatusCode)
	}
	p := &ssePeer{cancel: cancel, body: resp.Body, waiters: map[string]chan map[string]any{}}
	ep := make(chan string, 1)
	go p.read(ep)
	select {
	case e := <-ep:
		p.msgURL = base + e
		if i := strings.Index(e, "sessionId="); i >= 0 {
			p.sid = e[i+len("sessionId="):]
		}
	case <-time.After(5 * time.Second):
		p.close()
		return nil, fmt.Errorf("no endpoint event within 5s")
	}
	return p, nil
}

func (p *ssePeer) read(ep chan string) {
	br := bufio.NewReaderSize(p.body, 1<<20)
	evType := ""
	var data []string
	for {
		line, err := br.ReadString('\n')
		if err != nil {
			return
		}
		line = strings.TrimSuffix(strings.TrimRight(line, "\n"), "\r")
		if line == "" {
			if len(data) > 0 {
				d := strings.Join(data, "\n")
				switch evType {
				case "endpoint":
					select {
					case ep <- d:
					default:
					}
				default:
					var m map[string]any
					if json.Unmarshal([]byte(d), &m) == nil {
						key := fmt.Sprint(m["id"])
						if f, ok := m["id"].(float64); ok {
							key = fmt.Sprint(int64(f))
						}
						p.mu.Lock()
						ch, ok := p.waiters[key]
						if ok {
							delete(p.waiters, key)
						} else {
							p.extra = append(p.extra, d)
						}
						p.mu.Unlock()
						if ok {
							ch <- m
						}
					}
				}
			}
			evType, data = "", nil
			continue
		}
		if strings.HasPrefix(line, ":") {
			continue
		}
		field, val := line, ""
		if i := strings.Index(line, ":"); i >= 0 {
			field, val = line[:i], strings.TrimPrefix(line[i+1:], " ")
		}
		switch field {
		case "event":
			evType = val
		case "data":
			data = append(data, val)
		}
	}
}

func (p *ssePeer) expect(key string) chan map[string]any {
	ch := make(chan map[string]any, 1)
	p.mu.Lock()
	p.waiters[key] = ch
	p.mu.Unlock()
	return ch
}

func (p *ssePeer) forget(key string) {
	p.mu.Lock()
	delete(p.waiters, key)
	p.mu.Unlock()
}

func (p *ssePeer) unexpected() []string {
	p.mu.Lock()
	defer p.mu.Unlock()
	return append([]string{}, p.extra...)
}

func (p *ssePeer) close() {
	p.cancel()
	p.body.Close()
}
