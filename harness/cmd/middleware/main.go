package main

import (
	"context"
	"encoding/json"
	"fmt"
	"math/rand"
	"os"
	"sort"
	"strings"
	"sync"
	"time"

	"verif/harness/hk"

	mcp "trpc.group/trpc-go/trpc-mcp-go"
)

func main() {
	hk.Main(&hk.Component{Name: "middleware",
		Rule: "exhaustive part: real Streamable HTTP servers (stateful JSON answers, stateful SSE-framed answers, stateless, sessions disabled) and real legacy SSE servers built with " +
			"instrumented middlewares through WithMiddleware / WithSSEMiddleware in every option form (one option, one option per middleware, mixed split, an extra empty option); " +
			"every chain up to length 4 (quick) / 5 (thorough) over {pass, modify-request, modify-result, short-circuit with a result, short-circuit with a JSON-RPC error, fail} x " +
			"9 methods (tools/call echo / failing tool / unknown tool, tools/list, prompts/list, resources/list, ping, initialize, unknown method) plus seeded random chains of length 5..10, " +
			"requests of different behaviour interleaved on 8 concurrent connections per server and two sessions; three kinds of notifications per server; " +
			"fail includes errors wrapping context.DeadlineExceeded / context.Canceled that do not stem from the HTTP request; pairs of servers built from one shared middleware slice with spare capacity; " +
			"rounds of overlapping requests of two sessions that carry equal JSON-RPC ids (numeric and string), overlap enforced by an event-based rendezvous inside the tool; " +
			"per-request trace keyed by a nonce in the request parameters, every stage records the context token (HTTP context function) and session it sees; " +
			"session matrix: every server configuration x response mode — {stateful, stateless, sessions disabled} x {Accept: application/json, Accept: application/json + text/event-stream} x " +
			"{POST-SSE enabled, disabled} (12 Streamable configurations) and legacy SSE — with three instrumented middlewares in two option forms, all 216 chains over the six behaviours x " +
			"{tools/call echo, failing tool, tools/list, prompts/list, resources/list, ping, initialize} (2 methods per chain quick, all 7 thorough) on both sessions: per-request evaluation plus the session each " +
			"stage (before/after) and the method handler sees (GetSessionFromContext, the tool also ClientSessionFromContext) compared between all stages and the handler; stateless: no two requests share a temporary session; " +
			"option orders on both constructors (mcp.NewServer, mcp.NewSSEServer): two middleware options against every other option X the constructor accepts as [rest…, mw, X, mw], [X, mw, mw, rest…], [rest, mw, mw, X, rest] " +
			"(Streamable: WithServerLogger, WithServerPath (URL adapted), WithGetSSEEnabled, WithPostSSEEnabled, WithStatelessMode, WithoutSession (only on a server without sessions), WithNotificationBufferSize, WithHTTPContextFunc, " +
			"WithToolListFilter, WithPromptListFilter, WithResourceListFilter, WithServerAddress, WithCustomServer, and the post-construction method SetMethodNameModifier on every other server; legacy SSE: WithSSEServerLogger, WithBasePath, " +
			"WithMessageEndpoint, WithSSEEndpoint (URLs adapted), WithHTTPServer, WithKeepAlive, WithKeepAliveInterval, WithSSEContextFunc, WithSSEToolListFilter, WithSSEPromptListFilter, WithSSEResourceListFilter, " +
			"WithSSESessionIDGenerator; no option is skipped — WithServerAddress / WithCustomServer / WithHTTPServer only matter to Start(), which is not called in-process, and are applied all the same) plus 16 (quick) / 160 (thorough) seeded random permutations of ALL " +
			"options with 2–4 middleware options (sometimes an empty one) interleaved; through each such server six requests (marks of all stages in the echo, tools/list, last stage short-circuits, first stage refuses, a stage fails); " +
			"overlap: on every configuration of the matrix N = 20 and 40 (120 on legacy SSE and three Streamable cells; thorough: 120 everywhere, three passes) tools/call requests of ONE session (stateless / sessions disabled: one client, same headers) in flight at the same time — " +
			"the tool handlers park at a gate (each signals that it is inside, the harness waits at most 6 s until all are), every 5th request is answered by its second stage instead and must be answered while the others are parked, then tools/list, ping, " +
			"resources/list, another tools/call and a call refused by the first stage are sent on the same session while the handlers are parked and must pass the chain and be answered, then the gates open (legacy SSE: 40 at a time, the session's answer queue has 100 slots) " +
			"and every answer is collected; chains of three stages mixing pass / modify-request / modify-result; every request is evaluated like all others (exact onion trace, each stage once, expected answer, right id) and emits its model line with the number of requests in flight; " +
			"a result that is a map is stamped IN PLACE by the result-modifying stages (mark + the nonce of the request being worked on), everything else is re-built; " +
			"shared-result phase, sequential and first (st-json, st-postsse, legacy SSE; two servers in one process, A with two middlewares, B with none): per method a stamped request on A, then one on A that passes no modifying stage, then one on B, " +
			"then two more stamped ones on A and another on B: the unstamped answers must carry no mark or stamp (middleware:result-shared-between-requests:<method>:<tr>), every answer's stamp must name its own request; " +
			"non-trivial = a distinct (transport, option form, chain, method) with at least two stages of which one is not pass-through",
		Run: run})
}

type methodSpec struct {
	Name   string
	Method string
	Hobs   bool // the handler's execution is observable (tool handler / list filter)
	Echo   bool // the handler reflects the request modifications in its result
	extra  func(nonce string) map[string]any
}

func (m *methodSpec) params(nonce string) map[string]any {
	p := map[string]any{"nonce": nonce, "mods": []int{}}
	if m.extra != nil {
		for k, v := range m.extra(nonce) {
			p[k] = v
		}
	}
	return p
}

func toolArgs(name string) func(string) map[string]any {
	return func(n string) map[string]any {
		return map[string]any{"name": name, "arguments": map[string]any{"nonce": n, "mods": []int{}}}
	}
}

var methods = []*methodSpec{
	{Name: "toolsCall", Method: "tools/call", Hobs: true, Echo: true, extra: toolArgs("echo")},
	{Name: "toolsCallFail", Method: "tools/call", Hobs: true, extra: toolArgs("boom")},
	{Name: "toolsCallMissing", Method: "tools/call", extra: toolArgs("nosuch")},
	{Name: "toolsList", Method: "tools/list", Hobs: true},
	{Name: "promptsList", Method: "prompts/list", Hobs: true},
	{Name: "resourcesList", Method: "resources/list", Hobs: true},
	{Name: "ping", Method: "ping"},
	{Name: "initialize", Method: "initialize", extra: func(string) map[string]any {
		return map[string]any{"protocolVersion": "2025-03-26", "capabilities": map[string]any{}, "clientInfo": map[string]any{"name": "verif", "version": "1"}}
	}},
	{Name: "unknown", Method: "verif/unknown"},
}

var behKinds = []string{"pass", "modReq", "modRes", "shortOk", "shortRpc", "fail"}

func mkStage(id int, b string, salt int) stage {
	s := stage{ID: id, B: b}
	switch b {
	case "shortOk":
		s.R = 100 + 7*id + salt%5
	case "shortRpc":
		s.Code = -32000 - id - salt%3
		s.Msg = fmt.Sprintf("denied by stage %d", id)
		if salt%4 == 1 {
			s.Msg = fmt.Sprintf("zugriff verweigert: stufe %d — \"nein\"", id)
		}
	case "fail":
		s.E = fmt.Sprintf("stage %d failed", id)
		if salt%4 == 2 {
			s.E = fmt.Sprintf("étape %d: erreur \\ \"interne\"", id)
		}
		// a failure that is / wraps a context error which does not stem from the HTTP request (a middleware's own budget)
		if salt%4 == 3 {
			s.Wrap, s.E = "deadline", "budget exceeded: "+context.DeadlineExceeded.Error()
		}
		if salt%8 == 4 {
			s.Wrap, s.E = "canceled", "upstream gave up: "+context.Canceled.Error()
		}
	}
	return s
}

type tcase struct {
	k        kind
	groups   [][]int
	emptyOpt bool
	plan     []stage
	m        *methodSpec
	which    int
	newSess  bool
	tags     []string
	order    []string // explicit option order of the server (nil = classic)
	post     bool     // the server's post-construction configuration methods are called too
	// overlap phase: N = requests of the same session in flight at the same time (0 = not an overlap case), index of this one
	// (-1 = sent while the N are parked), held = its tool handler parks at the gate
	overlapN   int
	overlapIdx int
	held       bool
	// filled by the run
	events []event
	ans    answer
	token  string
	reqID  int64
	// id-collision rounds
	fixedID any    // JSON-RPC id to use (nil = the server's counter)
	partner *tcase // request of another session with the same id, in flight at the same time
	r       *rec
}

func srvKey(k kind, groups [][]int, emptyOpt bool) string {
	var p []string
	for _, g := range groups {
		p = append(p, fmt.Sprint(len(g)))
	}
	return fmt.Sprintf("%s|%s|%v", k.Name, strings.Join(p, ","), emptyOpt)
}

func (tc *tcase) srvKey() string {
	key := srvKey(tc.k, tc.groups, tc.emptyOpt)
	if tc.order != nil {
		key += "|" + strings.Join(tc.order, ",") + fmt.Sprintf("|%v", tc.post)
	}
	return key
}

// partitions of 0..k-1 into consecutive groups: the option forms.
func forms(k int, rng *rand.Rand) [][][]int {
	ids := make([]int, k)
	for i := range ids {
		ids[i] = i
	}
	if k == 0 {
		return [][][]int{{}}
	}
	single := [][]int{ids}
	if k == 1 {
		return [][][]int{single}
	}
	var repeated [][]int
	for _, i := range ids {
		repeated = append(repeated, []int{i})
	}
	out := [][][]int{single, repeated}
	if k >= 3 {
		var mixed [][]int
		i := 0
		for i < k {
			n := 1 + rng.Intn(2)
			if i == 0 && n >= k {
				n = k - 1
			}
			if i+n > k {
				n = k - i
			}
			mixed = append(mixed, ids[i:i+n])
			i += n
		}
		if len(mixed) == k { // would equal "repeated"
			mixed = append([][]int{ids[0:2]}, mixed[2:]...)
		}
		out = append(out, mixed)
	}
	return out
}

type baseline struct {
	core map[string]any
	base string
}

// ensureBase measures what each method gives on a server of this kind without middlewares (once per kind).
func ensureBase(bases map[string]map[string]baseline, k kind) {
	if _, ok := bases[k.Name]; ok {
		return
	}
	s, err := newServer(k, nil, false)
	if err != nil {
		panic(fmt.Sprintf("baseline server %s: %v", k.Name, err))
	}
	bases[k.Name] = map[string]baseline{}
	for _, m := range methods {
		body := map[string]any{"jsonrpc": "2.0", "id": s.nextID.Add(1), "method": m.Method, "params": m.params("baseline")}
		a := s.send(body, "setup", 0, false, true)
		if a.problem != "" || a.msg == nil {
			panic(fmt.Sprintf("baseline %s %s: %s (status %d)", k.Name, m.Name, a.problem, a.status))
		}
		if e, ok := a.msg["error"].(map[string]any); ok {
			code, _ := e["code"].(float64)
			msg, _ := e["message"].(string)
			bases[k.Name][m.Name] = baseline{core: map[string]any{"k": "rpc", "code": int(code), "msg": msg}}
			continue
		}
		if rm, ok := a.msg["result"].(map[string]any); ok {
			sortListing(rm)
		}
		rb, _ := json.Marshal(a.msg["result"])
		bases[k.Name][m.Name] = baseline{core: map[string]any{"k": "ok", "echo": m.Echo}, base: string(rb)}
	}
	s.close()
	// sanity of the fixture (not of the property): the echo tool must answer "echo []" without middlewares
	if !strings.Contains(bases[k.Name]["toolsCall"].base, `"echo []"`) {
		panic("fixture: echo tool baseline of " + k.Name + " is " + bases[k.Name]["toolsCall"].base)
	}
}

func run(c *hk.Ctx) {
	maxLen := 4
	nRandom := 200
	if c.Thorough() {
		maxLen = 5
		nRandom = 2000
	}
	var replay map[string]any
	if hk.ReplayFile != "" {
		if b, err := os.ReadFile(hk.ReplayFile); err == nil {
			var rp map[string]any
			if json.Unmarshal(b, &rp) == nil {
				replay, _ = rp["input"].(map[string]any)
			}
		}
	}

	// ---- baselines: what each method gives on a server without middlewares, per kind of server
	bases := map[string]map[string]baseline{}
	for _, k := range kinds {
		ensureBase(bases, k)
	}

	// ---- cases
	var cases []*tcase
	add := func(k kind, groups [][]int, emptyOpt bool, plan []stage, m *methodSpec, tags ...string) {
		n := len(cases)
		cases = append(cases, &tcase{k: k, groups: groups, emptyOpt: emptyOpt, plan: plan, m: m, which: n % 2,
			newSess: m.Name == "initialize" && k.Mode == "stateful" && n%3 == 0, tags: tags})
	}
	if replay != nil {
		cases = replayCases(replay)
		for _, tc := range cases {
			ensureBase(bases, tc.k)
		}
	} else {
		for _, k := range kinds {
			for n := 0; n <= maxLen; n++ {
				fs := forms(n, c.Rng)
				total := 1
				for i := 0; i < n; i++ {
					total *= len(behKinds)
				}
				for ci := 0; ci < total; ci++ {
					plan := make([]stage, n)
					x := ci
					for i := n - 1; i >= 0; i-- {
						plan[i] = mkStage(i, behKinds[x%len(behKinds)], ci+i)
						x /= len(behKinds)
					}
					for mi, m := range methods {
						if n <= 2 {
							for _, f := range fs {
								add(k, f, false, plan, m, "exhaustive")
							}
							if n == 0 {
								add(k, nil, true, plan, m, "exhaustive", "empty-option")
							}
						} else {
							add(k, fs[(ci+mi)%len(fs)], false, plan, m, "exhaustive")
						}
					}
				}
			}
			// random longer chains, mostly calling stages so that the chain goes deep
			for r := 0; r < nRandom; r++ {
				n := 5 + c.Rng.Intn(6)
				fs := forms(n, c.Rng)
				f := fs[c.Rng.Intn(len(fs))]
				if r%2 == 0 { // keep the number of distinct servers small: canonical forms only
					f = fs[r/2%2]
				}
				plan := make([]stage, n)
				for i := range plan {
					b := behKinds[c.Rng.Intn(3)]
					if c.Rng.Intn(100) < 12 {
						b = behKinds[3+c.Rng.Intn(3)]
					}
					plan[i] = mkStage(i, b, c.Rng.Intn(1000))
				}
				add(k, f, false, plan, methods[c.Rng.Intn(len(methods))], "random")
			}
		}
	}

	// ---- group by server, run
	groups := map[string][]*tcase{}
	var order []string
	for _, tc := range cases {
		key := tc.srvKey()
		if _, ok := groups[key]; !ok {
			order = append(order, key)
		}
		groups[key] = append(groups[key], tc)
	}
	nServers := 0
	if replay == nil {
		nServers += sharedResults(c, bases, len(order)+3000) // first: decides whether results may be stamped in place
	}
	for si, key := range order {
		g := groups[key]
		tc0 := g[0]
		s, err := buildServer(buildSpec{k: tc0.k, groups: tc0.groups, emptyOpt: tc0.emptyOpt, reg: &registry{}, order: tc0.order, post: tc0.post})
		if err != nil {
			panic(fmt.Sprintf("server %s: %v", key, err))
		}
		nServers++
		runGroup(c, s, g, si, key, bases)
		if replay != nil {
			for _, tc := range g {
				sessionOracle(c, s, tc)
				if tc.order != nil {
					optionOrderOracle(c, s, tc, bases[s.k.Name][tc.m.Name])
				}
			}
		}
		s.close()
	}
	if replay == nil {
		nServers += sharedSlicePairs(c, bases, len(order))
		nServers += idCollisions(c, bases, len(order)+100)
		nServers += sessionMatrix(c, bases, len(order)+200)
		nServers += optionOrders(c, bases, len(order)+400)
		nServers += overlaps(c, bases, len(order)+1000)
	}
	c.SetExtra("servers", nServers)
	c.SetExtra("cases", len(cases))
}

// runGroup runs the cases of one server on 8 concurrent connections (interleaved by a seeded permutation), evaluates
// them, sends the notifications and checks that nothing else entered the chain.
func runGroup(c *hk.Ctx, s *server, g []*tcase, si int, key string, bases map[string]map[string]baseline) {
	perm := rand.New(rand.NewSource(c.Seed*1000003 + int64(si))).Perm(len(g))
	jobs := make(chan int, len(g))
	for _, i := range perm {
		jobs <- i
	}
	close(jobs)
	var wg sync.WaitGroup
	for w := 0; w < 8; w++ {
		wg.Add(1)
		go func() {
			defer wg.Done()
			for i := range jobs {
				runCase(s, g[i], si, i, bases[s.k.Name][g[i].m.Name])
			}
		}()
	}
	wg.Wait()
	for _, tc := range g {
		evaluate(c, s, tc, bases[s.k.Name][tc.m.Name])
	}
	runNotifications(c, s, si)
	finishServer(c, s, key)
}

// finishServer: nothing may have entered the chain outside the requests accounted for.
func finishServer(c *hk.Ctx, s *server, key string) {
	s.reg.strayMu.Lock()
	stray := append([]event{}, s.reg.stray...)
	s.reg.strayMu.Unlock()
	if len(stray) > 0 {
		c.Violate(hk.Violation{Fingerprint: "middleware:stray-invocation:" + s.k.Name, What: "a middleware or handler ran for something that is not one of the requests sent (no nonce, no token)",
			Input: map[string]any{"server": key}, Observed: tagsOf(stray)})
	}
	for _, p := range s.peers {
		if ex := p.unexpected(); len(ex) > 0 {
			c.Violate(hk.Violation{Fingerprint: "middleware:unsolicited-answer:" + s.k.Name, What: "the SSE stream carried a message that answers no pending request",
				Input: map[string]any{"server": key}, Observed: ex[0]})
		}
	}
}

// sharedSlicePairs: two servers built from ONE caller-owned middleware slice with spare capacity,
//
//	common := append(make([]mcp.Middleware, 0, 4), m0, m1, m2)
//	server1 = New(WithMiddleware(common...), WithMiddleware(m3));  server2 = New(WithMiddleware(common...), WithMiddleware(m13))
//
// Both are built before any request is sent; each server's chain must be exactly what it was configured with.
func sharedSlicePairs(c *hk.Ctx, bases map[string]map[string]baseline, si0 int) int {
	n := 0
	for ki, k := range kinds {
		reg := &registry{}
		common := append(make([]mcp.Middleware, 0, 4), reg.middleware(0), reg.middleware(1), reg.middleware(2))
		owns := []int{3, 13}
		var srvs []*server
		for _, own := range owns {
			s, err := newServerWith(k, [][]int{{0, 1, 2}, {own}}, false, reg, [][]mcp.Middleware{common, {reg.middleware(own)}})
			if err != nil {
				panic(fmt.Sprintf("shared-slice server %s: %v", k.Name, err))
			}
			srvs = append(srvs, s)
		}
		for i, s := range srvs {
			own := owns[i]
			var g []*tcase
			for bi, b := range behKinds {
				for ci, cb := range []string{"pass", "modReq", "modRes"} {
					for _, m := range []*methodSpec{methods[0], methods[3], methods[6]} {
						plan := []stage{mkStage(0, cb, ci), mkStage(1, "pass", 0), mkStage(2, behKinds[(bi+ci)%3], bi), mkStage(own, b, bi+ci)}
						g = append(g, &tcase{k: k, groups: s.groups, plan: plan, m: m, which: len(g) % 2, tags: []string{"shared-slice"}})
					}
				}
			}
			runGroup(c, s, g, si0+10*ki+i, fmt.Sprintf("%s|shared-slice|own=%d", k.Name, own), bases)
			n++
		}
		for _, s := range srvs {
			s.close()
		}
	}
	return n
}

// idCollisions: every session counts its JSON-RPC ids from 1 (and some clients use the same string ids), so requests of
// different sessions that are in flight at the same time carry EQUAL ids. Rounds of two tools/call requests, one per
// session, same id; the tool handler of each waits (bounded, event-based) until the other request is inside the chain
// too, so the two really overlap. Every stage and the tool must see the request's own session.
func idCollisions(c *hk.Ctx, bases map[string]map[string]baseline, si0 int) int {
	rounds := 24
	if c.Thorough() {
		rounds = 200
	}
	n := 0
	for ki, k := range kinds {
		if k.Tr != "streamable" || k.Mode == "sessionsOff" {
			continue
		}
		for fi, groups := range [][][]int{{{0}}, {{0, 1}, {2}}} {
			s, err := newServer(k, groups, false)
			if err != nil {
				panic(fmt.Sprintf("id-collision server %s: %v", k.Name, err))
			}
			n++
			si := si0 + 10*ki + fi
			var all []*tcase
			for r := 0; r < rounds; r++ {
				var id any = r + 1
				if r%3 == 2 {
					id = fmt.Sprintf("req-%d", r/3+1)
				}
				var pair []*tcase
				for w := 0; w < 2; w++ {
					var plan []stage
					for _, grp := range groups {
						for _, sid := range grp {
							plan = append(plan, mkStage(sid, behKinds[(r+sid+w)%3], r))
						}
					}
					pair = append(pair, &tcase{k: k, groups: groups, plan: plan, m: methods[0], which: w, fixedID: id, tags: []string{"id-collision"}})
				}
				b := bases[k.Name][methods[0].Name]
				for w, tc := range pair {
					prepareCase(s, tc, si, 2*r+w, b)
				}
				pair[0].r.partner, pair[1].r.partner = pair[1].r, pair[0].r
				var wg sync.WaitGroup
				for _, tc := range pair {
					wg.Add(1)
					go func(tc *tcase) {
						defer wg.Done()
						sendCase(s, tc)
					}(tc)
				}
				wg.Wait()
				all = append(all, pair...)
			}
			for _, tc := range all {
				evaluate(c, s, tc, bases[k.Name][tc.m.Name])
			}
			finishServer(c, s, fmt.Sprintf("%s|id-collision|%d", k.Name, fi))
			s.close()
		}
	}
	return n
}

func optsJSON(groups [][]int, plan []stage) []any {
	byID := map[int]stage{}
	for _, s := range plan {
		byID[s.ID] = s
	}
	out := []any{}
	for _, g := range groups {
		l := []any{}
		for _, id := range g {
			l = append(l, byID[id].json())
		}
		out = append(out, l)
	}
	return out
}

func runCase(s *server, tc *tcase, si, i int, b baseline) {
	prepareCase(s, tc, si, i, b)
	sendCase(s, tc)
}

func prepareCase(s *server, tc *tcase, si, i int, b baseline) {
	nonce := fmt.Sprintf("n-%d-%d", si, i)
	tc.token = "tok-" + nonce
	r := &rec{nonce: nonce, token: tc.token, plan: map[int]stage{}, m: tc.m, base: b.base, entered: make(chan struct{})}
	for _, st := range tc.plan {
		r.plan[st.ID] = st
	}
	tc.r = r
	s.reg.register(r)
}

func sendCase(s *server, tc *tcase) {
	r := tc.r
	var id any
	if tc.fixedID != nil {
		id = tc.fixedID
	} else {
		tc.reqID = s.nextID.Add(1)
		id = tc.reqID
	}
	body := map[string]any{"jsonrpc": "2.0", "id": id, "method": tc.m.Method, "params": tc.m.params(r.nonce)}
	tc.ans = s.send(body, tc.token, tc.which, tc.newSess, true)
	tc.events = r.snapshot()
	s.reg.unregister(r)
}

// ---- the property read directly (independent of the Lean model): what the statement demands for one request

type xout struct {
	kind  string // handler | short | rpc | err
	short int
	echo  []int
	code  int
	msg   string
	rm    []int
}

func expect(plan []stage, b baseline, m *methodSpec) ([]string, map[string]any) {
	var tags []string
	mods := []int{}
	stop := -1
	for i, st := range plan {
		tags = append(tags, fmt.Sprintf("b%d", st.ID))
		if !st.calls() {
			stop = i
			break
		}
		if st.B == "modReq" {
			mods = append(mods, st.ID)
		}
	}
	var o xout
	last := len(plan) - 1
	if stop < 0 {
		if m.Hobs {
			tags = append(tags, "h")
		}
		switch b.core["k"] {
		case "ok":
			o = xout{kind: "handler", echo: []int{}}
			if m.Echo {
				o.echo = mods
			}
		default:
			o = xout{kind: "rpc", code: b.core["code"].(int), msg: b.core["msg"].(string)}
		}
	} else {
		st := plan[stop]
		switch st.B {
		case "shortOk":
			o = xout{kind: "short", short: st.R}
		case "shortRpc":
			o = xout{kind: "rpc", code: st.Code, msg: st.Msg}
		default:
			o = xout{kind: "err", msg: st.E}
		}
		last = stop - 1
	}
	o.rm = []int{}
	for i := last; i >= 0; i-- {
		tags = append(tags, fmt.Sprintf("a%d", plan[i].ID))
		if plan[i].B == "modRes" && o.kind != "err" {
			o.rm = append(o.rm, plan[i].ID)
		}
	}
	switch o.kind {
	case "handler":
		return tags, map[string]any{"k": "result", "v": map[string]any{"handler": nz(o.echo)}, "rm": o.rm}
	case "short":
		return tags, map[string]any{"k": "result", "v": map[string]any{"short": o.short}, "rm": o.rm}
	case "rpc":
		return tags, map[string]any{"k": "error", "code": o.code, "msg": o.msg, "rm": o.rm}
	default:
		return tags, map[string]any{"k": "error", "code": -32603, "msg": o.msg, "rm": []int{}}
	}
}

func canonResp(msg map[string]any, m *methodSpec, base string) any {
	if msg == nil {
		return nil
	}
	if e, ok := msg["error"].(map[string]any); ok {
		code, _ := e["code"].(float64)
		text, _ := e["message"].(string)
		return map[string]any{"k": "error", "code": int(code), "msg": text, "rm": intList(e["data"])}
	}
	if r, ok := msg["result"]; ok {
		v, rm := canonResult(r, m, base)
		return map[string]any{"k": "result", "v": v, "rm": rm}
	}
	return map[string]any{"k": "malformed", "raw": msg}
}

func js(v any) string {
	b, _ := json.Marshal(v)
	return string(b)
}

func multiset(l []string) string {
	c := append([]string{}, l...)
	sort.Strings(c)
	return strings.Join(c, " ")
}

func evaluate(c *hk.Ctx, s *server, tc *tcase, b baseline) {
	input := tc.input()
	wantTags, wantResp := expect(tc.plan, b, tc.m)
	gotTags := tagsOf(tc.events)
	suffix := ":" + tc.k.Tr
	stopKind := "none"
	for _, st := range tc.plan {
		if !st.calls() {
			stopKind = st.B
			break
		}
	}
	if tc.ans.problem != "" {
		c.Violate(hk.Violation{Fingerprint: "middleware:no-proper-answer" + suffix, What: "the request was not answered properly: " + tc.ans.problem, Input: input, Observed: tc.ans.status})
	}
	// 1. the trace
	if strings.Join(gotTags, " ") != strings.Join(wantTags, " ") {
		seen := map[string]int{}
		dup := false
		for _, t := range gotTags {
			seen[t]++
			if seen[t] > 1 {
				dup = true
			}
		}
		want := map[string]bool{}
		for _, t := range wantTags {
			want[t] = true
		}
		extra := false
		for _, t := range gotTags {
			if !want[t] {
				extra = true
			}
		}
		fp, what := "middleware:stage-skipped", "a stage (or the handler) that the request must pass did not run"
		switch {
		case dup:
			fp, what = "middleware:stage-ran-twice", "a stage (or the handler) ran more than once for one request"
		case extra && stopKind != "none":
			fp, what = "middleware:ran-inside-short-circuit", "something inside a stage that returned without calling next ran all the same"
		case extra:
			fp, what = "middleware:unexpected-stage", "a stage that is not part of the request's path ran"
		case multiset(gotTags) == multiset(wantTags):
			fp, what = "middleware:onion-order", "the stages ran, but not as m1-before … mn-before, handler, mn-after … m1-after in registration order"
		}
		c.Violate(hk.Violation{Fingerprint: fp + suffix, What: what, Input: input, Observed: gotTags, Expected: wantTags})
	}
	// 2. what the client received
	if rm, ok := tc.ans.msg["result"].(map[string]any); ok && tc.r != nil {
		// a modification is for that request only: the stamp of a result-modifying stage names the request it worked on
		if st, has := rm["_stamp"]; has && st != tc.r.nonce {
			c.Violate(hk.Violation{Fingerprint: "middleware:result-carries-another-requests-modification" + suffix,
				What:  "the answer carries the stamp a result-modifying middleware wrote for ANOTHER request (a result object shared between requests)",
				Input: input, Observed: st, Expected: tc.r.nonce})
		}
	}
	gotResp := canonResp(tc.ans.msg, tc.m, b.base)
	if js(gotResp) != js(wantResp) {
		fp, what := "middleware:result-differs", "the client did not receive the handler's result as modified by the chain"
		switch stopKind {
		case "shortOk", "shortRpc":
			fp, what = "middleware:short-circuit-value-not-delivered", "the client did not receive the value of the middleware that returned without calling next (as modified by the stages outside it)"
		case "fail":
			fp, what = "middleware:error-not-internal-error", "a middleware error did not reach the client as JSON-RPC error -32603 carrying the message"
		}
		c.Violate(hk.Violation{Fingerprint: fp + suffix, What: what, Input: input, Observed: gotResp, Expected: wantResp})
	}
	if tc.ans.msg != nil {
		var wantID any = float64(tc.reqID)
		switch x := tc.fixedID.(type) {
		case int:
			wantID = float64(x)
		case string:
			wantID = x
		}
		if tc.ans.msg["id"] != wantID {
			c.Violate(hk.Violation{Fingerprint: "middleware:answer-id" + suffix, What: "the answer does not carry the request's id", Input: input, Observed: tc.ans.msg["id"], Expected: wantID})
		}
	}
	// 3. own context, own session, consistent view of the request
	wantSid := ""
	switch {
	case tc.k.Tr == "sse":
		wantSid = tc.ans.sid
	case tc.k.Mode == "stateful":
		wantSid = tc.ans.sid // the header of the answer; send() checked it against the request's header
	}
	first := ""
	for _, e := range tc.events {
		if e.Tok != tc.token {
			c.Violate(hk.Violation{Fingerprint: "middleware:foreign-context" + suffix, What: "a stage did not see the context values of the request it was working on", Input: input, Observed: e.Tok, Expected: tc.token})
		}
		for _, seen := range []string{e.Sid, e.CSid} {
			if seen == "" {
				continue
			}
			if first == "" {
				first = seen
			}
			if (wantSid != "" && seen != wantSid) || seen != first {
				c.Violate(hk.Violation{Fingerprint: "middleware:foreign-session" + suffix, What: "a stage saw a session that is not the request's", Input: input, Observed: seen, Expected: wantSid})
			}
		}
		if e.T == "h" && e.HasP && e.CSid == "" && tc.k.Mode != "sessionsOff" {
			c.Violate(hk.Violation{Fingerprint: "middleware:handler-without-session" + suffix, What: "the tool ran without the client session of the request that caused it (ClientSessionFromContext is nil inside the tool)", Input: input, Observed: e.CSid, Expected: wantSid})
		}
		if e.Sid == "" && e.CSid == "" && tc.k.Mode != "sessionsOff" {
			c.Violate(hk.Violation{Fingerprint: "middleware:no-session" + suffix, What: "a stage could retrieve the request's session neither through GetSessionFromContext nor through ClientSessionFromContext", Input: input, Observed: e.T})
		}
		if e.HasP && e.T != "a" && js(nz(e.Mods)) != js(nz(e.CMods)) {
			c.Violate(hk.Violation{Fingerprint: "middleware:request-and-context-diverge" + suffix, What: "a stage was handed the modified request of one outer stage but the context of another (or vice versa)", Input: input,
				Observed: map[string]any{"request": e.Mods, "context": e.CMods}})
		}
	}
	// ---- the model line
	trace := []any{}
	for _, e := range tc.events {
		trace = append(trace, e.canon())
	}
	nontrivial := false
	if len(tc.plan) >= 2 {
		for _, st := range tc.plan {
			if st.B != "pass" {
				nontrivial = true
			}
		}
	}
	tags := append([]string{"kind-" + tc.k.Name, fmt.Sprintf("len-%02d", len(tc.plan)), "method-" + tc.m.Name, "stop-" + stopKind, fmt.Sprintf("forms-%d", len(tc.groups))}, tc.tags...)
	opts := optsJSON(tc.groups, tc.plan)
	if tc.emptyOpt {
		opts = append(opts, []any{})
	}
	op := map[string]any{"c": "middleware.run", "tr": tc.k.Tr, "opts": opts, "core": b.core, "hobs": tc.m.Hobs, "mods": []int{},
		"kind": tc.k.Name, "method": tc.m.Name}
	if tc.order != nil {
		// the full option order: the model registers through it ("mw:<i>" = opts[i], anything else = another option of that name)
		op["order"] = tc.order
	}
	if tc.overlapN > 0 {
		// how many other requests of the same session are being processed when this one arrives (the model admits it whatever the number)
		op["inflight"] = tc.overlapN - 1
		if tc.overlapIdx < 0 {
			op["inflight"] = tc.overlapN
		}
	}
	c.Emit(op, map[string]any{"trace": trace, "resp": gotResp}, nontrivial, tags...)
}

// input of a case as written into violations (and read back by replayCases).
func (tc *tcase) input() map[string]any {
	in := map[string]any{"kind": tc.k.Name, "groups": tc.groups, "emptyOption": tc.emptyOpt, "method": tc.m.Name, "plan": optsJSON([][]int{planIDs(tc.plan)}, tc.plan)[0]}
	if tc.k.Tr == "streamable" {
		in["config"] = map[string]any{"mode": tc.k.Mode, "acceptEventStream": tc.k.AcceptSSE, "postSSEEnabled": tc.k.PostSSE}
	}
	if tc.order != nil {
		in["order"] = tc.order
		in["postConstructionMethods"] = tc.post
	}
	if tc.overlapN > 0 {
		in["overlap"] = map[string]any{"N": tc.overlapN, "index": tc.overlapIdx, "parksInHandler": tc.held}
	}
	return in
}

func planIDs(p []stage) []int {
	var l []int
	for _, s := range p {
		l = append(l, s.ID)
	}
	return l
}

func runNotifications(c *hk.Ctx, s *server, si int) {
	all := []stage{}
	for _, g := range s.groups {
		for _, id := range g {
			all = append(all, stage{ID: id, B: "pass"})
		}
	}
	for ni, method := range notifMethods {
		nonce := fmt.Sprintf("nt-%d-%d", si, ni)
		r := &rec{nonce: nonce, token: "tok-" + nonce, plan: map[int]stage{}, notif: make(chan struct{}, 4)}
		s.reg.register(r)
		body := map[string]any{"jsonrpc": "2.0", "method": method, "params": map[string]any{"nonce": nonce, "requestId": 5, "reason": "verif"}}
		a := s.send(body, r.token, 1, false, false)
		handled := false
		if s.k.Tr == "sse" && a.status == 202 {
			select {
			case <-r.notif:
				handled = true
			case <-time.After(3 * time.Second):
			}
		} else {
			select {
			case <-r.notif:
				handled = true
			default:
			}
		}
		evs := r.snapshot()
		s.reg.unregister(r)
		input := map[string]any{"kind": s.k.Name, "groups": s.groups, "notification": method}
		if len(evs) > 0 {
			c.Violate(hk.Violation{Fingerprint: "middleware:notification-entered-chain:" + s.k.Tr, What: "a notification was routed through the middleware chain", Input: input, Observed: tagsOf(evs)})
		}
		trace := []any{}
		for _, e := range evs {
			trace = append(trace, e.canon())
		}
		var resp any
		if a.msg != nil {
			resp = a.msg
		}
		tag := "notification-unhandled"
		if handled {
			tag = "notification-handled"
		}
		c.Emit(map[string]any{"c": "middleware.notify", "tr": s.k.Tr, "opts": optsJSON(s.groups, all), "kind": s.k.Name, "method": method},
			map[string]any{"trace": trace, "resp": resp}, handled && len(all) >= 2, "kind-"+s.k.Name, tag)
	}
}

// replayCases rebuilds the single case of a replay file written by ./check (the `input` of a violation).
func replayCases(in map[string]any) []*tcase {
	kn, _ := in["kind"].(string)
	k, ok := kindByName(kn)
	if !ok {
		return nil
	}
	var order []string
	if ol, ok := in["order"].([]any); ok {
		for _, o := range ol {
			if os, ok := o.(string); ok {
				order = append(order, os)
			}
		}
	}
	post, _ := in["postConstructionMethods"].(bool)
	var groups [][]int
	if gl, ok := in["groups"].([]any); ok {
		for _, g := range gl {
			groups = append(groups, intList(g))
		}
	}
	var plan []stage
	if pl, ok := in["plan"].([]any); ok {
		for _, p := range pl {
			pm, _ := p.(map[string]any)
			st := stage{}
			if f, ok := pm["id"].(float64); ok {
				st.ID = int(f)
			}
			st.B, _ = pm["b"].(string)
			if f, ok := pm["r"].(float64); ok {
				st.R = int(f)
			}
			if f, ok := pm["code"].(float64); ok {
				st.Code = int(f)
			}
			st.Msg, _ = pm["msg"].(string)
			st.E, _ = pm["e"].(string)
			st.Wrap, _ = pm["wrap"].(string)
			plan = append(plan, st)
		}
	}
	var out []*tcase
	for _, m := range methods {
		if mn, ok := in["method"].(string); ok && mn != m.Name {
			continue
		}
		eo, _ := in["emptyOption"].(bool)
		out = append(out, &tcase{k: k, groups: groups, emptyOpt: eo, plan: plan, m: m, order: order, post: post, tags: []string{"replay"}})
	}
	return out
}
