package main

import (
	"encoding/json"
	"fmt"

	mcp "trpc.group/trpc-go/trpc-mcp-go"
)

func try(name string, f func()) {
	defer func() {
		if r := recover(); r != nil {
			fmt.Println(name, "PANIC:", r)
		}
	}()
	f()
}

func main() {
	r := &mcp.CallToolResult{Content: []mcp.Content{mcp.NewTextContent("a<b>& \n"), mcp.NewImageContent("d", "m"), mcp.NewAudioContent("d", "m"),
		mcp.NewEmbeddedResource(mcp.TextResourceContents{URI: "u", Text: ""}), mcp.NewEmbeddedResource(mcp.BlobResourceContents{URI: "u", MIMEType: "x", Blob: "b"})}, IsError: true, StructuredContent: map[string]any{"a": 1}}
	tc := mcp.NewTextContent("x")
	tc.Annotations = &struct {
		Audience []mcp.Role `json:"audience,omitempty"`
		Priority float64    `json:"priority,omitempty"`
	}{Audience: []mcp.Role{"user"}, Priority: 0.5}
	r.Content = append(r.Content, tc)
	r.Meta = map[string]any{"k": []any{1, "s"}}
	b, err := json.Marshal(r)
	fmt.Println(string(b), err)
	b, _ = json.Marshal(&mcp.CallToolResult{})
	fmt.Println(string(b))
	var tn map[string]any
	b, _ = json.Marshal(&mcp.CallToolResult{Content: []mcp.Content{}, StructuredContent: tn, Result: mcp.Result{Meta: map[string]any{}}})
	fmt.Println(string(b))
	for _, in := range []string{`{"messages":[null]}`, `null`, `{"messages":[{"role":null,"content":null}]}`, `{"messages":[{"content":"x"}]}`, `{"messages":[5]}`, `{"messages":[{"role":"user","content":{"type":"text","text":""}}]}`, `{"messages":null,"description":null,"_meta":null}`, `{"messages":{}}`, `[]`, `{"MESSAGES":[{"ROLE":"u"}]}`, `{"messages":[{"role":"a","content":[1]}]}`,`{"messages":[{"role":"a","content":{"type":"text","text":"x"}},{"role":5}]}`} {
		in := in
		try(in, func() {
			g, err := mcp.VerifParseGetPromptResult([]byte(in))
			fmt.Printf("%s => %+v %v\n", in, g, err)
		})
	}
	for _, in := range []string{`null`, `[]`, `{"content":null}`, `{}`, `{"content":[{"type":"text"}]}`, `{"content":[],"structuredContent":null,"isError":"x","_meta":5}`} {
		in := in
		try(in, func() {
			g, err := mcp.VerifParseCallToolResult([]byte(in))
			fmt.Printf("%s => %+v %v\n", in, g, err)
		})
	}
	for _, in := range []string{`null`, `[]`, `{"contents":null}`, `{}`, `{"contents":[{"uri":"u"},5,{"blob":"b","text":"t"},{"blob":"b","text":5}]}`} {
		in := in
		try(in, func() {
			g, err := mcp.VerifParseReadResourceResult([]byte(in))
			fmt.Printf("%s => %+v %v\n", in, g, err)
		})
	}
	for _, in := range []string{`null`, `{"tools":[{"name":"a","inputSchema":{"type":5}},{"name":"b","inputSchema":{"type":"object","exclusiveMaximum":3}},{"name":"","description":"x"},{"name":"c","annotations":{"title":5}},{"name":"d","annotations":{"title":"t","readOnlyHint":true}}],"nextCursor":"z"}`} {
		in := in
		try(in, func() {
			g, err := mcp.VerifParseListToolsResult([]byte(in))
			fmt.Printf("%s => %+v %v\n", in, g, err)
			if g != nil {
				for _, t := range g.Tools {
					fmt.Printf("   %s raw=%s ann=%+v schema=%v\n", t.Name, t.RawInputSchema, t.Annotations, t.InputSchema != nil)
				}
			}
		})
	}
}
