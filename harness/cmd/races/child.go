package main

// Child side of component `races`: one scenario per process, built with `go build -race`.  Every scenario drives the
// real library from many goroutines; nothing here synchronises the goroutines with each other beyond what the
// library does itself (a harness-made happens-before edge would hide the races we are looking for).  Harness state
// is atomic or mutex-protected, so a report never points into this file.

import (
	"bufio"
	"bytes"
	"context"
	"encoding/json"
	"fmt"
	"io"
	"math/rand"
	"net"
	"net/http"
	"net/http/httptest"
	"os"
	"runtime"
	"strconv"
	"strings"
	"sync"
	"sync/atomic"
	"syscall"
	"time"

	mcp "trpc.group/trpc-go/trpc-mcp-go"
	"verif/harness/hk"
)

type child struct {
	seed  int64
	scale int
	ops   atomic.Int64 // library calls made (evidence of work)
	okOps atomic.Int64 // … that succeeded
}

func (ch *child) rng(k int) *rand.Rand { return rand.New(rand.NewSource(ch.seed*1000 + int64(k))) }

func (ch *child) did(err error) {
	ch.ops.Add(1)
	if err == nil {
		ch.okOps.Add(1)
	}
}

var scenarios = map[string]func(*child){
	"srv-streamable":  scSrvStreamable,
	"srv-resume":      scSrvResume,
	"cli-streamable":  scCliStreamable,
	"cli-first":       scCliFirst,
	"sse":             scSSE,
	"sse-first":       scSSEFirst,
	"sse-reendpoint":  scSSEReendpoint,
	"srv-stdio":       scSrvStdio,
	"cli-stdio":       scCliStdio,
	"cli-stdio-first": scCliStdioFirst,
	"cli-retry":       scCliRetry,
	"sse-retry":       scSSERetry,
	"srv-registry":    scSrvRegistry,
	"arg-reuse":       scArgReuse,
	"srv-first":       scSrvFirst,
	"cli-stdio-exit":  scCliStdioExit,
}

var scenarioOrder = []string{"srv-streamable", "srv-resume", "cli-streamable", "cli-first", "sse", "sse-first", "sse-reendpoint", "srv-stdio", "cli-stdio", "cli-stdio-first", "cli-retry", "sse-retry", "srv-registry", "arg-reuse", "srv-first", "cli-stdio-exit"}

func childMain(name string) {
	if name == "stdio-server" {
		stdioServerProcess()
		return
	}
	seed, _ := strconv.ParseInt(os.Getenv("VERIF_RACES_SEED"), 10, 64)
	scale, _ := strconv.Atoi(os.Getenv("VERIF_RACES_SCALE"))
	if scale < 1 {
		scale = 1
	}
	sc := scenarios[name]
	if sc == nil {
		fmt.Fprintln(os.Stderr, "unknown scenario", name)
		os.Exit(3)
	}
	ch := &child{seed: seed, scale: scale}
	done := make(chan struct{})
	go func() { sc(ch); close(done) }()
	select {
	case <-done:
	case <-time.After(150 * time.Second):
		fmt.Fprintln(os.Stderr, "scenario timed out")
	}
	b, _ := json.Marshal(map[string]any{"scenario": name, "ops": ch.ops.Load(), "ok": ch.okOps.Load()})
	fmt.Println(string(b))
}

// ---------------------------------------------------------------------------------------------------------------
// shared fixtures

var impl = mcp.Implementation{Name: "verif-races", Version: "1"}

// sessionUser is what user code does with the Session it is handed.
func sessionUser(ctx context.Context, tag string) {
	sess, ok := mcp.GetSessionFromContext(ctx)
	if !ok || sess == nil {
		return
	}
	// reads first, without touching the session's own mutex in between (a lock operation of ours next to the read
	// would order it with the other requests' updates and hide what user code can see)
	for i := 0; i < 3; i++ {
		_ = sess.GetLastActivity()
		_ = sess.GetCreatedAt()
		_ = sess.GetID()
		runtime.Gosched()
	}
	sess.SetData("k-"+tag, tag)
	sess.GetData("k-" + tag)
	sess.GetData("protocolVersion")
	sess.UpdateActivity()
}

func toolWork(ctx context.Context, req *mcp.CallToolRequest) (*mcp.CallToolResult, error) {
	tag, _ := req.Params.Arguments["tag"].(string)
	sessionUser(ctx, tag)
	if sender, ok := mcp.GetNotificationSender(ctx); ok {
		sender.SendLogMessage("info", "working "+tag)
		sender.SendProgress(0.5, tag)
	}
	return mcp.NewTextResult("done:" + tag), nil
}

// registrar: the registration surface the three server types share (their handler parameter types are unexported
// named types, so an interface cannot name them: closures do).
type registrar struct {
	tool       func(t *mcp.Tool, h func(ctx context.Context, req *mcp.CallToolRequest) (*mcp.CallToolResult, error))
	unregTools func(names ...string) error
	prompt     func(p *mcp.Prompt, h func(ctx context.Context, req *mcp.GetPromptRequest) (*mcp.GetPromptResult, error))
	resource   func(r *mcp.Resource, h func(ctx context.Context, req *mcp.ReadResourceRequest) (mcp.ResourceContents, error))
	notif      func(method string, h mcp.ServerNotificationHandler)
	unnotif    func(method string)
	tools      func() []mcp.Tool
}

func regServer(s *mcp.Server) registrar {
	return registrar{
		tool: func(t *mcp.Tool, h func(ctx context.Context, req *mcp.CallToolRequest) (*mcp.CallToolResult, error)) {
			s.RegisterTool(t, h)
		},
		unregTools: s.UnregisterTools,
		prompt: func(p *mcp.Prompt, h func(ctx context.Context, req *mcp.GetPromptRequest) (*mcp.GetPromptResult, error)) {
			s.RegisterPrompt(p, h)
		},
		resource: func(r *mcp.Resource, h func(ctx context.Context, req *mcp.ReadResourceRequest) (mcp.ResourceContents, error)) {
			s.RegisterResource(r, h)
		},
		notif: s.RegisterNotificationHandler, unnotif: s.UnregisterNotificationHandler, tools: s.GetTools}
}

func regSSE(s *mcp.SSEServer) registrar {
	return registrar{
		tool: func(t *mcp.Tool, h func(ctx context.Context, req *mcp.CallToolRequest) (*mcp.CallToolResult, error)) {
			s.RegisterTool(t, h)
		},
		unregTools: s.UnregisterTools,
		prompt: func(p *mcp.Prompt, h func(ctx context.Context, req *mcp.GetPromptRequest) (*mcp.GetPromptResult, error)) {
			s.RegisterPrompt(p, h)
		},
		resource: func(r *mcp.Resource, h func(ctx context.Context, req *mcp.ReadResourceRequest) (mcp.ResourceContents, error)) {
			s.RegisterResource(r, h)
		},
		notif: s.RegisterNotificationHandler, unnotif: s.UnregisterNotificationHandler, tools: s.GetTools}
}

func regStdio(s *mcp.StdioServer) registrar {
	return registrar{
		tool: func(t *mcp.Tool, h func(ctx context.Context, req *mcp.CallToolRequest) (*mcp.CallToolResult, error)) {
			s.RegisterTool(t, h)
		},
		unregTools: s.UnregisterTools,
		prompt: func(p *mcp.Prompt, h func(ctx context.Context, req *mcp.GetPromptRequest) (*mcp.GetPromptResult, error)) {
			s.RegisterPrompt(p, h)
		},
		resource: func(r *mcp.Resource, h func(ctx context.Context, req *mcp.ReadResourceRequest) (mcp.ResourceContents, error)) {
			s.RegisterResource(r, h)
		},
		notif: s.RegisterNotificationHandler, unnotif: s.UnregisterNotificationHandler, tools: s.GetTools}
}

func promptH(ctx context.Context, req *mcp.GetPromptRequest) (*mcp.GetPromptResult, error) {
	return &mcp.GetPromptResult{Description: "p", Messages: []mcp.PromptMessage{}}, nil
}

func resourceH(ctx context.Context, req *mcp.ReadResourceRequest) (mcp.ResourceContents, error) {
	return mcp.TextResourceContents{URI: req.Params.URI, MIMEType: "text/plain", Text: "r"}, nil
}

func registerBase(r registrar) {
	r.tool(mcp.NewTool("work", mcp.WithString("tag")), toolWork)
	r.prompt(&mcp.Prompt{Name: "p0"}, promptH)
	r.resource(&mcp.Resource{Name: "r0", URI: "file:///r0"}, resourceH)
}

// churn registers / unregisters entries and notification handlers n times.
func churn(ch *child, r registrar, n int, k int) {
	for i := 0; i < n; i++ {
		name := fmt.Sprintf("t%d-%d", k, i%5)
		r.tool(mcp.NewTool(name, mcp.WithString("tag")), toolWork)
		r.prompt(&mcp.Prompt{Name: "p" + name}, promptH)
		r.resource(&mcp.Resource{Name: "r" + name, URI: "file:///" + name}, resourceH)
		r.notif("custom/"+name, func(ctx context.Context, n *mcp.JSONRPCNotification) error { return nil })
		_ = r.tools()
		ch.did(r.unregTools(name))
		r.unnotif("custom/" + name)
	}
}

type streamSrv struct {
	s   *mcp.Server
	ts  *httptest.Server
	url string
}

func newStreamSrv(stateless bool) *streamSrv { return newStreamSrvWrapped(stateless, nil) }

// newStreamSrvWrapped: wrap (optional) sits between the network and the library's handler.
func newStreamSrvWrapped(stateless bool, wrap func(http.Handler) http.Handler) *streamSrv {
	opts := []mcp.ServerOption{mcp.WithServerLogger(hk.QuietLogger{}), mcp.WithServerPath("/mcp"), mcp.WithGetSSEEnabled(true), mcp.WithPostSSEEnabled(true)}
	if stateless {
		opts = append(opts, mcp.WithStatelessMode(true))
	}
	s := mcp.NewServer("races-server", "1.0", opts...)
	registerBase(regServer(s))
	// a client announcing changed roots makes the server ask for them (server → client request over the GET stream)
	s.RegisterNotificationHandler(mcp.MethodNotificationsRootsListChanged, func(ctx context.Context, n *mcp.JSONRPCNotification) error {
		c2, cancel := context.WithTimeout(ctx, 3*time.Second)
		defer cancel()
		s.ListRoots(c2)
		return nil
	})
	var h http.Handler = s.Handler()
	if wrap != nil {
		h = wrap(h)
	}
	ts := httptest.NewUnstartedServer(h)
	ts.Config.ErrorLog = hk.QuietStdLog()
	ts.Start()
	return &streamSrv{s: s, ts: ts, url: ts.URL + "/mcp"}
}

func (f *streamSrv) close() {
	f.ts.CloseClientConnections()
	f.ts.Close()
}

func newStreamClient(url string) *mcp.Client {
	c, err := mcp.NewClient(url, impl, mcp.WithClientLogger(hk.QuietLogger{}), mcp.WithClientGetSSEEnabled(true))
	if err != nil {
		panic(err)
	}
	return c
}

type roots struct{ list []mcp.Root }

func (r roots) GetRoots() []mcp.Root { return r.list }

type connector interface {
	ListTools(ctx context.Context, req *mcp.ListToolsRequest) (*mcp.ListToolsResult, error)
	CallTool(ctx context.Context, req *mcp.CallToolRequest) (*mcp.CallToolResult, error)
	ListPrompts(ctx context.Context, req *mcp.ListPromptsRequest) (*mcp.ListPromptsResult, error)
	GetPrompt(ctx context.Context, req *mcp.GetPromptRequest) (*mcp.GetPromptResult, error)
	ListResources(ctx context.Context, req *mcp.ListResourcesRequest) (*mcp.ListResourcesResult, error)
	ReadResource(ctx context.Context, req *mcp.ReadResourceRequest) (*mcp.ReadResourceResult, error)
	RegisterNotificationHandler(method string, handler mcp.NotificationHandler)
	UnregisterNotificationHandler(method string)
	SetRootsProvider(provider mcp.RootsProvider)
	SendRootsListChangedNotification(ctx context.Context) error
	GetState() mcp.State
	Close() error
}

func callWork(ctx context.Context, c connector, tag string) error {
	req := &mcp.CallToolRequest{}
	req.Params.Name = "work"
	req.Params.Arguments = map[string]interface{}{"tag": tag}
	_, err := c.CallTool(ctx, req)
	return err
}

// useClient: one client used from many goroutines — concurrent calls, handler (un)registration, roots provider
// changes, state queries — `n` iterations each.  Returns when all of them are done.
func useClient(ch *child, ctx context.Context, c connector, n int, extra ...func()) {
	var wg sync.WaitGroup
	run := func(f func()) {
		wg.Add(1)
		go func() { defer wg.Done(); f() }()
	}
	var seen atomic.Int64
	for g := 0; g < 3; g++ {
		g := g
		run(func() {
			for i := 0; i < n; i++ {
				ch.did(callWork(ctx, c, fmt.Sprintf("g%d-%d", g, i)))
			}
		})
	}
	run(func() {
		for i := 0; i < n; i++ {
			_, err := c.ListTools(ctx, &mcp.ListToolsRequest{})
			ch.did(err)
			_, err = c.ListPrompts(ctx, &mcp.ListPromptsRequest{})
			ch.did(err)
			gp := &mcp.GetPromptRequest{}
			gp.Params.Name = "p0"
			_, err = c.GetPrompt(ctx, gp)
			ch.did(err)
			_, err = c.ListResources(ctx, &mcp.ListResourcesRequest{})
			ch.did(err)
			rr := &mcp.ReadResourceRequest{}
			rr.Params.URI = "file:///r0"
			_, err = c.ReadResource(ctx, rr)
			ch.did(err)
		}
	})
	run(func() {
		for i := 0; i < n; i++ {
			m := fmt.Sprintf("custom/m%d", i%3)
			c.RegisterNotificationHandler(m, func(*mcp.JSONRPCNotification) error { seen.Add(1); return nil })
			c.RegisterNotificationHandler("notifications/message", func(*mcp.JSONRPCNotification) error { seen.Add(1); return nil })
			c.UnregisterNotificationHandler(m)
		}
	})
	run(func() {
		for i := 0; i < n; i++ {
			c.SetRootsProvider(roots{[]mcp.Root{{URI: fmt.Sprintf("file:///root%d", i), Name: "r"}}})
			ch.did(c.SendRootsListChangedNotification(ctx))
			if i%2 == 1 {
				c.SetRootsProvider(mcp.NewDefaultRootsProvider(mcp.Root{URI: "file:///d", Name: "d"}))
			}
		}
	})
	run(func() {
		for i := 0; i < 4*n; i++ {
			_ = c.GetState()
			if sc, ok := c.(interface{ GetSessionID() string }); ok {
				_ = sc.GetSessionID()
			}
		}
	})
	for _, f := range extra {
		run(f)
	}
	wg.Wait()
}

// ---------------------------------------------------------------------------------------------------------------
// Streamable HTTP

// scSrvStreamable: one server, many real clients coming and going, each issuing concurrent calls on its session
// (the Session object handed to the tool handler is shared by those calls), while entries are registered and
// unregistered and notifications are sent and broadcast.
func scSrvStreamable(ch *child) {
	f := newStreamSrv(false)
	defer f.close()
	ctx := context.Background()
	n := 6 * ch.scale
	var wg sync.WaitGroup
	stop := atomic.Bool{}
	for k := 0; k < 2; k++ {
		k := k
		wg.Add(1)
		go func() { defer wg.Done(); churn(ch, regServer(f.s), 4*n, k) }()
	}
	wg.Add(1)
	go func() {
		defer wg.Done()
		for i := 0; !stop.Load(); i++ {
			_, err := f.s.BroadcastNotification("notifications/message", map[string]interface{}{"level": "info", "data": i})
			ch.did(err)
			if ids, err := f.s.GetActiveSessions(); err == nil {
				for _, id := range ids {
					ch.did(f.s.SendNotification(id, "notifications/message", map[string]interface{}{"level": "info", "data": "one"}))
				}
			}
			time.Sleep(time.Millisecond)
		}
	}()
	var cw sync.WaitGroup
	for k := 0; k < 6; k++ {
		k := k
		cw.Add(1)
		go func() {
			defer cw.Done()
			for round := 0; round < 1+ch.scale; round++ {
				c := newStreamClient(f.url)
				c.RegisterNotificationHandler("notifications/message", func(*mcp.JSONRPCNotification) error { return nil })
				c.SetRootsProvider(roots{[]mcp.Root{{URI: "file:///x", Name: "x"}}})
				_, err := c.Initialize(ctx, &mcp.InitializeRequest{})
				ch.did(err)
				var iw sync.WaitGroup
				for g := 0; g < 3; g++ {
					g := g
					iw.Add(1)
					go func() {
						defer iw.Done()
						for i := 0; i < n; i++ {
							ch.did(callWork(ctx, c, fmt.Sprintf("c%d-%d-%d", k, g, i)))
							if i%3 == 0 {
								_, err := c.ListTools(ctx, &mcp.ListToolsRequest{})
								ch.did(err)
							}
						}
					}()
				}
				iw.Wait()
				ch.did(c.SendRootsListChangedNotification(ctx))
				if round%2 == 0 {
					ch.did(c.TerminateSession(ctx))
				}
				c.Close()
			}
		}()
	}
	cw.Wait()
	stop.Store(true)
	wg.Wait()
}

// scSrvRegistry: the registries of a server listed and looked up while tools come and go — entirely in memory (no
// network I/O, whose acquire / release on one global object of the race runtime orders goroutines by accident; the
// goroutines count their work locally for the same reason).  The churner always removes the OLDEST tool of a sliding
// window, never the newest: whatever the registry keeps in registration order has its later entries moved, which a
// listing that walks such a structure outside the registry's lock would be reading.  tools/list requests go through the
// server's own HTTP handler with an in-memory ResponseWriter (stateless server: no session needed).
func scSrvRegistry(ch *child) {
	type reg struct {
		registrar
		getTool func(name string) (mcp.Tool, bool)
		serve   http.Handler
	}
	srv := mcp.NewServer("races-registry", "1.0", mcp.WithServerLogger(hk.QuietLogger{}), mcp.WithServerPath("/mcp"), mcp.WithStatelessMode(true))
	sse := mcp.NewSSEServer("races-registry-sse", "1.0", mcp.WithSSEServerLogger(hk.QuietLogger{}))
	for ri, r := range []reg{{regServer(srv), srv.GetTool, srv.Handler()}, {regSSE(sse), sse.GetTool, nil}} {
		registerBase(r.registrar)
		const window = 8
		for i := 0; i < window; i++ {
			r.tool(mcp.NewTool(fmt.Sprintf("w%d", i), mcp.WithString("tag")), toolWork)
		}
		steps := 1500 * ch.scale
		var stop atomic.Bool
		var ops, ok [4]int64
		var wg sync.WaitGroup
		wg.Add(1)
		go func() { // the churner
			defer wg.Done()
			for i := window; i < window+steps; i++ {
				r.tool(mcp.NewTool(fmt.Sprintf("w%d", i), mcp.WithString("tag")), toolWork)
				var err error
				if i%7 == 0 {
					// two at once, oldest first; the second one is re-registered (it becomes the newest)
					err = r.unregTools(fmt.Sprintf("w%d", i-window), fmt.Sprintf("w%d", i-window+1))
					r.tool(mcp.NewTool(fmt.Sprintf("w%d", i-window+1), mcp.WithString("tag")), toolWork)
				} else {
					err = r.unregTools(fmt.Sprintf("w%d", i-window))
				}
				ops[0]++
				if err == nil {
					ok[0]++
				}
				if i%5 == 0 { // an entry replaced under its name
					r.tool(mcp.NewTool(fmt.Sprintf("w%d", i-1), mcp.WithString("tag"), mcp.WithDescription("again")), toolWork)
				}
			}
			stop.Store(true)
		}()
		for l := 1; l <= 2; l++ {
			l := l
			wg.Add(1)
			go func() { // listers through the public getters
				defer wg.Done()
				for i := 0; !stop.Load(); i++ {
					n := len(r.tools())
					ops[l]++
					if n >= window-2 {
						ok[l]++
					}
					if i%3 == 0 {
						r.getTool("w0")
						r.getTool("work")
					}
				}
			}()
		}
		if r.serve != nil {
			wg.Add(1)
			go func() { // tools/list, tools/call, prompts/list, resources/list through the handler
				defer wg.Done()
				bodies := []string{`{"jsonrpc":"2.0","id":1,"method":"tools/list"}`, `{"jsonrpc":"2.0","id":2,"method":"tools/call","params":{"name":"work","arguments":{"tag":"m"}}}`,
					`{"jsonrpc":"2.0","id":3,"method":"tools/list"}`, `{"jsonrpc":"2.0","id":4,"method":"prompts/list"}`, `{"jsonrpc":"2.0","id":5,"method":"tools/list"}`, `{"jsonrpc":"2.0","id":6,"method":"resources/list"}`}
				for i := 0; !stop.Load(); i++ {
					req := httptest.NewRequest(http.MethodPost, "http://in.memory/mcp", strings.NewReader(bodies[i%len(bodies)]))
					req.Header.Set("Content-Type", "application/json")
					req.Header.Set("Accept", "application/json, text/event-stream")
					rec := httptest.NewRecorder()
					r.serve.ServeHTTP(rec, req)
					ops[3]++
					if rec.Code == http.StatusOK && strings.Contains(rec.Body.String(), `"result"`) {
						ok[3]++
					}
				}
			}()
		}
		wg.Wait()
		_ = ri
		for k := range ops {
			ch.ops.Add(ops[k])
			ch.okOps.Add(ok[k])
		}
	}
}

// scSrvFirst: FIRST use of freshly registered entries, many times over.  Every round builds fresh servers, registers
// degenerate descriptors users can write as struct literals (a &Tool{…} with no input / output schema, annotations or
// description, a &Prompt{…} without arguments, a &Resource{…} without MIME type, a template literal, nil handlers for
// entries that are only listed) next to ordinary ones, and then lets several goroutines make the first listing, the
// first lookups and the first calls AT THE SAME TIME: two tools/list, GetTools, GetTool, a tools/call, prompts/list +
// prompts/get, resources/list + templates + read.  Whatever the library fills in or caches on first use is exercised
// once per round.  Everything is in memory (the streamable server's own handler with an in-memory ResponseWriter,
// stateless mode; the getters of the SSE and stdio servers); the goroutines leave a plain spin on one flag — edges
// INTO them only — and count locally.  Every few rounds a stdio server on pipes gets its first three tools/list lines
// back to back (the transport handles every line on a goroutine of its own).
func scSrvFirst(ch *child) {
	rounds := 120 * ch.scale
	post := func(h http.Handler, body string) bool {
		req := httptest.NewRequest(http.MethodPost, "http://in.memory/mcp", strings.NewReader(body))
		req.Header.Set("Content-Type", "application/json")
		req.Header.Set("Accept", "application/json, text/event-stream")
		rec := httptest.NewRecorder()
		h.ServeHTTP(rec, req)
		return rec.Code == http.StatusOK && strings.Contains(rec.Body.String(), `"result"`)
	}
	degenerate := func(r registrar, k int) {
		r.tool(&mcp.Tool{Name: "bare"}, toolWork)
		r.tool(&mcp.Tool{Name: fmt.Sprintf("bare-%d", k), Description: ""}, nil) // only listed
		r.tool(&mcp.Tool{Name: "half", Description: "d", RawInputSchema: nil, Annotations: nil}, toolWork)
		r.tool(mcp.NewTool("work", mcp.WithString("tag")), toolWork)
		r.prompt(&mcp.Prompt{Name: "bare"}, promptH)
		r.prompt(&mcp.Prompt{Name: "listed-only"}, nil)
		r.prompt(&mcp.Prompt{Name: "args", Arguments: []mcp.PromptArgument{{Name: "a"}}}, promptH)
		r.resource(&mcp.Resource{Name: "bare", URI: "file:///bare"}, resourceH)
		r.resource(&mcp.Resource{URI: "file:///noname"}, nil)
	}
	var total, good int64
	for k := 0; k < rounds; k++ {
		srv := mcp.NewServer("races-first", "1.0", mcp.WithServerLogger(hk.QuietLogger{}), mcp.WithServerPath("/mcp"), mcp.WithStatelessMode(true), mcp.WithPostSSEEnabled(k%2 == 0))
		sse := mcp.NewSSEServer("races-first-sse", "1.0", mcp.WithSSEServerLogger(hk.QuietLogger{}))
		std := mcp.NewStdioServer("races-first-stdio", "1.0", mcp.WithStdioServerLogger(hk.QuietLogger{}))
		degenerate(regServer(srv), k)
		degenerate(regSSE(sse), k)
		degenerate(regStdio(std), k)
		srv.RegisterResourceTemplate(&mcp.ResourceTemplate{Name: "tpl", URITemplate: mcp.NewResourceTemplate("file:///t/{x}", "tpl").URITemplate},
			func(ctx context.Context, req *mcp.ReadResourceRequest) ([]mcp.ResourceContents, error) {
				return []mcp.ResourceContents{mcp.TextResourceContents{URI: req.Params.URI, Text: "t"}}, nil
			})
		h := srv.Handler()
		users := []func() bool{
			func() bool { return post(h, `{"jsonrpc":"2.0","id":1,"method":"tools/list"}`) },
			func() bool { return post(h, `{"jsonrpc":"2.0","id":2,"method":"tools/list"}`) },
			func() bool { return len(srv.GetTools()) >= 4 },
			func() bool { _, ok := srv.GetTool("bare"); _, ok2 := srv.GetTool("half"); return ok && ok2 },
			func() bool {
				return post(h, `{"jsonrpc":"2.0","id":3,"method":"tools/call","params":{"name":"bare","arguments":{"tag":"f"}}}`)
			},
			func() bool {
				a := post(h, `{"jsonrpc":"2.0","id":4,"method":"prompts/list"}`)
				b := post(h, `{"jsonrpc":"2.0","id":5,"method":"prompts/get","params":{"name":"bare"}}`)
				return a && b
			},
			func() bool {
				a := post(h, `{"jsonrpc":"2.0","id":6,"method":"resources/list"}`)
				b := post(h, `{"jsonrpc":"2.0","id":7,"method":"resources/templates/list"}`)
				c := post(h, `{"jsonrpc":"2.0","id":8,"method":"resources/read","params":{"uri":"file:///bare"}}`)
				return a && b && c
			},
			// (the SSE and stdio servers refuse nil handlers: three tools there)
			func() bool { return len(sse.GetTools()) >= 3 },
			func() bool { _, ok := sse.GetTool("bare"); return ok && len(sse.GetTools()) >= 3 },
			func() bool { _, ok := std.GetTool("bare"); return ok && len(std.GetTools()) >= 3 },
			func() bool { return len(std.GetTools()) >= 3 },
		}
		var start atomic.Bool
		res := make([]bool, len(users))
		var wg sync.WaitGroup
		for i, u := range users {
			i, u := i, u
			wg.Add(1)
			go func() {
				defer wg.Done()
				defer func() { recover() }()
				for !start.Load() {
					runtime.Gosched()
				}
				res[i] = u()
			}()
		}
		time.Sleep(50 * time.Microsecond)
		start.Store(true)
		wg.Wait()
		for _, ok := range res {
			total++
			if ok {
				good++
			}
		}
		if k%15 == 0 {
			firstStdioLists(std, &total, &good)
		}
	}
	ch.ops.Add(total)
	ch.okOps.Add(good)
}

// firstStdioLists: a fresh stdio server (entries registered, nothing listed yet) on pipes; after the handshake three
// tools/list lines and a tools/call arrive back to back.
func firstStdioLists(s *mcp.StdioServer, total, good *int64) {
	inR, inW := io.Pipe()
	outR, outW := io.Pipe()
	ctx, cancel := context.WithCancel(context.Background())
	served := make(chan struct{})
	go func() { defer close(served); mcp.VerifServeStdio(ctx, s, inR, outW); outW.Close() }()
	var answered atomic.Int64
	readerDone := make(chan struct{})
	go func() {
		defer close(readerDone)
		br := bufio.NewReaderSize(outR, 1<<20)
		for {
			line, err := br.ReadBytes('\n')
			if err != nil {
				return
			}
			if bytes.Contains(line, []byte(`"result"`)) {
				answered.Add(1)
			}
		}
	}()
	lines := `{"jsonrpc":"2.0","id":1,"method":"initialize","params":{"protocolVersion":"2025-03-26","capabilities":{},"clientInfo":{"name":"v","version":"1"}}}` + "\n" +
		`{"jsonrpc":"2.0","method":"notifications/initialized"}` + "\n"
	inW.Write([]byte(lines))
	for d := time.Now().Add(3 * time.Second); answered.Load() < 1 && time.Now().Before(d); {
		time.Sleep(time.Millisecond)
	}
	burst := `{"jsonrpc":"2.0","id":2,"method":"tools/list"}` + "\n" + `{"jsonrpc":"2.0","id":3,"method":"tools/list"}` + "\n" +
		`{"jsonrpc":"2.0","id":4,"method":"tools/call","params":{"name":"bare","arguments":{"tag":"s"}}}` + "\n" + `{"jsonrpc":"2.0","id":5,"method":"tools/list"}` + "\n" +
		`{"jsonrpc":"2.0","id":6,"method":"prompts/list"}` + "\n" + `{"jsonrpc":"2.0","id":7,"method":"resources/list"}` + "\n"
	inW.Write([]byte(burst))
	for d := time.Now().Add(3 * time.Second); answered.Load() < 7 && time.Now().Before(d); {
		time.Sleep(time.Millisecond)
	}
	*total += 7
	*good += answered.Load()
	cancel()
	inW.Close()
	<-served
	<-readerDone
}

// rawPost / rawGet: a reference peer (plain net/http), used where the timing of the library's own client would get
// in the way.
func rawPost(url string, hdr map[string]string, body string) (*http.Response, []byte, error) {
	req, _ := http.NewRequest("POST", url, strings.NewReader(body))
	req.Header.Set("Content-Type", "application/json")
	req.Header.Set("Accept", "application/json")
	for k, v := range hdr {
		req.Header.Set(k, v)
	}
	resp, err := http.DefaultClient.Do(req)
	if err != nil {
		return nil, nil, err
	}
	defer resp.Body.Close()
	b, _ := io.ReadAll(resp.Body)
	return resp, b, nil
}

const initBody = `{"jsonrpc":"2.0","id":1,"method":"initialize","params":{"protocolVersion":"2025-03-26","capabilities":{},"clientInfo":{"name":"verif","version":"1"}}}`

// scSrvResume: GET streams of one session reconnecting with Last-Event-ID while notifications are being sent to the
// session; several sessions initialising at the same time.
func scSrvResume(ch *child) {
	f := newStreamSrv(false)
	defer f.close()
	// scheduling point of the verif build right after a GET stream sent its headers: a notification for that session
	// is sent from another goroutine exactly then (started, not waited for: no ordering is added)
	var kicks atomic.Int64
	mcp.VerifSetYield(func(point string, r *http.Request) {
		if point == "get:flushed" && r.Header.Get("Last-Event-ID") != "" {
			sid := r.Header.Get("Mcp-Session-Id")
			kicks.Add(1)
			go f.s.SendNotification(sid, "notifications/message", map[string]interface{}{"level": "info", "data": "kick"})
			time.Sleep(2 * time.Millisecond)
		}
	})
	defer mcp.VerifSetYield(nil)
	var wg sync.WaitGroup
	for k := 0; k < 4; k++ {
		wg.Add(1)
		go func() {
			defer wg.Done()
			for round := 0; round < 2*ch.scale; round++ {
				resp, _, err := rawPost(f.url, nil, initBody)
				ch.did(err)
				if err != nil {
					continue
				}
				sid := resp.Header.Get("Mcp-Session-Id")
				rawPost(f.url, map[string]string{"Mcp-Session-Id": sid}, `{"jsonrpc":"2.0","method":"notifications/initialized"}`)
				stop := atomic.Bool{}
				var sw sync.WaitGroup
				sw.Add(1)
				go func() {
					defer sw.Done()
					for i := 0; !stop.Load(); i++ {
						f.s.SendNotification(sid, "notifications/message", map[string]interface{}{"level": "info", "data": i})
					}
				}()
				for i := 0; i < 6; i++ {
					ctx, cancel := context.WithCancel(context.Background())
					req, _ := http.NewRequestWithContext(ctx, "GET", f.url, nil)
					req.Header.Set("Accept", "text/event-stream")
					req.Header.Set("Mcp-Session-Id", sid)
					req.Header.Set("Last-Event-ID", fmt.Sprintf("evt-%d", i))
					resp, err := http.DefaultClient.Do(req)
					ch.did(err)
					if err == nil {
						br := bufio.NewReader(resp.Body)
						for l := 0; l < 12; l++ { // a few events, then reconnect
							if _, err := br.ReadString('\n'); err != nil {
								break
							}
						}
						resp.Body.Close()
					}
					cancel()
				}
				stop.Store(true)
				sw.Wait()
				req, _ := http.NewRequest("DELETE", f.url, nil)
				req.Header.Set("Mcp-Session-Id", sid)
				if r, err := http.DefaultClient.Do(req); err == nil {
					r.Body.Close()
				}
			}
		}()
	}
	wg.Wait()
}

// waitStream: until the server can reach the client's GET stream (polling the library's own answer, no sleep-sync).
func waitStream(s *mcp.Server, sid string) bool {
	deadline := time.Now().Add(3 * time.Second)
	for time.Now().Before(deadline) {
		if s.SendNotification(sid, "notifications/message", map[string]interface{}{"level": "info", "data": "probe"}) == nil {
			return true
		}
		time.Sleep(2 * time.Millisecond)
	}
	return false
}

// scCliStreamable: ONE client used from many goroutines, then terminated and closed while calls are in flight.
func scCliStreamable(ch *child) {
	f := newStreamSrv(false)
	defer f.close()
	ctx := context.Background()
	n := 5 * ch.scale
	for round := 0; round < 2; round++ {
		c := newStreamClient(f.url)
		c.RegisterNotificationHandler("notifications/message", func(*mcp.JSONRPCNotification) error { return nil })
		c.SetRootsProvider(roots{[]mcp.Root{{URI: "file:///a", Name: "a"}}})
		_, err := c.Initialize(ctx, &mcp.InitializeRequest{})
		ch.did(err)
		sid := c.GetSessionID()
		waitStream(f.s, sid)
		useClient(ch, ctx, c, n, func() {
			for i := 0; i < 6*n; i++ {
				f.s.SendNotification(sid, "notifications/message", map[string]interface{}{"level": "info", "data": i})
			}
		})
		// session termination and Close while the client is still in use
		var wg sync.WaitGroup
		wg.Add(3)
		go func() { defer wg.Done(); useClient(ch, ctx, c, 2) }()
		go func() { defer wg.Done(); ch.did(c.TerminateSession(ctx)) }()
		go func() { defer wg.Done(); c.Close() }()
		wg.Wait()
	}
}

// gate is a custom HTTPReqHandler (public extension point): it performs the request as the default handler does and
// lets the first n answers return to the library together — the goroutine marked 0 at once, the others a moment
// later.  After the barrier it touches no shared state (an atomic or a mutex of ours would order the goroutines and
// hide what we are looking for); delays are plain sleeps.
type gate struct {
	n         int32
	arrived   atomic.Int32
	open      chan struct{}
	delayPost time.Duration // POSTs are held back (a plain sleep) before they go out
}

type gkey struct{}

// gstate is goroutine-local (one per calling goroutine, carried by its context).
type gstate struct {
	idx int
}

func (g *gate) Handle(ctx context.Context, client *http.Client, req *http.Request) (*http.Response, error) {
	if g.delayPost > 0 && req.Method == http.MethodPost {
		time.Sleep(g.delayPost)
	}
	// a connection of its own per request: the shared connection pool's mutexes would order the goroutines by accident
	resp, err := (&http.Client{Transport: &http.Transport{DisableKeepAlives: true}}).Do(req)
	select {
	case <-g.open:
		return resp, err
	default:
	}
	if g.arrived.Add(1) == g.n {
		close(g.open)
	}
	select {
	case <-g.open:
	case <-time.After(2 * time.Second):
	}
	if st, ok := ctx.Value(gkey{}).(*gstate); ok && resp != nil {
		if st.idx != 0 {
			time.Sleep(5 * time.Millisecond)
		} else {
			// goroutine 0 looks at the answer's headers first, then finds the body slow to arrive: whatever it
			// stored on seeing the headers is not followed by any synchronising operation of its own for a while
			resp.Body = &slowBody{rc: resp.Body}
		}
	}
	return resp, err
}

type slowBody struct {
	rc   io.ReadCloser
	slow bool
}

func (b *slowBody) Read(p []byte) (int, error) {
	if !b.slow {
		b.slow = true
		time.Sleep(60 * time.Millisecond)
	}
	return b.rc.Read(p)
}
func (b *slowBody) Close() error { return b.rc.Close() }

// scCliFirst: the first use of a client made from several goroutines at once (stateful and stateless server).
func scCliFirst(ch *child) {
	for _, stateless := range []bool{true, false} {
		f := newStreamSrv(stateless)
		for round := 0; round < 8*ch.scale; round++ {
			c := newStreamClient(f.url)
			if round%2 == 0 {
				var err error
				c, err = mcp.NewClient(f.url, impl, mcp.WithClientLogger(hk.QuietLogger{}), mcp.WithClientGetSSEEnabled(true),
					mcp.WithHTTPReqHandler(&gate{n: 4, open: make(chan struct{})}))
				if err != nil {
					panic(err)
				}
			}
			var wg sync.WaitGroup
			for g := 0; g < 4; g++ {
				g := g
				wg.Add(1)
				go func() {
					defer wg.Done()
					ctx := context.WithValue(context.Background(), gkey{}, &gstate{idx: g})
					_, err := c.Initialize(ctx, &mcp.InitializeRequest{})
					ch.did(err)
					ch.did(callWork(ctx, c, "first"))
				}()
			}
			wg.Wait()
			c.Close()
		}
		f.close()
	}
}

// ---------------------------------------------------------------------------------------------------------------
// legacy SSE

type idGen struct {
	mu  sync.Mutex
	ids []string
	n   int
}

func (g *idGen) GenerateSessionID(r *http.Request) string {
	g.mu.Lock()
	defer g.mu.Unlock()
	g.n++
	id := fmt.Sprintf("sse-races-%d", g.n)
	g.ids = append(g.ids, id)
	return id
}

func (g *idGen) all() []string {
	g.mu.Lock()
	defer g.mu.Unlock()
	return append([]string{}, g.ids...)
}

func newSSESrv() (*mcp.SSEServer, *httptest.Server, *idGen) { return newSSESrvWrapped(nil) }

func newSSESrvWrapped(wrap func(http.Handler) http.Handler) (*mcp.SSEServer, *httptest.Server, *idGen) {
	gen := &idGen{}
	var s *mcp.SSEServer
	s = mcp.NewSSEServer("races-sse", "1.0", mcp.WithSSEServerLogger(hk.QuietLogger{}), mcp.WithSSESessionIDGenerator(gen),
		mcp.WithKeepAliveInterval(5*time.Millisecond))
	registerBase(regSSE(s))
	s.RegisterNotificationHandler(mcp.MethodNotificationsRootsListChanged, func(ctx context.Context, n *mcp.JSONRPCNotification) error {
		c2, cancel := context.WithTimeout(ctx, 3*time.Second)
		defer cancel()
		s.ListRoots(c2)
		return nil
	})
	var h http.Handler = s
	if wrap != nil {
		h = wrap(h)
	}
	ts := httptest.NewUnstartedServer(h)
	ts.Config.ErrorLog = hk.QuietStdLog()
	ts.Start()
	return s, ts, gen
}

func newSSEClient(url string) *mcp.Client {
	c, err := mcp.NewSSEClient(url, impl, mcp.WithClientLogger(hk.QuietLogger{}))
	if err != nil {
		panic(err)
	}
	return c
}

// scSSE: one legacy SSE server with clients coming and going, each client used from many goroutines and closed while
// in use; entries churn; notifications to every session.
func scSSE(ch *child) {
	s, ts, gen := newSSESrv()
	defer func() { ts.CloseClientConnections(); ts.Close() }()
	ctx := context.Background()
	n := 4 * ch.scale
	stop := atomic.Bool{}
	var bg sync.WaitGroup
	bg.Add(2)
	go func() { defer bg.Done(); churn(ch, regSSE(s), 6*n, 0) }()
	go func() {
		defer bg.Done()
		for i := 0; !stop.Load(); i++ {
			for _, id := range gen.all() {
				s.SendNotification(id, "notifications/message", map[string]interface{}{"level": "info", "data": i})
			}
			time.Sleep(time.Millisecond)
		}
	}()
	var cw sync.WaitGroup
	for k := 0; k < 3; k++ {
		cw.Add(1)
		go func() {
			defer cw.Done()
			for round := 0; round < 2; round++ {
				c := newSSEClient(ts.URL + "/sse")
				c.SetRootsProvider(roots{[]mcp.Root{{URI: "file:///s", Name: "s"}}})
				_, err := c.Initialize(ctx, &mcp.InitializeRequest{})
				ch.did(err)
				useClient(ch, ctx, c, n)
				var wg sync.WaitGroup
				wg.Add(2)
				go func() { defer wg.Done(); useClient(ch, ctx, c, 2) }()
				go func() { defer wg.Done(); c.Close() }()
				wg.Wait()
			}
		}()
	}
	cw.Wait()
	stop.Store(true)
	bg.Wait()
}

// scSSEFirst: the first request of a legacy SSE client issued from two goroutines at once.
func scSSEFirst(ch *child) {
	_, ts, _ := newSSESrv()
	defer func() { ts.CloseClientConnections(); ts.Close() }()
	ctx := context.Background()
	for round := 0; round < 2*ch.scale; round++ {
		c, err := mcp.NewSSEClient(ts.URL+"/sse", impl, mcp.WithClientLogger(hk.QuietLogger{}), mcp.WithHTTPReqHandler(&gate{n: 2, open: make(chan struct{}), delayPost: 40 * time.Millisecond}))
		if err != nil {
			panic(err)
		}
		var wg sync.WaitGroup
		for g := 0; g < 2; g++ {
			wg.Add(1)
			go func() {
				defer wg.Done()
				defer func() { recover() }()
				c2, cancel := context.WithTimeout(ctx, 5*time.Second)
				defer cancel()
				_, err := c.Initialize(c2, &mcp.InitializeRequest{})
				ch.did(err)
			}()
		}
		wg.Wait()
		c.Close()
	}
}

// repeatEndpoint wraps the legacy SSE server so that the stream repeats its endpoint event after every message
// frame (the library's client tolerates further endpoint events). The server serialises its writes on the stream,
// so Write is never called concurrently.
type repeatEndpoint struct{ h http.Handler }

type repeatWriter struct {
	http.ResponseWriter
	endpoint []byte
}

func (w *repeatWriter) Write(p []byte) (int, error) {
	n, err := w.ResponseWriter.Write(p)
	if err != nil {
		return n, err
	}
	if bytes.HasPrefix(p, []byte("event: endpoint")) {
		w.endpoint = append([]byte{}, p...)
	} else if w.endpoint != nil && bytes.HasPrefix(p, []byte("event: message")) && bytes.HasSuffix(p, []byte("\n\n")) {
		w.ResponseWriter.Write(w.endpoint)
	}
	return n, err
}

func (w *repeatWriter) Flush() {
	if f, ok := w.ResponseWriter.(http.Flusher); ok {
		f.Flush()
	}
}

func (w *repeatWriter) Unwrap() http.ResponseWriter { return w.ResponseWriter }

func (r repeatEndpoint) ServeHTTP(w http.ResponseWriter, req *http.Request) {
	if req.Method == http.MethodGet {
		w = &repeatWriter{ResponseWriter: w}
	}
	r.h.ServeHTTP(w, req)
}

// scSSEReendpoint: one legacy SSE client used from several goroutines while its peer repeats the endpoint event.
func scSSEReendpoint(ch *child) {
	s := mcp.NewSSEServer("races-sse", "1.0", mcp.WithSSEServerLogger(hk.QuietLogger{}), mcp.WithKeepAlive(false))
	registerBase(regSSE(s))
	ts := httptest.NewUnstartedServer(repeatEndpoint{s})
	ts.Config.ErrorLog = hk.QuietStdLog()
	ts.Start()
	defer func() { ts.CloseClientConnections(); ts.Close() }()
	ctx := context.Background()
	c := newSSEClient(ts.URL + "/sse")
	_, err := c.Initialize(ctx, &mcp.InitializeRequest{})
	ch.did(err)
	var wg sync.WaitGroup
	for g := 0; g < 3; g++ {
		g := g
		wg.Add(1)
		go func() {
			defer wg.Done()
			for i := 0; i < 8*ch.scale; i++ {
				ch.did(callWork(ctx, c, fmt.Sprintf("re%d-%d", g, i)))
			}
		}()
	}
	wg.Wait()
	c.Close()
}

// ---------------------------------------------------------------------------------------------------------------
// retry (WithRetry / WithSimpleRetry): calls that fail transiently and back off at the same time
//
// retry.Execute runs on the goroutine of every call of a client that has a retry policy, so whatever its back-off step
// touches outside the call's own state is shared by all calls of all clients of the process.  (The stdio client has
// no retry: the policy options are ClientOptions, NewStdioClient takes none of them, and its transport never looks at
// the retry configuration it can store.)

type fkey struct{}

// fstate is goroutine-local (carried by the calling goroutine's context, plain fields): how many more attempts of the
// call in progress are to fail, how, and the round whose callers meet at their first failure.
type fstate struct {
	left  int
	mode  string
	round *fround
	first bool
}

// fround lets the callers of one round reach their first failure together: everything a caller does after that
// point is unordered with the other callers — the barrier only adds edges INTO it.
type fround struct {
	n       int32
	arrived atomic.Int32
	open    chan struct{}
}

func newRound(n int) *fround { return &fround{n: int32(n), open: make(chan struct{})} }

// flaky is a custom HTTPReqHandler (public extension point).  The attempts the caller's fstate marks fail with a
// transient error made up in memory — a 503 answer, a reset / refused connection, an EOF — WITHOUT any network I/O
// (every network read / write is an acquire / release on one global object of the race runtime: real failures would
// order the callers by accident); the other requests go to the real server on a connection of their own.
type flaky struct{}

func (flaky) Handle(ctx context.Context, client *http.Client, req *http.Request) (*http.Response, error) {
	st, _ := ctx.Value(fkey{}).(*fstate)
	if st == nil || req.Method != http.MethodPost || st.left <= 0 {
		return (&http.Client{Transport: &http.Transport{DisableKeepAlives: true}}).Do(req)
	}
	st.left--
	if st.first && st.round != nil {
		st.first = false
		if st.round.arrived.Add(1) == st.round.n {
			close(st.round.open)
		}
		select {
		case <-st.round.open:
		case <-time.After(2 * time.Second):
		}
	}
	switch st.mode {
	case "reset":
		return nil, &net.OpError{Op: "read", Net: "tcp", Err: os.NewSyscallError("read", syscall.ECONNRESET)}
	case "refused":
		return nil, &net.OpError{Op: "dial", Net: "tcp", Err: os.NewSyscallError("connect", syscall.ECONNREFUSED)}
	case "eof":
		return nil, io.EOF
	}
	return &http.Response{Status: "503 Service Unavailable", StatusCode: http.StatusServiceUnavailable, Proto: "HTTP/1.1", ProtoMajor: 1, ProtoMinor: 1,
		Header: http.Header{"Content-Type": {"text/plain; charset=utf-8"}}, Body: io.NopCloser(strings.NewReader("try again\n")), Request: req}, nil
}

var failModes = []string{"503", "reset", "refused", "eof"}

// flakySrv answers the FIRST attempt of every tools/call request with 503 (real network, the library's default
// handler): the realistic variant — which goroutines it leaves unordered is up to the schedule.
type flakySrv struct {
	h    http.Handler
	mu   sync.Mutex
	seen map[string]int
}

func (f *flakySrv) ServeHTTP(w http.ResponseWriter, r *http.Request) {
	if r.Method == http.MethodPost {
		b, _ := io.ReadAll(r.Body)
		r.Body = io.NopCloser(bytes.NewReader(b))
		var m struct {
			ID     json.RawMessage `json:"id"`
			Method string          `json:"method"`
		}
		if json.Unmarshal(b, &m) == nil && m.Method == "tools/call" && len(m.ID) > 0 {
			key := r.Header.Get("Mcp-Session-Id") + "|" + r.URL.RawQuery + "|" + string(m.ID)
			f.mu.Lock()
			f.seen[key]++
			n := f.seen[key]
			f.mu.Unlock()
			if n == 1 {
				http.Error(w, "try again", http.StatusServiceUnavailable)
				return
			}
		}
	}
	f.h.ServeHTTP(w, r)
}

var quickRetry = mcp.RetryConfig{MaxRetries: 3, InitialBackoff: 4 * time.Millisecond, BackoffFactor: 2, MaxBackoff: 24 * time.Millisecond}

// retryScenario: (1) ONE client with a retry policy used from several goroutines whose calls fail transiently at the
// same time, (2) several clients — each with its own policy — doing the same, two goroutines each, (3) clients
// configured with WithSimpleRetry (default back-offs), (4) first attempts refused by the server itself.
func retryScenario(ch *child, kind string) {
	var url string
	var closeSrv func()
	wrap := func(h http.Handler) http.Handler { return h }
	var fs *flakySrv
	wrapFlaky := func(h http.Handler) http.Handler { fs = &flakySrv{h: h, seen: map[string]int{}}; return fs }
	start := func(w func(http.Handler) http.Handler) {
		if kind == "sse" {
			_, ts, _ := newSSESrvWrapped(w)
			url, closeSrv = ts.URL+"/sse", func() { ts.CloseClientConnections(); ts.Close() }
		} else {
			f := newStreamSrvWrapped(false, w)
			url, closeSrv = f.url, f.close
		}
	}
	newClient := func(opts ...mcp.ClientOption) *mcp.Client {
		opts = append([]mcp.ClientOption{mcp.WithClientLogger(hk.QuietLogger{})}, opts...)
		var c *mcp.Client
		var err error
		if kind == "sse" {
			c, err = mcp.NewSSEClient(url, impl, opts...)
		} else {
			c, err = mcp.NewClient(url, impl, opts...)
		}
		if err != nil {
			panic(err)
		}
		ictx, cancel := context.WithTimeout(context.Background(), 10*time.Second)
		defer cancel()
		_, err = c.Initialize(ictx, &mcp.InitializeRequest{})
		ch.did(err)
		return c
	}
	// one round: every (client, goroutine) makes one call whose first attempts fail; all of them are held at their first
	// failure until the last one has arrived, then back off together
	round := func(cs []*mcp.Client, perClient int, rk int) {
		r := newRound(len(cs) * perClient)
		var wg sync.WaitGroup
		for ci, c := range cs {
			for g := 0; g < perClient; g++ {
				ci, c, g := ci, c, g
				wg.Add(1)
				go func() {
					defer wg.Done()
					rng := ch.rng(1000*rk + 10*ci + g)
					st := &fstate{left: 1 + rng.Intn(2), mode: failModes[rng.Intn(len(failModes))], round: r, first: true}
					ctx, cancel := context.WithTimeout(context.WithValue(context.Background(), fkey{}, st), 20*time.Second)
					defer cancel()
					ch.did(callWork(ctx, c, fmt.Sprintf("retry-%d-%d-%d", rk, ci, g)))
				}()
			}
		}
		wg.Wait()
	}
	start(wrap)
	// (1) one client, six goroutines
	one := newClient(mcp.WithRetry(quickRetry), mcp.WithHTTPReqHandler(flaky{}))
	for i := 0; i < 3*ch.scale; i++ {
		round([]*mcp.Client{one}, 6, i)
	}
	// (2) four clients, two goroutines each
	var many []*mcp.Client
	for k := 0; k < 4; k++ {
		cfg := quickRetry
		cfg.InitialBackoff += time.Duration(k) * time.Millisecond
		many = append(many, newClient(mcp.WithRetry(cfg), mcp.WithHTTPReqHandler(flaky{})))
	}
	for i := 0; i < 2*ch.scale; i++ {
		round(many, 2, 100+i)
	}
	round(append([]*mcp.Client{one}, many...), 1, 200)
	one.Close()
	for _, c := range many {
		c.Close()
	}
	// (3) WithSimpleRetry: the default policy (500 ms before the second attempt)
	var simple []*mcp.Client
	for k := 0; k < 3; k++ {
		simple = append(simple, newClient(mcp.WithSimpleRetry(1+k), mcp.WithHTTPReqHandler(flaky{})))
	}
	{
		r := newRound(len(simple))
		var wg sync.WaitGroup
		for ci, c := range simple {
			ci, c := ci, c
			wg.Add(1)
			go func() {
				defer wg.Done()
				st := &fstate{left: 1, mode: failModes[(int(ch.seed)+ci)%len(failModes)], round: r, first: true}
				ctx, cancel := context.WithTimeout(context.WithValue(context.Background(), fkey{}, st), 20*time.Second)
				defer cancel()
				ch.did(callWork(ctx, c, fmt.Sprintf("simple-%d", ci)))
			}()
		}
		wg.Wait()
	}
	for _, c := range simple {
		c.Close()
	}
	closeSrv()
	// (4) the server itself refuses every first attempt
	start(wrapFlaky)
	var real []*mcp.Client
	for k := 0; k < 2; k++ {
		real = append(real, newClient(mcp.WithRetry(quickRetry)))
	}
	var wg sync.WaitGroup
	for ci, c := range real {
		for g := 0; g < 3; g++ {
			ci, c, g := ci, c, g
			wg.Add(1)
			go func() {
				defer wg.Done()
				for i := 0; i < 3*ch.scale; i++ {
					ctx, cancel := context.WithTimeout(context.Background(), 20*time.Second)
					ch.did(callWork(ctx, c, fmt.Sprintf("srv503-%d-%d-%d", ci, g, i)))
					cancel()
				}
			}()
		}
	}
	wg.Wait()
	for _, c := range real {
		c.Close()
	}
	closeSrv()
	_ = fs
}

// scCliRetry / scSSERetry: the retry scenario for the two client kinds that implement retry.
func scCliRetry(ch *child) { retryScenario(ch, "streamable") }
func scSSERetry(ch *child) { retryScenario(ch, "sse") }

// ---------------------------------------------------------------------------------------------------------------
// the caller's memory behind API arguments
//
// A caller owns what it passes: when a call of the public API has returned, it may reuse the map / slice / object it
// passed (a progress loop keeps ONE params map).  Every probe below is a top-level function named
// arg_<Type>_<Method>__<param> (the parent recognises a race report by this name on the stack of the harness-side
// access: `races:arg:<Type>.<Method>:<param>`); it calls the API and writes to the argument right after the call
// returned — nothing in between that could order the write with what the library does on its own goroutines (no
// channel, lock or network operation of the harness; plain sleeps only).

func arg_SSEServer_SendNotification__params(ch *child, s *mcp.SSEServer, sid string, n int) {
	params := map[string]interface{}{"seq": 0, "note": "progress"}
	for i := 1; i <= n; i++ {
		params["seq"] = i
		err := s.SendNotification(sid, "custom/progress", params)
		params["seq"] = -i // the call has returned: the map is the caller's again
		params["again"] = i
		delete(params, "again")
		ch.did(err)
		if i%8 == 0 {
			time.Sleep(300 * time.Microsecond)
		}
	}
}

func arg_Server_SendNotification__params(ch *child, s *mcp.Server, sid string, n int) {
	params := map[string]interface{}{"seq": 0, "_meta": map[string]interface{}{"k": "v"}}
	for i := 1; i <= n; i++ {
		params["seq"] = i
		params["_meta"] = map[string]interface{}{"k": i}
		err := s.SendNotification(sid, "custom/progress", params)
		params["seq"] = -i
		params["again"] = i
		delete(params, "again")
		ch.did(err)
	}
}

func arg_Server_BroadcastNotification__params(ch *child, s *mcp.Server, n int) {
	params := map[string]interface{}{"seq": 0}
	for i := 1; i <= n; i++ {
		params["seq"] = i
		_, err := s.BroadcastNotification("custom/progress", params)
		params["seq"] = -i
		params["again"] = i
		delete(params, "again")
		ch.did(err)
	}
}

func arg_Server_SendFilteredNotification__params(ch *child, s *mcp.Server, n int) {
	params := map[string]interface{}{"seq": 0}
	for i := 1; i <= n; i++ {
		params["seq"] = i
		_, _, err := s.SendFilteredNotification("custom/progress", params, func(string) bool { return true })
		params["seq"] = -i
		params["again"] = i
		delete(params, "again")
		ch.did(err)
	}
}

func rootsRequest(params map[string]interface{}) *mcp.JSONRPCRequest {
	r := &mcp.JSONRPCRequest{JSONRPC: "2.0", Params: params}
	r.Method = "roots/list"
	return r
}

// … SendRequest: with a live context (the answer is awaited) and with one that has already ended (the call comes back
// at once, whatever it did with the request)
func arg_Server_SendRequest__request(ch *child, s *mcp.Server, sid string, n int) {
	params := map[string]interface{}{"seq": 0}
	for i := 1; i <= n; i++ {
		ctx, cancel := context.WithTimeout(context.Background(), 3*time.Second)
		if i%2 == 0 {
			cancel()
		}
		params["seq"] = i
		req := rootsRequest(params)
		_, err := s.SendRequest(ctx, sid, req)
		params["seq"] = -i
		req.Method = "reused"
		req.Params = nil
		cancel()
		ch.did(map[bool]error{true: nil, false: err}[i%2 == 0])
	}
}

func arg_SSEServer_SendRequest__request(ch *child, s *mcp.SSEServer, sid string, n int) {
	params := map[string]interface{}{"seq": 0}
	for i := 1; i <= n; i++ {
		ctx, cancel := context.WithTimeout(context.Background(), 3*time.Second)
		if i%2 == 0 {
			cancel()
		}
		params["seq"] = i
		req := rootsRequest(params)
		_, err := s.SendRequest(ctx, sid, req)
		params["seq"] = -i
		req.Method = "reused"
		req.Params = nil
		cancel()
		ch.did(map[bool]error{true: nil, false: err}[i%2 == 0])
	}
}

// inside a tool handler of a stdio server (the session travels in the handler's context)
func arg_StdioServer_SendRequest__request(ch *child, ctx context.Context, s *mcp.StdioServer, i int) {
	c2, cancel := context.WithTimeout(ctx, 3*time.Second)
	if i%2 == 0 {
		cancel()
	}
	params := map[string]interface{}{"seq": i}
	req := rootsRequest(params)
	_, err := s.SendRequest(c2, req)
	params["seq"] = -i
	req.Method = "reused"
	req.Params = nil
	if i%2 == 0 {
		time.Sleep(2 * time.Millisecond) // nothing of ours orders the write above with the library's goroutines meanwhile
	}
	cancel()
	ch.did(map[bool]error{true: nil, false: err}[i%2 == 0])
}

// the notification sender a handler finds in its context
func arg_sseNotificationSender_SendCustomNotification__params(ch *child, ctx context.Context) {
	sender, ok := mcp.GetNotificationSender(ctx)
	if !ok {
		return
	}
	params := map[string]interface{}{"seq": 0, "_meta": map[string]interface{}{"k": "v"}}
	for i := 1; i <= 4; i++ {
		params["seq"] = i
		err := sender.SendCustomNotification("custom/progress", params)
		params["seq"] = -i
		params["again"] = i
		delete(params, "again")
		ch.did(err)
	}
}

func arg_sseNotificationSender_SendNotification__notification(ch *child, ctx context.Context) {
	sender, ok := mcp.GetNotificationSender(ctx)
	if !ok {
		return
	}
	fields := map[string]interface{}{"seq": 0}
	n := &mcp.Notification{Method: "custom/progress", Params: mcp.NotificationParams{AdditionalFields: fields}}
	for i := 1; i <= 4; i++ {
		fields["seq"] = i
		err := sender.SendNotification(n)
		fields["seq"] = -i
		n.Method = "custom/progress"
		ch.did(err)
	}
}

// a client that keeps ONE request object: live and (every other call) already ended contexts
func arg_Client_CallTool__callToolReq(ch *child, c connector, n int) {
	req := &mcp.CallToolRequest{}
	req.Params.Name = "work"
	req.Params.Arguments = map[string]interface{}{"tag": "t0"}
	for i := 1; i <= n; i++ {
		ctx, cancel := context.WithTimeout(context.Background(), 5*time.Second)
		if i%3 == 0 {
			cancel()
		}
		req.Params.Arguments["tag"] = fmt.Sprintf("t%d", i)
		_, err := c.CallTool(ctx, req)
		req.Params.Arguments["tag"] = "reused"
		req.Params.Arguments["again"] = i
		delete(req.Params.Arguments, "again")
		cancel()
		ch.did(map[bool]error{true: nil, false: err}[i%3 == 0])
	}
}

// a tool built from the caller's slices, registered, listed by clients meanwhile
func arg_Enum__values(ch *child, r registrar, k int) {
	vals := []string{"a", "b", "c"}
	req := []string{"mode"}
	for i := 0; i < k; i++ {
		name := fmt.Sprintf("enum%d", i%3)
		vals[0] = fmt.Sprintf("a%d", i)
		tool := mcp.NewTool(name, mcp.WithDescription("d"), mcp.WithString("mode", mcp.Enum(vals...), mcp.Description("m")), mcp.WithArray("list", mcp.Description("l")))
		_ = req
		r.tool(tool, toolWork)
		vals[0] = "reused" // NewTool has applied the options: the slice is the caller's again
		vals[2] = "reused"
		ch.did(nil)
	}
}

func arg_Server_UnregisterTools__names(ch *child, r registrar, k int) {
	names := []string{"", ""}
	for i := 0; i < k; i++ {
		names[0], names[1] = fmt.Sprintf("enum%d", i%3), fmt.Sprintf("gone%d", i)
		r.unregTools(names...)
		names[0], names[1] = "reused", "reused"
		ch.did(nil)
	}
}

// scArgReuse: every probe against a live peer, so that whatever the library queued is really encoded by its writers.
func scArgReuse(ch *child) {
	n := 40 * ch.scale
	bg := context.Background()
	// legacy SSE server, the library's own client as the peer
	{
		s, ts, gen := newSSESrv()
		c := newSSEClient(ts.URL + "/sse")
		c.RegisterNotificationHandler("custom/progress", func(*mcp.JSONRPCNotification) error { return nil })
		c.SetRootsProvider(roots{[]mcp.Root{{URI: "file:///a", Name: "a"}}})
		_, err := c.Initialize(bg, &mcp.InitializeRequest{})
		ch.did(err)
		if ids := gen.all(); len(ids) > 0 {
			sid := ids[len(ids)-1]
			arg_SSEServer_SendNotification__params(ch, s, sid, 3*n)
			arg_SSEServer_SendRequest__request(ch, s, sid, n/4)
		}
		arg_Client_CallTool__callToolReq(ch, c, n/2)
		time.Sleep(20 * time.Millisecond) // what is still queued gets written
		c.Close()
		ts.CloseClientConnections()
		ts.Close()
	}
	// streamable server, client with a GET stream; a tool whose handler uses the sender of its context
	{
		f := newStreamSrv(false)
		f.s.RegisterTool(mcp.NewTool("argsender", mcp.WithString("tag")), func(ctx context.Context, req *mcp.CallToolRequest) (*mcp.CallToolResult, error) {
			arg_sseNotificationSender_SendCustomNotification__params(ch, ctx)
			arg_sseNotificationSender_SendNotification__notification(ch, ctx)
			return mcp.NewTextResult("sent"), nil
		})
		c := newStreamClient(f.url)
		c.RegisterNotificationHandler("custom/progress", func(*mcp.JSONRPCNotification) error { return nil })
		c.SetRootsProvider(roots{[]mcp.Root{{URI: "file:///a", Name: "a"}}})
		_, err := c.Initialize(bg, &mcp.InitializeRequest{})
		ch.did(err)
		sid := c.GetSessionID()
		waitStream(f.s, sid)
		stop := atomic.Bool{}
		var lw sync.WaitGroup
		lw.Add(1)
		go func() { // another client lists the tools while entries are built from reused slices
			defer lw.Done()
			c2 := newStreamClient(f.url)
			c2.Initialize(bg, &mcp.InitializeRequest{})
			for !stop.Load() {
				_, err := c2.ListTools(bg, &mcp.ListToolsRequest{})
				ch.did(err)
			}
			c2.Close()
		}()
		arg_Server_SendNotification__params(ch, f.s, sid, n)
		arg_Server_BroadcastNotification__params(ch, f.s, n)
		arg_Server_SendFilteredNotification__params(ch, f.s, n)
		arg_Server_SendRequest__request(ch, f.s, sid, n/4)
		arg_Enum__values(ch, regServer(f.s), n/2)
		arg_Server_UnregisterTools__names(ch, regServer(f.s), n/2)
		arg_Client_CallTool__callToolReq(ch, c, n/2)
		for i := 0; i < 3; i++ {
			req := &mcp.CallToolRequest{}
			req.Params.Name = "argsender"
			_, err := c.CallTool(bg, req)
			ch.did(err)
		}
		stop.Store(true)
		lw.Wait()
		c.Close()
		f.close()
	}
	// stdio server on pipes: a tool whose handler issues server→client requests
	{
		s := newStdioSrv()
		var calls atomic.Int64
		s.RegisterTool(mcp.NewTool("argreq", mcp.WithString("tag")), func(ctx context.Context, req *mcp.CallToolRequest) (*mcp.CallToolResult, error) {
			arg_StdioServer_SendRequest__request(ch, ctx, s, int(calls.Add(1)))
			return mcp.NewTextResult("asked"), nil
		})
		inR, inW := io.Pipe()
		outR, outW := io.Pipe()
		ctx, cancel := context.WithCancel(bg)
		served := make(chan struct{})
		go func() { defer close(served); mcp.VerifServeStdio(ctx, s, inR, outW); outW.Close() }()
		var wmu sync.Mutex
		write := func(v any) {
			b, _ := json.Marshal(v)
			wmu.Lock()
			inW.Write(append(b, '\n'))
			wmu.Unlock()
		}
		var answered atomic.Int64
		readerDone := make(chan struct{})
		go func() {
			defer close(readerDone)
			br := bufio.NewReaderSize(outR, 1<<20)
			for {
				line, err := br.ReadBytes('\n')
				if err != nil {
					return
				}
				var m map[string]any
				if json.Unmarshal(bytes.TrimSpace(line), &m) != nil {
					continue
				}
				if m["method"] != nil && m["id"] != nil {
					go write(map[string]any{"jsonrpc": "2.0", "id": m["id"], "result": map[string]any{"roots": []any{}}})
				} else if m["id"] != nil {
					answered.Add(1)
				}
			}
		}()
		write(map[string]any{"jsonrpc": "2.0", "id": 1, "method": "initialize",
			"params": map[string]any{"protocolVersion": "2025-03-26", "capabilities": map[string]any{}, "clientInfo": map[string]any{"name": "v", "version": "1"}}})
		write(map[string]any{"jsonrpc": "2.0", "method": "notifications/initialized"})
		k := n / 4
		for i := 0; i < k; i++ {
			write(map[string]any{"jsonrpc": "2.0", "id": 2 + i, "method": "tools/call", "params": map[string]any{"name": "argreq", "arguments": map[string]any{"tag": "x"}}})
		}
		for d := time.Now().Add(5 * time.Second); answered.Load() < int64(k+1) && time.Now().Before(d); {
			time.Sleep(2 * time.Millisecond)
		}
		cancel()
		inW.Close()
		<-served
		<-readerDone
	}
}

// ---------------------------------------------------------------------------------------------------------------
// stdio

func newStdioSrv() *mcp.StdioServer {
	s := mcp.NewStdioServer("races-stdio", "1.0", mcp.WithStdioServerLogger(hk.QuietLogger{}))
	registerBase(regStdio(s))
	s.RegisterNotificationHandler(mcp.MethodNotificationsRootsListChanged, func(ctx context.Context, n *mcp.JSONRPCNotification) error {
		c2, cancel := context.WithTimeout(ctx, 3*time.Second)
		defer cancel()
		s.ListRoots(c2)
		return nil
	})
	return s
}

// scSrvStdio: the stdio server loop on two pipes; a reference peer writes request lines from several goroutines
// (the transport handles every line on its own goroutine) and answers roots/list; entries churn meanwhile.
func scSrvStdio(ch *child) {
	for round := 0; round < 2; round++ {
		s := newStdioSrv()
		inR, inW := io.Pipe()
		outR, outW := io.Pipe()
		ctx, cancel := context.WithCancel(context.Background())
		served := make(chan struct{})
		go func() { defer close(served); mcp.VerifServeStdio(ctx, s, inR, outW); outW.Close() }()
		var wmu sync.Mutex
		write := func(v any) {
			b, _ := json.Marshal(v)
			wmu.Lock()
			_, err := inW.Write(append(b, '\n'))
			wmu.Unlock()
			ch.did(err)
		}
		var answered atomic.Int64
		readerDone := make(chan struct{})
		go func() { // answers roots/list requests, counts answers
			defer close(readerDone)
			br := bufio.NewReaderSize(outR, 1<<20)
			for {
				line, err := br.ReadBytes('\n')
				if err != nil {
					return
				}
				var m map[string]any
				if json.Unmarshal(bytes.TrimSpace(line), &m) != nil {
					continue
				}
				if m["method"] == "roots/list" && m["id"] != nil {
					go write(map[string]any{"jsonrpc": "2.0", "id": m["id"], "result": map[string]any{"roots": []any{}}})
				} else if m["id"] != nil {
					answered.Add(1)
				}
			}
		}()
		n := 10 * ch.scale
		var id atomic.Int64
		var wg sync.WaitGroup
		for g := 0; g < 4; g++ {
			g := g
			wg.Add(1)
			go func() {
				defer wg.Done()
				write(map[string]any{"jsonrpc": "2.0", "id": id.Add(1), "method": "initialize",
					"params": map[string]any{"protocolVersion": "2025-03-26", "capabilities": map[string]any{}, "clientInfo": map[string]any{"name": "v", "version": "1"}}})
				write(map[string]any{"jsonrpc": "2.0", "method": "notifications/initialized"})
				for i := 0; i < n; i++ {
					write(map[string]any{"jsonrpc": "2.0", "id": id.Add(1), "method": "tools/call", "params": map[string]any{"name": "work", "arguments": map[string]any{"tag": fmt.Sprintf("s%d-%d", g, i)}}})
					write(map[string]any{"jsonrpc": "2.0", "id": id.Add(1), "method": []string{"tools/list", "prompts/list", "resources/list", "ping"}[i%4]})
					if i%4 == 0 {
						write(map[string]any{"jsonrpc": "2.0", "method": "notifications/roots/list_changed"})
					}
				}
			}()
		}
		wg.Add(1)
		go func() { defer wg.Done(); churn(ch, regStdio(s), 3*n, 0) }()
		wg.Wait()
		want := id.Load()
		for d := time.Now().Add(5 * time.Second); answered.Load() < want && time.Now().Before(d); {
			time.Sleep(2 * time.Millisecond)
		}
		cancel()
		inW.Close()
		<-served
		<-readerDone
	}
}

// stdioServerProcess: the server side of the stdio CLIENT scenarios (this binary started by the library's client).
func stdioServerProcess() {
	s := newStdioSrv()
	s.RegisterTool(mcp.NewTool("notify", mcp.WithString("tag")), func(ctx context.Context, req *mcp.CallToolRequest) (*mcp.CallToolResult, error) {
		if sess, ok := mcp.GetSessionFromContext(ctx); ok {
			if st, ok := sess.(interface {
				NotificationChannel() chan<- mcp.JSONRPCNotification
			}); ok {
				for i := 0; i < 3; i++ {
					select {
					case st.NotificationChannel() <- *mcp.NewJSONRPCNotificationFromMap("notifications/message", map[string]interface{}{"level": "info", "data": i}):
					default:
					}
				}
			}
		}
		return mcp.NewTextResult("notified"), nil
	})
	// the server goes away by itself: in the middle of a call, without answering
	s.RegisterTool(mcp.NewTool("exit", mcp.WithString("tag")), func(ctx context.Context, req *mcp.CallToolRequest) (*mcp.CallToolResult, error) {
		os.Exit(0)
		return nil, nil
	})
	s.RegisterTool(mcp.NewTool("slow", mcp.WithString("tag")), func(ctx context.Context, req *mcp.CallToolRequest) (*mcp.CallToolResult, error) {
		time.Sleep(150 * time.Millisecond)
		return mcp.NewTextResult("slow"), nil
	})
	s.Start()
}

func newStdioClient() *mcp.StdioClient {
	self, err := os.Executable()
	if err != nil {
		panic(err)
	}
	c, err := mcp.NewStdioClient(mcp.StdioTransportConfig{
		ServerParams: mcp.StdioServerParameters{Command: self, Env: map[string]string{"VERIF_RACES_CHILD": "stdio-server", "GORACE": "halt_on_error=0 atexit_sleep_ms=0 log_path=" + os.Getenv("VERIF_RACES_SUBLOG")}},
		Timeout:      10 * time.Second,
	}, impl, mcp.WithStdioLogger(hk.QuietLogger{}))
	if err != nil {
		panic(err)
	}
	return c
}

// scCliStdio: one stdio client (real child process) used from many goroutines, closed while in use.
func scCliStdio(ch *child) {
	ctx := context.Background()
	n := 4 * ch.scale
	for round := 0; round < 2; round++ {
		c := newStdioClient()
		c.RegisterNotificationHandler("notifications/message", func(*mcp.JSONRPCNotification) error { return nil })
		c.SetRootsProvider(roots{[]mcp.Root{{URI: "file:///p", Name: "p"}}})
		_, err := c.Initialize(ctx, &mcp.InitializeRequest{})
		ch.did(err)
		useClient(ch, ctx, c, n, func() {
			for i := 0; i < n; i++ {
				req := &mcp.CallToolRequest{}
				req.Params.Name = "notify"
				req.Params.Arguments = map[string]interface{}{"tag": "n"}
				_, err := c.CallTool(ctx, req)
				ch.did(err)
				_ = c.GetProcessID()
				_ = c.IsProcessRunning()
			}
		})
		var wg sync.WaitGroup
		wg.Add(2)
		go func() { defer wg.Done(); useClient(ch, ctx, c, 2) }()
		go func() { defer wg.Done(); c.Close() }()
		wg.Wait()
	}
}

// reaped: the server process of a stdio client is gone AND has been waited for.  The event: a call that was in flight
// when the process went away comes back with "transport closed" — the transport's watcher ends the transport's context
// only after Cmd.Wait has returned (which is also when the parent's ends of the stdout / stderr pipes are closed) —
// and the library itself no longer finds the process (polled: its own answer, no sleep as synchronisation).
func reaped(ch *child, c *mcp.StdioClient, kill bool) bool {
	ctx, cancel := context.WithTimeout(context.Background(), 8*time.Second)
	defer cancel()
	req := &mcp.CallToolRequest{}
	req.Params.Name = "exit"
	if kill {
		req.Params.Name = "slow"
		pid := c.GetProcessID()
		go func() {
			time.Sleep(20 * time.Millisecond) // the call below is on its way by then; if not, it fails on the dead pipe: fine too
			if pid > 0 {
				syscall.Kill(pid, syscall.SIGKILL)
			}
		}()
	}
	_, err := c.CallTool(ctx, req)
	gone := err != nil
	for d := time.Now().Add(5 * time.Second); c.IsProcessRunning() && time.Now().Before(d); {
		time.Sleep(time.Millisecond)
	}
	ok := gone && !c.IsProcessRunning()
	ch.did(map[bool]error{true: nil, false: fmt.Errorf("not reaped: %v", err)}[ok])
	return ok
}

// scCliStdioExit: FAULTS AT CLOSE of a stdio client.  The server process exits by itself in the middle of a call (or is
// killed) and has been reaped by the transport before the application cleans up: Close, Close twice, Close from two
// goroutines at once, RestartProcess, Close while another call is still in flight against a live server.  With the
// process reaped, the closes of the stdout and stderr pipes FAIL (Cmd.Wait closed the parent's ends): the error paths
// of the close sequence run — on whatever goroutines the library uses for them.
func scCliStdioExit(ch *child) {
	bg := context.Background()
	fresh := func() *mcp.StdioClient {
		c := newStdioClient()
		c.RegisterNotificationHandler("notifications/message", func(*mcp.JSONRPCNotification) error { return nil })
		ctx, cancel := context.WithTimeout(bg, 10*time.Second)
		defer cancel()
		_, err := c.Initialize(ctx, &mcp.InitializeRequest{})
		ch.did(err)
		return c
	}
	for round := 0; round < 2*ch.scale; round++ {
		// exits by itself, reaped, then Close (and once more: the second one finds the transport closed)
		c := fresh()
		reaped(ch, c, false)
		c.Close()
		c.Close()
		// … Close from two goroutines at once
		c = fresh()
		reaped(ch, c, false)
		var wg sync.WaitGroup
		for g := 0; g < 2; g++ {
			wg.Add(1)
			go func() { defer wg.Done(); c.Close() }()
		}
		wg.Wait()
		// … RestartProcess after the exit, then Close
		c = fresh()
		reaped(ch, c, false)
		rctx, cancel := context.WithTimeout(bg, 5*time.Second)
		c.RestartProcess(rctx)
		cancel()
		c.Close()
		// killed from outside while a call is in flight, reaped, Close while the state getters run
		c = fresh()
		reaped(ch, c, true)
		wg.Add(2)
		go func() { defer wg.Done(); c.Close() }()
		go func() {
			defer wg.Done()
			for i := 0; i < 20; i++ {
				_ = c.IsProcessRunning()
				_ = c.GetProcessID()
				_ = c.GetState()
			}
		}()
		wg.Wait()
		// a live server: Close while a call is in flight
		c = fresh()
		wg.Add(2)
		go func() {
			defer wg.Done()
			defer func() { recover() }()
			ctx, cancel := context.WithTimeout(bg, 5*time.Second)
			defer cancel()
			req := &mcp.CallToolRequest{}
			req.Params.Name = "slow"
			c.CallTool(ctx, req)
		}()
		go func() { defer wg.Done(); time.Sleep(30 * time.Millisecond); c.Close() }()
		wg.Wait()
		c.Close()
	}
}

// scCliStdioFirst: the first request of a stdio client issued from several goroutines at once (the server process is
// started lazily by the first request).
func scCliStdioFirst(ch *child) {
	ctx := context.Background()
	for round := 0; round < 2*ch.scale; round++ {
		c := newStdioClient()
		var wg sync.WaitGroup
		for g := 0; g < 3; g++ {
			wg.Add(1)
			go func() {
				defer wg.Done()
				defer func() { recover() }()
				c2, cancel := context.WithTimeout(ctx, 5*time.Second)
				defer cancel()
				_, err := c.Initialize(c2, &mcp.InitializeRequest{})
				ch.did(err)
				_ = c.GetProcessID()
			}()
		}
		// process queries while the first request may still be starting the process
		wg.Add(1)
		go func() {
			defer wg.Done()
			for i := 0; i < 20; i++ {
				_ = c.GetProcessID()
				_ = c.IsProcessRunning()
				time.Sleep(time.Millisecond)
			}
		}()
		wg.Wait()
		c.Close()
	}
	// Close while the first request is in flight
	delays := []time.Duration{200, 500, 1000, 1500, 2000, 3000, 4500, 7000, 15000}
	for round := 0; round < len(delays); round++ {
		c := newStdioClient()
		var wg sync.WaitGroup
		wg.Add(2)
		go func() {
			defer wg.Done()
			defer func() { recover() }()
			c2, cancel := context.WithTimeout(ctx, 5*time.Second)
			defer cancel()
			_, err := c.Initialize(c2, &mcp.InitializeRequest{})
			ch.did(err)
		}()
		go func() {
			defer wg.Done()
			// a Close that falls between the first request's look at the closed flag and the end of the process
			// start (a few milliseconds) reads the pipe fields the start is about to write
			time.Sleep(delays[round] * time.Microsecond)
			c.Close()
		}()
		wg.Wait()
		c.Close()
	}
}
