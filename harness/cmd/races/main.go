// Component `races` (property C20): the library under the Go race detector.
//
// The parent (this binary, built normally) builds itself once more with `go build -race` into the work directory,
// runs every scenario of child.go in its own sub-process (GORACE="halt_on_error=0 log_path=…", several GOMAXPROCS
// values and seeds), parses the `WARNING: DATA RACE` reports, maps both access stacks of a report to the struct field
// they touch — through the file:line table the fact extractor writes next to lean/Mcp/Gen/FieldLocks.lean — and
// cross-checks with the Lean model of the lock table:
//   - every report must be PREDICTED by the table (`races.predict`: the two functions' access records of that field
//     conflict) — a report on a field the table calls disciplined means the extractor is unsound (disagreement);
//   - the discipline verdict the harness works with is the model's (`races.field`, one line per table field);
//   - every undisciplined field should be confirmed by a report (listed in the evidence).
//
// Violations (genuine data races): ONE per racy field, `races:<type>.<field>:<f1>+<f2>` where the pair is the first
// conflicting pair of the lock table — a stable name; which pairs a run observes depends on the schedule, they are
// listed in the violation text.  Races on memory that became reachable through an unsynchronised field (string
// bytes, a map filled before the store) belong to that field's violation.  A race inside another package's memory
// that no tracked field explains is `races:external:<f1>+<f2>`; a race at a library location the table does not
// cover is `races:?.?:…` AND a disagreement with the model (the extractor is incomplete).
//
// Package-level variables (state shared by every client and server of the process) have a table of their own
// (lean/Mcp/Gen/Globals.lean + Globals.sites.json, extract/races_globals.go): a report whose two stacks lead — at
// their first library frame, or the library frames below it — to access sites of the same variable is
// `races:global:<pkg>.<var>` (ONE per variable, whatever pair of functions and whatever memory behind the variable the
// run observed), and must be predicted by the model of that table (`races.gpredict`); the verdict per variable is the
// model's (`races.global`).
//
// The caller's memory behind API arguments: the probes of scenario `arg-reuse` (child.go, functions named
// arg_<Type>_<Method>__<param>) call the public API and write to the argument right after the call returned.  A report
// one of whose stacks reaches such a function BEFORE any library frame (the access is the harness's own write, not
// something the library does on the probe's goroutine) is `races:arg:<Type>.<Method>:<param>` — never folded into a
// field, never dropped as harness-internal: the library kept the caller's argument and read it later on one of its own
// goroutines.  It must be predicted by the third table (lean/Mcp/Gen/ApiArgs.lean + ApiArgs.sites.json,
// extract/races_apiargs.go; `races.apredict`), whose per-parameter verdicts are the model's (`races.arg`).
//
// Locals shared by the goroutines one library function starts: a report both of whose stacks reach — as their first
// library frame — function literals of the SAME library function, at lines that touch no tracked field, is
// `races:local:<Type>.<func>:<var>`: the variable is taken from the fourth table (lean/Mcp/Gen/GoClosures.lean +
// GoClosures.sites.json, extract/races_goclosures.go: the writes of goroutine literals to variables of their function),
// else from the source line (`v = …`, `v = append(v, …)`, `v[k] = …`, `v++`), else left out.  Checked before the field
// classification (which would attribute the report to whatever field the enclosing function touches); it must be
// predicted by the model of that table (`races.lpredict`).
package main

import (
	"bytes"
	"context"
	"encoding/json"
	"fmt"
	"os"
	"os/exec"
	"path/filepath"
	"regexp"
	"sort"
	"strconv"
	"strings"
	"sync"
	"time"

	"verif/harness/hk"
)

func main() {
	if name := os.Getenv("VERIF_RACES_CHILD"); name != "" {
		childMain(name)
		return
	}
	hk.Main(&hk.Component{Name: "races",
		Rule: "scenarios = {streamable server with clients coming and going, GET streams resuming, one streamable client used from many goroutines then terminated/closed in use, first use from several goroutines, legacy SSE server+clients, stdio server on pipes, stdio client with a real child process, streamable and SSE clients with a retry policy whose calls fail transiently and back off together (one client from several goroutines, several clients), a server's registries listed in memory while the oldest tool of a sliding window is unregistered, first use of freshly registered degenerate (struct-literal) descriptors on fresh servers by concurrent listings / getters / calls, stdio clients whose server process exited by itself or was killed and has been reaped before Close / double Close / concurrent Close / RestartProcess, Close with a call in flight, callers of the send / request / call / registration APIs that reuse the map, slice or object they passed right after the call returned} x GOMAXPROCS x seed, each in a -race sub-process; a case is a distinct race report (field, package-level variable or API argument, function pair), a table field, a table variable or a table parameter; non-trivial = the field / variable is undisciplined or holds something mutable / the report names a tracked field or variable",
		Run:  run})
}

type held struct {
	Name string `json:"name"`
	Excl bool   `json:"excl"`
}

type site struct {
	Type  string `json:"type"`
	Field string `json:"field"`
	Fn    string `json:"fn"`
	Kind  string `json:"kind"`
	Sync  string `json:"sync"`
	Held  []held `json:"held"`
	Init  bool   `json:"init"`
	File  string `json:"file"`
	Line  int    `json:"line"`
}

func (s site) holds(m string) bool {
	for _, h := range s.Held {
		if h.Name == m && (h.Excl || s.Kind != "w") {
			return true
		}
	}
	return false
}

// conflict mirrors Mcp.Lockset.conflict.
func conflict(a, b site) bool {
	if !(a.Kind == "w" || b.Kind == "w") || !(a.Sync == "plain" || b.Sync == "plain") {
		return false
	}
	for _, h := range a.Held {
		if a.holds(h.Name) && b.holds(h.Name) {
			return false
		}
	}
	return true
}

// canonicalPair: the smallest pair of functions whose access records of the field conflict — the stable name of
// "this field races" (which pairs a run actually observes varies with the schedule).
func (f *tableField) canonicalPair() (string, string, bool) {
	b1, b2, ok := "", "", false
	for _, a := range f.Sites {
		for _, b := range f.Sites {
			if a.Init || b.Init || !conflict(a, b) {
				continue
			}
			f1, f2 := a.Fn, b.Fn
			if f2 < f1 {
				f1, f2 = f2, f1
			}
			if !ok || f1 < b1 || (f1 == b1 && f2 < b2) {
				b1, b2, ok = f1, f2, true
			}
		}
	}
	return b1, b2, ok
}

type tableField struct {
	Type        string `json:"type"`
	Field       string `json:"field"`
	Disciplined bool   `json:"disciplined"`
	Why         string `json:"why"`
	Sites       []site `json:"sites"`
}

type table struct {
	Fields []tableField `json:"fields"`
	byLine map[string][]site
	undisc map[string]bool
	// package-level variables
	Globals  []tableGlobal
	gByLine  map[string][]gsite
	gUndisc  map[string]bool
	globalOf map[string]*tableGlobal
	// API arguments
	Args  []tableArg
	argOf map[string]*tableArg
	// locals written by goroutine literals of their function
	Locals  []tableLocal
	lByLine map[string]*tableLocal
}

type tableLocal struct {
	Fn          string `json:"fn"`
	Var         string `json:"var"`
	Type        string `json:"type"`
	Writers     int    `json:"writers"`
	Disciplined bool   `json:"disciplined"`
	Why         string `json:"why"`
	Writes      []struct {
		Fn   string `json:"fn"`
		File string `json:"file"`
		Line int    `json:"line"`
	} `json:"writes"`
}

type tableArg struct {
	API      string            `json:"api"`
	Param    string            `json:"param"`
	Type     string            `json:"type"`
	Stored   bool              `json:"stored"`
	Sent     bool              `json:"sent"`
	Returned bool              `json:"returned"`
	Unknown  bool              `json:"unknown"`
	Copied   bool              `json:"copied"`
	Verdict  string            `json:"verdict"`
	Why      map[string]string `json:"why"`
}

func (a *tableArg) compliant() bool { return !a.Stored && !a.Sent && !a.Returned && !a.Unknown }

type gsite struct {
	Fn     string `json:"fn"`
	Kind   string `json:"kind"`
	Sync   string `json:"sync"`
	Held   []held `json:"held"`
	Init   bool   `json:"init"`
	Config bool   `json:"config"`
	File   string `json:"file"`
	Line   int    `json:"line"`
	key    string
}

type tableGlobal struct {
	Pkg         string  `json:"pkg"`
	Name        string  `json:"name"`
	Type        string  `json:"type"`
	VKind       string  `json:"vkind"`
	Disciplined bool    `json:"disciplined"`
	Why         string  `json:"why"`
	Sites       []gsite `json:"sites"`
}

func loadTable(c *hk.Ctx, root, repo string) (*table, error) {
	// regenerate next to the binaries we are about to build, from the very tree we compile
	gen := filepath.Join(c.Dir, "races_gen")
	os.MkdirAll(gen, 0o755)
	path := filepath.Join(root, "lean", "Mcp", "Gen", "FieldLocks.sites.json")
	gpath := filepath.Join(root, "lean", "Mcp", "Gen", "Globals.sites.json")
	apath := filepath.Join(root, "lean", "Mcp", "Gen", "ApiArgs.sites.json")
	lpath := filepath.Join(root, "lean", "Mcp", "Gen", "GoClosures.sites.json")
	if exe := filepath.Join(root, "extract", "bin", "extract"); fileExists(exe) {
		cmd := exec.Command(exe, "-repo", repo, "-out", gen)
		if out, err := cmd.CombinedOutput(); err == nil && fileExists(filepath.Join(gen, "FieldLocks.sites.json")) && fileExists(filepath.Join(gen, "Globals.sites.json")) && fileExists(filepath.Join(gen, "ApiArgs.sites.json")) && fileExists(filepath.Join(gen, "GoClosures.sites.json")) {
			lpath = filepath.Join(gen, "GoClosures.sites.json")
			path = filepath.Join(gen, "FieldLocks.sites.json")
			gpath = filepath.Join(gen, "Globals.sites.json")
			apath = filepath.Join(gen, "ApiArgs.sites.json")
		} else {
			c.SetExtra("extract_rerun", fmt.Sprintf("failed (%v): %s", err, tail(string(out), 300)))
		}
	}
	b, err := os.ReadFile(path)
	if err != nil {
		return nil, err
	}
	t := &table{byLine: map[string][]site{}, undisc: map[string]bool{}}
	if err := json.Unmarshal(b, t); err != nil {
		return nil, err
	}
	for _, f := range t.Fields {
		if !f.Disciplined {
			t.undisc[f.Type+"."+f.Field] = true
		}
		for _, s := range f.Sites {
			k := s.File + ":" + strconv.Itoa(s.Line)
			t.byLine[k] = append(t.byLine[k], s)
		}
	}
	gb, err := os.ReadFile(gpath)
	if err != nil {
		return nil, err
	}
	var gt struct {
		Globals []tableGlobal `json:"globals"`
	}
	if err := json.Unmarshal(gb, &gt); err != nil {
		return nil, err
	}
	t.Globals, t.gByLine, t.gUndisc, t.globalOf = gt.Globals, map[string][]gsite{}, map[string]bool{}, map[string]*tableGlobal{}
	for i := range t.Globals {
		g := &t.Globals[i]
		key := g.Pkg + "." + g.Name
		t.globalOf[key] = g
		if !g.Disciplined {
			t.gUndisc[key] = true
		}
		for _, s := range g.Sites {
			s.key = key
			k := s.File + ":" + strconv.Itoa(s.Line)
			t.gByLine[k] = append(t.gByLine[k], s)
		}
	}
	ab, err := os.ReadFile(apath)
	if err != nil {
		return nil, err
	}
	var at struct {
		Args []tableArg `json:"args"`
	}
	if err := json.Unmarshal(ab, &at); err != nil {
		return nil, err
	}
	t.Args, t.argOf = at.Args, map[string]*tableArg{}
	for i := range t.Args {
		t.argOf[t.Args[i].API+":"+t.Args[i].Param] = &t.Args[i]
	}
	lb, err := os.ReadFile(lpath)
	if err != nil {
		return nil, err
	}
	var lt struct {
		Locals []tableLocal `json:"locals"`
	}
	if err := json.Unmarshal(lb, &lt); err != nil {
		return nil, err
	}
	t.Locals, t.lByLine = lt.Locals, map[string]*tableLocal{}
	for i := range t.Locals {
		for _, w := range t.Locals[i].Writes {
			t.lByLine[w.File+":"+strconv.Itoa(w.Line)] = &t.Locals[i]
		}
	}
	return t, nil
}

func fileExists(p string) bool { _, err := os.Stat(p); return err == nil }

func tail(s string, n int) string {
	if len(s) > n {
		return s[len(s)-n:]
	}
	return s
}

func buildRace(c *hk.Ctx, root string) (string, error) {
	bin := filepath.Join(c.Dir, "races_race")
	args := []string{"build", "-race", "-tags", "verif"}
	if fileExists(filepath.Join(c.Dir, "go.mod")) {
		args = append(args, "-modfile", filepath.Join(c.Dir, "go.mod"))
	}
	args = append(args, "-o", bin, "./cmd/races")
	cmd := exec.Command("go", args...)
	cmd.Dir = filepath.Join(root, "harness")
	t0 := time.Now()
	out, err := cmd.CombinedOutput()
	c.SetExtra("race_build_s", time.Since(t0).Seconds())
	if err != nil {
		return "", fmt.Errorf("go build -race: %v: %s", err, tail(string(out), 800))
	}
	return bin, nil
}

type job struct {
	scenario string
	procs    int
	seed     int64
	scale    int
}

type jobResult struct {
	job     job
	err     error
	stdout  string
	stderr  string
	reports []report
	wall    float64
}

func runJobs(c *hk.Ctx, bin string, jobs []job, parallel int) []jobResult {
	res := make([]jobResult, len(jobs))
	sem := make(chan struct{}, parallel)
	var wg sync.WaitGroup
	for i, j := range jobs {
		i, j := i, j
		wg.Add(1)
		go func() {
			defer wg.Done()
			sem <- struct{}{}
			defer func() { <-sem }()
			logBase := filepath.Join(c.Dir, fmt.Sprintf("racelog_%d_%s", i, j.scenario))
			ctx, cancel := context.WithTimeout(context.Background(), 200*time.Second)
			defer cancel()
			cmd := exec.CommandContext(ctx, bin)
			cmd.Env = append(os.Environ(), "VERIF_RACES_CHILD="+j.scenario, fmt.Sprintf("VERIF_RACES_SEED=%d", j.seed),
				fmt.Sprintf("VERIF_RACES_SCALE=%d", j.scale), fmt.Sprintf("GOMAXPROCS=%d", j.procs),
				"GORACE=halt_on_error=0 exitcode=0 history_size=7 log_path="+logBase, "VERIF_RACES_SUBLOG="+logBase+"_sub", "GOTRACEBACK=single")
			var so, se bytes.Buffer
			cmd.Stdout, cmd.Stderr = &so, &se
			t0 := time.Now()
			err := cmd.Run()
			r := jobResult{job: j, err: err, stdout: so.String(), stderr: se.String(), wall: time.Since(t0).Seconds()}
			logs, _ := filepath.Glob(logBase + "*")
			sort.Strings(logs)
			for _, lf := range logs {
				if b, err := os.ReadFile(lf); err == nil {
					r.reports = append(r.reports, parseReports(string(b))...)
				}
			}
			res[i] = r
		}()
	}
	wg.Wait()
	return res
}

// ---------------------------------------------------------------------------------------------------------------
// race reports

type frame struct {
	fn   string
	file string
	line int
}

type access struct {
	op      string // read | write
	atomic  bool
	gor     string // "goroutine 17" / "main goroutine"
	frames  []frame
	created []frame // where that goroutine was started
}

type report struct {
	acc  [2]access
	text string
}

var (
	accRe   = regexp.MustCompile(`^(?i)(previous )?(atomic )?(read|write) at 0x[0-9a-f]+ by ((?:main )?goroutine(?: \d+)?):`)
	gorRe   = regexp.MustCompile(`^Goroutine (\d+) \([a-z ]+\) created at:`)
	fileRe  = regexp.MustCompile(`^\s+(\S+):(\d+)(?: \+0x[0-9a-f]+)?\s*$`)
	splitRe = regexp.MustCompile(`(?m)^WARNING: DATA RACE\s*$`)
)

func parseReports(log string) []report {
	var out []report
	parts := splitRe.Split(log, -1)
	for _, p := range parts[1:] {
		if i := strings.Index(p, "=================="); i >= 0 {
			p = p[:i]
		}
		var r report
		r.text = "WARNING: DATA RACE" + p
		n := 0
		lines := strings.Split(p, "\n")
		for i := 0; i < len(lines); i++ {
			m := accRe.FindStringSubmatch(lines[i])
			if m == nil || n >= 2 {
				continue
			}
			a := access{op: strings.ToLower(m[3]), atomic: m[2] != "", gor: m[4]}
			for i+2 < len(lines) && strings.HasPrefix(lines[i+1], "  ") && strings.TrimSpace(lines[i+1]) != "" {
				fn := strings.TrimSpace(lines[i+1])
				fm := fileRe.FindStringSubmatch(lines[i+2])
				if fm == nil {
					break
				}
				ln, _ := strconv.Atoi(fm[2])
				a.frames = append(a.frames, frame{fn: fn, file: fm[1], line: ln})
				i += 2
			}
			r.acc[n] = a
			n++
		}
		for i := 0; i < len(lines); i++ {
			m := gorRe.FindStringSubmatch(lines[i])
			if m == nil {
				continue
			}
			var fr []frame
			for i+2 < len(lines) && strings.HasPrefix(lines[i+1], "  ") && strings.TrimSpace(lines[i+1]) != "" {
				fm := fileRe.FindStringSubmatch(lines[i+2])
				if fm == nil {
					break
				}
				ln, _ := strconv.Atoi(fm[2])
				fr = append(fr, frame{fn: strings.TrimSpace(lines[i+1]), file: fm[1], line: ln})
				i += 2
			}
			for k := 0; k < n; k++ {
				if r.acc[k].gor == "goroutine "+m[1] {
					r.acc[k].created = fr
				}
			}
		}
		if n == 2 {
			out = append(out, r)
		}
	}
	return out
}

// repoFrame: the first frame inside the repository (where the library touches the memory, or calls into the
// standard library that does) and whether it is the top frame.
func repoFrame(a access, repo string) (rel string, line int, top bool, ok bool) {
	for i, f := range a.frames {
		if strings.HasPrefix(f.file, repo+"/") {
			return strings.TrimPrefix(f.file, repo+"/"), f.line, i == 0, true
		}
	}
	return "", 0, false, false
}

type finding struct {
	Type, Field, F1, F2 string
	Global              string // "<pkg>.<var>": the report is on (the object behind) a package-level variable
	Arg                 string // "<Type>.<Method>:<param>": the report is on the caller's memory behind an API argument
	Local               string // "<Type>.<func>[:<var>]": the report is on a local shared by goroutines that function starts
	Pointee             bool
	Mapped              bool
	External            bool // the racing memory belongs to another package and is not reached through a tracked field
	Incomplete          bool // a stack could not be restored and the other one names no unsynchronised field: dropped
	OneSided            bool // only one of the two stacks leads to the (unsynchronised) field: no model line
	Where               [2]string
	Text                string
	Scenarios           map[string]int
}

func (f *finding) fingerprint() string {
	if f.Local != "" {
		return "races:local:" + f.Local
	}
	if f.Arg != "" {
		return "races:arg:" + f.Arg
	}
	if f.Global != "" {
		return "races:global:" + f.Global
	}
	if f.External {
		return fmt.Sprintf("races:external:%s+%s", f.F1, f.F2)
	}
	star := ""
	if f.Pointee {
		star = "*"
	}
	return fmt.Sprintf("races:%s.%s%s:%s+%s", f.Type, f.Field, star, f.F1, f.F2)
}

// classify maps one report to (field, function pair).
//
// Per stack, three candidate sets in order of directness: (1) the tracked-field accesses on the line of the first
// library frame, (2) those on the lines of the next library frames (the memory was handed down as an argument),
// (3) those anywhere in the function of the first library frame (the function works on a local that is, or will be,
// reachable through the field — e.g. a map filled before it is stored without synchronisation).  The most direct
// combination with a common field wins; anything but (1)×(1) with a write site is a race on memory BEHIND the field.
var argProbeRe = regexp.MustCompile(`^main\.arg_([A-Za-z0-9_]+?)__([A-Za-z0-9]+)(\.|\(|$)`)

// classifyArg: one of the two accesses is made by an argument probe itself — its function is on the stack before any
// library frame — i.e. it is the caller's write to the argument after the call returned; the other access is the
// library's.
func classifyArg(r report, repo string) (finding, bool) {
	for k := 0; k < 2; k++ {
		for _, f := range r.acc[k].frames {
			if strings.HasPrefix(f.file, repo+"/") {
				break
			}
			m := argProbeRe.FindStringSubmatch(f.fn)
			if m == nil {
				continue
			}
			api := strings.ReplaceAll(m[1], "_", ".")
			other := "?"
			for _, g := range r.acc[1-k].frames {
				if strings.HasPrefix(g.file, repo+"/") {
					other = normFn(g.fn)
					break
				}
			}
			if other == "?" {
				for _, g := range r.acc[1-k].created {
					if strings.HasPrefix(g.file, repo+"/") {
						other = normFn(g.fn) + "(go)"
						break
					}
				}
			}
			return finding{Arg: api + ":" + m[2], F1: "caller of " + api, F2: other, Mapped: true, Pointee: true}, true
		}
	}
	return finding{}, false
}

var (
	closureRe  = regexp.MustCompile(`\.func\d+(\.\d+)*(\(\))?$`)
	localVarRe = regexp.MustCompile(`^\s*(?:\*)?([A-Za-z_][A-Za-z0-9_]*)\s*(?:\[[^\]]*\]\s*)?(?:=[^=]|\+=|-=|\|=|\+\+|--)`)
)

// classifyLocal: both stacks enter the library in function literals of the same library function, at lines that touch
// no tracked field — a variable of that function shared by the goroutines it started.
func classifyLocal(r report, t *table, repo string) (finding, bool) {
	var fn [2]string
	var rel [2]string
	var line [2]int
	closures := 0
	for k := 0; k < 2; k++ {
		found := false
		for _, f := range r.acc[k].frames {
			if !strings.HasPrefix(f.file, repo+"/") {
				continue
			}
			if closureRe.MatchString(f.fn) {
				closures++
			}
			fn[k], rel[k], line[k], found = normFn(f.fn), strings.TrimPrefix(f.file, repo+"/"), f.line, true
			break
		}
		if !found {
			return finding{}, false
		}
	}
	// the same function on both sides, at least one side in a goroutine literal of it (the other may be the function
	// itself, looking at the variable before its goroutines are done)
	if fn[0] != fn[1] || closures == 0 {
		return finding{}, false
	}
	var row *tableLocal
	for k := 0; k < 2; k++ {
		key := rel[k] + ":" + strconv.Itoa(line[k])
		if l := t.lByLine[key]; l != nil {
			row = l
		}
	}
	if row == nil {
		for k := 0; k < 2; k++ {
			if len(t.byLine[rel[k]+":"+strconv.Itoa(line[k])]) > 0 || len(t.gByLine[rel[k]+":"+strconv.Itoa(line[k])]) > 0 {
				return finding{}, false // the line touches a tracked field / package-level variable: theirs
			}
		}
	}
	name := fn[0]
	if i := strings.LastIndex(name, "/"); i >= 0 {
		name = name[i+1:]
	}
	v := ""
	if row != nil {
		name, v = row.Fn, row.Var
	} else {
		for k := 0; k < 2 && v == ""; k++ {
			if b, err := os.ReadFile(filepath.Join(repo, rel[k])); err == nil {
				if ls := strings.Split(string(b), "\n"); line[k] >= 1 && line[k] <= len(ls) {
					if m := localVarRe.FindStringSubmatch(ls[line[k]-1]); m != nil {
						v = m[1]
					}
				}
			}
		}
	}
	f := finding{Local: name, F1: fn[0] + "(go)", F2: fn[1] + "(go)", Mapped: true, Pointee: true}
	if v != "" {
		f.Local += ":" + v
	}
	return f, true
}

func classify(r report, t *table, repo, harnessDir string) finding {
	if l, ok := classifyLocal(r, t, repo); ok {
		f := classifyField(r, t, repo, harnessDir)
		l.Where, l.Text = f.Where, f.Text
		return l
	}
	if a, ok := classifyArg(r, repo); ok {
		f := classifyField(r, t, repo, harnessDir)
		a.Where, a.Text = f.Where, f.Text
		return a
	}
	f := classifyField(r, t, repo, harnessDir)
	// a field explanation stands (a line may touch a field and a package-level variable) unless the variable is one the
	// table calls undisciplined, or both stacks hit the variable directly while the field explanation is an indirect one
	// through a field that is itself disciplined (the report is a new finding under either name)
	if g, direct, ok := classifyGlobal(r, t, repo); ok &&
		(t.gUndisc[g.Global] || !f.Mapped || (direct && f.Pointee && !t.undisc[f.Type+"."+f.Field])) {
		g.Where, g.Text = f.Where, f.Text
		return g
	}
	return f
}

// classifyGlobal: both stacks lead to access sites of the same package-level variable — on the line of their first
// library frame (the library touches the variable, or calls into the package whose object the variable holds), else on
// the lines of the next library frames.  With one stack lost, the other one's first library frame decides, for
// variables the table calls undisciplined only.
func classifyGlobal(r report, t *table, repo string) (finding, bool, bool) {
	var sets [2][2][]gsite
	var lost [2]bool
	for k := 0; k < 2; k++ {
		lost[k] = len(r.acc[k].frames) == 0
		n := 0
		for _, f := range r.acc[k].frames {
			if !strings.HasPrefix(f.file, repo+"/") {
				continue
			}
			ss := t.gByLine[strings.TrimPrefix(f.file, repo+"/")+":"+strconv.Itoa(f.line)]
			lvl := 1
			if n == 0 {
				lvl = 0
			}
			for _, s := range ss {
				if !s.Init || s.Config {
					sets[k][lvl] = append(sets[k][lvl], s)
				}
			}
			if n++; n > 4 {
				break
			}
		}
	}
	pick := func(a, b []gsite) (finding, bool) {
		best, ok := finding{}, false
		for _, x := range a {
			for _, y := range b {
				if x.key != y.key {
					continue
				}
				f1, f2 := x.Fn, y.Fn
				if f2 < f1 {
					f1, f2 = f2, f1
				}
				c := finding{Global: x.key, F1: f1, F2: f2, Mapped: true, Pointee: x.Kind != "w" && y.Kind != "w"}
				if !ok || c.Global < best.Global || (c.Global == best.Global && c.F1+"+"+c.F2 < best.F1+"+"+best.F2) {
					best, ok = c, true
				}
			}
		}
		return best, ok
	}
	if lost[0] || lost[1] {
		k := 0
		if lost[0] {
			k = 1
		}
		var best finding
		ok := false
		for _, s := range sets[k][0] {
			if t.gUndisc[s.key] && (!ok || s.key < best.Global) {
				best, ok = finding{Global: s.key, F1: "?", F2: s.Fn, Mapped: true, Pointee: true, OneSided: true}, true
			}
		}
		return best, false, ok
	}
	for _, cb := range [][2]int{{0, 0}, {0, 1}, {1, 0}, {1, 1}} {
		if f, ok := pick(sets[0][cb[0]], sets[1][cb[1]]); ok {
			return f, cb[0] == 0 && cb[1] == 0, true
		}
	}
	return finding{}, false, false
}

func classifyField(r report, t *table, repo, harnessDir string) finding {
	var sets [2][3][]site
	var where [2]string
	var top [2]bool
	fnOf := func(a access) string {
		for _, f := range a.frames {
			if strings.HasPrefix(f.file, repo+"/") {
				return normFn(f.fn)
			}
		}
		return ""
	}
	for k := 0; k < 2; k++ {
		rel, line, isTop, ok := repoFrame(r.acc[k], repo)
		if !ok {
			w := "outside the library"
			if len(r.acc[k].frames) > 0 {
				w = r.acc[k].frames[0].fn + " " + r.acc[k].frames[0].file + ":" + strconv.Itoa(r.acc[k].frames[0].line)
				for _, f := range r.acc[k].frames {
					if strings.HasPrefix(f.file, harnessDir+"/") {
						w = "HARNESS " + f.fn + " " + f.file + ":" + strconv.Itoa(f.line)
						break
					}
				}
			}
			where[k] = w
			continue
		}
		where[k] = rel + ":" + strconv.Itoa(line)
		top[k] = isTop
		live := func(ss []site, plainOnly bool) []site {
			var out []site
			for _, s := range ss {
				if !s.Init && (!plainOnly || s.Sync == "plain") {
					out = append(out, s)
				}
			}
			return out
		}
		sets[k][0] = live(t.byLine[where[k]], false)
		if len(sets[k][0]) == 0 { // an access the extractor put into the construction phase
			sets[k][0] = append(sets[k][0], t.byLine[where[k]]...)
		}
		seenFirst, deeper := false, 0
		for _, f := range r.acc[k].frames {
			if !strings.HasPrefix(f.file, repo+"/") {
				continue
			}
			if !seenFirst {
				seenFirst = true
				continue
			}
			if deeper++; deeper > 4 {
				break
			}
			sets[k][1] = append(sets[k][1], live(t.byLine[strings.TrimPrefix(f.file, repo+"/")+":"+strconv.Itoa(f.line)], true)...)
		}
		want := fnOf(r.acc[k])
		for _, fl := range t.Fields {
			for _, s := range fl.Sites {
				if !s.Init && s.Sync == "plain" && strings.TrimPrefix(strings.TrimPrefix(s.Fn, "session."), "sseutil.") == want {
					sets[k][2] = append(sets[k][2], s)
				}
			}
		}
	}
	best := finding{Where: where, Text: r.text}
	if len(r.acc[0].frames) == 0 || len(r.acc[1].frames) == 0 {
		// "failed to restore the stack": only a direct hit of the remaining stack on an unsynchronised field counts
		for k := 0; k < 2; k++ {
			for _, s := range sets[k][0] {
				if top[k] && t.undisc[s.Type+"."+s.Field] && (best.Field == "" || s.Type+"."+s.Field < best.Type+"."+best.Field) {
					best = finding{Type: s.Type, Field: s.Field, F1: "?", F2: s.Fn, Pointee: true, Mapped: true, OneSided: true, Where: where, Text: r.text}
				}
			}
		}
		if !best.Mapped {
			best.Incomplete = true
		}
		return best
	}
	// the direct hit first, whatever the field; then the indirect explanations, those through an unsynchronised
	// field before the others
	type try struct {
		cb     [2]int
		undisc bool
	}
	tries := []try{{[2]int{0, 0}, false}}
	for _, u := range []bool{true, false} {
		for _, cb := range [][2]int{{0, 1}, {1, 0}, {0, 2}, {2, 0}, {1, 1}, {1, 2}, {2, 1}, {2, 2}} {
			tries = append(tries, try{cb, u})
		}
	}
	for _, tr := range tries {
		cb := tr.cb
		bestScore := -1
		direct := cb[0] == 0 && cb[1] == 0
		for _, a := range sets[0][cb[0]] {
			for _, b := range sets[1][cb[1]] {
				if a.Type != b.Type || a.Field != b.Field || (tr.undisc && !t.undisc[a.Type+"."+a.Field]) {
					continue
				}
				score := 0
				for k, s := range []site{a, b} {
					switch {
					case cb[k] == 0 && top[k]:
						if (r.acc[k].op == "write") == (s.Kind == "w") {
							score += 2
						}
					case s.Kind == "w":
						score += 3
					case s.Kind == "u":
						score++
					}
				}
				f1, f2 := a.Fn, b.Fn
				if f2 < f1 {
					f1, f2 = f2, f1
				}
				c := finding{Type: a.Type, Field: a.Field, F1: f1, F2: f2, Pointee: !direct || (a.Kind != "w" && b.Kind != "w"),
					Mapped: true, Where: where, Text: r.text}
				if score > bestScore || (score == bestScore && c.fingerprint() < best.fingerprint()) {
					best, bestScore = c, score
				}
			}
		}
		if best.Mapped {
			return best
		}
	}
	// one stack leads to an UNSYNCHRONISED field, the other works on memory that became reachable through it (bytes
	// of a string, entries of a map built before the store): same defect as the field's own race
	{
		var pick *site
		pickK, pickScore := 0, -1
		for level := 0; level < 3 && pick == nil; level++ {
			for k := 0; k < 2; k++ {
				for i := range sets[k][level] {
					s := &sets[k][level][i]
					if !t.undisc[s.Type+"."+s.Field] {
						continue
					}
					score := map[string]int{"w": 2, "u": 1, "r": 0}[s.Kind]
					if score > pickScore || (score == pickScore && pick != nil && s.Type+"."+s.Field < pick.Type+"."+pick.Field) {
						pick, pickK, pickScore = s, k, score
					}
				}
			}
		}
		if pick != nil {
			other := fnOf(r.acc[1-pickK])
			if other == "" {
				if n := len(r.acc[1-pickK].frames); n > 0 {
					other = strings.TrimSuffix(r.acc[1-pickK].frames[n-1].fn, "()")
				}
			}
			f1, f2 := pick.Fn, other
			if f2 < f1 {
				f1, f2 = f2, f1
			}
			return finding{Type: pick.Type, Field: pick.Field, F1: f1, F2: f2, Pointee: true, Mapped: true, OneSided: true, Where: where, Text: r.text}
		}
	}
	// no tracked field in sight: name the functions from the frames so that the fingerprint is still stable — the
	// library function, or, for a stack that never enters the library, the function the goroutine runs
	fn := func(a access) string {
		// a goroutine the library started is named after the function that started it: which of its helpers touches
		// the foreign memory first varies from run to run
		for _, f := range a.created {
			if strings.HasPrefix(f.file, repo+"/") {
				return normFn(f.fn) + "(go)"
			}
		}
		if s := fnOf(a); s != "" {
			return s
		}
		if n := len(a.frames); n > 0 {
			return strings.TrimSuffix(a.frames[n-1].fn, "()")
		}
		return "?"
	}
	best.Type, best.Field = "?", "?"
	best.F1, best.F2 = fn(r.acc[0]), fn(r.acc[1])
	if best.F2 < best.F1 {
		best.F1, best.F2 = best.F2, best.F1
	}
	// memory of another package (neither access is made by library code itself)
	best.External = !top[0] && !top[1]
	return best
}

var funcSuffixRe = regexp.MustCompile(`(\.func\d+|\.gowrap\d+|-fm)(\.\d+)*$`)

// normFn: "trpc.group/trpc-go/trpc-mcp-go.(*T).m.func1()" -> "T.m"; "…/internal/session.(*Session).GetID()" -> "Session.GetID".
func normFn(s string) string {
	if i := strings.LastIndex(s, "/"); i >= 0 {
		s = s[i+1:]
	}
	s = strings.TrimSuffix(s, "()")
	if i := strings.Index(s, "."); i >= 0 {
		s = s[i+1:]
	}
	s = strings.NewReplacer("(*", "", ")", "").Replace(s)
	for {
		t := funcSuffixRe.ReplaceAllString(s, "")
		if t == s {
			break
		}
		s = t
	}
	return s
}

// ---------------------------------------------------------------------------------------------------------------

func run(c *hk.Ctx) {
	root := os.Getenv("VERIF_ROOT")
	if root == "" {
		root = "/verif"
	}
	repo := os.Getenv("VERIF_REPO")
	if repo == "" {
		repo = "/repo"
	}
	repo, _ = filepath.Abs(repo)
	if r, err := filepath.EvalSymlinks(repo); err == nil {
		repo = r
	}
	t, err := loadTable(c, root, repo)
	if err != nil {
		c.Violate(hk.Violation{Fingerprint: "races:harness-setup:table", What: "cannot load the field table: " + err.Error()})
		return
	}
	// the table the harness works with must be the model's table
	undisciplined := map[string]bool{}
	for _, f := range t.Fields {
		c.Emit(map[string]any{"c": "races.field", "type": f.Type, "field": f.Field},
			map[string]any{"known": true, "disciplined": f.Disciplined}, !f.Disciplined, "field:"+map[bool]string{true: "disciplined", false: "undisciplined"}[f.Disciplined])
		if !f.Disciplined {
			undisciplined[f.Type+"."+f.Field] = true
		}
	}

	for _, g := range t.Globals {
		c.Emit(map[string]any{"c": "races.global", "pkg": g.Pkg, "name": g.Name},
			map[string]any{"known": true, "disciplined": g.Disciplined, "vkind": g.VKind}, !g.Disciplined || g.VKind == "container" || g.VKind == "opaque" || g.VKind == "safe",
			"global:"+g.VKind+":"+map[bool]string{true: "disciplined", false: "undisciplined"}[g.Disciplined])
	}

	for _, l := range t.Locals {
		c.Emit(map[string]any{"c": "races.local", "fn": l.Fn, "var": l.Var}, map[string]any{"known": true, "disciplined": l.Disciplined}, true,
			"local:"+map[bool]string{true: "disciplined", false: "undisciplined"}[l.Disciplined])
	}
	for _, a := range t.Args {
		c.Emit(map[string]any{"c": "races.arg", "api": a.API, "param": a.Param},
			map[string]any{"known": true, "compliant": a.compliant(), "verdict": a.Verdict}, !a.compliant() || a.Copied, "arg:"+a.Verdict)
	}

	bin, err := buildRace(c, root)
	if err != nil {
		c.Violate(hk.Violation{Fingerprint: "races:harness-setup:race-build", What: err.Error()})
		return
	}
	var jobs []job
	if c.Thorough() {
		for _, procs := range []int{2, 4, 8} {
			for s := int64(0); s < 2; s++ {
				for _, sc := range scenarioOrder {
					jobs = append(jobs, job{sc, procs, c.Seed*10 + s, 3})
				}
			}
		}
	} else {
		for i, sc := range scenarioOrder {
			jobs = append(jobs, job{sc, []int{4, 8}[i%2], c.Seed, 1})
		}
		// the scenarios that carry most of the known races run a second time on fewer processors
		for _, sc := range []string{"cli-streamable", "srv-streamable", "srv-resume", "cli-first"} {
			jobs = append(jobs, job{sc, 2, c.Seed + 100, 1})
		}
	}
	results := runJobs(c, bin, jobs, 6)

	harnessDir := filepath.Join(root, "harness")
	found := map[string]*finding{}
	var order []string
	perScenario := map[string]map[string]any{}
	nReports, nIncomplete := 0, 0
	for _, r := range results {
		info := perScenario[r.job.scenario]
		if info == nil {
			info = map[string]any{"runs": 0, "reports": 0, "ops": int64(0), "ok_ops": int64(0)}
			perScenario[r.job.scenario] = info
		}
		info["runs"] = info["runs"].(int) + 1
		info["reports"] = info["reports"].(int) + len(r.reports)
		var cr struct {
			Ops int64 `json:"ops"`
			Ok  int64 `json:"ok"`
		}
		lines := strings.Split(strings.TrimSpace(r.stdout), "\n")
		if json.Unmarshal([]byte(lines[len(lines)-1]), &cr) == nil {
			info["ops"] = info["ops"].(int64) + cr.Ops
			info["ok_ops"] = info["ok_ops"].(int64) + cr.Ok
		}
		if r.err != nil {
			// a scenario may die of a library panic (that is a finding of its own, not a data race)
			what := tail(r.stderr, 1500)
			kind := "died"
			if i := strings.Index(r.stderr, "panic: "); i >= 0 {
				kind = "panic"
				what = r.stderr[i:]
				if len(what) > 1500 {
					what = what[:1500]
				}
			}
			info["last_exit"] = kind + ": " + r.err.Error()
			site := "unknown"
			if m := regexp.MustCompile(`trpc-mcp-go\.\(\*?(\w+)\)\.(\w+)`).FindStringSubmatch(what); m != nil {
				site = m[1] + "." + m[2]
			}
			c.Violate(hk.Violation{Fingerprint: "races:scenario-" + kind + ":" + r.job.scenario + ":" + site,
				What:  fmt.Sprintf("scenario %s (GOMAXPROCS=%d) ended abnormally (%s) in %s", r.job.scenario, r.job.procs, kind, site),
				Input: r.job.scenario, Observed: what})
		}
		c.Count(fmt.Sprintf("job:%s:%d:%d", r.job.scenario, r.job.procs, r.job.seed), cr.Ok > 0, nil, "scenario:"+r.job.scenario)
		for _, rep := range r.reports {
			nReports++
			f := classify(rep, t, repo, harnessDir)
			if f.Incomplete {
				nIncomplete++
				continue
			}
			fp := f.fingerprint()
			if found[fp] == nil {
				f.Scenarios = map[string]int{}
				found[fp] = &f
				order = append(order, fp)
			}
			found[fp].Scenarios[r.job.scenario]++
		}
	}
	sort.Strings(order)
	fieldOf := map[string]*tableField{}
	for i := range t.Fields {
		fieldOf[t.Fields[i].Type+"."+t.Fields[i].Field] = &t.Fields[i]
	}
	confirmed := map[string]bool{}
	var unmapped []string
	// reports per racy field (one violation per field: which function pairs a run observes depends on the schedule,
	// whether the field races does not), everything else per observed pair
	type group struct {
		pairs     []string
		scenarios map[string]int
		where     []string
		text      string
	}
	groups := map[string]*group{}
	var gorder []string
	for _, fp := range order {
		f := found[fp]
		if f.Local != "" {
			fn, v, _ := strings.Cut(f.Local, ":")
			c.Emit(map[string]any{"c": "races.lpredict", "fn": fn, "var": v}, map[string]any{"predicted": true}, true, "report:shared-local")
			groups[fp] = &group{scenarios: f.Scenarios, text: f.Text, pairs: []string{f.F1 + " + " + f.F2}, where: []string{f.Where[0] + " / " + f.Where[1]}}
			gorder = append(gorder, fp)
			continue
		}
		if f.Arg != "" {
			api, param, _ := strings.Cut(f.Arg, ":")
			c.Emit(map[string]any{"c": "races.apredict", "api": api, "param": param}, map[string]any{"predicted": true}, true, "report:api-argument")
			groups[fp] = &group{scenarios: f.Scenarios, text: f.Text, pairs: []string{f.F1 + " + " + f.F2}, where: []string{f.Where[0] + " / " + f.Where[1]}}
			gorder = append(gorder, fp)
			continue
		}
		if f.Global != "" {
			if f.OneSided {
				c.Count(fp, true, nil, "report:package-level-variable")
			} else {
				g := t.globalOf[f.Global]
				c.Emit(map[string]any{"c": "races.gpredict", "pkg": g.Pkg, "name": g.Name, "f1": f.F1, "f2": f.F2},
					map[string]any{"predicted": true}, true, "report:package-level-variable")
			}
			groups[fp] = &group{scenarios: f.Scenarios, text: f.Text, pairs: []string{f.F1 + " + " + f.F2}, where: []string{f.Where[0] + " / " + f.Where[1]}}
			gorder = append(gorder, fp)
			continue
		}
		if f.External {
			c.Count(fp, true, nil, "report:external-memory")
		} else if f.OneSided {
			c.Count(fp, true, nil, "report:behind-unsynchronised-field")
		} else {
			// every observed (field, pair) must be predicted by the model's table
			op := map[string]any{"c": "races.predict", "type": f.Type, "field": f.Field, "f1": f.F1, "f2": f.F2, "pointee": f.Pointee}
			c.Emit(op, map[string]any{"predicted": true}, f.Mapped, "report:"+map[bool]string{true: "tracked-field", false: "unmapped"}[f.Mapped])
		}
		key := f.Type + "." + f.Field
		if f.Mapped && !f.Pointee {
			confirmed[key] = true
		}
		if !f.Mapped && !f.External {
			unmapped = append(unmapped, fp+" @ "+f.Where[0]+" | "+f.Where[1])
		}
		gk := fp
		if f.Mapped && undisciplined[key] {
			gk = "field:" + key // also the races on memory behind an unsynchronised field: same defect
		}
		g := groups[gk]
		if g == nil {
			g = &group{scenarios: map[string]int{}, text: f.Text}
			groups[gk] = g
			gorder = append(gorder, gk)
		}
		star := ""
		if f.Pointee {
			star = " (memory behind the field)"
		}
		g.pairs = append(g.pairs, f.F1+" + "+f.F2+star)
		g.where = append(g.where, f.Where[0]+" / "+f.Where[1])
		for sc, n := range f.Scenarios {
			g.scenarios[sc] += n
		}
		if f.Mapped && !f.Pointee && strings.Contains(g.text, "failed to restore the stack") {
			g.text = f.Text
		}
	}
	for _, gk := range gorder {
		g := groups[gk]
		text := g.text
		if len(text) > 2600 {
			text = text[:2600]
		}
		if strings.HasPrefix(gk, "field:") {
			key := strings.TrimPrefix(gk, "field:")
			tf := fieldOf[key]
			f1, f2, ok := tf.canonicalPair()
			if !ok {
				f1, f2 = "?", "?"
			}
			c.Violate(hk.Violation{Fingerprint: fmt.Sprintf("races:%s:%s+%s", key, f1, f2),
				What: fmt.Sprintf("data race on %s (no common mutex / not atomic; first conflicting pair of the lock table: %s + %s); the race detector reported the pairs %v at %v in scenarios %v",
					key, f1, f2, g.pairs, g.where, g.scenarios),
				Input: map[string]any{"scenarios": g.scenarios, "observed_pairs": g.pairs, "sites": g.where}, Observed: text,
				Expected: "no unsynchronised conflicting accesses (Go memory model)"})
			continue
		}
		f := found[gk]
		if f.Local != "" {
			fn, v, _ := strings.Cut(f.Local, ":")
			c.Violate(hk.Violation{Fingerprint: gk,
				What: fmt.Sprintf("data race on a local variable (%s) of %s, shared by the goroutines that function starts itself: two of them access it without synchronisation (%s; scenarios %v)",
					map[bool]string{true: v, false: "name not recovered"}[v != ""], fn, strings.Join(f.Where[:], " / "), f.Scenarios),
				Input: map[string]any{"scenarios": f.Scenarios, "sites": f.Where, "function": fn, "variable": v}, Observed: text,
				Expected: "no unsynchronised conflicting accesses (Go memory model)"})
			continue
		}
		if f.Arg != "" {
			verdict := "not in the table"
			if a := t.argOf[f.Arg]; a != nil {
				verdict = a.Verdict
				if w := a.Why[map[string]string{"sentAsIs": "sent", "storedAsIs": "stored", "returnedAsIs": "returned", "unknown": "unknown"}[a.Verdict]]; w != "" {
					verdict += ": " + w
				}
			}
			api, param, _ := strings.Cut(f.Arg, ":")
			c.Violate(hk.Violation{Fingerprint: gk,
				What: fmt.Sprintf("data race on the CALLER's memory behind argument %s of %s: the caller wrote to it after the call had returned while the library was still reading it in %s (table verdict for the parameter: %s) (%s; scenarios %v)",
					param, api, f.F2, verdict, strings.Join(f.Where[:], " / "), f.Scenarios),
				Input: map[string]any{"scenarios": f.Scenarios, "sites": f.Where, "api": api, "param": param}, Observed: text,
				Expected: "once a call has returned the library does not touch the caller's argument (it took a copy or finished with it)"})
			continue
		}
		if f.Global != "" {
			g := t.globalOf[f.Global]
			c.Violate(hk.Violation{Fingerprint: gk,
				What: fmt.Sprintf("data race on the package-level variable %s (%s, holds: %s; table verdict: %s) — state shared by every client and server of the process — between %s and %s (%s; scenarios %v)",
					f.Global, g.Type, g.VKind, g.Why, f.F1, f.F2, strings.Join(f.Where[:], " / "), f.Scenarios),
				Input: map[string]any{"scenarios": f.Scenarios, "sites": f.Where, "variable": f.Global}, Observed: text,
				Expected: "no unsynchronised conflicting accesses (Go memory model)"})
			continue
		}
		what := fmt.Sprintf("data race on the object behind %s.%s (the field itself is disciplined), used by %s and %s", f.Type, f.Field, f.F1, f.F2)
		if !f.Pointee {
			what = fmt.Sprintf("data race on %s.%s between %s and %s — a field the lock table calls disciplined", f.Type, f.Field, f.F1, f.F2)
		}
		if !f.Mapped {
			what = fmt.Sprintf("data race between %s and %s at a location the field table does not cover", f.F1, f.F2)
		}
		if f.External {
			what = fmt.Sprintf("data race inside another package's memory, reached from %s and %s", f.F1, f.F2)
		}
		c.Violate(hk.Violation{Fingerprint: gk, What: what + fmt.Sprintf(" (%s; scenarios %v)", strings.Join(f.Where[:], " / "), f.Scenarios),
			Input: map[string]any{"scenarios": f.Scenarios, "sites": f.Where}, Observed: text,
			Expected: "no unsynchronised conflicting accesses (Go memory model)"})
	}
	var unconfirmed, conf []string
	for k := range undisciplined {
		if confirmed[k] {
			conf = append(conf, k)
		} else {
			unconfirmed = append(unconfirmed, k)
		}
	}
	sort.Strings(unconfirmed)
	sort.Strings(conf)
	c.SetExtra("reports_total", nReports)
	c.SetExtra("reports_without_usable_stacks", nIncomplete)
	c.SetExtra("distinct_fingerprints", order)
	c.SetExtra("undisciplined_confirmed_by_race_detector", conf)
	c.SetExtra("undisciplined_not_confirmed_this_run", unconfirmed)
	c.SetExtra("unmapped_reports", unmapped)
	c.SetExtra("scenarios", perScenario)
}
