package main

import (
	"context"

	"verif/harness/hk"

	mcp "trpc.group/trpc-go/trpc-mcp-go"

	"fmt"
	"regexp"
	"runtime"
	"sort"
	"strings"
	"sync"
	"sync/atomic"
	"time"
)

func main() {
	hk.Main(&hk.Component{Name: "session", Rule: "histories over {post x 8 body kinds, GET, client-close, DELETE} x {no id, i-th issued id (live or deleted), never-issued id (garbage / foreign-made / case-changed)} " +
		"in 3 modes x GET on/off x POST-SSE on/off against the real handler behind httptest: every history up to a small length exhaustively, then seeded random longer ones; " +
		"non-trivial = a distinct history in which at least one session was issued and at least one operation was refused",
		Run: runSession})
}

type sOp struct {
	T   string `json:"t"`           // post | get | close | delete
	K   string `json:"k,omitempty"` // body kind for post
	R   any    `json:"r,omitempty"` // "none" | "bogus" | {"sid":n}
	Sid *int   `json:"sid,omitempty"`
}

var postKinds = []string{"initOk", "initBad", "request", "requestChatty", "notifInitialized", "notifOther", "notifNamedInitialize", "notifNamedInitializeNullId", "response", "responseEmpty", "invalid"}

var bodies = map[string]string{
	"initOk":           `{"jsonrpc":"2.0","id":1,"method":"initialize","params":{"protocolVersion":"2025-03-26","capabilities":{},"clientInfo":{"name":"verif","version":"1"}}}`,
	"initBad":          `{"jsonrpc":"2.0","id":"a","method":"initialize"}`,
	"request":          `{"jsonrpc":"2.0","id":2,"method":"ping"}`,
	"requestChatty":    `{"jsonrpc":"2.0","id":"c3","method":"tools/call","params":{"name":"chatty","arguments":{}}}`,
	"notifInitialized": `{"jsonrpc":"2.0","method":"notifications/initialized"}`,
	"notifOther":       `{"jsonrpc":"2.0","method":"notifications/cancelled","params":{"requestId":5}}`,
	// a notification (no id / id null) that happens to be NAMED like the handshake request: it is not an initialize request
	"notifNamedInitialize":       `{"jsonrpc":"2.0","method":"initialize","params":{"protocolVersion":"2025-03-26","capabilities":{},"clientInfo":{"name":"verif","version":"1"}}}`,
	"notifNamedInitializeNullId": `{"jsonrpc":"2.0","id":null,"method":"initialize","params":{"protocolVersion":"2025-03-26","capabilities":{},"clientInfo":{"name":"verif","version":"1"}}}`,
	"response":                   `{"jsonrpc":"2.0","id":77,"result":{"roots":[]}}`,
	"responseEmpty":              `{"jsonrpc":"2.0","id":77}`,
	"invalid":                    `{"jsonrpc":"2.0","params":{}}`,
}

func refs(nIssued int) []any {
	r := []any{"none", "bogus"}
	for i := 0; i < nIssued; i++ {
		r = append(r, map[string]any{"sid": i})
	}
	return r
}

// alphabet of operations when up to n ids may exist
func sessionAlphabet(n int) []sOp {
	var a []sOp
	for _, k := range postKinds {
		for _, r := range refs(n) {
			a = append(a, sOp{T: "post", K: k, R: r})
		}
	}
	for _, r := range refs(n) {
		a = append(a, sOp{T: "get", R: r})
		a = append(a, sOp{T: "delete", R: r})
	}
	for i := 0; i < n; i++ {
		i := i
		a = append(a, sOp{T: "close", Sid: &i})
	}
	return a
}

var hex32 = regexp.MustCompile(`^[0-9a-f]{32,}$`)
var visitsRe = regexp.MustCompile(`visits=(\w+) pv=([^;]*);`)

func runSession(c *hk.Ctx) {
	var idle *idleRun
	if c.Thorough() {
		idle = startIdleAcrossSweep()
	}
	cfgs := []hk.SrvCfg{}
	for _, m := range []string{"stateful", "stateless", "sessionsOff"} {
		for _, g := range []bool{true, false} {
			for _, p := range []bool{true, false} {
				cfgs = append(cfgs, hk.SrvCfg{Mode: m, Get: g, PostSSE: p})
			}
		}
	}
	// a second server whose ids are "foreign-made"
	foreign := hk.NewFixture(hk.SrvCfg{Mode: "stateful", Get: true, PostSSE: true})
	defer foreign.Close()
	fr := foreign.Post(nil, bodies["initOk"])
	foreignID := fr.Header.Get("Mcp-Session-Id")

	var histories [][]sOp
	// exhaustive: every history of length <= 2 over the alphabet with one possible id, prefixed by nothing
	a1 := sessionAlphabet(1)
	for _, o1 := range a1 {
		histories = append(histories, []sOp{o1})
		for _, o2 := range a1 {
			histories = append(histories, []sOp{o1, o2})
		}
	}
	// after one initialize: every pair
	init0 := sOp{T: "post", K: "initOk", R: "none"}
	if c.Thorough() {
		a2 := sessionAlphabet(2)
		for _, o1 := range a2 {
			for _, o2 := range a2 {
				histories = append(histories, []sOp{init0, o1, o2})
			}
		}
	}
	nRand := 1200
	maxLen := 14
	if c.Thorough() {
		nRand = 12000
		maxLen = 40
	}
	for i := 0; i < nRand; i++ {
		n := 2 + c.Rng.Intn(maxLen)
		var h []sOp
		issued := 0
		for j := 0; j < n; j++ {
			// bias: mostly valid traffic
			var op sOp
			x := c.Rng.Intn(100)
			pickRef := func() any {
				y := c.Rng.Intn(10)
				switch {
				case y == 0:
					return "none"
				case y == 1:
					return "bogus"
				case issued > 0:
					return map[string]any{"sid": c.Rng.Intn(issued)}
				default:
					return "none"
				}
			}
			switch {
			case x < 18:
				op = sOp{T: "post", K: "initOk", R: "none"}
				issued++ // upper bound on ids that may exist (only stateful issues)
			case x < 22:
				op = sOp{T: "post", K: "initBad", R: "none"}
				issued++
			case x < 60:
				op = sOp{T: "post", K: postKinds[c.Rng.Intn(len(postKinds))], R: pickRef()}
			case x < 75:
				op = sOp{T: "get", R: pickRef()}
			case x < 88:
				op = sOp{T: "delete", R: pickRef()}
			default:
				if issued > 0 {
					s := c.Rng.Intn(issued)
					op = sOp{T: "close", Sid: &s}
				} else {
					op = sOp{T: "get", R: "none"}
				}
			}
			h = append(h, op)
		}
		histories = append(histories, h)
	}
	dist := map[string]int{}
	for hi, h := range histories {
		cfg := cfgs[hi%len(cfgs)]
		if hi < len(a1)*(len(a1)+1) {
			// the exhaustive part runs in the three main configurations
			for _, cf := range []hk.SrvCfg{{"stateful", true, true}, {"stateless", true, false}, {"sessionsOff", true, true}} {
				runSessionHistory(c, cf, h, foreignID, dist)
			}
			continue
		}
		runSessionHistory(c, cfg, h, foreignID, dist)
	}
	c.SetExtra("status_distribution", dist)
	runConcurrentDeletes(c)
	runDeleteDuringRequest(c)
	runFailingChain(c)
	if idle != nil {
		idle.finish(c)
	}
}

// runDeleteDuringRequest: a session is deleted (DELETE answered 200) while one of its requests is still being handled;
// when that request finishes the session must stay deleted: a request, a stream and a second DELETE bearing the id are
// refused with 404 and the id is not reported live.
func runDeleteDuringRequest(c *hk.Ctx) {
	for _, sse := range []bool{false, true} {
		f := hk.NewFixture(hk.SrvCfg{Mode: "stateful", Get: true, PostSSE: sse})
		entered := make(chan struct{}, 4)
		gate := make(chan struct{})
		f.S.RegisterTool(mcp.NewTool("gate"), func(ctx context.Context, req *mcp.CallToolRequest) (*mcp.CallToolResult, error) {
			entered <- struct{}{}
			select {
			case <-gate:
			case <-time.After(5 * time.Second):
			}
			return mcp.NewTextResult("late"), nil
		})
		r := f.Post(map[string]string{"Accept": "application/json"}, bodies["initOk"])
		sid := ""
		if r.Header != nil {
			sid = r.Header.Get("Mcp-Session-Id")
		}
		hdr := map[string]string{"Mcp-Session-Id": sid, "Accept": "application/json, text/event-stream"}
		done := make(chan int, 1)
		go func() {
			done <- f.Post(hdr, `{"jsonrpc":"2.0","id":9,"method":"tools/call","params":{"name":"gate","arguments":{}}}`).Status
		}()
		ok := sid != ""
		select {
		case <-entered:
		case <-time.After(3 * time.Second):
			ok = false
		}
		var del, after, del2, get int
		var live []string
		if ok {
			del = f.Do("DELETE", f.URL, map[string]string{"Mcp-Session-Id": sid}, nil).Status
			close(gate)
			select {
			case <-done:
			case <-time.After(6 * time.Second):
			}
			time.Sleep(20 * time.Millisecond)
			after = f.Post(hdr, bodies["request"]).Status
			get, _, _, _ = f.OpenStream(map[string]string{"Mcp-Session-Id": sid})
			del2 = f.Do("DELETE", f.URL, map[string]string{"Mcp-Session-Id": sid}, nil).Status
			live, _ = f.S.GetActiveSessions()
		} else {
			close(gate)
		}
		f.Close()
		if !ok {
			c.Noise()
			continue
		}
		stillLive := false
		for _, id := range live {
			if id == sid {
				stillLive = true
			}
		}
		c.Count("delete-during-request", true, nil, fmt.Sprintf("delete-%d", del))
		if del == 200 && (after != 404 || del2 != 404 || get != 404 || stillLive) {
			c.Violate(hk.Violation{Fingerprint: "session:deleted-session-comes-back", What: "a session deleted while one of its requests was still being handled is served / reported live again after that request finished",
				Input:    map[string]any{"post_sse": sse, "steps": []string{"initialize", "tools/call (handler blocks)", "DELETE -> 200", "handler returns", "request / GET / DELETE bearing the id"}},
				Observed: map[string]any{"request": after, "get": get, "second_delete": del2, "reported_live": stillLive}, Expected: "404, 404, 404, not live"})
		}
	}
}

// runConcurrentDeletes: overlapping DELETEs of one live id — exactly one of them ends the session (200), every other one
// bears an already deleted id (404); the same for an overlapping DELETE and request: the request is served (200) or refused
// (404), never anything else, and afterwards the id is gone.
func runConcurrentDeletes(c *hk.Ctx) {
	f := hk.NewFixture(hk.SrvCfg{Mode: "stateful", Get: true, PostSSE: false})
	defer f.Close()
	rounds, k := 400, 4
	if c.Thorough() {
		rounds = 4000
	}
	bad := 0
	for i := 0; i < rounds && bad == 0; i++ {
		r := f.Post(map[string]string{"Accept": "application/json"}, bodies["initOk"])
		sid := ""
		if r.Header != nil {
			sid = r.Header.Get("Mcp-Session-Id")
		}
		if r.Status != 200 || sid == "" {
			continue
		}
		var ready, goFlag int32
		res := make([]int, k)
		var wg sync.WaitGroup
		for j := 0; j < k; j++ {
			wg.Add(1)
			go func(j int) {
				defer wg.Done()
				atomic.AddInt32(&ready, 1)
				for atomic.LoadInt32(&goFlag) == 0 {
					runtime.Gosched()
				}
				res[j] = f.Do("DELETE", f.URL, map[string]string{"Mcp-Session-Id": sid}, nil).Status
			}(j)
		}
		for atomic.LoadInt32(&ready) < int32(k) {
			runtime.Gosched()
		}
		atomic.StoreInt32(&goFlag, 1)
		wg.Wait()
		ok, nf := 0, 0
		for _, s := range res {
			if s == 200 {
				ok++
			} else if s == 404 {
				nf++
			}
		}
		c.Count("concurrent-delete", ok == 1, nil, fmt.Sprintf("ok-%d", ok))
		if ok != 1 || ok+nf != k {
			bad++
			c.Violate(hk.Violation{Fingerprint: "session:concurrent-delete-not-exactly-one", What: "of several overlapping DELETEs of one live session id exactly one must end the session (200) and the others must be refused with 404",
				Input: map[string]any{"round": i, "deleters": k}, Observed: res, Expected: "one 200, the rest 404"})
		}
		live, _ := f.S.GetActiveSessions()
		for _, id := range live {
			if id == sid {
				c.Violate(hk.Violation{Fingerprint: "session:live-set-differs-from-history", What: "a deleted session is still reported live", Input: map[string]any{"round": i}, Observed: live})
			}
		}
	}
}

func runSessionHistory(c *hk.Ctx, cfg hk.SrvCfg, h []sOp, foreignID string, dist map[string]int) {
	f := hk.NewFixture(cfg)
	defer f.Close()
	f.S.RegisterTool(mcp.NewTool("chatty"), func(ctx context.Context, req *mcp.CallToolRequest) (*mcp.CallToolResult, error) {
		// a handler that emits progress/log notifications before it returns (flushes the POST-SSE stream early)
		if sender, ok := mcp.GetNotificationSender(ctx); ok {
			sender.SendProgress(0.5, "half way")
			sender.SendLogMessage("info", "chatty")
		}
		// the session the request is served in: a per-session visit counter kept in the session's own data, and what an
		// earlier initialize stored there (stateful: the k-th call in a session sees k; stateless: every call sees a fresh one)
		visits, pv := "nosession", "none"
		if sess, ok := mcp.GetSessionFromContext(ctx); ok && sess != nil {
			n := 0
			if v, ok := sess.GetData("verif-visits"); ok {
				n, _ = v.(int)
			}
			n++
			sess.SetData("verif-visits", n)
			visits = fmt.Sprint(n)
			if v, ok := sess.GetData("protocolVersion"); ok {
				pv = fmt.Sprint(v)
			}
		}
		return mcp.NewTextResult("done visits=" + visits + " pv=" + pv + ";"), nil
	})
	chattyCalls := map[int]int{} // symbolic session -> chatty calls served in it so far
	ids := []string{}            // symbolic index -> real id
	idx := map[string]int{}      // real id -> symbolic index
	streams := map[int]*hk.Stream{}
	expectedAlive := map[int]bool{} // the spec, maintained from accepted issues and accepted deletes only
	symb := func(real string) any {
		if real == "" {
			return nil
		}
		if i, ok := idx[real]; ok {
			return i
		}
		idx[real] = len(ids)
		ids = append(ids, real)
		return len(ids) - 1
	}
	bogusVariants := []string{"deadbeefdeadbeefdeadbeefdeadbeef", "x", foreignID, strings.Repeat("a", 300), "../../etc/passwd", "0"}
	outs := []map[string]any{}
	refused := false
	for oi, op := range h {
		hdr := map[string]string{}
		refKind := "none"
		refSid := -1
		resolve := func() (skip bool) {
			switch r := op.R.(type) {
			case string:
				if r == "bogus" {
					refKind = "bogus"
					b := bogusVariants[(oi+len(h))%len(bogusVariants)]
					if len(ids) > 0 && (oi%3 == 0) {
						b = strings.ToUpper(ids[0]) // case-changed live id
						if b == ids[0] {
							b = "deadbeef"
						}
					}
					hdr["Mcp-Session-Id"] = b
				}
			case map[string]any:
				n := r["sid"].(int)
				refSid = n
				refKind = "sid"
				if n >= len(ids) {
					// the id does not exist (yet): the model treats a never-issued index as not live => same as bogus for a server,
					// we send a syntactically plausible id that was never issued
					hdr["Mcp-Session-Id"] = fmt.Sprintf("%032x", 1000+n)
				} else {
					hdr["Mcp-Session-Id"] = ids[n]
				}
			}
			return false
		}
		resolve()
		if oi%2 == 0 {
			hdr["Accept"] = "application/json, text/event-stream"
		} else {
			hdr["Accept"] = "application/json"
		}
		out := map[string]any{"status": 0, "sid": nil, "closed": []int{}}
		before := map[int]bool{}
		for s, st := range streams {
			if !st.Ended(0) {
				before[s] = true
			}
		}
		var waitFor []int
		switch op.T {
		case "post":
			known := len(ids)
			r := f.Post(hdr, bodies[op.K])
			out["status"] = r.Status
			if r.Header != nil {
				real := r.Header.Get("Mcp-Session-Id")
				out["sid"] = symb(real)
				if len(ids) > known {
					// a new id appeared
					if !(cfg.Mode == "stateful" && refKind == "none" && (op.K == "initOk" || op.K == "initBad")) {
						c.Violate(hk.Violation{Fingerprint: "session:id-issued-outside-initialize", What: "a fresh session id was issued by an operation other than an initialize without id in stateful mode",
							Input: map[string]any{"cfg": cfg, "history": h[:oi+1]}, Observed: real})
					}
					if !hex32.MatchString(real) {
						c.Violate(hk.Violation{Fingerprint: "session:id-format", What: "session id is not >=128 bits of lowercase hex", Input: map[string]any{"cfg": cfg}, Observed: real})
					}
					expectedAlive[len(ids)-1] = true
				}
			}
			if cfg.Mode == "stateful" {
				isInit := op.K == "initOk" || op.K == "initBad"
				if refKind == "none" && !isInit && r.Status != 400 {
					c.Violate(hk.Violation{Fingerprint: "session:missing-id-not-400", What: "non-initialize POST without session id not refused with 400", Input: map[string]any{"cfg": cfg, "history": h[:oi+1]}, Observed: r.Status})
				}
				if (refKind == "bogus" || (refKind == "sid" && !expectedAlive[refSid])) && r.Status != 404 {
					c.Violate(hk.Violation{Fingerprint: "session:unknown-id-not-404:post", What: "POST bearing an unknown/deleted session id not refused with 404", Input: map[string]any{"cfg": cfg, "history": h[:oi+1]}, Observed: r.Status})
				}
				if refKind == "sid" && expectedAlive[refSid] && (op.K == "request" || op.K == "requestChatty" || op.K == "initOk") {
					if r.Status != 200 || out["sid"] != any(refSid) {
						c.Violate(hk.Violation{Fingerprint: "session:live-id-not-served", What: "request bearing a live session id not served with 200 and the same id", Input: map[string]any{"cfg": cfg, "history": h[:oi+1]}, Observed: map[string]any{"status": r.Status, "sid": out["sid"]}})
					}
				}
			}
			if op.K == "requestChatty" && r.Status == 200 {
				m := visitsRe.FindStringSubmatch(string(r.Body))
				switch {
				case m == nil:
					c.Violate(hk.Violation{Fingerprint: "session:tool-answer-missing", What: "a served tools/call carries no answer of the tool", Input: map[string]any{"cfg": cfg, "history": h[:oi+1]}, Observed: string(r.Body)})
				case cfg.Mode == "stateless" && (m[1] != "1" || m[2] != "none"):
					// the answer must not depend on any earlier request: a fresh throw-away session every time
					c.Violate(hk.Violation{Fingerprint: "session:stateless-answer-depends-on-id-or-history", What: "in stateless mode the answer must not depend on a session id or on earlier requests (the tool found data of earlier requests in its session)",
						Input: map[string]any{"cfg": cfg, "history": h[:oi+1], "ref": refKind}, Observed: m[0], Expected: "visits=1 pv=none"})
				case cfg.Mode == "stateful" && refKind == "sid" && expectedAlive[refSid]:
					chattyCalls[refSid]++
					if m[1] != fmt.Sprint(chattyCalls[refSid]) {
						c.Violate(hk.Violation{Fingerprint: "session:request-not-served-in-its-session", What: "a request bearing a live id was not served in that session (the session's own data is not what its earlier requests left)",
							Input: map[string]any{"cfg": cfg, "history": h[:oi+1]}, Observed: m[0], Expected: fmt.Sprintf("visits=%d", chattyCalls[refSid])})
					}
				}
			}
			if cfg.Mode == "stateless" {
				want := map[string]int{"initOk": 200, "initBad": 200, "request": 200, "requestChatty": 200, "notifInitialized": 202, "notifOther": 202, "notifNamedInitialize": 202, "notifNamedInitializeNullId": 202, "response": 202, "responseEmpty": 400, "invalid": 400}[op.K]
				if r.Status != want {
					c.Violate(hk.Violation{Fingerprint: "session:stateless-answer-depends-on-id-or-history", What: "in stateless mode the answer must not depend on a session id or on earlier requests",
						Input: map[string]any{"cfg": cfg, "history": h[:oi+1], "ref": refKind}, Observed: r.Status, Expected: want})
				}
			}
			if cfg.Mode == "stateless" && r.Header != nil && r.Header.Get("Mcp-Session-Id") != "" {
				c.Violate(hk.Violation{Fingerprint: "session:stateless-issues-id", What: "stateless server emitted a session id", Input: map[string]any{"cfg": cfg, "history": h[:oi+1]}, Observed: r.Header.Get("Mcp-Session-Id")})
			}
		case "get":
			status, rh, st, err := f.OpenStream(hdr)
			if err != nil {
				status = 0
			}
			out["status"] = status
			if rh != nil {
				out["sid"] = symb(rh.Get("Mcp-Session-Id"))
			}
			if st != nil {
				if old, ok := streams[refSid]; ok && before[refSid] {
					waitFor = append(waitFor, refSid)
					_ = old
				}
				defer st.CloseByClient()
				// replace after waiting for the old one below
				defer func(s int, st *hk.Stream) {}(refSid, st)
				if old, ok := streams[refSid]; ok && before[refSid] {
					if old.Ended(2 * time.Second) {
						out["closed"] = []int{refSid}
					}
					delete(before, refSid)
				}
				streams[refSid] = st
			}
			if cfg.Mode == "stateless" && status != 405 {
				c.Violate(hk.Violation{Fingerprint: "session:stateless-get-not-405", What: "listening stream not refused with 405 in stateless mode", Input: map[string]any{"cfg": cfg, "history": h[:oi+1]}, Observed: status})
			}
			if cfg.Mode == "stateful" && cfg.Get && (refKind == "bogus" || (refKind == "sid" && !expectedAlive[refSid])) && status != 404 {
				c.Violate(hk.Violation{Fingerprint: "session:unknown-id-not-404:get", What: "GET bearing an unknown/deleted session id not refused with 404", Input: map[string]any{"cfg": cfg, "history": h[:oi+1]}, Observed: status})
			}
			if status == 0 {
				c.Violate(hk.Violation{Fingerprint: "session:get-aborted:" + cfg.Mode, What: "GET made the handler abort the connection (panic recovered by net/http)", Input: map[string]any{"cfg": cfg, "history": h[:oi+1]}, Observed: fmt.Sprint(err)})
			}
		case "close":
			if st, ok := streams[*op.Sid]; ok {
				st.CloseByClient()
				delete(streams, *op.Sid)
				delete(before, *op.Sid)
			}
			out["status"] = 200
		case "delete":
			r := f.Do("DELETE", f.URL, hdr, nil)
			out["status"] = r.Status
			if r.Header != nil {
				out["sid"] = symb(r.Header.Get("Mcp-Session-Id"))
			}
			if r.Status == 200 && refKind == "sid" {
				if st, ok := streams[refSid]; ok && before[refSid] {
					if st.Ended(2 * time.Second) {
						out["closed"] = []int{refSid}
					} else {
						c.Violate(hk.Violation{Fingerprint: "session:delete-leaves-stream", What: "DELETE did not end the session's open stream", Input: map[string]any{"cfg": cfg, "history": h[:oi+1]}})
					}
					delete(before, refSid)
					delete(streams, refSid)
				}
				delete(expectedAlive, refSid)
			}
			if cfg.Mode == "stateful" && (refKind == "bogus" || (refKind == "sid" && r.Status != 200 && !expectedAlive[refSid])) && r.Status != 404 {
				c.Violate(hk.Violation{Fingerprint: "session:unknown-id-not-404:delete", What: "DELETE bearing an unknown/deleted session id not refused with 404", Input: map[string]any{"cfg": cfg, "history": h[:oi+1]}, Observed: r.Status})
			}
		}
		// streams of other sessions that ended although nothing addressed them
		for s := range before {
			if st, ok := streams[s]; ok && st.Ended(0) {
				cl := out["closed"].([]int)
				out["closed"] = append(cl, s)
				delete(streams, s)
			}
		}
		sort.Ints(out["closed"].([]int))
		// reported live set
		live, err := f.S.GetActiveSessions()
		if err != nil {
			out["live"] = nil
		} else {
			l := []int{}
			for _, id := range live {
				if i, ok := idx[id]; ok {
					l = append(l, i)
				} else {
					l = append(l, -1)
				}
			}
			sort.Ints(l)
			out["live"] = l
			if cfg.Mode == "stateful" {
				exp := []int{}
				for s := range expectedAlive {
					exp = append(exp, s)
				}
				sort.Ints(exp)
				if fmt.Sprint(exp) != fmt.Sprint(l) {
					c.Violate(hk.Violation{Fingerprint: "session:live-set-differs-from-history", What: "GetActiveSessions differs from the set the history leaves alive",
						Input: map[string]any{"cfg": cfg, "history": h[:oi+1]}, Observed: l, Expected: exp})
				}
			}
		}
		st := out["status"].(int)
		dist[fmt.Sprintf("%s:%s:%d", cfg.Mode, op.T, st)]++
		if st >= 400 || st == 0 {
			refused = true
		}
		outs = append(outs, out)
	}
	for _, st := range streams {
		st.CloseByClient()
	}
	opsJ := []any{}
	for _, o := range h {
		m := map[string]any{"t": o.T}
		if o.K != "" {
			m["k"] = o.K
		}
		if o.R != nil {
			m["r"] = o.R
		}
		if o.Sid != nil {
			m["sid"] = *o.Sid
		}
		opsJ = append(opsJ, m)
	}
	c.Emit(map[string]any{"c": "session.run", "cfg": map[string]any{"mode": cfg.Mode, "get": cfg.Get, "sse": cfg.PostSSE}, "ops": opsJ},
		map[string]any{"outs": outs}, len(ids) > 0 && refused, "history-"+cfg.Mode, fmt.Sprintf("len-%02d", min(len(h), 20)))
}

// idleRun: (thorough tier) two sessions of a server with the default expiry (one hour) are left alone until the session
// manager's once-a-minute sweeper has run: nothing but DELETE ends a session, so both must still be live and served, and
// the open stream of the first must still be open. The wait overlaps with the rest of the run.
type idleRun struct {
	f       *hk.Fixture
	created time.Time
	sids    []string
	st      *hk.Stream
}

func startIdleAcrossSweep() *idleRun {
	r := &idleRun{f: hk.NewFixture(hk.SrvCfg{Mode: "stateful", Get: true, PostSSE: false}), created: time.Now()}
	for i := 0; i < 2; i++ {
		a := r.f.Post(map[string]string{"Accept": "application/json"}, bodies["initOk"])
		if a.Header != nil {
			r.sids = append(r.sids, a.Header.Get("Mcp-Session-Id"))
		}
	}
	if len(r.sids) == 2 && r.sids[0] != "" {
		_, _, st, _ := r.f.OpenStream(map[string]string{"Mcp-Session-Id": r.sids[0]})
		r.st = st
	}
	return r
}

func (r *idleRun) finish(c *hk.Ctx) {
	defer r.f.Close()
	if len(r.sids) != 2 || r.sids[0] == "" || r.sids[1] == "" {
		c.Noise()
		return
	}
	if d := 61500*time.Millisecond - time.Since(r.created); d > 0 {
		time.Sleep(d)
	}
	live, _ := r.f.S.GetActiveSessions()
	sort.Strings(live)
	want := append([]string{}, r.sids...)
	sort.Strings(want)
	var st []int
	for _, sid := range r.sids {
		st = append(st, r.f.Post(map[string]string{"Mcp-Session-Id": sid, "Accept": "application/json"}, bodies["request"]).Status)
	}
	streamOpen := r.st != nil && !r.st.Ended(10*time.Millisecond)
	c.Count("idle-across-sweep", true, nil, fmt.Sprintf("idle-%v", st))
	if fmt.Sprint(live) != fmt.Sprint(want) || st[0] != 200 || st[1] != 200 {
		c.Violate(hk.Violation{Fingerprint: "session:vanished-without-delete", What: "sessions left idle for a minute (default expiry: one hour) on a server that received no DELETE are no longer live / served after the session manager's sweep",
			Input:    map[string]any{"steps": []string{"initialize x2", "GET (first session)", "wait 61.5 s since the server was created", "GetActiveSessions; request bearing each id"}},
			Observed: map[string]any{"live": live, "request_status": st, "stream_open": streamOpen}, Expected: map[string]any{"live": want, "request_status": []int{200, 200}}})
	}
}

// runFailingChain: a middleware makes the handler chain fail with a Go error for chosen requests (the server answers them
// with -32603). Such an answer is still the answer to a request of its session: an initialize without id that leaves a
// live session behind must have issued that session's id in its answer (otherwise the server reports a live session no
// history knows), and a failed request bearing a live id is answered with that same id.
func runFailingChain(c *hk.Ctx) {
	refuse := func(next mcp.HandlerFunc) mcp.HandlerFunc {
		return func(ctx context.Context, req *mcp.JSONRPCRequest) (mcp.JSONRPCMessage, error) {
			if id, ok := req.ID.(string); ok && strings.HasPrefix(id, "fail") {
				return nil, fmt.Errorf("chain refused %s", id)
			}
			return next(ctx, req)
		}
	}
	for _, sse := range []bool{false, true} {
		for _, accept := range []string{"application/json", "application/json, text/event-stream"} {
			f := hk.NewFixture(hk.SrvCfg{Mode: "stateful", Get: true, PostSSE: sse}, mcp.WithMiddleware(refuse))
			in := map[string]any{"post_sse": sse, "accept": accept}
			liveSet := func() []string { l, _ := f.S.GetActiveSessions(); sort.Strings(l); return l }
			// 1. an initialize whose chain fails
			a := f.Post(map[string]string{"Accept": accept}, strings.Replace(bodies["initOk"], `"id":1`, `"id":"fail-init"`, 1))
			issued := ""
			if a.Header != nil {
				issued = a.Header.Get("Mcp-Session-Id")
			}
			live1 := liveSet()
			exp1 := []string{}
			if issued != "" {
				exp1 = []string{issued}
			}
			c.Count("failing-chain", true, nil, fmt.Sprintf("failed-init-%d", a.Status))
			if fmt.Sprint(live1) != fmt.Sprint(exp1) {
				c.Violate(hk.Violation{Fingerprint: "session:live-set-differs-from-history:failed-initialize", What: "after an initialize whose handler chain failed (-32603) the server reports a live session whose id was not issued in the answer (or issued an id that is not live)",
					Input: in, Observed: map[string]any{"status": a.Status, "issued": issued, "live": live1}, Expected: "live set = ids issued"})
			}
			// 2. an ordinary session; a failing request bearing its id
			b := f.Post(map[string]string{"Accept": accept}, bodies["initOk"])
			sid := ""
			if b.Header != nil {
				sid = b.Header.Get("Mcp-Session-Id")
			}
			if sid == "" {
				f.Close()
				c.Noise()
				continue
			}
			r := f.Post(map[string]string{"Accept": accept, "Mcp-Session-Id": sid}, `{"jsonrpc":"2.0","id":"fail-req","method":"ping"}`)
			got := ""
			if r.Header != nil {
				got = r.Header.Get("Mcp-Session-Id")
			}
			c.Count("failing-chain", true, nil, fmt.Sprintf("failed-request-%d", r.Status))
			if r.Status != 200 || got != sid || !strings.Contains(string(r.Body), "-32603") {
				c.Violate(hk.Violation{Fingerprint: "session:answer-without-its-session-id:failed-request", What: "a request bearing a live session id whose handler chain failed is not answered (-32603) with the same session id",
					Input: in, Observed: map[string]any{"status": r.Status, "sid_header": got, "body": string(r.Body)}, Expected: map[string]any{"status": 200, "sid_header": sid}})
			}
			// 3. the session is still served, the live set is what the history left
			r2 := f.Post(map[string]string{"Accept": accept, "Mcp-Session-Id": sid}, bodies["request"])
			exp := append(append([]string{}, exp1...), sid)
			sort.Strings(exp)
			if live := liveSet(); r2.Status != 200 || fmt.Sprint(live) != fmt.Sprint(exp) {
				c.Violate(hk.Violation{Fingerprint: "session:live-set-differs-from-history:after-failed-request", What: "after a request whose handler chain failed the session is not served any more or the live set changed",
					Input: in, Observed: map[string]any{"status": r2.Status, "live": live}, Expected: map[string]any{"status": 200, "live": exp}})
			}
			f.Close()
		}
	}
}
