package main

import (
	"context"
	"encoding/json"
	"fmt"
	"io"
	"math/rand"
	"net/http"
	"net/http/httptest"
	"strings"
	"sync"
	"time"

	mcp "trpc.group/trpc-go/trpc-mcp-go"
	"verif/harness/hk"
)

// scriptSrv is a minimal Streamable-HTTP peer that answers `initialize` and, for any other request, plays a scripted
// sequence of SSE frames: the real client's POST-SSE reader (handleSSEResponse → processEventData → handlers) is
// compared with the model's readLoop on frame sequences the real server never produces (late notifications, foreign
// ids, answers without result, undecodable notifications).
type scriptSrv struct {
	ts      *httptest.Server
	mu      sync.Mutex
	scripts map[string][]any
}

func newScriptSrv() *scriptSrv {
	s := &scriptSrv{scripts: map[string][]any{}}
	s.ts = httptest.NewUnstartedServer(http.HandlerFunc(s.serve))
	s.ts.Config.ErrorLog = hk.QuietStdLog()
	s.ts.Start()
	return s
}

func (s *scriptSrv) close() {
	s.ts.CloseClientConnections()
	s.ts.Close()
}

// fill replaces the id placeholders of a frame by the request's id.
func fill(frame any, reqID int64) any {
	m, ok := frame.(map[string]any)
	if !ok {
		return frame
	}
	out := map[string]any{}
	for k, v := range m {
		out[k] = v
	}
	switch out["id"] {
	case "$ID":
		out["id"] = float64(reqID)
	case "$IDSTR":
		out["id"] = fmt.Sprint(reqID)
	case "$OTHER":
		out["id"] = float64(reqID + 1000)
	}
	return out
}

func (s *scriptSrv) serve(w http.ResponseWriter, r *http.Request) {
	if r.Method != http.MethodPost {
		w.WriteHeader(http.StatusOK)
		return
	}
	body, _ := io.ReadAll(r.Body)
	var req struct {
		ID     *float64       `json:"id"`
		Method string         `json:"method"`
		Params map[string]any `json:"params"`
	}
	if err := json.Unmarshal(body, &req); err != nil {
		http.Error(w, "bad json", 400)
		return
	}
	switch {
	case req.Method == "initialize":
		w.Header().Set("Content-Type", "application/json")
		fmt.Fprintf(w, `{"jsonrpc":"2.0","id":%d,"result":{"protocolVersion":"2025-03-26","capabilities":{},"serverInfo":{"name":"script","version":"1"}}}`, int64(*req.ID))
	case req.ID == nil:
		w.WriteHeader(http.StatusAccepted)
	default:
		key, _ := req.Params["key"].(string)
		s.mu.Lock()
		frames := s.scripts[key]
		s.mu.Unlock()
		w.Header().Set("Content-Type", "text/event-stream")
		w.WriteHeader(http.StatusOK)
		fl, _ := w.(http.Flusher)
		for i, fr := range frames {
			b, _ := json.Marshal(fill(fr, int64(*req.ID)))
			if _, err := fmt.Fprintf(w, "id: s-%d\ndata: %s\n\n", i, b); err != nil {
				return
			}
			if fl != nil {
				fl.Flush()
			}
		}
	}
}

var scriptMethods = []string{"m/a", "m/b", mProgress, "m/unregistered"}

func genNotifFrame(r *rand.Rand, seq int) (frame any, bad bool) {
	m := map[string]any{"jsonrpc": "2.0", "method": scriptMethods[r.Intn(len(scriptMethods))]}
	switch k := r.Intn(20); {
	case k < 11:
		p := map[string]any{"seq": float64(seq)}
		for i := r.Intn(3); i > 0; i-- {
			p[genKey(r)] = genValue(r, 2)
		}
		if v, ok := genMeta(r, metaKinds[r.Intn(len(metaKinds))]); ok {
			p["_meta"] = v
		}
		m["params"] = norm(p)
	case k == 11:
		// no params member
	case k == 12:
		m["params"] = nil
	case k == 13:
		m["params"] = map[string]any{}
	case k == 14:
		m["params"] = []any{float64(3), "s", []any{float64(1)}, true}[r.Intn(4)] // not an object: the decoder refuses
		bad = true
	case k == 15:
		m["method"] = []any{float64(5), nil, true}[r.Intn(3)]
		bad = m["method"] != nil
	case k == 16:
		m["jsonrpc"] = float64(2)
		bad = true
	case k == 17:
		delete(m, "jsonrpc")
		m["params"] = map[string]any{"seq": float64(seq)}
	case k == 18:
		m["id"] = []any{"$OTHER", "abc", nil, 1.5, true}[r.Intn(5)] // a request / foreign id: not our answer
		m["params"] = map[string]any{"seq": float64(seq)}
	default:
		m["extra-member"] = genValue(r, 1)
		m["params"] = map[string]any{"seq": float64(seq), "_meta": map[string]any{"t": float64(seq)}}
	}
	return m, bad
}

func genAnswerFrame(r *rand.Rand) any {
	m := map[string]any{"jsonrpc": "2.0", "id": "$ID"}
	if r.Intn(8) == 0 {
		m["id"] = "$IDSTR" // prints like the request id under %v
	}
	switch k := r.Intn(10); {
	case k < 5:
		m["result"] = norm(map[string]any{"content": []any{map[string]any{"type": "text", "text": genString(r, r.Intn(30))}}})
	case k == 5:
		m["result"] = nil
	case k == 6:
		m["result"] = genValue(r, 2)
	case k < 9:
		m["error"] = map[string]any{"code": float64(-32000 - r.Intn(100)), "message": genString(r, r.Intn(20))}
	default:
		// neither result nor error: not an answer the loop can use
	}
	return m
}

// genScript: the frames, and whether every frame is decodable (then the statement says what the handlers must see).
func genScript(r *rand.Rand) (fs []any, clean bool) {
	clean = true
	seq := 0
	add := func(n int) {
		for i := 0; i < n; i++ {
			if r.Intn(40) == 0 {
				k := r.Intn(4)
				fs = append(fs, []any{nil, []any{float64(1)}, float64(7), "s"}[k]) // a frame that is no object
				if k != 0 {
					clean = false
				}
			} else {
				f, bad := genNotifFrame(r, seq)
				fs = append(fs, f)
				if bad {
					clean = false
				}
			}
			seq++
		}
	}
	add([]int{0, 0, 1, 2, 3, 6}[r.Intn(6)])
	if r.Intn(12) != 0 {
		fs = append(fs, genAnswerFrame(r))
	}
	add([]int{0, 0, 0, 1, 2, 4}[r.Intn(6)]) // late frames: after the answer
	if r.Intn(10) == 0 {
		fs = append(fs, genAnswerFrame(r)) // a second answer
		add(r.Intn(2))
	}
	return fs, clean
}

// handledKey: (method, seq) of a notification view / frame, the identity the oracle compares.
func handledKey(method any, params any) string {
	p, _ := params.(map[string]any)
	return canonS([]any{method, p["seq"]})
}

func runScripts(c *hk.Ctx, n int) {
	srv := newScriptSrv()
	defer srv.close()
	profiles := [][]string{{}, {"m/a"}, {"m/a", "m/b", mProgress}}
	for pi, profile := range profiles {
		cl, err := mcp.NewClient(srv.ts.URL, mcp.Implementation{Name: "verif-client", Version: "1"},
			mcp.WithClientLogger(hk.QuietLogger{}), mcp.WithClientGetSSEEnabled(false))
		if err != nil {
			panic(err)
		}
		var mu sync.Mutex
		var seen []map[string]any
		for _, m := range profile {
			cl.RegisterNotificationHandler(m, func(n *mcp.JSONRPCNotification) error {
				mu.Lock()
				seen = append(seen, viewOf(n))
				mu.Unlock()
				return nil
			})
		}
		ictx, cancel := context.WithTimeout(context.Background(), 20*time.Second)
		if _, err := cl.Initialize(ictx, &mcp.InitializeRequest{}); err != nil {
			cancel()
			panic("script initialize: " + err.Error())
		}
		cancel()
		for i := 0; i < n; i++ {
			key := fmt.Sprintf("p%d-%d", pi, i)
			frames, clean := genScript(c.Rng)
			srv.mu.Lock()
			srv.scripts[key] = frames
			srv.mu.Unlock()
			mu.Lock()
			seen = nil
			mu.Unlock()
			ctx, cancel := context.WithTimeout(context.Background(), 30*time.Second)
			id, raw, err := mcp.VerifClientRawCall(ctx, cl, "verif/script", map[string]interface{}{"key": key})
			cancel()
			mu.Lock()
			got := append([]map[string]any{}, seen...)
			mu.Unlock()
			trace := []any{}
			for _, v := range got {
				trace = append(trace, map[string]any{"h": v})
			}
			tags := []string{fmt.Sprintf("script:handlers=%d", len(profile))}
			switch {
			case err != nil && strings.Contains(err.Error(), "no final response"):
				trace = append(trace, map[string]any{"fail": "noResult"})
				tags = append(tags, "script:no-result")
			case err != nil:
				trace = append(trace, map[string]any{"fail": "decode"})
				tags = append(tags, "script:decode-error")
			default:
				var v any
				if e := json.Unmarshal(*raw, &v); e != nil {
					v = "<not json>"
				}
				trace = append(trace, map[string]any{"ret": v})
				tags = append(tags, "script:returned")
			}
			filled := make([]any, len(frames))
			late := false
			sawAnswer := false
			for k, fr := range frames {
				filled[k] = fill(fr, id)
				if m, ok := fr.(map[string]any); ok {
					if m["id"] == "$ID" || m["id"] == "$IDSTR" {
						sawAnswer = true
					} else if sawAnswer {
						late = true
					}
				}
			}
			if late {
				tags = append(tags, "script:frames-after-answer")
			}
			// ---- oracle (from the statement, not the model): on a stream of decodable frames, every notification whose
			// method has a handler is delivered once, in stream order, before the call returns - those after the answer
			// included; without handlers nothing is delivered.
			if clean {
				var want, wantBefore, have []string
				answered := false
				for _, fr := range frames {
					m, ok := fr.(map[string]any)
					if !ok {
						continue
					}
					if m["id"] == "$ID" || m["id"] == "$IDSTR" {
						if _, r := m["result"]; r {
							answered = true
						} else if _, e := m["error"]; e {
							answered = true
						}
						continue
					}
					if meth, ok := m["method"].(string); ok && contains(profile, meth) {
						want = append(want, handledKey(meth, m["params"]))
						if !answered {
							wantBefore = append(wantBefore, handledKey(meth, m["params"]))
						}
					}
				}
				for _, v := range got {
					have = append(have, handledKey(v["method"], v["extra"]))
				}
				if canonS(have) != canonS(want) {
					fp := "incall:reader:handled-differs"
					if canonS(have) == canonS(wantBefore) {
						fp = "incall:reader:notification-after-answer-not-delivered"
					}
					c.Violate(hk.Violation{Fingerprint: fp, What: "the client's POST-SSE reader did not hand every notification of a registered method to its handler (once, in stream order, before returning)",
						Input: map[string]any{"handlers": profile, "frames": truncAny(filled)}, Observed: have, Expected: want})
				}
				tags = append(tags, "script:clean")
			}
			c.Emit(map[string]any{"c": "incall.read", "handlers": profile, "reqId": id, "frames": filled},
				map[string]any{"trace": trace}, len(got) > 0, tags...)
		}
		cl.Close()
	}
}
