package main

import (
	"context"
	"fmt"
	"sort"
	"sync"
	"time"

	mcp "trpc.group/trpc-go/trpc-mcp-go"
	"verif/harness/hk"
)

// runHistory: handler registration HISTORIES on one client, interleaved with calls: Register(m, h), Register(m, h')
// for an already registered method (no unregister in between), Unregister(m), Register again - each handler instance
// has a tag, every notification is recorded with the tag of the instance that received it.  Oracle (from the statement,
// independent of the model): the instance that receives m's notifications is the one of the last Register(m, .) that
// no Unregister(m) followed; the model line carries the whole history (`tableAfter`).
func runHistory(c *hk.Ctx, cfg hk.SrvCfg, steps int, nonceBase string) {
	r := c.Rng
	g := newRegistry()
	f := hk.NewFixture(cfg)
	defer f.Close()
	f.S.RegisterTool(mcp.NewTool(toolName), g.toolHandler)
	cl, err := mcp.NewClient(f.URL, mcp.Implementation{Name: "verif-client", Version: "1"},
		mcp.WithClientLogger(hk.QuietLogger{}), mcp.WithClientGetSSEEnabled(false))
	if err != nil {
		panic(err)
	}
	defer cl.Close()
	ictx, cancel := context.WithTimeout(context.Background(), 20*time.Second)
	if _, err := cl.Initialize(ictx, &mcp.InitializeRequest{}); err != nil {
		cancel()
		panic(fmt.Sprintf("initialize (%+v): %v", cfg, err))
	}
	cancel()

	pool := []string{mProgress, mMessage, "verif/custom/a", "verif/custom/b", "x", "notifications/tools/list_changed"}
	cur := map[string]int{}     // the statement's table: method -> tag of the live registration
	everTag := map[int]string{} // tag -> method it was registered for
	var hist []any
	nextTag := 1
	nCall := 0
	envTag := fmt.Sprintf("history:%s/postSSE=%v", cfg.Mode, cfg.PostSSE)

	registered := func() []string {
		ms := make([]string, 0, len(cur))
		for m := range cur {
			ms = append(ms, m)
		}
		sort.Strings(ms)
		return ms
	}
	for step := 0; step < steps; step++ {
		// ---- one registration operation
		ms := registered()
		kind := ""
		switch k := r.Intn(10); {
		case k < 4 && len(ms) > 0: // replace the handler of a registered method
			m := ms[r.Intn(len(ms))]
			cl.RegisterNotificationHandler(m, g.handlerInst(nextTag))
			hist = append(hist, map[string]any{"op": "reg", "m": m, "h": nextTag})
			cur[m], everTag[nextTag] = nextTag, m
			nextTag++
			kind = "reg:replace"
		case k < 6 && len(ms) > 0:
			m := ms[r.Intn(len(ms))]
			cl.UnregisterNotificationHandler(m)
			hist = append(hist, map[string]any{"op": "unreg", "m": m})
			delete(cur, m)
			kind = "unreg"
		case k == 6: // unregister something that may not be registered
			m := pool[r.Intn(len(pool))]
			cl.UnregisterNotificationHandler(m)
			hist = append(hist, map[string]any{"op": "unreg", "m": m})
			delete(cur, m)
			kind = "unreg:any"
		default:
			m := pool[r.Intn(len(pool))]
			_, was := cur[m]
			cl.RegisterNotificationHandler(m, g.handlerInst(nextTag))
			hist = append(hist, map[string]any{"op": "reg", "m": m, "h": nextTag})
			cur[m], everTag[nextTag] = nextTag, m
			nextTag++
			kind = "reg:new"
			if was {
				kind = "reg:replace"
			}
		}
		if r.Intn(4) == 0 {
			continue // several registration operations in a row
		}
		// ---- a batch of calls (concurrent within the batch; the table does not change meanwhile)
		profile := registered()
		table := map[string]int{}
		for m, t := range cur {
			table[m] = t
		}
		histNow := append([]any{}, hist...)
		nb := 1 + r.Intn(3)
		plans := make([]*plan, nb)
		recs := make([]*rec, nb)
		outs := make([]outcome, nb)
		for i := range plans {
			nCall++
			plans[i] = genPlan(r, fmt.Sprintf("%s%d", nonceBase, nCall), false, 12)
			plans[i].Bytes, plans[i].ViaRaw = 0, i%2 == 1
			for k := range plans[i].Emits { // small payloads: every call of a history goes through the model
				if plans[i].Emits[k].Bytes > 1000 {
					plans[i].Emits[k] = genEmit(r, plans[i].Nonce, k, 30, false)
				}
				plans[i].Bytes += plans[i].Emits[k].Bytes
			}
			recs[i] = g.add(plans[i])
		}
		var wg sync.WaitGroup
		for i := range plans {
			wg.Add(1)
			go func(i int) {
				defer wg.Done()
				outs[i] = doCall(cl, plans[i], recs[i])
			}(i)
		}
		wg.Wait()
		for i, pl := range plans {
			judge(c, cfg, profile, pl, recs[i], outs[i])
			in := planSummary(cfg, profile, pl)
			in["registration history"] = trunc(canonS(histNow), 900)
			trace := []any{}
			for _, v := range outs[i].seen {
				by := -1
				if b, ok := v["by"].(float64); ok {
					by = int(b)
				}
				meth, _ := v["method"].(string)
				if want, ok := table[meth]; !ok || want != by {
					fp := "incall:history:wrong-handler-instance"
					if everTag[by] == meth && ok && by < want {
						fp = "incall:history:replaced-handler-still-receives"
					}
					c.Violate(hk.Violation{Fingerprint: fp,
						What:  "a notification was handed to a handler instance other than the one of the last Register for its method",
						Input: in, Observed: map[string]any{"method": meth, "handled by instance": by}, Expected: map[string]any{"instance": want, "registered": ok}})
				}
				h := map[string]any{}
				for k, x := range v {
					if k != "by" {
						h[k] = x
					}
				}
				trace = append(trace, map[string]any{"h": h, "by": by})
			}
			switch {
			case outs[i].callErr != "":
				trace = append(trace, map[string]any{"fail": "decode"})
			default:
				trace = append(trace, map[string]any{"ret": outs[i].ret})
			}
			var answer map[string]any
			if pl.Fail {
				answer = map[string]any{"err": map[string]any{"code": -32603, "message": "tool execution failed (tool: " + toolName + "): " + pl.Text}}
			} else {
				answer = map[string]any{"ok": map[string]any{"content": []any{map[string]any{"type": "text", "text": pl.Text}}}}
			}
			op := map[string]any{"c": "incall.hcall", "sse": cfg.PostSSE, "history": histNow, "reqId": outs[i].reqID, "emits": pl.emitOps(), "answer": answer}
			c.Emit(op, map[string]any{"trace": trace}, len(outs[i].seen) > 0, envTag, "history:after-"+kind, fmt.Sprintf("history:len<=%d", (len(histNow)/10+1)*10))
		}
	}
	g.mu.Lock()
	stray := g.stray
	g.mu.Unlock()
	if len(stray) > 0 {
		c.Violate(hk.Violation{Fingerprint: "incall:sse:notification-of-no-call", What: "a handler received a notification that belongs to no call", Input: envTag, Observed: truncAny(stray[0])})
	}
}
