package main

import (
	"encoding/json"
	"fmt"
	"math/rand"
	"strings"
	"time"
)

const (
	mProgress = "notifications/progress"
	mMessage  = "notifications/message"
)

// customMethods: methods a handler may use with SendCustomNotification / SendNotification.
var customMethods = []string{"verif/custom/a", "verif/custom/b", "x", mProgress, mMessage, "notifications/tools/list_changed"}

// emit is one notification a tool handler sends through the sender of its context.
type emit struct {
	K      string         // progress | log | custom | new
	Method string         // the method on the wire
	P      float64        // SendProgress
	Level  string         // SendLogMessage
	Msg    string         // SendProgress / SendLogMessage (starts with "<nonce>|<seq>|")
	Params map[string]any // SendCustomNotification / NewNotification: flat params (nonce, seq, pad, maybe _meta)
	Pause  time.Duration
	Bytes  int
	// MetaKind: none | object | empty | number | string | array | null
	MetaKind string
	Seq      int
	// Unenc != "": the notification cannot be JSON-encoded (the cause: nan, chan, …, see unenc.go); the sender must
	// refuse it and nothing of it may reach the stream.  Params then holds only the encodable part.
	Unenc string
}

// op is the emit in the shape the Lean driver reads.
func (e emit) op() map[string]any {
	if e.Unenc != "" {
		// the model has no unencodable values: the attempt is just marked (the driver turns it into Attempt.refused)
		return map[string]any{"k": e.K, "unencodable": true, "why": e.Unenc, "seq": e.Seq}
	}
	switch e.K {
	case "progress":
		return map[string]any{"k": "progress", "p": e.P, "msg": e.Msg}
	case "log":
		return map[string]any{"k": "log", "level": e.Level, "msg": e.Msg}
	default:
		return map[string]any{"k": e.K, "method": e.Method, "params": e.Params}
	}
}

// norm is the JSON round trip (numbers become float64, maps map[string]any): the value space handlers see.
func norm(v any) any {
	b, err := json.Marshal(v)
	if err != nil {
		panic(err)
	}
	var out any
	if err := json.Unmarshal(b, &out); err != nil {
		panic(err)
	}
	return out
}

func canonS(v any) string {
	b, err := json.Marshal(v)
	if err != nil {
		panic(err)
	}
	return string(b)
}

// want is what the property promises the client's handler (written from the statement, not from the model):
// the method, `_meta` (an object) as Meta, every other field as it was given.  metaInSpec=false: `_meta` was not an
// object (outside MCP: the statement says nothing about it), only the other fields are promised.
func (e emit) want() (view map[string]any, metaInSpec bool) {
	var extra map[string]any
	meta := map[string]any{}
	metaInSpec = true
	switch e.K {
	case "progress":
		extra = map[string]any{"progress": e.P, "message": e.Msg,
			"data": map[string]any{"type": "process_progress", "progress": e.P, "message": e.Msg}}
	case "log":
		extra = map[string]any{"level": e.Level, "data": map[string]any{"type": "log_message", "message": e.Msg}}
	default:
		extra = map[string]any{}
		for k, v := range e.Params {
			if k == "_meta" {
				if m, ok := v.(map[string]any); ok {
					meta = m
				} else {
					metaInSpec = false
				}
				continue
			}
			extra[k] = v
		}
	}
	return norm(map[string]any{"method": e.Method, "meta": meta, "extra": extra}).(map[string]any), metaInSpec
}

var specials = []string{"\"", "\\", "\n", "\r", "\t", "<", ">", "&", "\u2028", "\u2029", "\u00e9", "\u4e2d", "\U0001F600", "\x00", "\x7f",
	"data: ", "\n\n", "id: 7", ": ", "\r\n", "\u0085", "{}", "evt-1-1", "\u00a0", "\ufeff", " "}

const plain = "abcdefghijklmnopqrstuvwxyzABCDEFGHIJKLMNOPQRSTUVWXYZ0123456789 _-.,:;/"

// genString: about size bytes, mixing plain ASCII with characters that matter for JSON escaping and SSE framing.
func genString(r *rand.Rand, size int) string {
	if size <= 0 {
		return ""
	}
	var b strings.Builder
	if size > 2048 {
		// a random chunk repeated: fast to build, still irregular at the seams
		chunk := genString(r, 257+r.Intn(300))
		for b.Len() < size {
			b.WriteString(chunk)
			if r.Intn(4) == 0 {
				b.WriteString(specials[r.Intn(len(specials))])
			}
		}
		return b.String()
	}
	for b.Len() < size {
		if r.Intn(6) == 0 {
			b.WriteString(specials[r.Intn(len(specials))])
		} else {
			b.WriteByte(plain[r.Intn(len(plain))])
		}
	}
	return b.String()
}

func genSize(r *rand.Rand, thorough bool, budget int) int {
	classes := []int{0, 1, 1, 7, 30, 100, 100, 1000, 4096, 65536, 262144}
	if thorough {
		classes = append(classes, 1<<20)
	}
	for {
		s := classes[r.Intn(len(classes))]
		if s <= budget || s <= 100 {
			return s
		}
	}
}

func genValue(r *rand.Rand, depth int) any {
	switch k := r.Intn(8); {
	case k == 0:
		return nil
	case k == 1:
		return r.Intn(2) == 0
	case k == 2:
		return float64(r.Intn(2000) - 1000)
	case k == 3:
		return float64(r.Intn(4000)-2000) / 8 // short decimals, exact in binary
	case k == 4 && depth > 0:
		n := r.Intn(3)
		a := make([]any, 0, n)
		for i := 0; i < n; i++ {
			a = append(a, genValue(r, depth-1))
		}
		return a
	case k == 5 && depth > 0:
		n := r.Intn(3)
		m := map[string]any{}
		for i := 0; i < n; i++ {
			m[genKey(r)] = genValue(r, depth-1)
		}
		return m
	default:
		return genString(r, r.Intn(12))
	}
}

func genKey(r *rand.Rand) string {
	keys := []string{"a", "b", "Z", "k", "progressToken", "meta", "_Meta", "_meta2", "level", "data", "x y", "é", "", "id", "method", "result"}
	return keys[r.Intn(len(keys))]
}

var metaKinds = []string{"none", "none", "object", "object", "object", "empty", "number", "string", "array", "null"}

func genMeta(r *rand.Rand, kind string) (any, bool) {
	switch kind {
	case "object":
		m := map[string]any{"progressToken": genValue(r, 0)}
		for i := r.Intn(3); i > 0; i-- {
			m[genKey(r)] = genValue(r, 2)
		}
		return m, true
	case "empty":
		return map[string]any{}, true
	case "number":
		return float64(r.Intn(100)), true
	case "string":
		return genString(r, r.Intn(8)), true
	case "array":
		return []any{genValue(r, 1)}, true
	case "null":
		return nil, true
	}
	return nil, false
}

// genEmit builds notification number seq of call nonce; size = bytes of free payload.
func genEmit(r *rand.Rand, nonce string, seq, size int, pause bool) emit {
	e := emit{Bytes: size, MetaKind: "none", Seq: seq}
	tag := fmt.Sprintf("%s|%d|", nonce, seq)
	switch k := r.Intn(10); {
	case k < 3:
		e.K, e.Method = "progress", mProgress
		e.P = []float64{0, 0.25, 0.5, 1, 42, 99.5, 100, 0.125}[r.Intn(8)]
		e.Msg = tag + genString(r, size)
	case k < 5:
		e.K, e.Method = "log", mMessage
		e.Level = []string{"debug", "info", "warning", "error", ""}[r.Intn(5)]
		e.Msg = tag + genString(r, size)
	default:
		e.K = "custom"
		if k >= 8 {
			e.K = "new"
		}
		e.Method = customMethods[r.Intn(len(customMethods))]
		e.Params = map[string]any{"nonce": nonce, "seq": float64(seq)}
		if size > 0 || r.Intn(2) == 0 {
			e.Params["pad"] = genString(r, size)
		}
		for i := r.Intn(3); i > 0; i-- {
			k := genKey(r)
			if k != "nonce" && k != "seq" && k != "pad" {
				e.Params[k] = genValue(r, 2)
			}
		}
		e.MetaKind = metaKinds[r.Intn(len(metaKinds))]
		if v, ok := genMeta(r, e.MetaKind); ok {
			e.Params["_meta"] = v
		}
		e.Params = norm(e.Params).(map[string]any)
	}
	if pause && r.Intn(5) == 0 {
		e.Pause = time.Duration(r.Intn(1500)) * time.Microsecond
	}
	return e
}

// plan is one tool call: what the handler emits, how it ends.
type plan struct {
	Nonce  string
	Emits  []emit
	Fail   bool
	Text   string // result text / error text
	Bytes  int
	ViaRaw bool // issued through the transport-level hook instead of Client.CallTool
	// slow-handler scenarios (slow.go): the handler also pauses before it returns; Scenario names the case in failing inputs
	TailPause time.Duration
	Scenario  string
	// FpScen: makes the fingerprints of this call's oracles specific ("" = a plain generated burst), e.g. "unencodable:progress"
	FpScen string
	Tags   []string // more distribution tags
}

// wire: the emits that reach the stream (the sender refuses the unencodable ones before writing anything).
func (p *plan) wire() []emit {
	out := make([]emit, 0, len(p.Emits))
	for _, e := range p.Emits {
		if e.Unenc == "" {
			out = append(out, e)
		}
	}
	return out
}

var burstSizes = []int{0, 0, 1, 1, 1, 2, 2, 3, 5, 8, 10, 25, 50, 100, 200}

func genPlan(r *rand.Rand, nonce string, thorough bool, maxBurst int) *plan {
	p := &plan{Nonce: nonce}
	n := burstSizes[r.Intn(len(burstSizes))]
	if n > maxBurst {
		n = maxBurst
	}
	budget := 1 << 20
	if thorough {
		budget = 4 << 20
	}
	small := r.Intn(3) > 0 // most calls stay small enough to go through the Lean model as a whole
	pause := r.Intn(3) == 0
	for i := 0; i < n; i++ {
		var size int
		if small {
			size = []int{0, 1, 1, 7, 30, 100}[r.Intn(6)]
		} else {
			size = genSize(r, thorough, budget)
		}
		budget -= size
		e := genEmit(r, nonce, i, size, pause)
		p.Bytes += size
		p.Emits = append(p.Emits, e)
	}
	if n > 0 && r.Intn(5) == 0 {
		// a share of the bursts: some notifications (any position, also several in a row) cannot be encoded
		for i := range p.Emits {
			if r.Intn(3) == 0 {
				p.Bytes -= p.Emits[i].Bytes
				v := unencVariants[r.Intn(len(unencVariants))]
				p.Emits[i] = genUnenc(r, nonce, i, v.K, v.Cause)
			}
		}
		p.markUnenc()
	}
	p.Fail = r.Intn(6) == 0
	p.Text = nonce + "|" + genString(r, []int{0, 1, 10, 100, 3000}[r.Intn(5)])
	if p.Fail {
		p.Text = nonce + "|boom " + genString(r, r.Intn(20))
	}
	p.ViaRaw = r.Intn(4) == 0
	return p
}

func (p *plan) emitOps() []any {
	out := make([]any, 0, len(p.Emits))
	for _, e := range p.Emits {
		out = append(out, e.op())
	}
	return out
}

func deepCopy(m map[string]any) map[string]any {
	if m == nil {
		return nil
	}
	return norm(m).(map[string]any)
}
