// Component incall (C10): in-call notifications over Streamable HTTP.
package main

import (
	"fmt"

	"verif/harness/hk"
)

func main() {
	hk.Main(&hk.Component{Name: "incall",
		Rule: "real Streamable server (hk.NewFixture: stateful / stateless / sessions off, POST-SSE on and off) with a tool whose handler emits a generated burst (0-200) of " +
			"SendProgress / SendLogMessage / SendCustomNotification / SendNotification(NewNotification) with generated methods, payload sizes 0 B - 256 KiB (thorough 1 MiB), " +
			"`_meta` absent / object / empty / non-object, random sub-millisecond pauses, then returns a result or an error; the REAL client (mcp.NewClient) with handlers for all / some / none " +
			"of the methods, 4 concurrent calls on one client; handlers record (nonce, seq, method, Meta, AdditionalFields); per call an oracle checks exactly-once / order / intact / " +
			"before-return / result and the trace is diffed with the model (calls below 48 KiB payload). A raw reference peer (WHATWG reader) reads the same streams: ids pairwise distinct, " +
			"frames = notifications then answer, both diffed with the model (writer-object fact). The real client's reader is also run against a scripted peer (frames after the answer, foreign ids, " +
			"undecodable frames). Handler registration HISTORIES on one client (register, re-register a registered method with another tagged handler instance, unregister, register again) " +
			"interleaved with batches of calls: which instance received each notification vs last-registration-wins and vs the model's tableAfter. " +
			"UNENCODABLE notifications (the sender must refuse them, nothing of them may reach the stream): SendProgress(NaN / +Inf / -Inf), SendCustomNotification and SendNotification(NewNotification) with a " +
			"chan / func / NaN / +-Inf / map[bool] / failing MarshalJSON / cyclic map / complex / nested chan value or a chan in an object `_meta`, SendNotification with a hand-built notification (func in Meta, NaN field) " +
			"(SendLogMessage takes strings only: no unencodable variant exists) - every (kind, cause) at every position (first / middle / last / three in a row / only) on every POST-SSE configuration with the real client and the raw peer, " +
			"in JSON mode in the middle, plus one in five random bursts with a third of their notifications replaced; oracles: the sender returns ErrNotificationSerialization for exactly these, every encodable one is delivered once, in order, " +
			"before the intact result; raw: every frame is one JSON text, frames = encodable notifications + answer, ids distinct; the model line marks them `unencodable` (Attempt.refused). " +
			"SLOW HANDLERS: the handler really pauses (time.Sleep) 1 s / 3 s / 12 s in all (thorough also 35 s / 65 s) - between notifications, before the answer, before the first notification, or in two halves - " +
			"on every server configuration, real client and raw peer, every case on its own server and session, all concurrently with the rest; same per-call oracle, same model lines (the model has no time: the pause is an ignored field). NotificationParams marshal/unmarshal/NewNotification vs the model on generated values. Non-trivial = at least one notification handled / on the stream.",
		Run: run})
}

func run(c *hk.Ctx) {
	r := c.Rng
	th := c.Thorough()
	all := []string{mProgress, mMessage, "verif/custom/a", "verif/custom/b", "x", "notifications/tools/list_changed"}
	// slow handlers (pauses of 1 s .. 12 s, thorough .. 65 s): started first, run next to everything below, judged at the end
	slow := startSlow(c, all)
	nParams, nScript, perEnv, perRaw := 1500, 400, 60, 120
	if th {
		nParams, nScript, perEnv, perRaw = 8000, 3000, 300, 600
	}
	runParams(c, nParams)
	runScripts(c, nScript)
	// unencodable notifications at every position, every sender kind and cause (always-run set; first, so that the witness
	// kept per fingerprint is one of these small calls)
	runUnenc(c, all)

	nonce := 0
	mkPlans := func(n int, maxBurst int) []*plan {
		ps := make([]*plan, 0, n)
		for i := 0; i < n; i++ {
			nonce++
			ps = append(ps, genPlan(r, fmt.Sprintf("c%d", nonce), th, maxBurst))
		}
		return ps
	}
	profiles := []struct {
		name       string
		methods    []string
		unregister []string
	}{{"all", all, nil}, {"some", []string{mProgress, "verif/custom/a"}, nil}, {"none", nil, nil},
		{"some-after-unregister", []string{mMessage, "x", "verif/custom/b"}, []string{mProgress, "verif/custom/a", "notifications/tools/list_changed"}}}
	envs := []hk.SrvCfg{
		{Mode: "stateful", Get: true, PostSSE: true},
		{Mode: "stateless", Get: false, PostSSE: true},
		{Mode: "sessionsOff", Get: false, PostSSE: true},
		{Mode: "stateful", Get: true, PostSSE: false},
		{Mode: "stateless", Get: false, PostSSE: false},
	}
	for ei, cfg := range envs {
		for pi, pr := range profiles {
			if (!cfg.PostSSE && (pr.name == "some" || pr.name == "some-after-unregister")) || (pr.name == "some-after-unregister" && ei > 1) {
				continue
			}
			conc := 4
			if (ei+pi)%3 == 2 {
				conc = 1
			}
			n := perEnv
			if !cfg.PostSSE {
				n = perEnv / 2
			}
			runEnv(c, cfg, pr.name, pr.methods, pr.unregister, mkPlans(n, 200), conc)
		}
	}
	// registration histories interleaved with calls
	nHist := 60
	if th {
		nHist = 400
	}
	runHistory(c, hk.SrvCfg{Mode: "stateful", Get: true, PostSSE: true}, nHist, "h")
	runHistory(c, hk.SrvCfg{Mode: "stateless", Get: false, PostSSE: true}, nHist, "i")
	runHistory(c, hk.SrvCfg{Mode: "stateful", Get: false, PostSSE: false}, nHist/4, "j")
	// raw peers: many short bursts without pauses (several events within one millisecond) and some long ones
	for _, cfg := range []hk.SrvCfg{{Mode: "stateful", Get: true, PostSSE: true}, {Mode: "stateless", Get: false, PostSSE: true}, {Mode: "stateful", Get: false, PostSSE: false}} {
		n := perRaw
		if !cfg.PostSSE {
			n = perRaw / 4
		}
		runRaw(c, cfg, mkPlans(n, 60))
	}
	slow.join(c)
	c.SetExtra("model_limit_bytes", modelLimit)
}
