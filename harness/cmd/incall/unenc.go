package main

import (
	"errors"
	"fmt"
	"math"
	"math/rand"

	mcp "trpc.group/trpc-go/trpc-mcp-go"
	"verif/harness/hk"
)

// Unencodable notifications.  A handler may hand the sender a notification that encoding/json cannot encode
// (SendProgress(done/total) with total == 0 is NaN; a chan / func / failing MarshalJSON somewhere in custom params).
// The sender refuses it (ErrNotificationSerialization); nothing of it may reach the stream: the notifications before
// and after it and the answer are delivered as if the refused one had never been tried.
//
// What the sender interface offers (notifier.go): SendProgress(float64, string) - unencodable for NaN / +-Inf;
// SendLogMessage(string, string) - strings only, always encodable (no unencodable variant exists);
// SendCustomNotification(method, map) and SendNotification(*Notification) - any value anywhere in the params / Meta.

// senderAPI: the methods of the library's (unexported) notificationSender interface.
type senderAPI interface {
	SendLogMessage(level string, message string) error
	SendProgress(progress float64, message string) error
	SendCustomNotification(method string, params map[string]interface{}) error
	SendNotification(notification *mcp.Notification) error
}

type unencVariant struct{ K, Cause string }

// unencVariants: every (sender kind, cause) pair the harness knows.
var unencVariants = func() []unencVariant {
	vs := []unencVariant{{"progress", "nan"}, {"progress", "+inf"}, {"progress", "-inf"}}
	for _, k := range []string{"custom", "new"} {
		for _, c := range []string{"chan", "func", "nan", "+inf", "-inf", "boolkey-map", "marshaler-error", "cycle", "complex", "nested-chan", "meta-chan"} {
			vs = append(vs, unencVariant{k, c})
		}
	}
	// SendNotification with a notification built by hand (not through NewNotification)
	return append(vs, unencVariant{"new", "prebuilt-meta-func"}, unencVariant{"new", "prebuilt-field-nan"})
}()

type failingMarshaler struct{}

func (failingMarshaler) MarshalJSON() ([]byte, error) {
	return nil, errors.New("this value refuses to be encoded")
}

func badFloat(cause string) float64 {
	switch cause {
	case "+inf":
		return math.Inf(1)
	case "-inf":
		return math.Inf(-1)
	}
	return math.NaN()
}

// badValue: a fresh value encoding/json cannot encode.
func badValue(cause string) any {
	switch cause {
	case "chan":
		return make(chan int)
	case "func":
		return func() {}
	case "nan", "+inf", "-inf":
		return badFloat(cause)
	case "boolkey-map":
		return map[bool]string{true: "x"}
	case "marshaler-error":
		return failingMarshaler{}
	case "cycle":
		m := map[string]any{"a": 1.0}
		m["self"] = m
		return m
	case "complex":
		return complex(1, 2)
	case "nested-chan":
		return []any{map[string]any{"deep": []any{1.0, make(chan string)}}}
	}
	panic("cause " + cause)
}

// genUnenc: attempt number seq of call nonce that the sender must refuse.  Params = the encodable part (it names the call
// and the attempt: should any of it reach a handler, the oracle sees whose it was).
func genUnenc(r *rand.Rand, nonce string, seq int, k, cause string) emit {
	e := emit{K: k, Seq: seq, Unenc: cause, MetaKind: "none"}
	switch k {
	case "progress":
		e.Method = mProgress
		e.Msg = fmt.Sprintf("%s|%d|%s", nonce, seq, genString(r, []int{0, 7, 30}[r.Intn(3)]))
	default:
		e.Method = customMethods[r.Intn(len(customMethods))]
		e.Params = map[string]any{"nonce": nonce, "seq": float64(seq), "pad": genString(r, []int{0, 7, 100}[r.Intn(3)])}
	}
	return e
}

// sendUnenc performs the attempt on the real sender (the values are built here: they cannot be copied through JSON).
func sendUnenc(sender senderAPI, e emit) error {
	if e.K == "progress" {
		return sender.SendProgress(badFloat(e.Unenc), e.Msg)
	}
	params := deepCopy(e.Params)
	switch e.Unenc {
	case "meta-chan": // an object `_meta` moves to Meta: the unencodable value sits there
		params["_meta"] = map[string]any{"progressToken": "t", "ch": make(chan int)}
	case "prebuilt-meta-func":
		return sender.SendNotification(&mcp.Notification{Method: e.Method,
			Params: mcp.NotificationParams{Meta: map[string]interface{}{"progressToken": func() {}}, AdditionalFields: params}})
	case "prebuilt-field-nan":
		params["bad"] = math.NaN()
		return sender.SendNotification(&mcp.Notification{Method: e.Method, Params: mcp.NotificationParams{AdditionalFields: params}})
	default:
		params["bad"] = badValue(e.Unenc)
	}
	if e.K == "custom" {
		return sender.SendCustomNotification(e.Method, params)
	}
	return sender.SendNotification(mcp.NewNotification(e.Method, params))
}

// markUnenc sets the fingerprint scenario of a plan that holds unencodable attempts: the sender kind, "mixed" if several.
func (p *plan) markUnenc() {
	kind := ""
	for _, e := range p.Emits {
		if e.Unenc == "" {
			continue
		}
		switch {
		case kind == "":
			kind = e.K
		case kind != e.K:
			kind = "mixed"
		}
	}
	if kind != "" {
		p.FpScen = "unencodable:" + kind
	}
}

// unencRes: what the sender said to one unencodable attempt.
type unencRes struct {
	seq   int
	k     string
	cause string
	err   error
}

// judgeRefusals: over an event stream the sender returns ErrNotificationSerialization for exactly the unencodable
// attempts (an error for an encodable one is reported by the caller as send-error).  mode: sse | raw.
func judgeRefusals(c *hk.Ctx, mode, scen string, in map[string]any, pl *plan, rc *rec) {
	rc.mu.Lock()
	res := append([]unencRes{}, rc.unenc...)
	rc.mu.Unlock()
	n := 0
	for _, e := range pl.Emits {
		if e.Unenc != "" {
			n++
		}
	}
	if len(res) != n {
		c.Violate(hk.Violation{Fingerprint: fpOf(mode, scen, "attempts-not-all-made"), What: "the call was over before the handler had made all its attempts", Input: in, Observed: len(res), Expected: n})
	}
	for _, u := range res {
		at := fmt.Sprintf("attempt #%d %s(%s)", u.seq, u.k, u.cause)
		switch {
		case u.err == nil:
			c.Violate(hk.Violation{Fingerprint: fpOf(mode, scen, "sender-accepted-unencodable"), What: "the sender returned nil for a notification that cannot be encoded", Input: in, Observed: at})
			return
		case !errors.Is(u.err, mcp.ErrNotificationSerialization):
			c.Violate(hk.Violation{Fingerprint: fpOf(mode, scen, "refusal-is-not-ErrNotificationSerialization"), What: "the sender's error for an unencodable notification is not ErrNotificationSerialization",
				Input: in, Observed: at + ": " + trunc(u.err.Error(), 300)})
			return
		}
	}
}

var unencPositions = []string{"first", "middle", "last", "row", "only"}

// genUnencPlan: V = a small valid notification of any kind, U = the unencodable attempt (k, cause):
// first U V V | middle V U V | last V V U | row V U U' U” V (three attempts of the same sender kind in a row) | only U [U].
func genUnencPlan(r *rand.Rand, nonce string, v unencVariant, vi int, pos string) *plan {
	p := &plan{Nonce: nonce, Tags: []string{"unenc-pos=" + pos}}
	valid := func() {
		size := []int{0, 1, 7, 30, 100, 1000}[r.Intn(6)]
		p.Bytes += size
		p.Emits = append(p.Emits, genEmit(r, nonce, len(p.Emits), size, false))
	}
	bad := func(x unencVariant) { p.Emits = append(p.Emits, genUnenc(r, nonce, len(p.Emits), x.K, x.Cause)) }
	sameKind := func(step int) unencVariant { // another cause of the same sender kind
		for j := 1; ; j++ {
			if x := unencVariants[(vi+j*step)%len(unencVariants)]; x.K == v.K {
				return x
			}
		}
	}
	switch pos {
	case "first":
		bad(v)
		valid()
		valid()
	case "middle":
		valid()
		bad(v)
		valid()
	case "last":
		valid()
		valid()
		bad(v)
	case "row":
		valid()
		bad(v)
		bad(sameKind(1))
		bad(sameKind(2))
		valid()
	case "only":
		bad(v)
		if r.Intn(2) == 0 {
			bad(v)
		}
	default:
		panic("position " + pos)
	}
	p.markUnenc()
	p.Fail = r.Intn(6) == 0
	p.Text = nonce + "|" + genString(r, []int{0, 1, 10, 100}[r.Intn(4)])
	if p.Fail {
		p.Text = nonce + "|boom " + genString(r, r.Intn(20))
	}
	p.ViaRaw = r.Intn(4) == 0
	return p
}

// runUnenc: the always-run set: every (sender kind, cause) at every position on every POST-SSE configuration, real client
// and raw peer; in JSON mode (no-op sender: nothing is written anyway) every variant once, in the middle.
func runUnenc(c *hk.Ctx, all []string) {
	r := c.Rng
	n := 0
	plans := func(positions []string) []*plan {
		var ps []*plan
		// positions outside, variants inside: the number of variants (27) is prime to 5, so the raw peer's every-fifth
		// JSON-only request meets each variant at one position only
		for _, pos := range positions {
			for vi, v := range unencVariants {
				n++
				ps = append(ps, genUnencPlan(r, fmt.Sprintf("u%d", n), v, vi, pos))
			}
		}
		return ps
	}
	for i, cfg := range []hk.SrvCfg{{Mode: "stateful", Get: true, PostSSE: true}, {Mode: "stateless", Get: false, PostSSE: true}, {Mode: "sessionsOff", Get: false, PostSSE: true}} {
		runEnv(c, cfg, "all", all, nil, plans(unencPositions), []int{4, 1, 4}[i])
		runRaw(c, cfg, plans(unencPositions))
	}
	for _, cfg := range []hk.SrvCfg{{Mode: "stateful", Get: true, PostSSE: false}, {Mode: "stateless", Get: false, PostSSE: false}} {
		runEnv(c, cfg, "all", all, nil, plans([]string{"middle"}), 4)
	}
	runRaw(c, hk.SrvCfg{Mode: "stateful", Get: false, PostSSE: false}, plans([]string{"middle"}))
}
