package main

import (
	"context"
	"encoding/json"
	"errors"
	"fmt"
	"regexp"
	"sort"
	"strconv"
	"strings"
	"sync"
	"time"

	mcp "trpc.group/trpc-go/trpc-mcp-go"
	"verif/harness/hk"
)

const toolName = "burst"

// modelLimit: calls whose free payload stays below go through the Lean model line by line; bigger ones are judged by
// the implementation-level oracle only.
const modelLimit = 48 << 10

// rec is what the client side observed for one call.
type rec struct {
	mu       sync.Mutex
	seen     []map[string]any // handler views, arrival order
	returned bool
	late     []map[string]any // handler invocations after the call had returned
	sendErrs []string
	unenc    []unencRes // what the sender said to the unencodable attempts
	noSender bool
	ranTimes int
}

type registry struct {
	mu    sync.Mutex
	plans map[string]*plan
	recs  map[string]*rec
	stray []map[string]any // notifications that name no known call
}

func newRegistry() *registry {
	return &registry{plans: map[string]*plan{}, recs: map[string]*rec{}}
}

func (g *registry) add(p *plan) *rec {
	g.mu.Lock()
	defer g.mu.Unlock()
	g.plans[p.Nonce] = p
	r := &rec{}
	g.recs[p.Nonce] = r
	return r
}

func (g *registry) get(nonce string) (*plan, *rec) {
	g.mu.Lock()
	defer g.mu.Unlock()
	return g.plans[nonce], g.recs[nonce]
}

// toolHandler is the server side: emit the plan's notifications through the sender found in the context, then answer.
func (g *registry) toolHandler(ctx context.Context, req *mcp.CallToolRequest) (*mcp.CallToolResult, error) {
	nonce, _ := req.Params.Arguments["nonce"].(string)
	pl, rc := g.get(nonce)
	if pl == nil {
		return nil, errors.New("unknown nonce")
	}
	rc.mu.Lock()
	rc.ranTimes++
	rc.mu.Unlock()
	sender, ok := mcp.GetNotificationSender(ctx)
	if !ok {
		rc.mu.Lock()
		rc.noSender = true
		rc.mu.Unlock()
	}
	for i, e := range pl.Emits {
		if !ok {
			break
		}
		if e.Pause > 0 {
			time.Sleep(e.Pause) // timing variation only, nothing waits for it
		}
		if e.Unenc != "" {
			uerr := sendUnenc(sender, e)
			rc.mu.Lock()
			rc.unenc = append(rc.unenc, unencRes{e.Seq, e.K, e.Unenc, uerr})
			rc.mu.Unlock()
			continue
		}
		var err error
		switch e.K {
		case "progress":
			err = sender.SendProgress(e.P, e.Msg)
		case "log":
			err = sender.SendLogMessage(e.Level, e.Msg)
		case "custom":
			err = sender.SendCustomNotification(e.Method, deepCopy(e.Params))
		case "new":
			err = sender.SendNotification(mcp.NewNotification(e.Method, deepCopy(e.Params)))
		}
		if err != nil {
			rc.mu.Lock()
			rc.sendErrs = append(rc.sendErrs, fmt.Sprintf("#%d %s: %v", i, e.K, err))
			rc.mu.Unlock()
		}
	}
	if pl.TailPause > 0 {
		time.Sleep(pl.TailPause) // a handler that works for a while after its last notification (the scenario, not synchronisation)
	}
	if pl.Fail {
		return nil, errors.New(pl.Text)
	}
	return mcp.NewTextResult(pl.Text), nil
}

func mapOrEmpty(m map[string]interface{}) map[string]any {
	if m == nil {
		return map[string]any{}
	}
	return m
}

// viewOf is the canonical form of what a client-side handler received.
func viewOf(n *mcp.JSONRPCNotification) map[string]any {
	return norm(map[string]any{"method": n.Method, "meta": mapOrEmpty(n.Params.Meta), "extra": mapOrEmpty(n.Params.AdditionalFields)}).(map[string]any)
}

// whose: call nonce and sequence number carried by a notification view ("", -1 if none).
func whose(v map[string]any) (string, int) {
	extra, _ := v["extra"].(map[string]any)
	if extra == nil {
		return "", -1
	}
	if n, ok := extra["nonce"].(string); ok {
		if s, ok := extra["seq"].(float64); ok {
			return n, int(s)
		}
		return n, -1
	}
	msg, ok := extra["message"].(string)
	if !ok {
		if d, _ := extra["data"].(map[string]any); d != nil {
			msg, ok = d["message"].(string)
		}
	}
	if ok {
		parts := strings.SplitN(msg, "|", 3)
		if len(parts) == 3 {
			if s, err := strconv.Atoi(parts[1]); err == nil {
				return parts[0], s
			}
		}
	}
	return "", -1
}

// clientHandler records (call nonce, sequence number, method, params) for the call the notification belongs to.
func (g *registry) clientHandler(n *mcp.JSONRPCNotification) error { return g.record(n, -1) }

// handlerInst is a handler instance with an identity: what it receives is recorded with its tag ("by").
func (g *registry) handlerInst(tag int) mcp.NotificationHandler {
	return func(n *mcp.JSONRPCNotification) error { return g.record(n, tag) }
}

func (g *registry) record(n *mcp.JSONRPCNotification, tag int) error {
	v := viewOf(n)
	if tag >= 0 {
		v["by"] = float64(tag)
	}
	nonce, seq := whose(v)
	_, rc := g.get(nonce)
	if rc == nil {
		g.mu.Lock()
		g.stray = append(g.stray, v)
		g.mu.Unlock()
		return nil
	}
	rc.mu.Lock()
	if rc.returned {
		rc.late = append(rc.late, v)
	} else {
		rc.seen = append(rc.seen, v)
	}
	rc.mu.Unlock()
	if seq%7 == 3 {
		return errors.New("handler refuses this one") // a failing handler must not disturb the delivery of the rest
	}
	return nil
}

type outcome struct {
	reqID   int64 // 1 for CallTool (the id is not observable there)
	ret     any   // what the call returned, in the model's raw shape (nil if the call failed otherwise)
	text    string
	isErr   bool
	callErr string // failure that is not a JSON-RPC error answer
	seen    []map[string]any
}

var toolErrRe = regexp.MustCompile(`(?s)^tool call error: (.*) \(code: (-?\d+)\)$`)

func doCall(cl *mcp.Client, pl *plan, rc *rec) outcome { return doCallT(cl, pl, rc, 120*time.Second) }

// doCallT: the call with its own context deadline (the client itself has no timeout: http.Client{} without Timeout).
func doCallT(cl *mcp.Client, pl *plan, rc *rec, ceiling time.Duration) outcome {
	ctx, cancel := context.WithTimeout(context.Background(), ceiling)
	defer cancel()
	out := outcome{reqID: 1}
	args := map[string]interface{}{"nonce": pl.Nonce}
	if pl.ViaRaw {
		id, raw, err := mcp.VerifClientRawCall(ctx, cl, "tools/call", map[string]interface{}{"name": toolName, "arguments": args})
		rc.mu.Lock()
		rc.returned = true
		out.seen = append([]map[string]any{}, rc.seen...)
		rc.mu.Unlock()
		out.reqID = id
		if err != nil {
			out.callErr = err.Error()
			return out
		}
		var v any
		if err := json.Unmarshal(*raw, &v); err != nil {
			out.callErr = "raw result is not JSON: " + err.Error()
			return out
		}
		out.ret = v
		if m, ok := v.(map[string]any); ok {
			if e, ok := m["error"].(map[string]any); ok {
				out.isErr = true
				out.text, _ = e["message"].(string)
			} else if cs, ok := m["content"].([]any); ok && len(cs) == 1 {
				if c0, ok := cs[0].(map[string]any); ok {
					out.text, _ = c0["text"].(string)
				}
			}
		}
		return out
	}
	res, err := cl.CallTool(ctx, &mcp.CallToolRequest{Params: mcp.CallToolParams{Name: toolName, Arguments: args}})
	rc.mu.Lock()
	rc.returned = true
	out.seen = append([]map[string]any{}, rc.seen...)
	rc.mu.Unlock()
	if err != nil {
		if m := toolErrRe.FindStringSubmatch(err.Error()); m != nil {
			code, _ := strconv.Atoi(m[2])
			out.isErr, out.text = true, m[1]
			out.ret = norm(map[string]any{"jsonrpc": "2.0", "id": 1, "error": map[string]any{"code": code, "message": m[1]}})
			return out
		}
		out.callErr = err.Error()
		return out
	}
	out.ret = norm(res)
	if len(res.Content) == 1 {
		if tc, ok := res.Content[0].(mcp.TextContent); ok {
			out.text = tc.Text
		}
	}
	return out
}

func contains(xs []string, x string) bool {
	for _, y := range xs {
		if x == y {
			return true
		}
	}
	return false
}

func trunc(s string, n int) string {
	if len(s) > n {
		return s[:n] + fmt.Sprintf("…(%d bytes)", len(s))
	}
	return s
}

func truncAny(v any) any { return trunc(canonS(v), 600) }

// planSummary: the failing input in a readable size.
func planSummary(cfg hk.SrvCfg, profile []string, pl *plan) map[string]any {
	kinds := []string{}
	for _, e := range pl.Emits {
		if e.Pause >= 100*time.Millisecond {
			kinds = append(kinds, fmt.Sprintf("<handler pauses %v>", e.Pause))
		}
		if e.Unenc != "" {
			kinds = append(kinds, fmt.Sprintf("%s:%s:UNENCODABLE(%s)", e.K, e.Method, e.Unenc))
		} else {
			kinds = append(kinds, fmt.Sprintf("%s:%s:%dB:meta=%s", e.K, e.Method, e.Bytes, e.MetaKind))
		}
		if len(kinds) >= 12 {
			kinds = append(kinds, "…")
			break
		}
	}
	if pl.TailPause > 0 {
		kinds = append(kinds, fmt.Sprintf("<handler pauses %v before it returns>", pl.TailPause))
	}
	in := map[string]any{"server": fmt.Sprintf("%s postSSE=%v", cfg.Mode, cfg.PostSSE), "handlers": profile,
		"notifications": len(pl.Emits), "emits": kinds, "fail": pl.Fail, "viaRawHook": pl.ViaRaw}
	if pl.Scenario != "" {
		in["scenario"] = pl.Scenario
	}
	return in
}

// fpOf: fingerprint "incall:<mode>[:<scenario>]:<what>" (scenario "" = the generated bursts).
func fpOf(mode, scen, what string) string {
	if scen == "" {
		return "incall:" + mode + ":" + what
	}
	return "incall:" + mode + ":" + scen + ":" + what
}

// judge is the implementation-level oracle for one call: the property's statement, checked on the real client's
// observations without the model.
func judge(c *hk.Ctx, cfg hk.SrvCfg, profile []string, pl *plan, rc *rec, out outcome) {
	judgeScen(c, pl.FpScen, cfg, profile, pl, rc, out)
}

// judgeScen: the same oracle; scen (e.g. "slow-handler:pause>=10s") only makes the fingerprints specific.
func judgeScen(c *hk.Ctx, scen string, cfg hk.SrvCfg, profile []string, pl *plan, rc *rec, out outcome) {
	in := planSummary(cfg, profile, pl)
	mode := "sse"
	if !cfg.PostSSE {
		mode = "json"
	}
	// ---- the result
	wantText := pl.Text
	if pl.Fail {
		wantText = "tool execution failed (tool: " + toolName + "): " + pl.Text
	}
	switch {
	case out.callErr != "":
		c.Violate(hk.Violation{Fingerprint: fpOf(mode, scen, "call-failed"), What: "the call did not return the handler's answer", Input: in, Observed: trunc(out.callErr, 400)})
	case out.isErr != pl.Fail || out.text != wantText:
		c.Violate(hk.Violation{Fingerprint: fpOf(mode, scen, "result-altered"), What: "the call returned something else than the handler's answer", Input: in,
			Observed: map[string]any{"isError": out.isErr, "text": trunc(out.text, 300)}, Expected: map[string]any{"isError": pl.Fail, "text": trunc(wantText, 300)}})
	}
	rc.mu.Lock()
	late, sendErrs, noSender, ran := rc.late, rc.sendErrs, rc.noSender, rc.ranTimes
	rc.mu.Unlock()
	if ran != 1 {
		c.Violate(hk.Violation{Fingerprint: fpOf(mode, scen, "handler-ran-not-once"), What: "the tool handler ran a number of times other than one", Input: in, Observed: ran})
	}
	if noSender {
		c.Violate(hk.Violation{Fingerprint: fpOf(mode, scen, "no-sender-in-context"), What: "GetNotificationSender found no sender in the handler's context", Input: in})
	}
	if len(sendErrs) > 0 {
		c.Violate(hk.Violation{Fingerprint: fpOf(mode, scen, "send-error"), What: "the sender returned an error for an encodable notification", Input: in, Observed: sendErrs[0]})
	}
	if cfg.PostSSE {
		judgeRefusals(c, mode, scen, in, pl, rc)
	}
	if len(late) > 0 {
		c.Violate(hk.Violation{Fingerprint: fpOf(mode, scen, "delivered-after-return"), What: "a notification reached its handler after the call had returned", Input: in, Observed: truncAny(late[0])})
	}
	// ---- the notifications
	var want []map[string]any
	var inSpec []bool
	if cfg.PostSSE {
		for _, e := range pl.wire() { // the sender refuses the unencodable ones: they are not on the stream
			if contains(profile, e.Method) {
				v, ok := e.want()
				want = append(want, v)
				inSpec = append(inSpec, ok)
			}
		}
	}
	seen := out.seen
	if !cfg.PostSSE && len(seen) > 0 {
		c.Violate(hk.Violation{Fingerprint: fpOf("json", scen, "notification-delivered"), What: "JSON response mode delivered a notification", Input: in, Observed: truncAny(seen[0])})
		return
	}
	seqs := func(vs []map[string]any) []int {
		out := []int{}
		for _, v := range vs {
			_, s := whose(v)
			out = append(out, s)
		}
		return out
	}
	ws, ss := seqs(want), seqs(seen)
	if canonS(ws) != canonS(ss) {
		count := map[int]int{}
		for _, s := range ws {
			count[s]++
		}
		kind := ""
		for _, s := range ss {
			count[s]--
			if count[s] < 0 {
				kind = "duplicated-or-unexpected"
			}
		}
		if kind == "" {
			for _, n := range count {
				if n > 0 {
					kind = "lost"
				}
			}
		}
		if kind == "" {
			kind = "reordered"
		}
		a, b := append([]int{}, ws...), append([]int{}, ss...)
		sort.Ints(a)
		sort.Ints(b)
		c.Violate(hk.Violation{Fingerprint: fpOf("sse", scen, "notification-"+kind), What: "the handlers did not see exactly the emitted notifications of their methods, once each, in emission order",
			Input: in, Observed: trunc(canonS(ss), 400), Expected: trunc(canonS(ws), 400)})
		return
	}
	for i := range want {
		w, s := want[i], seen[i]
		if !inSpec[i] {
			w["meta"] = s["meta"] // `_meta` was not an object: nothing is promised about it
		}
		for _, part := range []string{"method", "meta", "extra"} {
			if canonS(w[part]) != canonS(s[part]) {
				c.Violate(hk.Violation{Fingerprint: fpOf("sse", scen, "notification-altered:"+part), What: "a notification reached its handler with a different " + part,
					Input: in, Observed: truncAny(s[part]), Expected: truncAny(w[part])})
				return
			}
		}
	}
}

// emitCall: one call as a model line (incall.call) with the observed trace; big calls are counted only (oracle-only).
// extra: fields added to the op line that the model does not read (it has no notion of time).
func emitCall(c *hk.Ctx, cfg hk.SrvCfg, profile []string, pl *plan, out outcome, extra map[string]any, tags []string) {
	nontrivial := cfg.PostSSE && len(out.seen) > 0
	if pl.Bytes > modelLimit {
		c.Count("e2e-big:"+pl.Nonce, nontrivial, nil, append(tags, "oracle-only(big)")...)
		return
	}
	trace := []any{}
	for _, v := range out.seen {
		trace = append(trace, map[string]any{"h": v})
	}
	switch {
	case out.callErr != "" && strings.Contains(out.callErr, "no final response"):
		trace = append(trace, map[string]any{"fail": "noResult"})
	case out.callErr != "":
		trace = append(trace, map[string]any{"fail": "decode", "error": trunc(out.callErr, 200)})
	default:
		trace = append(trace, map[string]any{"ret": out.ret})
	}
	op := map[string]any{"c": "incall.call", "sse": cfg.PostSSE, "handlers": profile, "reqId": out.reqID, "emits": pl.emitOps(), "answer": pl.answerOp()}
	for k, v := range extra {
		op[k] = v
	}
	c.Emit(op, map[string]any{"trace": trace}, nontrivial, tags...)
}

// answerOp: the handler's answer in the shape the Lean driver reads.
func (pl *plan) answerOp() map[string]any {
	if pl.Fail {
		return map[string]any{"err": map[string]any{"code": -32603, "message": "tool execution failed (tool: " + toolName + "): " + pl.Text}}
	}
	return map[string]any{"ok": map[string]any{"content": []any{map[string]any{"type": "text", "text": pl.Text}}}}
}

func burstClass(n int) string {
	switch {
	case n == 0:
		return "burst=0"
	case n == 1:
		return "burst=1"
	case n <= 10:
		return "burst=2-10"
	case n <= 50:
		return "burst=11-50"
	}
	return "burst=51-200"
}

func sizeClass(n int) string {
	switch {
	case n <= 1:
		return "size<=1B"
	case n <= 100:
		return "size<=100B"
	case n <= 4096:
		return "size<=4KiB"
	case n <= 65536:
		return "size<=64KiB"
	case n <= 262144:
		return "size<=256KiB"
	}
	return "size=1MiB"
}

// runEnv: one real server, one real client with handlers for `profile`, the plans issued by `conc` goroutines.
func runEnv(c *hk.Ctx, cfg hk.SrvCfg, profileName string, profile, unregister []string, plans []*plan, conc int) {
	if profile == nil {
		profile = []string{}
	}
	g := newRegistry()
	f := hk.NewFixture(cfg)
	defer f.Close()
	f.S.RegisterTool(mcp.NewTool(toolName, mcp.WithDescription("emits a burst of notifications, then answers")), g.toolHandler)
	cl, err := mcp.NewClient(f.URL, mcp.Implementation{Name: "verif-client", Version: "1"},
		mcp.WithClientLogger(hk.QuietLogger{}), mcp.WithClientGetSSEEnabled(false))
	if err != nil {
		panic(err)
	}
	defer cl.Close()
	for _, m := range append(append([]string{}, profile...), unregister...) {
		cl.RegisterNotificationHandler(m, g.clientHandler)
	}
	for _, m := range unregister {
		cl.UnregisterNotificationHandler(m) // registered, then removed again: must behave as never registered
	}
	ictx, cancel := context.WithTimeout(context.Background(), 20*time.Second)
	if _, err := cl.Initialize(ictx, &mcp.InitializeRequest{}); err != nil {
		cancel()
		panic(fmt.Sprintf("initialize (%+v): %v", cfg, err))
	}
	cancel()

	recs := make([]*rec, len(plans))
	outs := make([]outcome, len(plans))
	for i, p := range plans {
		recs[i] = g.add(p)
	}
	var wg sync.WaitGroup
	jobs := make(chan int)
	for w := 0; w < conc; w++ {
		wg.Add(1)
		go func() {
			defer wg.Done()
			for i := range jobs {
				outs[i] = doCall(cl, plans[i], recs[i])
			}
		}()
	}
	for i := range plans {
		jobs <- i
	}
	close(jobs)
	wg.Wait()
	time.Sleep(30 * time.Millisecond) // grace for stragglers (a handler still running after its call returned is a violation)

	envTag := fmt.Sprintf("%s/postSSE=%v/handlers=%s", cfg.Mode, cfg.PostSSE, profileName)
	for i, pl := range plans {
		judge(c, cfg, profile, pl, recs[i], outs[i])
		tags := []string{"e2e:" + envTag, burstClass(len(pl.Emits))}
		if conc > 1 {
			tags = append(tags, "concurrent-calls")
		}
		if pl.ViaRaw {
			tags = append(tags, "via=transport-hook")
		} else {
			tags = append(tags, "via=CallTool")
		}
		tags = append(tags, pl.Tags...)
		for _, e := range pl.Emits {
			if e.Unenc != "" {
				tags = append(tags, "unencodable:"+e.K+":"+e.Unenc)
				continue
			}
			tags = append(tags, "kind="+e.K, sizeClass(e.Bytes), "meta="+e.MetaKind)
			if e.Pause > 0 {
				tags = append(tags, "paused")
			}
		}
		emitCall(c, cfg, profile, pl, outs[i], nil, tags)
	}
	g.mu.Lock()
	stray := g.stray
	g.mu.Unlock()
	if len(stray) > 0 {
		c.Violate(hk.Violation{Fingerprint: "incall:sse:notification-of-no-call", What: "a handler received a notification that belongs to no call (content altered?)",
			Input: envTag, Observed: truncAny(stray[0])})
	}
}
