package main

import (
	"encoding/json"
	"fmt"
	"regexp"
	"strconv"
	"strings"

	mcp "trpc.group/trpc-go/trpc-mcp-go"
	"verif/harness/hk"
)

// parseSSE is a reference reader written from the WHATWG event-stream rules (independent of the library's reader):
// lines end with LF, CRLF or CR; "id" sets the last event id, "data" lines are joined with LF, a blank line dispatches.
func parseSSE(body []byte) []hk.SSEEvent {
	s := strings.ReplaceAll(string(body), "\r\n", "\n")
	s = strings.ReplaceAll(s, "\r", "\n")
	lines := strings.Split(s, "\n")
	if len(lines) > 0 {
		lines = lines[:len(lines)-1] // the unterminated tail is never interpreted
	}
	var out []hk.SSEEvent
	id := ""
	var data []string
	has := false
	for _, line := range lines {
		if line == "" {
			if has {
				out = append(out, hk.SSEEvent{ID: id, Data: strings.Join(data, "\n")})
			}
			data, has = nil, false
			continue
		}
		if strings.HasPrefix(line, ":") {
			continue
		}
		field, val := line, ""
		if i := strings.Index(line, ":"); i >= 0 {
			field, val = line[:i], strings.TrimPrefix(line[i+1:], " ")
		}
		switch field {
		case "id":
			if !strings.Contains(val, "\x00") {
				id = val
			}
		case "data":
			data = append(data, val)
			has = true
		}
	}
	return out
}

var evtRe = regexp.MustCompile(`^evt-(\d+)-(\d+)$`)

// rawHandshake: initialize + initialized by hand; returns the session header to use (empty in stateless mode).
func rawHandshake(f *hk.Fixture) map[string]string {
	r := f.Post(map[string]string{"Accept": "application/json"},
		`{"jsonrpc":"2.0","id":0,"method":"initialize","params":{"protocolVersion":"2025-03-26","capabilities":{},"clientInfo":{"name":"raw","version":"1"}}}`)
	if r.Status != 200 {
		panic(fmt.Sprintf("raw initialize: status %d %s", r.Status, r.Body))
	}
	hdr := map[string]string{}
	if sid := r.Header.Get("Mcp-Session-Id"); sid != "" {
		hdr["Mcp-Session-Id"] = sid
	}
	h2 := map[string]string{"Accept": "application/json"}
	for k, v := range hdr {
		h2[k] = v
	}
	f.Post(h2, `{"jsonrpc":"2.0","method":"notifications/initialized"}`)
	return hdr
}

// runRaw: a reference peer talks to the real server over plain HTTP and looks at the stream itself: the `id:` lines
// (pairwise distinct per stream; counters as the model of the writer objects predicts) and the frames (the emitted
// notifications, whatever the client would have registered, then the answer).
func runRaw(c *hk.Ctx, cfg hk.SrvCfg, plans []*plan) {
	g := newRegistry()
	f := hk.NewFixture(cfg)
	defer f.Close()
	f.S.RegisterTool(mcp.NewTool(toolName), g.toolHandler)
	sess := rawHandshake(f)
	envTag := fmt.Sprintf("raw:%s/postSSE=%v", cfg.Mode, cfg.PostSSE)
	for i, pl := range plans {
		rc := g.add(pl)
		reqID := 100 + i
		acceptSSE := i%5 != 4 // every fifth request does not accept an event stream: JSON answer, nothing else
		hdr := map[string]string{"Accept": "application/json, text/event-stream"}
		if !acceptSSE {
			hdr["Accept"] = "application/json"
		}
		for k, v := range sess {
			hdr[k] = v
		}
		body := canonS(map[string]any{"jsonrpc": "2.0", "id": reqID, "method": "tools/call", "params": map[string]any{"name": toolName, "arguments": map[string]any{"nonce": pl.Nonce}}})
		rawJudge(c, pl.FpScen, cfg, envTag, pl, reqID, hdr["Accept"], f.Post(hdr, body), nil)
		if cfg.PostSSE && acceptSSE {
			in := planSummary(cfg, nil, pl)
			in["request"] = fmt.Sprintf("POST tools/call id=%d Accept=%s", reqID, hdr["Accept"])
			judgeRefusals(c, "raw", pl.FpScen, in, pl, rc)
			rc.mu.Lock()
			sendErrs := rc.sendErrs
			rc.mu.Unlock()
			if len(sendErrs) > 0 {
				c.Violate(hk.Violation{Fingerprint: fpOf("raw", pl.FpScen, "send-error"), What: "the sender returned an error for an encodable notification", Input: in, Observed: sendErrs[0]})
			}
		}
	}
}

// rawJudge: the oracles and model lines for one answered POST tools/call of the raw peer.  scen (e.g.
// "slow-handler:pause>=10s") only makes the fingerprints of the frame oracles specific; extra: fields added to the
// op lines that the model does not read.
func rawJudge(c *hk.Ctx, scen string, cfg hk.SrvCfg, envTag string, pl *plan, reqID int, accept string, r hk.RawResp, extra map[string]any) {
	acceptSSE := strings.Contains(accept, "text/event-stream")
	in := planSummary(cfg, nil, pl)
	delete(in, "handlers")
	delete(in, "viaRawHook")
	in["request"] = fmt.Sprintf("POST tools/call id=%d Accept=%s", reqID, accept)
	isSSE := strings.Contains(r.Header.Get("Content-Type"), "text/event-stream")
	wantSSE := cfg.PostSSE && acceptSSE
	if r.Status == 200 && r.Err != nil {
		// the status line came, the body did not end properly (connection cut / no end within the ceiling): what was read is judged below
		c.Violate(hk.Violation{Fingerprint: fpOf("raw", scen, "stream-aborted"), What: "the response body ended with a read error instead of its proper end", Input: in,
			Observed: map[string]any{"error": trunc(r.Err.Error(), 300), "bytesRead": len(r.Body)}})
	}
	if r.Status != 200 || isSSE != wantSSE {
		c.Violate(hk.Violation{Fingerprint: fpOf("raw", scen, "unexpected-response-mode"), What: "status / content type of the answer", Input: in,
			Observed: map[string]any{"status": r.Status, "contentType": r.Header.Get("Content-Type"), "body": trunc(string(r.Body), 200), "error": fmt.Sprint(r.Err)}})
		return
	}
	var frames []any
	var ids []string
	if isSSE {
		for _, ev := range parseSSE(r.Body) {
			var v any
			if err := json.Unmarshal([]byte(ev.Data), &v); err != nil {
				c.Violate(hk.Violation{Fingerprint: fpOf("raw", scen, "frame-not-json"), What: "an event's data is not one JSON text", Input: in, Observed: trunc(ev.Data, 300)})
				v = "<not json>"
			}
			frames = append(frames, v)
			ids = append(ids, ev.ID)
		}
	} else {
		var v any
		if err := json.Unmarshal(r.Body, &v); err != nil {
			c.Violate(hk.Violation{Fingerprint: fpOf("raw", scen, "body-not-json"), What: "the JSON-mode body is not JSON", Input: in, Observed: trunc(string(r.Body), 300)})
		}
		frames = append(frames, v)
	}
	// ---- oracle: the stream carries every emitted notification, in order, then the answer (model-free)
	wantN := 1
	if isSSE {
		wantN = len(pl.wire()) + 1 // the sender refuses the unencodable ones before writing anything
	}
	if len(frames) != wantN {
		c.Violate(hk.Violation{Fingerprint: fpOf("raw", scen, "frame-count"), What: "number of events on the stream differs from notifications + answer", Input: in,
			Observed: len(frames), Expected: wantN})
	} else {
		if isSSE {
			for k, e := range pl.wire() {
				m, _ := frames[k].(map[string]any)
				params, _ := m["params"].(map[string]any)
				_, seq := whose(map[string]any{"extra": params})
				if m == nil || m["method"] != e.Method || seq != e.Seq || m["id"] != nil {
					c.Violate(hk.Violation{Fingerprint: fpOf("raw", scen, "frame-order"), What: "the k-th event is not the k-th emitted notification", Input: in,
						Observed: map[string]any{"k": k, "frame": truncAny(frames[k])}})
					break
				}
			}
		}
		last, _ := frames[len(frames)-1].(map[string]any)
		if last == nil || canonS(last["id"]) != strconv.Itoa(reqID) || (last["result"] == nil) == !pl.Fail {
			c.Violate(hk.Violation{Fingerprint: fpOf("raw", scen, "answer-not-last"), What: "the last event is not the answer to the request", Input: in, Observed: truncAny(frames[len(frames)-1])})
		}
	}
	tags := append([]string{envTag, burstClass(len(pl.Emits))}, pl.Tags...)
	for _, e := range pl.Emits {
		if e.Unenc != "" {
			tags = append(tags, "raw:unencodable:"+e.K+":"+e.Unenc)
		}
	}
	// ---- oracle: ids on one stream are pairwise distinct
	if isSSE {
		tags = append(tags, "raw:stream")
		seenID := map[string]int{}
		var ms []any
		var ctrs []int64
		wellFormed := true
		for k, id := range ids {
			if j, dup := seenID[id]; dup {
				c.Violate(hk.Violation{Fingerprint: "incall:event-ids:duplicate-on-one-stream",
					What:  "two events of one POST-SSE stream carry the same id",
					Input: in, Observed: map[string]any{"id": id, "events": []int{j, k}, "ids": trunc(canonS(ids), 300)}})
				tags = append(tags, "raw:duplicate-id")
			}
			seenID[id] = k
			m := evtRe.FindStringSubmatch(id)
			if m == nil {
				wellFormed = false
				c.Violate(hk.Violation{Fingerprint: "incall:event-ids:malformed", What: "an event id is not evt-<ms>-<counter>", Input: in, Observed: id})
				continue
			}
			t, _ := strconv.ParseInt(m[1], 10, 64)
			ms = append(ms, t)
			ct, _ := strconv.ParseInt(m[2], 10, 64)
			ctrs = append(ctrs, ct)
		}
		// the counters of one stream: 1..n+1 (one writer object) or 1..n, 1 (sender and responder count separately)
		if wellFormed {
			one, two := true, true
			for k, ct := range ctrs {
				if ct != int64(k+1) {
					one = false
				}
				if (k < len(ctrs)-1 && ct != int64(k+1)) || (k == len(ctrs)-1 && ct != 1) {
					two = false
				}
			}
			if !one && !two {
				c.Violate(hk.Violation{Fingerprint: "incall:event-ids:counter-not-increasing", What: "the event counters of one stream are neither 1..n+1 nor 1..n,1",
					Input: in, Observed: trunc(canonS(ids), 300)})
			}
		}
		if wellFormed && len(ids) > 0 {
			c.Emit(withExtra(map[string]any{"c": "incall.ids", "ms": ms}, extra), map[string]any{"ids": ids}, len(ids) > 1, tags...)
		}
	} else {
		tags = append(tags, "raw:json-body")
	}
	// ---- T-diff: the frames against the model's serverFrames
	if pl.Bytes <= modelLimit {
		var answer map[string]any
		if pl.Fail {
			answer = map[string]any{"err": map[string]any{"code": -32603, "message": "tool execution failed (tool: " + toolName + "): " + pl.Text}}
		} else {
			answer = map[string]any{"ok": map[string]any{"content": []any{map[string]any{"type": "text", "text": pl.Text}}}}
		}
		c.Emit(withExtra(map[string]any{"c": "incall.frames", "sse": isSSE, "reqId": reqID, "emits": pl.emitOps(), "answer": answer}, extra),
			map[string]any{"frames": frames}, len(frames) > 1, tags...)
	} else {
		c.Count("raw-big:"+pl.Nonce, true, nil, append(tags, "oracle-only(big)")...)
	}
}

func withExtra(op, extra map[string]any) map[string]any {
	for k, v := range extra {
		op[k] = v
	}
	return op
}
