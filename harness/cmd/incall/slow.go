package main

import (
	"context"
	"fmt"
	"io"
	"math/rand"
	"net/http"
	"strings"
	"time"

	mcp "trpc.group/trpc-go/trpc-mcp-go"
	"verif/harness/hk"
)

// Slow handlers: "all timings of notifications per call".  The handler emits, then really works (time.Sleep) for
// 1 s / 3 s / 12 s (thorough also 35 s / 65 s: the usual 10 s / 30 s / 60 s proxy and server timeouts), emits again and
// answers.  Every case has its own server, its own client / session, and runs in its own goroutine next to the rest of
// the component, so the run is about as long as the longest pause.  The goroutines only collect; the oracles (the same
// judgeScen / rawJudge as for the generated bursts) and the model lines are evaluated after the join, in the order the
// cases were generated: the output is deterministic.

type slowCase struct {
	cfg     hk.SrvCfg
	pause   time.Duration // total time the handler pauses
	shape   string        // where the pause sits: mid | tail | head | split
	raw     bool          // raw WHATWG peer instead of the real client
	pl      *plan
	profile []string
	reqID   int
	accept  string
	g       *registry
	rc      *rec
	hardCap time.Duration // the join gives the case up after this long (a call that never returns is a failing input)

	done chan struct{} // closed by the case's goroutine after it has written the fields below
	out  outcome
	resp hk.RawResp
}

type slowRun struct {
	start time.Time
	cases []*slowCase
}

func pauseBucket(d time.Duration) string {
	switch {
	case d < 2*time.Second:
		return "pause<2s"
	case d < 10*time.Second:
		return "pause<10s"
	case d < 30*time.Second:
		return "pause>=10s"
	case d < 60*time.Second:
		return "pause>=30s"
	}
	return "pause>=60s"
}

func (cs *slowCase) scen() string { return "slow-handler:" + pauseBucket(cs.pause) }

// genSlowPlan: a few small notifications around the pause(s); everything stays far below modelLimit, so the model
// sees each of these calls.
func genSlowPlan(r *rand.Rand, nonce string, pause time.Duration, shape string) *plan {
	p := &plan{Nonce: nonce, Scenario: fmt.Sprintf("slow handler: pauses %v in all (%s), real time.Sleep in the tool handler", pause, shape)}
	add := func(n int, before time.Duration) {
		for i := 0; i < n; i++ {
			size := []int{0, 1, 7, 30, 100, 1000}[r.Intn(6)]
			e := genEmit(r, nonce, len(p.Emits), size, false)
			if i == 0 {
				e.Pause = before
			}
			p.Bytes += size
			p.Emits = append(p.Emits, e)
		}
	}
	switch shape {
	case "mid": // notifications, pause, notifications, answer
		add(1+r.Intn(3), 0)
		add(1+r.Intn(3), pause)
	case "tail": // notifications, pause, answer
		add(1+r.Intn(3), 0)
		p.TailPause = pause
	case "head": // pause, notifications, answer (the response headers themselves come late)
		add(1+r.Intn(3), pause)
	case "split": // two pauses of half the time each: no single silence is as long as the whole
		add(1, 0)
		add(1+r.Intn(2), pause/2)
		add(1+r.Intn(2), pause-pause/2)
	default:
		panic("shape " + shape)
	}
	p.Fail = r.Intn(6) == 0
	p.Text = nonce + "|" + genString(r, []int{0, 1, 10, 100, 3000}[r.Intn(5)])
	if p.Fail {
		p.Text = nonce + "|boom " + genString(r, r.Intn(20))
	}
	p.ViaRaw = r.Intn(4) == 0
	return p
}

// startSlow generates the cases (own generator derived from the seed: the other cases of the component stay what they
// were) and starts them all.
func startSlow(c *hk.Ctx, allMethods []string) *slowRun {
	r := rand.New(rand.NewSource(c.Seed*7919 + 10))
	pauses := []time.Duration{1 * time.Second, 3 * time.Second, 12 * time.Second}
	if c.Thorough() {
		pauses = append(pauses, 35*time.Second, 65*time.Second)
	}
	// every configuration the component runs; in-call notifications travel on the POST response stream where PostSSE is on
	// (in JSON mode nothing may be delivered and the answer must still arrive)
	envs := []hk.SrvCfg{
		{Mode: "stateful", Get: true, PostSSE: true},
		{Mode: "stateless", Get: false, PostSSE: true},
		{Mode: "sessionsOff", Get: false, PostSSE: true},
		{Mode: "stateful", Get: true, PostSSE: false},
		{Mode: "stateless", Get: false, PostSSE: false},
	}
	run := &slowRun{start: time.Now()}
	n := 0
	add := func(cfg hk.SrvCfg, pause time.Duration, shape string, raw bool) {
		n++
		cs := &slowCase{cfg: cfg, pause: pause, shape: shape, raw: raw, profile: allMethods, reqID: 7000 + n,
			accept: "application/json, text/event-stream", g: newRegistry(), done: make(chan struct{}),
			hardCap: pause + 90*time.Second}
		cs.pl = genSlowPlan(r, fmt.Sprintf("s%d", n), pause, shape)
		cs.rc = cs.g.add(cs.pl)
		run.cases = append(run.cases, cs)
	}
	for _, pause := range pauses {
		for _, cfg := range envs {
			shapes := []string{"mid", "tail", "head", "split"}
			if !cfg.PostSSE {
				shapes = []string{"mid"}
			}
			for _, sh := range shapes {
				add(cfg, pause, sh, false)
			}
			if cfg.PostSSE {
				add(cfg, pause, "mid", true)
				add(cfg, pause, "split", true)
			}
		}
	}
	for _, cs := range run.cases {
		go cs.run()
	}
	return run
}

// rawPostCtx: the raw peer's POST, bounded: the body is read until the server ends it (an event) or the ceiling passes;
// what was read and the read error are both kept.
func rawPostCtx(f *hk.Fixture, hdr map[string]string, body string, ceiling time.Duration) hk.RawResp {
	ctx, cancel := context.WithTimeout(context.Background(), ceiling)
	defer cancel()
	req, err := http.NewRequestWithContext(ctx, "POST", f.URL, strings.NewReader(body))
	if err != nil {
		return hk.RawResp{Err: err}
	}
	req.Header.Set("Content-Type", "application/json")
	for k, v := range hdr {
		req.Header.Set(k, v)
	}
	resp, err := f.HC.Do(req)
	if err != nil {
		return hk.RawResp{Status: 0, Err: err}
	}
	defer resp.Body.Close()
	b, err := io.ReadAll(resp.Body)
	return hk.RawResp{Status: resp.StatusCode, Header: resp.Header, Body: b, Err: err}
}

func (cs *slowCase) run() {
	defer close(cs.done)
	ceiling := cs.pause + 30*time.Second // the waiting side: ends when the call ends, gives up 30 s after the pause
	f := hk.NewFixture(cs.cfg)
	defer f.Close()
	f.S.RegisterTool(mcp.NewTool(toolName, mcp.WithDescription("emits, works for a while, emits, answers")), cs.g.toolHandler)
	if cs.raw {
		sess := rawHandshake(f)
		hdr := map[string]string{"Accept": cs.accept}
		for k, v := range sess {
			hdr[k] = v
		}
		body := canonS(map[string]any{"jsonrpc": "2.0", "id": cs.reqID, "method": "tools/call",
			"params": map[string]any{"name": toolName, "arguments": map[string]any{"nonce": cs.pl.Nonce}}})
		cs.resp = rawPostCtx(f, hdr, body, ceiling)
		return
	}
	// the real client: http.Client{} without Timeout, no deadline but the context's
	cl, err := mcp.NewClient(f.URL, mcp.Implementation{Name: "verif-client", Version: "1"},
		mcp.WithClientLogger(hk.QuietLogger{}), mcp.WithClientGetSSEEnabled(false))
	if err != nil {
		panic(err)
	}
	defer cl.Close()
	for _, m := range cs.profile {
		cl.RegisterNotificationHandler(m, cs.g.clientHandler)
	}
	ictx, cancel := context.WithTimeout(context.Background(), 30*time.Second)
	_, err = cl.Initialize(ictx, &mcp.InitializeRequest{})
	cancel()
	if err != nil {
		panic(fmt.Sprintf("slow handler case: initialize (%+v): %v", cs.cfg, err))
	}
	cs.out = doCallT(cl, cs.pl, cs.rc, ceiling)
	time.Sleep(30 * time.Millisecond) // grace for stragglers (a handler still running after its call returned is a violation)
}

func durTag(d time.Duration) string { return fmt.Sprintf("%ds", int(d/time.Second)) }

// join waits for every case (bounded), then judges and emits them in generation order.
func (run *slowRun) join(c *hk.Ctx) {
	for _, cs := range run.cases {
		out, resp := outcome{reqID: 1}, hk.RawResp{}
		wait := time.Until(run.start.Add(cs.hardCap))
		if wait < time.Millisecond {
			wait = time.Millisecond
		}
		tm := time.NewTimer(wait)
		select {
		case <-cs.done:
			tm.Stop()
			out, resp = cs.out, cs.resp
		case <-tm.C:
			// neither the answer nor the context's deadline ended the call: a failing input, not a hang of the check
			msg := fmt.Sprintf("the call had not returned %v after it was issued (handler pauses %v in all; the caller's context deadline was %v)",
				cs.hardCap, cs.pause, cs.pause+30*time.Second)
			out.callErr = msg
			resp.Err = fmt.Errorf("%s", msg)
		}
		scen := cs.scen()
		extra := map[string]any{"scenario": "slow-handler", "pauseMs": int(cs.pause / time.Millisecond), "shape": cs.shape}
		envTag := fmt.Sprintf("%s/postSSE=%v", cs.cfg.Mode, cs.cfg.PostSSE)
		if cs.raw {
			rawJudge(c, scen, cs.cfg, "raw-slow:"+envTag, cs.pl, cs.reqID, cs.accept, resp, extra)
			c.Tag("slow:raw:pause=" + durTag(cs.pause))
			c.Tag("slow:raw:shape=" + cs.shape)
			continue
		}
		judgeScen(c, scen, cs.cfg, cs.profile, cs.pl, cs.rc, out)
		tags := []string{"e2e-slow:" + envTag, "slow:pause=" + durTag(cs.pause), "slow:shape=" + cs.shape, burstClass(len(cs.pl.Emits))}
		if cs.pl.ViaRaw {
			tags = append(tags, "via=transport-hook")
		} else {
			tags = append(tags, "via=CallTool")
		}
		emitCall(c, cs.cfg, cs.profile, cs.pl, out, extra, tags)
		cs.g.mu.Lock()
		stray := cs.g.stray
		cs.g.mu.Unlock()
		if len(stray) > 0 {
			c.Violate(hk.Violation{Fingerprint: fpOf("sse", scen, "notification-of-no-call"), What: "a handler received a notification that belongs to no call (content altered?)",
				Input: planSummary(cs.cfg, cs.profile, cs.pl), Observed: truncAny(stray[0])})
		}
	}
}
