package main

import (
	"encoding/json"

	mcp "trpc.group/trpc-go/trpc-mcp-go"
	"verif/harness/hk"
)

func paramsView(meta, extra map[string]interface{}) map[string]any {
	return norm(map[string]any{"meta": mapOrEmpty(meta), "extra": mapOrEmpty(extra)}).(map[string]any)
}

// runParams: NotificationParams.MarshalJSON / UnmarshalJSON and NewNotification's split against the model, on
// generated values: Meta nil / empty / object, additional fields nil / empty / with and without their own `_meta` of
// every JSON type; UnmarshalJSON also on values that are no objects.
func runParams(c *hk.Ctx, n int) {
	r := c.Rng
	genObj := func(allowMetaKey bool) map[string]interface{} {
		switch r.Intn(6) {
		case 0:
			return nil
		case 1:
			return map[string]interface{}{}
		}
		m := map[string]interface{}{}
		for i := r.Intn(4); i > 0; i-- {
			m[genKey(r)] = genValue(r, 2)
		}
		if allowMetaKey && r.Intn(2) == 0 {
			if v, ok := genMeta(r, metaKinds[2+r.Intn(len(metaKinds)-2)]); ok {
				m["_meta"] = v
			}
		}
		return norm(m).(map[string]interface{})
	}
	for i := 0; i < n; i++ {
		var op map[string]any
		var p mcp.NotificationParams
		tags := []string{}
		if i%3 == 2 {
			fs := genObj(true)
			if fs == nil {
				fs = map[string]interface{}{}
			}
			op = map[string]any{"c": "incall.params", "kind": "new", "fs": deepCopy(fs)}
			p = mcp.NewNotification("m", fs).Params
			tags = append(tags, "params:NewNotification")
		} else {
			p = mcp.NotificationParams{Meta: genObj(false), AdditionalFields: genObj(true)}
			op = map[string]any{"c": "incall.params", "kind": "raw", "meta": mapOrEmpty(p.Meta), "extra": mapOrEmpty(p.AdditionalFields)}
			tags = append(tags, "params:struct")
		}
		if _, has := p.AdditionalFields["_meta"]; has {
			tags = append(tags, "params:_meta-among-additional-fields")
		}
		if len(p.Meta) > 0 {
			tags = append(tags, "params:Meta-nonempty")
		}
		split := paramsView(p.Meta, p.AdditionalFields)
		b, err := json.Marshal(p)
		if err != nil {
			c.Violate(hk.Violation{Fingerprint: "incall:params:marshal-error", What: "NotificationParams.MarshalJSON failed", Input: op, Observed: err.Error()})
			continue
		}
		var wire any
		json.Unmarshal(b, &wire)
		var back mcp.NotificationParams
		impl := map[string]any{"split": split, "wire": wire}
		if err := json.Unmarshal(b, &back); err != nil {
			impl["back"] = map[string]any{"error": err.Error()}
		} else {
			impl["back"] = paramsView(back.Meta, back.AdditionalFields)
		}
		// the statement itself, model-free: Meta and additional fields without a `_meta` key come back as they were
		if _, has := p.AdditionalFields["_meta"]; !has && canonS(impl["back"]) != canonS(split) {
			c.Violate(hk.Violation{Fingerprint: "incall:params:roundtrip", What: "unmarshal(marshal(p)) differs from p (no `_meta` among the additional fields)",
				Input: op, Observed: impl["back"], Expected: split})
		}
		c.Emit(op, impl, len(p.Meta) > 0 || len(p.AdditionalFields) > 0, tags...)
	}
	// UnmarshalJSON on arbitrary JSON values
	vals := []any{nil, map[string]any{}, []any{}, []any{float64(1)}, float64(3), "s", true, false,
		map[string]any{"_meta": map[string]any{}}, map[string]any{"_meta": nil, "a": float64(1)}, map[string]any{"_meta": "x"},
		map[string]any{"_meta": map[string]any{"progressToken": "t"}, "b": []any{}}}
	for i := 0; i < n/4; i++ {
		vals = append(vals, genValue(r, 2), map[string]any(genObj(true)))
	}
	for _, v := range vals {
		if m, ok := v.(map[string]any); ok && m == nil {
			v = nil
		}
		b, _ := json.Marshal(v)
		var p mcp.NotificationParams
		var impl any
		if err := json.Unmarshal(b, &p); err != nil {
			impl = map[string]any{"error": true}
		} else {
			impl = map[string]any{"ok": paramsView(p.Meta, p.AdditionalFields)}
		}
		_, isObj := v.(map[string]any)
		c.Emit(map[string]any{"c": "incall.unmarshal", "v": v}, impl, isObj, "params:UnmarshalJSON")
	}
}
