package main

// Burst scenarios: several hundred numbered notifications (some of them large) are sent to one session while its peer is not
// reading, then the peer drains. Model-free oracle, on all three server kinds: the sends that reported success arrive
// exactly once and in sending order, the sends that reported failure do not arrive, another session's stream sees nothing.
// (How many sends fail depends on how far the server's writer got: the queues' capacity is not modelled, overflow is
// judged here only.)

import (
	"bufio"
	"context"
	"encoding/json"
	"fmt"
	"net"
	"net/http"
	"net/http/httptest"
	"net/url"
	"strings"
	"sync"
	"time"

	"verif/harness/hk"

	mcp "trpc.group/trpc-go/trpc-mcp-go"
)

// pausedSSE is a raw SSE peer that reads its stream only when asked to.
type pausedSSE struct {
	conn net.Conn
	br   *bufio.Reader
	resp *http.Response
	rd   *bufio.Reader
}

func dialSSE(rawURL string) (*pausedSSE, error) {
	u, err := url.Parse(rawURL)
	if err != nil {
		return nil, err
	}
	conn, err := net.Dial("tcp", u.Host)
	if err != nil {
		return nil, err
	}
	fmt.Fprintf(conn, "GET %s HTTP/1.1\r\nHost: %s\r\nAccept: text/event-stream\r\n\r\n", u.RequestURI(), u.Host)
	br := bufio.NewReaderSize(conn, 1<<16)
	resp, err := http.ReadResponse(br, nil)
	if err != nil {
		conn.Close()
		return nil, err
	}
	if resp.StatusCode != 200 {
		conn.Close()
		return nil, fmt.Errorf("status %d", resp.StatusCode)
	}
	return &pausedSSE{conn: conn, br: br, resp: resp, rd: bufio.NewReaderSize(resp.Body, 1<<20)}, nil
}

// next reads one event's data (WHATWG framing, data lines joined).
func (p *pausedSSE) next() (string, error) {
	var data []string
	has := false
	for {
		line, err := p.rd.ReadString('\n')
		if err != nil {
			return "", err
		}
		line = strings.TrimSuffix(strings.TrimSuffix(line, "\n"), "\r")
		if line == "" {
			if has {
				return strings.Join(data, "\n"), nil
			}
			continue
		}
		if strings.HasPrefix(line, "data:") {
			data = append(data, strings.TrimPrefix(strings.TrimPrefix(line, "data:"), " "))
			has = true
		}
	}
}

func (p *pausedSSE) close() { p.conn.Close() }

type burstSend struct {
	tag int
	ok  bool
}

// judgeBurst compares what arrived with what was sent.
func judgeBurst(c *hk.Ctx, kind string, sends []burstSend, got []int, other []int) {
	var okTags []int
	failed := map[int]bool{}
	for _, s := range sends {
		if s.ok {
			okTags = append(okTags, s.tag)
		} else {
			failed[s.tag] = true
		}
	}
	nFail := len(sends) - len(okTags)
	c.SetExtra("burst-"+kind, map[string]any{"sent": len(sends), "reported_ok": len(okTags), "reported_failed": nFail, "arrived": len(got)})
	c.Count("burst-"+kind, nFail > 0, map[string]any{"kind": "burst", "server": kind, "sent": len(sends), "reported_ok": len(okTags), "reported_failed": nFail, "arrived": len(got)}, "burst-"+kind)
	for _, t := range got {
		if failed[t] {
			c.Violate(hk.Violation{Fingerprint: "routing:burst:failed-send-delivered:" + kind, What: "a notification whose send reported failure arrived on the session's stream",
				Input: map[string]any{"server": kind, "burst": len(sends)}, Observed: map[string]any{"tag": t}})
			break
		}
	}
	same := len(got) == len(okTags)
	first := -1
	for i := 0; same && i < len(got); i++ {
		if got[i] != okTags[i] {
			same = false
			first = i
		}
	}
	if !same {
		if first < 0 {
			first = min(len(got), len(okTags))
			for i := 0; i < min(len(got), len(okTags)); i++ {
				if got[i] != okTags[i] {
					first = i
					break
				}
			}
		}
		lo, hi := max(0, first-2), first+6
		clipTo := func(a []int) []int { return a[min(lo, len(a)):min(hi, len(a))] }
		c.Violate(hk.Violation{Fingerprint: "routing:burst:not-once-in-order:" + kind,
			What:     "notifications sent in a burst while the peer was not reading: the sends that reported success did not arrive exactly once in sending order",
			Input:    map[string]any{"server": kind, "burst": len(sends), "reported_ok": len(okTags), "reported_failed": nFail},
			Observed: map[string]any{"arrived": len(got), "first_divergence_at": first, "arrived_there": clipTo(got), "sent_ok_there": clipTo(okTags)}})
	}
	if len(other) > 0 {
		c.Violate(hk.Violation{Fingerprint: "routing:burst:frame-on-foreign-stream:" + kind, What: "a burst addressed to one session put frames on another session's stream",
			Input: map[string]any{"server": kind}, Observed: map[string]any{"tags": other[:min(len(other), 8)]}})
	}
}

func burstParams(i int, big bool) map[string]interface{} {
	p := map[string]interface{}{"tag": i}
	if big {
		p["pad"] = strings.Repeat("x", 16<<10)
	} else if i%7 == 0 {
		p["pad"] = strings.Repeat("y", 3000)
	}
	return p
}

func tagOf(data string) (int, bool) {
	var m wireMsg
	if json.Unmarshal([]byte(data), &m) != nil || m.Method != "notifications/message" || m.Params.Tag == nil {
		return 0, false
	}
	return *m.Params.Tag, true
}

func runBurst(c *hk.Ctx) {
	n := 400
	if c.Thorough() {
		n = 1500
	}
	burstLegacy(c, n)
	burstStdio(c, n)
	burstStreamable(c, n/2)
}

func burstLegacy(c *hk.Ctx, n int) {
	srv := mcp.NewSSEServer("verif-sse", "1.0", mcp.WithSSEServerLogger(hk.QuietLogger{}), mcp.WithKeepAlive(false))
	ts := httptest.NewUnstartedServer(srv)
	ts.Config.ErrorLog = hk.QuietStdLog()
	ts.Start()
	defer func() { ts.CloseClientConnections(); ts.Close() }()
	hc := &http.Client{Transport: &http.Transport{MaxIdleConnsPerHost: 8}}
	defer hc.CloseIdleConnections()
	open := func() (*pausedSSE, string, string) {
		p, err := dialSSE(ts.URL + srv.SSEPath())
		if err != nil {
			return nil, "", ""
		}
		ep, err := p.next()
		if err != nil {
			p.close()
			return nil, "", ""
		}
		if strings.HasPrefix(ep, "/") {
			ep = ts.URL + ep
		}
		u, _ := url.Parse(ep)
		post := func(body string) {
			if r, err := hc.Post(ep, "application/json", strings.NewReader(body)); err == nil {
				r.Body.Close()
			}
		}
		post(initBody)
		post(`{"jsonrpc":"2.0","method":"notifications/initialized"}`)
		return p, u.Query().Get("sessionId"), ep
	}
	a, sidA, _ := open()
	b, _, _ := open()
	if a == nil || b == nil {
		c.Violate(hk.Violation{Fingerprint: "routing:harness:burst-open:legacy-sse", What: "could not open the paused peers"})
		return
	}
	defer a.close()
	defer b.close()
	// the peers are not reading now
	var sends []burstSend
	for i := 0; i < n; i++ {
		err := srv.SendNotification(sidA, "notifications/message", burstParams(i, i%3 == 0))
		sends = append(sends, burstSend{i, err == nil})
	}
	got, other := drainPaused(a, b, func() error { return srv.SendNotification(sidA, "notifications/message", tagParams(-1)) }, countOK(sends))
	judgeBurst(c, "legacy-sse", sends, got, other)
}

func countOK(s []burstSend) int {
	k := 0
	for _, x := range s {
		if x.ok {
			k++
		}
	}
	return k
}

// drainPaused lets peer a read until everything that was accepted has arrived (and a sentinel sent after the burst, once the
// server accepts one); peer b is read for a moment: nothing addressed to a may show up there.
func drainPaused(a, b *pausedSSE, sentinel func() error, want int) (got []int, other []int) {
	var mu sync.Mutex
	sawSentinel := make(chan struct{})
	done := make(chan struct{})
	go func() {
		defer close(done)
		closed := false
		for {
			d, err := a.next()
			if err != nil {
				return
			}
			if t, ok := tagOf(d); ok {
				if t < 0 {
					if !closed {
						close(sawSentinel)
						closed = true
					}
					continue
				}
				mu.Lock()
				got = append(got, t)
				mu.Unlock()
			}
		}
	}()
	// the sentinel goes through the same path as the burst: retry until the server accepts it
	deadline := time.Now().Add(waitCeiling())
	accepted := false
	for time.Now().Before(deadline) {
		err := sentinel()
		if err == nil {
			accepted = true
			break
		}
		if !strings.Contains(err.Error(), "full") {
			break // refused for another reason than a full buffer: it will never be accepted
		}
		time.Sleep(time.Millisecond)
	}
	if accepted {
		select {
		case <-sawSentinel:
		case <-time.After(waitCeiling()):
			degraded.Store(true)
		}
	}
	// everything accepted before the sentinel has been written before it, unless frames overtook: give stragglers a bounded wait
	waitUntilShort(func() bool { mu.Lock(); defer mu.Unlock(); return len(got) >= want })
	// the other session: whatever is already buffered for it
	b.conn.SetReadDeadline(time.Now().Add(150 * time.Millisecond))
	for {
		d, err := b.next()
		if err != nil {
			break
		}
		if t, ok := tagOf(d); ok && t >= 0 {
			other = append(other, t)
		}
	}
	a.conn.SetReadDeadline(time.Now())
	<-done
	mu.Lock()
	defer mu.Unlock()
	return append([]int{}, got...), other
}

func waitUntilShort(cond func() bool) {
	deadline := time.Now().Add(2 * time.Second)
	for !cond() && time.Now().Before(deadline) {
		time.Sleep(time.Millisecond)
	}
}

func burstStdio(c *hk.Ctx, n int) {
	b := newStdio(c, 0)
	defer b.close()
	b.gate.Lock() // the peer stops reading the server's stdout
	var sends []burstSend
	for i := 0; i < n; i++ {
		err := b.notifyParams(burstParams(i, i%3 == 0))
		sends = append(sends, burstSend{i, err == nil})
	}
	b.gate.Unlock()
	deadline := time.Now().Add(waitCeiling())
	for b.notify(-1) != nil && time.Now().Before(deadline) {
		time.Sleep(time.Millisecond)
	}
	want := countOK(sends)
	tags := func() (out []int, sentinel bool) {
		for _, l := range b.snapshot() {
			if t, ok := tagOf(l); ok {
				if t < 0 {
					sentinel = true
				} else {
					out = append(out, t)
				}
			}
		}
		return
	}
	waitUntil(func() bool { _, s := tags(); return s })
	waitUntilShort(func() bool { g, _ := tags(); return len(g) >= want })
	got, _ := tags()
	judgeBurst(c, "stdio", sends, got, nil)
}

func burstStreamable(c *hk.Ctx, n int) {
	f := hk.NewFixture(hk.SrvCfg{Mode: "stateful", Get: true, PostSSE: false})
	defer f.Close()
	open := func() (string, *hk.Stream) {
		r := f.Post(nil, initBody)
		sid := r.Header.Get("Mcp-Session-Id")
		f.Post(map[string]string{"Mcp-Session-Id": sid}, `{"jsonrpc":"2.0","method":"notifications/initialized"}`)
		_, _, st, _ := f.OpenStream(map[string]string{"Mcp-Session-Id": sid})
		return sid, st
	}
	sidA, stA := open()
	_, stB := open()
	if stA == nil || stB == nil {
		c.Violate(hk.Violation{Fingerprint: "routing:harness:burst-open:streamable", What: "could not open the streams"})
		return
	}
	defer stA.CloseByClient()
	defer stB.CloseByClient()
	// the Streamable server writes synchronously (no queue): the peer keeps reading, four senders at once
	var mu sync.Mutex
	var sends []burstSend
	var wg sync.WaitGroup
	next := 0
	for w := 0; w < 4; w++ {
		wg.Add(1)
		go func() {
			defer wg.Done()
			for {
				mu.Lock()
				i := next
				next++
				mu.Unlock()
				if i >= n {
					return
				}
				// the send and the record of its order are one step: the stream order is the order of the write lock
				mu.Lock()
				err := f.S.SendNotification(sidA, "notifications/message", burstParams(i, i%3 == 0))
				sends = append(sends, burstSend{i, err == nil})
				mu.Unlock()
			}
		}()
	}
	wg.Wait()
	_ = f.S.SendNotification(sidA, "notifications/message", tagParams(-1))
	waitUntil(func() bool { _, k := classifyFrames(datasOf(stA)); return k >= 1 })
	snA, _ := classifyFrames(datasOf(stA))
	snB, _ := classifyFrames(datasOf(stB))
	judgeBurst(c, "streamable", sends, snA.notif, snB.notif)
}

// runCancelled: server-issued requests whose context is already cancelled when they are issued (and requests cancelled at
// once) must leave nothing in the pending table, on all three server kinds.
func runCancelled(c *hk.Ctx) {
	n := 30
	check := func(kind string, srv any, call func(ctx context.Context) error, base context.Context) {
		for i := 0; i < n; i++ {
			ctx, cancel := context.WithCancel(base)
			if i%2 == 0 {
				cancel() // already cancelled when the request is issued
			} else {
				go cancel() // cancelled while it is being issued
			}
			_ = call(ctx)
			cancel()
		}
		left := mcp.VerifPendingServerRequests(srv)
		c.Count("cancelled-"+kind, true, map[string]any{"kind": "cancelled-requests", "server": kind, "requests": n, "left_pending": left}, "cancelled-"+kind)
		if left != 0 {
			c.Violate(hk.Violation{Fingerprint: "routing:pending-not-empty-after-cancelled-request:" + kind,
				What:     "server-issued requests (ListRoots) whose context was already cancelled, or cancelled while they were being issued, left entries in the pending table after they returned",
				Input:    map[string]any{"server": kind, "requests": n, "every_second_context": "cancelled before the call"},
				Observed: map[string]any{"entries_left": left}, Expected: 0})
		}
	}
	{
		b := newStreamable(c, false, 0)
		if r := b.exec(op{T: "newSession"}); strings.HasPrefix(r, "sid:") && b.exec(op{T: "openStream", S: ip(0)}) == "ok" {
			check("streamable", b.f.S, func(ctx context.Context) error { _, err := b.f.S.ListRoots(ctx); return err }, b.ctxs[0])
		}
		b.close()
	}
	{
		b := newLegacy(c, 0)
		if r := b.exec(op{T: "newSession"}); strings.HasPrefix(r, "sid:") {
			check("legacy-sse", b.srv, func(ctx context.Context) error { _, err := b.srv.ListRoots(ctx); return err }, b.ctxs[0])
		}
		b.close()
	}
	{
		b := newStdio(c, 0)
		check("stdio", b.srv, func(ctx context.Context) error { _, err := b.srv.ListRoots(ctx); return err }, b.sctx)
		b.close()
	}
}

// runSendAtHeaders: a send issued the moment the peer has the response headers of its GET must reach that stream and be
// counted by a broadcast. The GET handler is held at its scheduling point right after the header flush (`get:flushed`,
// build tag verif) while the sends are made.
func runSendAtHeaders(c *hk.Ctx) {
	f := hk.NewFixture(hk.SrvCfg{Mode: "stateful", Get: true, PostSSE: false})
	defer f.Close()
	r := f.Post(nil, initBody)
	sid := r.Header.Get("Mcp-Session-Id")
	f.Post(map[string]string{"Mcp-Session-Id": sid}, `{"jsonrpc":"2.0","method":"notifications/initialized"}`)
	hold := make(chan struct{})
	at := make(chan struct{}, 1)
	mcp.VerifSetYield(func(point string, req *http.Request) {
		if point == "get:flushed" && req != nil && req.Header.Get("Mcp-Session-Id") == sid {
			select {
			case at <- struct{}{}:
			default:
			}
			select {
			case <-hold:
			case <-time.After(ceiling):
			}
		}
	})
	defer mcp.VerifSetYield(nil)
	status, _, st, err := f.OpenStream(map[string]string{"Mcp-Session-Id": sid}) // returns when the peer has the headers
	if err != nil || status != 200 {
		close(hold)
		return
	}
	defer st.CloseByClient()
	select {
	case <-at:
	case <-time.After(waitCeiling()):
	}
	e1 := f.S.SendNotification(sid, "notifications/message", tagParams(1))
	n, e2 := f.S.BroadcastNotification("notifications/message", tagParams(2))
	close(hold)
	_ = f.S.SendNotification(sid, "notifications/message", tagParams(-1))
	waitUntilShort(func() bool { _, k := classifyFrames(datasOf(st)); return k >= 1 })
	sn, _ := classifyFrames(datasOf(st))
	c.Count("send-at-headers", true, map[string]any{"kind": "send-at-headers", "send_err": fmt.Sprint(e1), "broadcast": n, "broadcast_err": fmt.Sprint(e2), "seen": sn.notif}, "send-at-headers")
	if e1 != nil || e2 != nil || n != 1 || len(sn.notif) != 2 || sn.notif[0] != 1 || sn.notif[1] != 2 {
		c.Violate(hk.Violation{Fingerprint: "routing:send-at-headers-not-delivered:streamable",
			What:     "a notification sent (and a broadcast made) the moment the peer had received the response headers of its GET stream did not reach that stream / was not counted",
			Input:    map[string]any{"history": "initialize; GET (peer has the 200 headers, the handler stands right after its header flush); SendNotification(session); BroadcastNotification"},
			Observed: map[string]any{"send_error": fmt.Sprint(e1), "broadcast_count": n, "broadcast_error": fmt.Sprint(e2), "frames_on_stream": sn.notif},
			Expected: map[string]any{"send_error": "<nil>", "broadcast_count": 1, "frames_on_stream": []int{1, 2}}})
	}
}
