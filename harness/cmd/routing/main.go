// Component "routing" (property C05): server-initiated traffic reaches exactly the addressed session.
//
// Op histories over up to six sessions, one raw reference peer per session, on the real Streamable server (hk.Fixture +
// hk.Stream), the real legacy SSE server and the real stdio server (io.Pipe): SendNotification / BroadcastNotification /
// SendFilteredNotification / ListRoots interleaved with stream opens and closes, session deletes and client POSTs from any
// session — including a second session posting an answer with the id of a request sent to another one. Every send carries a
// nonce. Observations: the value every API call returned, the frames every peer saw on its stream (census per kind), the size
// of the pending table after quiescence. The same history runs through the Lean model (`routing.run`) and is diffed; model-free
// oracles restate the property on the history: a frame is seen only on the stream of the session it was sent to, at most
// once, in sending order per kind; a broadcast's count equals the number of streams that got it; an accepted answer was
// posted by the addressee; nothing stays pending.
package main

import (
	"context"
	"encoding/json"
	"fmt"
	"os"
	"strconv"
	"strings"
	"sync"
	"time"

	"verif/harness/hk"

	mcp "trpc.group/trpc-go/trpc-mcp-go"
)

const ceiling = 10 * time.Second

func main() {
	if os.Getenv(childEnv) != "" {
		childMain() // this binary re-executed as the real stdio server of the end-to-end part
		return
	}
	hk.Main(&hk.Component{Name: "routing", Rule: "histories generated op by op from the seed over {newSession, delSession, openStream, closeStream, send, broadcast, filtered(subset), request(ListRoots), postAnswer(poster in {addressee, other session}, id in {right id, as string, as x.0, unknown}), settle}; " +
		"<= 6 sessions, length 12..40 (thorough 40..120), plus fixed histories: two sessions / foreign answer, broadcast with none/some/all streams, send to a session without stream / deleted / never created, request counter advanced to 999999, stateless server; " +
		"non-trivial = a history with at least two sessions holding open streams and at least one send that reached some but not all of them; " +
		"end to end: 3 (thorough 6) real clients per HTTP server kind with different roots call a tool whose handler calls ListRoots, 6 (40) times each, all at once; one real stdio client; a 70 KB notification followed by a small one on a real Streamable client's GET stream",
		Run: run})
}

// ---------------------------------------------------------------- ops

type op struct {
	T       string `json:"t"`
	S       *int   `json:"s,omitempty"`
	M       *int   `json:"m,omitempty"`
	Sel     []int  `json:"sel"`
	P       *int   `json:"p,omitempty"`
	ID      any    `json:"id,omitempty"`
	Payload *int   `json:"payload,omitempty"`
	Shape   string `json:"shape,omitempty"` // postAnswer: "error" = a JSON-RPC error answer (default: a result)
	For     *int   `json:"for,omitempty"`   // postAnswer: tag of the request the answer is aimed at (harness bookkeeping)
}

func ip(i int) *int { return &i }

// frames a peer saw, by kind
type seen struct {
	notif []int   // tags
	reqID []int64 // ids of roots/list (and other) requests
}

type wireMsg struct {
	ID     json.RawMessage `json:"id"`
	Method string          `json:"method"`
	Params struct {
		Tag *int `json:"tag"`
	} `json:"params"`
}

func classifyFrames(datas []string) (s seen, sentinels int) {
	for _, d := range datas {
		var m wireMsg
		if json.Unmarshal([]byte(d), &m) != nil || m.Method == "" {
			continue
		}
		if m.Method == "sentinel" {
			sentinels++
			continue
		}
		if len(m.ID) > 0 && string(m.ID) != "null" {
			id, _ := strconv.ParseInt(string(m.ID), 10, 64)
			s.reqID = append(s.reqID, id)
			continue
		}
		if m.Params.Tag != nil {
			if *m.Params.Tag < 0 {
				sentinels++
				continue
			}
			s.notif = append(s.notif, *m.Params.Tag)
		}
	}
	return
}

func classifyErr(kind string, err error) string {
	if err == nil {
		return "ok"
	}
	t := err.Error()
	switch {
	case strings.Contains(t, "stateless mode"):
		return "err:stateless"
	case strings.Contains(t, "failed to broadcast notification"), strings.Contains(t, "failed to send filtered notification"):
		return "err:allFailed"
	case strings.Contains(t, "no GET SSE connection"):
		return "err:noStream"
	case strings.Contains(t, "failed to send notification via SSE"), strings.Contains(t, "failed to send request via SSE"):
		return "err:writeFailed"
	case strings.Contains(t, "session not initialized"):
		return "err:notInitialized"
	case strings.Contains(t, "session not found"):
		if kind == "streamable-send" {
			return "err:noStream" // SendNotification on the Streamable server: no stream registered under that id
		}
		return "err:notFound"
	case strings.Contains(t, "context canceled"), strings.Contains(t, "deadline exceeded"):
		return "failed"
	}
	return "err:other:" + t
}

// waiter is one outstanding ListRoots call.
type waiter struct {
	tag    int
	to     int
	id     int64
	cancel context.CancelFunc
	done   chan string // "answered:<payload>" | "failed" | "err:…"
}

func rootsPayload(res *mcp.ListRootsResult, err error, kind string) string {
	if err != nil {
		return classifyErr(kind, err)
	}
	if res != nil && len(res.Roots) == 0 {
		return "answered:errshape" // ListRoots decodes an accepted {"error":…} answer into an empty roots list
	}
	if res == nil || len(res.Roots) != 1 {
		return "answered:?"
	}
	return "answered:" + res.Roots[0].Name
}

func answerBody(rawID string, payload int) string {
	return fmt.Sprintf(`{"jsonrpc":"2.0","id":%s,"result":{"roots":[{"uri":"file:///p%d","name":"%d"}]}}`, rawID, payload, payload)
}

// answerBodyOf: the body a session posts for op o (a result, or a JSON-RPC error answer).
func answerBodyOf(o op) string {
	if o.Shape == "error" {
		return fmt.Sprintf(`{"jsonrpc":"2.0","id":%s,"error":{"code":-32000,"message":"refused %d"}}`, rawID(o.ID), *o.Payload)
	}
	return answerBody(rawID(o.ID), *o.Payload)
}

// backend is one real server with its reference peers.
type backend interface {
	name() string
	modelSrv() string
	exec(o op) string
	census() (map[string]map[string][]int, int) // per model session: tags per kind; pending table size
	close()
}

// common bookkeeping shared by the three backends
type book struct {
	mu       sync.Mutex
	waiters  map[int]*waiter // by request tag
	idToTag  map[int64]int
	poster   map[int]int // payload -> posting session
	errFor   map[int]int // request tag -> payload of the (one) error-shaped answer aimed at it
	srv      any         // the real server (for the hooks)
	kind     string
	reqKinds string
}

// notePost records who posted which payload (and which request an error-shaped answer is aimed at).
func (b *book) notePost(o op) {
	b.poster[*o.Payload] = *o.P
	if o.Shape == "error" && o.For != nil {
		if b.errFor == nil {
			b.errFor = map[int]int{}
		}
		b.errFor[*o.For] = *o.Payload
	}
}

func (b *book) settle(m int) string {
	r := b.settle1(m)
	if r == "answered:errshape" || r == "late:answered:errshape" {
		// an error-shaped answer was accepted: at most one such answer is ever aimed at a request
		if pl, ok := b.errFor[m]; ok {
			return strings.Replace(r, "answered:errshape", fmt.Sprintf("answered:%d:%d", b.poster[pl], pl), 1)
		}
	}
	return r
}

func (b *book) settle1(m int) string {
	w := b.waiters[m]
	if w == nil {
		return "err:disabled"
	}
	select {
	case r := <-w.done:
		delete(b.waiters, m)
		return b.render(r)
	default:
	}
	exists, filled := mcp.VerifPendingSlot(b.srv, w.id)
	if !exists || filled {
		// the answer is in the channel (or already consumed): the call returns by itself
		select {
		case r := <-w.done:
			delete(b.waiters, m)
			return b.render(r)
		case <-time.After(waitCeiling()):
			degraded.Store(true)
			w.cancel()
			r := <-w.done
			delete(b.waiters, m)
			return "late:" + b.render(r)
		}
	}
	w.cancel()
	r := <-w.done
	delete(b.waiters, m)
	return b.render(r)
}

func (b *book) render(r string) string {
	if strings.HasPrefix(r, "answered:") {
		pl := strings.TrimPrefix(r, "answered:")
		n, err := strconv.Atoi(pl)
		if err != nil {
			return r
		}
		return fmt.Sprintf("answered:%d:%d", b.poster[n], n)
	}
	return r
}

// ---------------------------------------------------------------- history generation (op by op, from the seed)

type gen struct {
	c         *hk.Ctx
	be        backend
	nSess     int          // sessions ever created (model ids 0..nSess-1)
	alive     map[int]bool // per model session
	stream    map[int]bool
	nextTag   int
	nextPl    int
	out       map[int]*waiter // outstanding request tags (generator's view)
	ops       []op
	rets      []string
	maxSess   int
	hasBcast  bool
	multi     bool // supports several sessions
	partial   bool // some send reached some but not all sessions with streams
	twoStream bool
	errPosted map[int]bool
}

func (g *gen) do(o op) string {
	r := g.be.exec(o)
	g.ops = append(g.ops, o)
	g.rets = append(g.rets, r)
	return r
}

func (g *gen) tag() int { g.nextTag++; return g.nextTag }

func (g *gen) anySession(aliveOnly bool) int {
	var xs []int
	for i := 0; i < g.nSess; i++ {
		if !aliveOnly || g.alive[i] {
			xs = append(xs, i)
		}
	}
	if len(xs) == 0 || (!aliveOnly && g.c.Rng.Intn(12) == 0) {
		return g.nSess + 3 // a session that was never created
	}
	return xs[g.c.Rng.Intn(len(xs))]
}

func (g *gen) newSession() {
	r := g.do(op{T: "newSession"})
	if strings.HasPrefix(r, "sid:") {
		g.alive[g.nSess] = true
		if g.be.modelSrv() == "legacy" {
			g.stream[g.nSess] = true
		}
		g.nSess++
	}
}

func (g *gen) request(s int) {
	m := g.tag()
	r := g.do(op{T: "request", S: ip(s), M: ip(m)})
	if strings.HasPrefix(r, "issued:") {
		id, _ := strconv.ParseInt(strings.TrimPrefix(r, "issued:"), 10, 64)
		g.out[m] = &waiter{tag: m, to: s, id: id}
	}
}

func (g *gen) post(poster int, w *waiter, form string) {
	g.postShape(poster, w, form, "")
}

// postShape: shape "error" posts a JSON-RPC error answer; at most one error-shaped answer is aimed at a request (ListRoots
// hides the error's text, so the accepted one is identified by the request it was aimed at).
func (g *gen) postShape(poster int, w *waiter, form, shape string) {
	if shape == "error" {
		if g.errPosted == nil {
			g.errPosted = map[int]bool{}
		}
		if g.errPosted[w.tag] {
			shape = ""
		}
		g.errPosted[w.tag] = true
	}
	g.nextPl++
	pl := g.nextPl
	var id any
	switch form {
	case "string":
		id = map[string]any{"str": strconv.FormatInt(w.id, 10)}
	case "unknown":
		id = map[string]any{"int": w.id + 1000}
	default:
		id = map[string]any{"int": w.id}
	}
	g.do(op{T: "postAnswer", P: ip(poster), ID: id, Payload: ip(pl), Shape: shape, For: ip(w.tag)})
}

func (g *gen) settle(m int) {
	g.do(op{T: "settle", M: ip(m)})
	delete(g.out, m)
}

func (g *gen) countStreams() int {
	n := 0
	for i := 0; i < g.nSess; i++ {
		if g.alive[i] && g.stream[i] {
			n++
		}
	}
	return n
}

func (g *gen) step() {
	r := g.c.Rng.Intn(100)
	switch {
	case g.multi && r < 8 && g.nSess < g.maxSess:
		g.newSession()
	case g.multi && r < 12:
		s := g.anySession(false)
		if res := g.do(op{T: "delSession", S: ip(s)}); res == "ok" {
			g.alive[s] = false
			g.stream[s] = false
		}
	case g.be.modelSrv() == "streamable" && r < 24:
		s := g.anySession(false)
		if res := g.do(op{T: "openStream", S: ip(s)}); res == "ok" {
			g.stream[s] = true
		}
	case g.be.modelSrv() == "streamable" && r < 29:
		s := g.anySession(true)
		g.do(op{T: "closeStream", S: ip(s)})
		g.stream[s] = false
	case g.be.modelSrv() == "streamable" && r >= 29 && r < 33:
		// a GET whose stream is registered but fails every write
		s := g.anySession(false)
		if res := g.do(op{T: "breakStream", S: ip(s)}); res == "ok" {
			g.stream[s] = false
		}
	case r < 45:
		g.do(op{T: "send", S: ip(g.anySession(false)), M: ip(g.tag())})
	case g.hasBcast && r < 55:
		n := g.countStreams()
		res := g.do(op{T: "broadcast", M: ip(g.tag())})
		if n >= 2 {
			g.twoStream = true
		}
		alive := 0
		for i := 0; i < g.nSess; i++ {
			if g.alive[i] {
				alive++
			}
		}
		if strings.HasPrefix(res, "count:") && n >= 1 && n < alive {
			g.partial = true
		}
	case g.hasBcast && r < 63:
		var sel []int
		for i := 0; i < g.nSess+1; i++ {
			if g.c.Rng.Intn(2) == 0 {
				sel = append(sel, i)
			}
		}
		if sel == nil {
			sel = []int{}
		}
		g.do(op{T: "filtered", Sel: sel, M: ip(g.tag())})
	case r < 75:
		g.request(g.anySession(false))
	case r < 90 && len(g.out) > 0:
		// somebody posts an answer to an outstanding request
		var tags []int
		for t := range g.out {
			tags = append(tags, t)
		}
		sortInts(tags)
		w := g.out[tags[g.c.Rng.Intn(len(tags))]]
		poster := w.to
		if g.multi && g.c.Rng.Intn(2) == 0 {
			poster = g.anySession(false) // any session, alive or not, possibly the addressee
		}
		form := []string{"int", "int", "int", "string", "unknown"}[g.c.Rng.Intn(5)]
		g.postShape(poster, w, form, []string{"", "", "error"}[g.c.Rng.Intn(3)])
	case len(g.out) > 0:
		var tags []int
		for t := range g.out {
			tags = append(tags, t)
		}
		sortInts(tags)
		g.settle(tags[g.c.Rng.Intn(len(tags))])
	default:
		g.do(op{T: "send", S: ip(g.anySession(true)), M: ip(g.tag())})
	}
}

func sortInts(a []int) {
	for i := 1; i < len(a); i++ {
		for j := i; j > 0 && a[j] < a[j-1]; j-- {
			a[j], a[j-1] = a[j-1], a[j]
		}
	}
}

func (g *gen) finish() {
	var tags []int
	for t := range g.out {
		tags = append(tags, t)
	}
	sortInts(tags)
	for _, t := range tags {
		g.settle(t)
	}
}

func newGen(c *hk.Ctx, be backend) *gen {
	g := &gen{c: c, be: be, alive: map[int]bool{}, stream: map[int]bool{}, out: map[int]*waiter{}, maxSess: 6}
	g.multi = be.modelSrv() != "stdio"
	g.hasBcast = be.modelSrv() == "streamable"
	if be.modelSrv() == "stdio" {
		g.nSess = 1
		g.alive[0] = true
		g.stream[0] = true
	}
	return g
}

// emit writes the model line of a finished history and runs the model-free oracles.
func emit(c *hk.Ctx, g *gen, start int64, tags ...string) {
	g.finish()
	outbox, pending := g.be.census()
	impl := map[string]any{"rets": g.rets, "outbox": outbox, "pending": pending}
	opl := map[string]any{"c": "routing.run", "srv": g.be.modelSrv(), "start": start, "ops": g.ops}
	c.Emit(opl, impl, g.twoStream && g.partial, append([]string{"history-" + g.be.name()}, tags...)...)
	oracles(c, g, outbox, pending)
}

// oracles restate the property directly on (history, returns, census), without the model.
func oracles(c *hk.Ctx, g *gen, outbox map[string]map[string][]int, pending int) {
	name := g.be.name()
	// addressees per tag
	addr := map[int]map[int]bool{}
	order := map[string][]int{"notif": nil, "req": nil}
	reqTo := map[int]int{}
	for i, o := range g.ops {
		switch o.T {
		case "send":
			addr[*o.M] = map[int]bool{*o.S: true}
			order["notif"] = append(order["notif"], *o.M)
		case "broadcast":
			addr[*o.M] = nil // anybody
			order["notif"] = append(order["notif"], *o.M)
			// count check
			n := 0
			for _, kinds := range outbox {
				for _, t := range kinds["notif"] {
					if t == *o.M {
						n++
					}
				}
			}
			want := g.rets[i]
			if want != fmt.Sprintf("count:%d", n) && !(n == 0 && strings.HasPrefix(want, "count:0")) && !strings.HasPrefix(want, "err:") {
				c.Violate(hk.Violation{Fingerprint: "routing:broadcast-count:" + name, What: "BroadcastNotification's count differs from the number of sessions whose stream received the frame",
					Input: map[string]any{"history": g.ops, "op_index": i}, Observed: map[string]any{"returned": want, "streams_reached": n}})
			}
		case "filtered":
			set := map[int]bool{}
			for _, s := range o.Sel {
				set[s] = true
			}
			addr[*o.M] = set
			order["notif"] = append(order["notif"], *o.M)
			n := 0
			for _, kinds := range outbox {
				for _, t := range kinds["notif"] {
					if t == *o.M {
						n++
					}
				}
			}
			want := g.rets[i]
			if !strings.HasPrefix(want, fmt.Sprintf("counts:%d:", n)) && !strings.HasPrefix(want, "err:") {
				c.Violate(hk.Violation{Fingerprint: "routing:filtered-count:" + name, What: "SendFilteredNotification's success count differs from the number of sessions whose stream received the frame",
					Input: map[string]any{"history": g.ops, "op_index": i}, Observed: map[string]any{"returned": want, "streams_reached": n}})
			}
		case "request":
			addr[*o.M] = map[int]bool{*o.S: true}
			reqTo[*o.M] = *o.S
			order["req"] = append(order["req"], *o.M)
		}
	}
	pos := map[string]map[int]int{"notif": {}, "req": {}}
	for k, l := range order {
		for i, t := range l {
			pos[k][t] = i
		}
	}
	for sid, kinds := range outbox {
		s, _ := strconv.Atoi(sid)
		for kind, tagsSeen := range kinds {
			dup := map[int]bool{}
			last := -1
			for _, t := range tagsSeen {
				if a, known := addr[t]; !known || (a != nil && !a[s]) {
					c.Violate(hk.Violation{Fingerprint: "routing:frame-on-foreign-stream:" + name, What: "a frame was seen on the stream of a session it was not addressed to",
						Input: map[string]any{"history": g.ops}, Observed: map[string]any{"session": s, "kind": kind, "tag": t}})
				}
				if dup[t] {
					c.Violate(hk.Violation{Fingerprint: "routing:frame-twice:" + name, What: "a frame was seen twice on one stream",
						Input: map[string]any{"history": g.ops}, Observed: map[string]any{"session": s, "kind": kind, "tag": t}})
				}
				dup[t] = true
				if p, ok := pos[kind][t]; ok {
					if p < last {
						c.Violate(hk.Violation{Fingerprint: "routing:out-of-order:" + name, What: "frames of one kind were seen on a stream in another order than they were sent",
							Input: map[string]any{"history": g.ops}, Observed: map[string]any{"session": s, "kind": kind, "tags": tagsSeen}})
					}
					last = p
				}
			}
		}
	}
	// a send that returned success must be on the addressee's stream; D14: a send to a live legacy SSE session must succeed
	for i, o := range g.ops {
		if o.T == "send" {
			onStream := false
			for _, t := range outbox[strconv.Itoa(*o.S)]["notif"] {
				if t == *o.M {
					onStream = true
				}
			}
			if g.rets[i] == "ok" && !onStream {
				c.Violate(hk.Violation{Fingerprint: "routing:send-ok-but-not-delivered:" + name, What: "SendNotification returned nil but the frame never appeared on the session's stream",
					Input: map[string]any{"history": g.ops, "op_index": i}})
			}
			if g.rets[i] == "err:notInitialized" {
				c.Violate(hk.Violation{Fingerprint: "routing:legacy-sse:notification-refused-after-handshake",
					What:     "legacy SSE: SendNotification to a connected session that completed initialize + notifications/initialized fails with 'session not initialized' (nothing ever calls sseSession.Initialize()) [D14]",
					Input:    map[string]any{"history": g.ops[:i+1]},
					Observed: g.rets[i], Expected: "nil, and the notification on the session's stream"})
			}
		}
		if o.T == "settle" && strings.HasPrefix(g.rets[i], "answered:") {
			parts := strings.Split(g.rets[i], ":")
			p, _ := strconv.Atoi(parts[1])
			if to, ok := reqTo[*o.M]; ok && p != to {
				c.Violate(hk.Violation{Fingerprint: "routing:foreign-answer-accepted:" + name,
					What:     "the answer accepted for a server-issued request (ListRoots) was posted by another session than the one the request was sent to [D13: pending table keyed by the request id only]",
					Input:    map[string]any{"history": g.ops[:i+1]},
					Observed: map[string]any{"request_sent_to_session": to, "answer_posted_by_session": p, "ListRoots_returned_payload": parts[2]}, Expected: "the foreign answer is ignored"})
			}
		}
		if o.T == "settle" && strings.HasSuffix(g.rets[i], "failed") {
			// was there an answer from the addressee with the right id before? then it was lost
			for j := 0; j < i; j++ {
				q := g.ops[j]
				if q.T == "postAnswer" && g.rets[j] == "posted:202" {
					if idm, ok := q.ID.(map[string]any); ok {
						if v, ok := idm["int"].(int64); ok {
							if to, ok2 := reqTo[*o.M]; ok2 && *q.P == to && g.issuedID(*o.M) == v {
								fp := "routing:own-answer-not-accepted:" + name
								what := "the addressee posted an answer bearing the request's id (HTTP 202) but the waiting ListRoots never got it"
								if v >= 1000000 && name == "streamable" {
									fp = "routing:answer-lost-from-1e6:" + name
									what += " [D01: the pending table is keyed by fmt.Sprintf(\"%v\", id); the posted id decodes to float64 and renders as 1e+06]"
								}
								c.Violate(hk.Violation{Fingerprint: fp, What: what, Input: map[string]any{"history": g.ops[:i+1]}, Observed: "ListRoots returned an error (cancelled while still waiting)"})
							}
						}
					}
				}
			}
		}
	}
	if pending != 0 {
		c.Violate(hk.Violation{Fingerprint: "routing:pending-not-empty:" + name, What: "entries left in the server's pending table after every request was answered or cancelled",
			Input: map[string]any{"history": g.ops}, Observed: pending, Expected: 0})
	}
}

func (g *gen) issuedID(m int) int64 {
	for i, o := range g.ops {
		if o.T == "request" && *o.M == m && strings.HasPrefix(g.rets[i], "issued:") {
			v, _ := strconv.ParseInt(strings.TrimPrefix(g.rets[i], "issued:"), 10, 64)
			return v
		}
	}
	return -1
}

func run(c *hk.Ctx) {
	nHist, minLen, maxLen := 60, 12, 45
	if c.Thorough() {
		nHist, minLen, maxLen = 1500, 30, 120
	}
	mk := map[string]func(start int64) backend{
		"streamable": func(start int64) backend { return newStreamable(c, false, start) },
		"legacy":     func(start int64) backend { return newLegacy(c, start) },
		"stdio":      func(start int64) backend { return newStdio(c, start) },
	}
	joinGaps := startGaps(c) // the time-gapped histories run beside everything else
	defer joinGaps()
	runSizes(c)
	runUnserializable(c)
	// fixed histories
	fixedTwoSessions(c, mk["streamable"](0), 0)
	fixedTwoSessions(c, mk["legacy"](0), 0)
	fixedBroadcast(c, mk["streamable"](0))
	for i := 0; i < 8; i++ {
		fixedBrokenStreams(c, mk["streamable"](0))
	}
	fixedMillion(c, mk["streamable"](999999), 999999)
	fixedMillion(c, mk["legacy"](999999), 999999)
	fixedMillion(c, mk["stdio"](999999), 999999)
	fixedStateless(c)
	runE2E(c)
	runBurst(c)
	runCancelled(c)
	runDeliveries(c)
	runClientBursts(c)
	runSendAtHeaders(c)
	// generated histories
	for _, kind := range []string{"streamable", "legacy", "stdio"} {
		n := nHist
		if kind != "streamable" {
			n = nHist / 2
		}
		for h := 0; h < n; h++ {
			be := mk[kind](0)
			g := newGen(c, be)
			if g.multi {
				g.newSession()
				g.newSession()
				if kind == "streamable" {
					for s := 0; s < 2; s++ {
						if res := g.do(op{T: "openStream", S: ip(s)}); res == "ok" {
							g.stream[s] = true
						}
					}
				}
			}
			l := minLen + c.Rng.Intn(maxLen-minLen+1)
			for i := 0; i < l; i++ {
				g.step()
			}
			emit(c, g, 0, "generated")
			be.close()
		}
	}
}

func fixedTwoSessions(c *hk.Ctx, be backend, start int64) {
	defer be.close()
	g := newGen(c, be)
	g.newSession()
	g.newSession()
	if be.modelSrv() == "streamable" {
		g.do(op{T: "openStream", S: ip(0)})
		g.do(op{T: "openStream", S: ip(1)})
		g.stream[0], g.stream[1] = true, true
	}
	g.do(op{T: "send", S: ip(0), M: ip(g.tag())})
	g.do(op{T: "send", S: ip(1), M: ip(g.tag())})
	// request to session 0, session 1 answers with the (guessed) id; then the addressee's own answer arrives
	g.request(0)
	for _, w := range g.out {
		g.post(1, w, "int")
		g.post(0, w, "int")
	}
	g.finish()
	// request to session 1 answered by session 1 itself
	g.request(1)
	for _, w := range g.out {
		g.post(1, w, "int")
	}
	g.finish()
	// a foreign session answers with an error first, then the addressee answers: ListRoots must return the addressee's
	g.request(0)
	for _, w := range g.out {
		g.postShape(1, w, "int", "error")
		g.post(0, w, "int")
	}
	g.finish()
	// the addressee's own error answer is accepted
	g.request(1)
	for _, w := range g.out {
		g.post(0, w, "int")
		g.postShape(1, w, "int", "error")
	}
	g.twoStream, g.partial = true, true
	emit(c, g, start, "fixed-two-sessions")
}

func fixedBroadcast(c *hk.Ctx, be backend) {
	defer be.close()
	g := newGen(c, be)
	g.do(op{T: "broadcast", M: ip(g.tag())}) // no session at all
	g.newSession()
	g.newSession()
	g.newSession()
	g.do(op{T: "broadcast", M: ip(g.tag())}) // nobody has a stream: error
	g.do(op{T: "filtered", Sel: []int{0, 1}, M: ip(g.tag())})
	g.do(op{T: "openStream", S: ip(0)})
	g.stream[0] = true
	g.do(op{T: "broadcast", M: ip(g.tag())}) // one of three
	g.do(op{T: "openStream", S: ip(2)})
	g.stream[2] = true
	g.do(op{T: "broadcast", M: ip(g.tag())}) // two of three
	g.do(op{T: "filtered", Sel: []int{1, 2}, M: ip(g.tag())})
	g.do(op{T: "filtered", Sel: []int{1}, M: ip(g.tag())})
	g.do(op{T: "filtered", Sel: []int{}, M: ip(g.tag())})
	g.do(op{T: "send", S: ip(1), M: ip(g.tag())}) // no stream
	g.do(op{T: "send", S: ip(7), M: ip(g.tag())}) // never created
	g.do(op{T: "openStream", S: ip(1)})
	g.stream[1] = true
	g.do(op{T: "broadcast", M: ip(g.tag())}) // all three
	g.do(op{T: "openStream", S: ip(0)})      // reconnect: the new stream owns the session
	g.do(op{T: "send", S: ip(0), M: ip(g.tag())})
	g.do(op{T: "closeStream", S: ip(2)})
	g.stream[2] = false
	g.do(op{T: "broadcast", M: ip(g.tag())})
	g.do(op{T: "delSession", S: ip(1)})
	g.alive[1], g.stream[1] = false, false
	g.do(op{T: "broadcast", M: ip(g.tag())})
	g.do(op{T: "send", S: ip(1), M: ip(g.tag())})
	g.twoStream, g.partial = true, true
	emit(c, g, 0, "fixed-broadcast")
}

// fixedBrokenStreams: six sessions — three healthy streams, two streams whose writes fail, one without a stream: every
// broadcast / filtered send must reach exactly the healthy selected ones and count them (the server walks its sessions in
// map order, which differs from run to run).
func fixedBrokenStreams(c *hk.Ctx, be backend) {
	defer be.close()
	g := newGen(c, be)
	for i := 0; i < 6; i++ {
		g.newSession()
	}
	for _, s := range []int{0, 2, 4} {
		g.do(op{T: "openStream", S: ip(s)})
		g.stream[s] = true
	}
	g.do(op{T: "breakStream", S: ip(1)})
	g.do(op{T: "breakStream", S: ip(3)})
	g.do(op{T: "broadcast", M: ip(g.tag())})
	g.do(op{T: "filtered", Sel: []int{0, 1, 2, 5}, M: ip(g.tag())})
	g.do(op{T: "filtered", Sel: []int{1, 3}, M: ip(g.tag())})
	g.do(op{T: "send", S: ip(1), M: ip(g.tag())})
	g.do(op{T: "send", S: ip(2), M: ip(g.tag())})
	g.request(3) // the request frame cannot be written
	g.do(op{T: "broadcast", M: ip(g.tag())})
	g.do(op{T: "openStream", S: ip(1)}) // the peer of session 1 reconnects with a healthy stream
	g.stream[1] = true
	g.do(op{T: "broadcast", M: ip(g.tag())})
	g.do(op{T: "closeStream", S: ip(3)})
	g.do(op{T: "breakStream", S: ip(4)}) // a healthy stream is replaced by a broken one
	g.stream[4] = false
	g.do(op{T: "broadcast", M: ip(g.tag())})
	g.do(op{T: "delSession", S: ip(4)})
	g.alive[4] = false
	g.do(op{T: "broadcast", M: ip(g.tag())})
	g.twoStream, g.partial = true, true
	emit(c, g, 0, "fixed-broken-streams")
}

func fixedMillion(c *hk.Ctx, be backend, start int64) {
	defer be.close()
	g := newGen(c, be)
	if g.multi {
		g.newSession()
		if be.modelSrv() == "streamable" {
			g.do(op{T: "openStream", S: ip(0)})
			g.stream[0] = true
		}
	}
	g.request(0) // id 1000000
	for _, w := range g.out {
		g.post(0, w, "int")
	}
	g.finish()
	emit(c, g, start, "fixed-million")
}

func fixedStateless(c *hk.Ctx) {
	be := newStreamable(c, true, 0)
	defer be.close()
	g := newGen(c, be)
	g.do(op{T: "newSession"})
	g.do(op{T: "send", S: ip(0), M: ip(g.tag())})
	g.do(op{T: "broadcast", M: ip(g.tag())})
	g.do(op{T: "filtered", Sel: []int{0}, M: ip(g.tag())})
	g.do(op{T: "postAnswer", P: ip(0), ID: map[string]any{"int": int64(1)}, Payload: ip(1)})
	emit(c, g, 0, "fixed-stateless")
}
