package main

// "Delivered once" at the REAL clients: every notification reaches the client's handler exactly once and every server-issued
// request is answered exactly once, also when the stream carries comment frames / blank lines after a message (the legacy SSE
// server's keep-alive at a short interval; scripted streams) and the connection then idles for several intervals.
// Counted on the client side (roots-provider invocations, notification-handler invocations per nonce) and on the server /
// peer side (answers posted per server-request id).

import (
	"bufio"
	"bytes"
	"context"
	"encoding/json"
	"fmt"
	"io"
	"net/http"
	"net/http/httptest"
	"sync"
	"sync/atomic"
	"time"

	"verif/harness/hk"

	mcp "trpc.group/trpc-go/trpc-mcp-go"
)

const keepAliveEvery = 25 * time.Millisecond
const idleIntervals = 10

type countingRoots struct {
	name string
	n    *atomic.Int64
}

func (r countingRoots) GetRoots() []mcp.Root {
	r.n.Add(1)
	return []mcp.Root{{URI: "file:///" + r.name, Name: r.name}}
}

// answerCount counts, per JSON-RPC id, the response messages (no method, a result or an error) a client sent to the server.
type answerCount struct {
	mu sync.Mutex
	n  map[string]int
}

func (a *answerCount) note(b []byte) {
	var m struct {
		ID     json.RawMessage `json:"id"`
		Method string          `json:"method"`
		Result json.RawMessage `json:"result"`
		Error  json.RawMessage `json:"error"`
	}
	if json.Unmarshal(b, &m) != nil || m.Method != "" || len(m.ID) == 0 || (len(m.Result) == 0 && len(m.Error) == 0) {
		return
	}
	a.mu.Lock()
	if a.n == nil {
		a.n = map[string]int{}
	}
	a.n[string(m.ID)]++
	a.mu.Unlock()
}

func (a *answerCount) snapshot() map[string]int {
	a.mu.Lock()
	defer a.mu.Unlock()
	out := map[string]int{}
	for k, v := range a.n {
		out[k] = v
	}
	return out
}

func countingAnswers(a *answerCount, h http.Handler) http.Handler {
	return http.HandlerFunc(func(rw http.ResponseWriter, r *http.Request) {
		if r.Method == http.MethodPost {
			b, _ := io.ReadAll(r.Body)
			r.Body.Close()
			a.note(b)
			r.Body = io.NopCloser(bytes.NewReader(b))
		}
		h.ServeHTTP(rw, r)
	})
}

func idle() { time.Sleep(idleIntervals * keepAliveEvery) }

func judgeDeliveries(c *hk.Ctx, kind string, rootsCalls int64, wantRoots int, answers map[string]int, handled map[string]int, sent []string) {
	c.SetExtra("deliveries-"+kind, map[string]any{"roots_requests": wantRoots, "provider_calls": rootsCalls, "answers_per_id": answers, "notifications_sent": len(sent), "handled": handled})
	c.Count("deliveries-"+kind, true, map[string]any{"kind": "deliveries", "transport": kind, "roots_requests": wantRoots, "provider_calls": rootsCalls, "answers_per_id": answers, "notifications": len(sent)}, "deliveries-"+kind)
	if int(rootsCalls) != wantRoots {
		c.Violate(hk.Violation{Fingerprint: "routing:e2e:server-request-not-handled-once:" + kind,
			What:     "the real client's roots provider was not invoked exactly once per roots/list the server issued (the stream idled for several keep-alive intervals after each request)",
			Input:    map[string]any{"transport": kind, "roots_list_requests": wantRoots, "keep_alive_interval_ms": keepAliveEvery.Milliseconds(), "idle_intervals": idleIntervals},
			Observed: map[string]any{"provider_invocations": rootsCalls}, Expected: wantRoots})
	}
	for id, n := range answers {
		if n != 1 {
			c.Violate(hk.Violation{Fingerprint: "routing:e2e:server-request-answered-more-than-once:" + kind,
				What:     "the real client posted more than one answer for one server-issued request",
				Input:    map[string]any{"transport": kind, "request_id": id, "keep_alive_interval_ms": keepAliveEvery.Milliseconds(), "idle_intervals": idleIntervals},
				Observed: map[string]any{"answers_posted": n}, Expected: 1})
			break
		}
	}
	if len(answers) != wantRoots && answers != nil {
		c.Violate(hk.Violation{Fingerprint: "routing:e2e:server-request-unanswered:" + kind, What: "not every server-issued request was answered by the real client",
			Input: map[string]any{"transport": kind, "requests": wantRoots}, Observed: map[string]any{"ids_answered": len(answers)}})
	}
	for _, nonce := range sent {
		if handled != nil && handled[nonce] != 1 {
			c.Violate(hk.Violation{Fingerprint: "routing:e2e:notification-not-handled-once:" + kind,
				What:     "a notification sent to the session did not reach the real client's notification handler exactly once",
				Input:    map[string]any{"transport": kind, "nonce": nonce, "idle_intervals": idleIntervals},
				Observed: map[string]any{"handler_invocations": handled[nonce]}, Expected: 1})
			break
		}
	}
}

func runDeliveries(c *hk.Ctx) {
	nReq := 4
	// ---- legacy SSE, keep-alive at a short interval
	{
		srv := mcp.NewSSEServer("verif-sse", "1.0", mcp.WithSSEServerLogger(hk.QuietLogger{}), mcp.WithKeepAlive(true), mcp.WithKeepAliveInterval(keepAliveEvery))
		tool, h := rootsTool(srv)
		srv.RegisterTool(tool, h)
		var grabbed atomic.Value
		srv.RegisterTool(mcp.NewTool("grab"), func(ctx context.Context, req *mcp.CallToolRequest) (*mcp.CallToolResult, error) {
			grabbed.Store(ctx)
			return mcp.NewTextResult("ok"), nil
		})
		ac := &answerCount{}
		ts := httptest.NewUnstartedServer(countingAnswers(ac, srv))
		ts.Config.ErrorLog = hk.QuietStdLog()
		ts.Start()
		var calls atomic.Int64
		cl, err := mcp.NewSSEClient(ts.URL+srv.SSEPath(), mcp.Implementation{Name: "client-0", Version: "1"}, mcp.WithClientLogger(hk.QuietLogger{}))
		if err == nil {
			cl.SetRootsProvider(countingRoots{"client-0", &calls})
			ctx, cancel := context.WithTimeout(context.Background(), ceiling)
			_, err = cl.Initialize(ctx, &mcp.InitializeRequest{})
			cancel()
		}
		if err != nil {
			c.Violate(hk.Violation{Fingerprint: "routing:harness:e2e-initialize:legacy-sse", What: err.Error()})
		} else {
			gctx, gcancel := context.WithTimeout(context.Background(), waitCeiling())
			cl.CallTool(gctx, &mcp.CallToolRequest{Params: mcp.CallToolParams{Name: "grab", Arguments: map[string]interface{}{}}})
			gcancel()
			for i := 0; i < nReq; i++ {
				if i%2 == 0 {
					// inside a tool call: the call's answer follows the request on the stream
					ctx, cancel := context.WithTimeout(context.Background(), waitCeiling())
					cl.CallTool(ctx, &mcp.CallToolRequest{Params: mcp.CallToolParams{Name: "roots", Arguments: map[string]interface{}{"nonce": fmt.Sprint(i)}}})
					cancel()
				} else if sctx, ok := grabbed.Load().(context.Context); ok {
					// outside any call: the request is the last message on the stream while it idles
					ctx, cancel := context.WithTimeout(sctx, waitCeiling())
					srv.ListRoots(ctx)
					cancel()
				}
				idle()
			}
			judgeDeliveries(c, "legacy-sse", calls.Load(), nReq, ac.snapshot(), nil, nil)
			cl.Close()
		}
		ts.CloseClientConnections()
		ts.Close()
	}
	// ---- Streamable: requests and notifications on the GET stream
	{
		f := hk.NewFixture(hk.SrvCfg{Mode: "stateful", Get: true, PostSSE: false})
		tool, h := rootsTool(f.S)
		f.S.RegisterTool(tool, h)
		ac := &answerCount{}
		ts := httptest.NewUnstartedServer(countingAnswers(ac, f.S.Handler()))
		ts.Config.ErrorLog = hk.QuietStdLog()
		ts.Start()
		var calls atomic.Int64
		var mu sync.Mutex
		handled := map[string]int{}
		cl, err := mcp.NewClient(ts.URL+"/mcp", mcp.Implementation{Name: "client-0", Version: "1"}, mcp.WithClientLogger(hk.QuietLogger{}))
		if err == nil {
			cl.SetRootsProvider(countingRoots{"client-0", &calls})
			cl.RegisterNotificationHandler("notifications/message", func(n *mcp.JSONRPCNotification) error {
				if v, ok := n.Params.AdditionalFields["nonce"].(string); ok {
					mu.Lock()
					handled[v]++
					mu.Unlock()
				}
				return nil
			})
			ctx, cancel := context.WithTimeout(context.Background(), ceiling)
			_, err = cl.Initialize(ctx, &mcp.InitializeRequest{})
			cancel()
		}
		if err != nil {
			c.Violate(hk.Violation{Fingerprint: "routing:harness:e2e-initialize:streamable", What: err.Error()})
		} else {
			sid := cl.GetSessionID()
			waitUntil(func() bool { return mcp.VerifHasGetStream(f.S, sid) })
			var sent []string
			for i := 0; i < nReq; i++ {
				ctx, cancel := context.WithTimeout(context.Background(), waitCeiling())
				cl.CallTool(ctx, &mcp.CallToolRequest{Params: mcp.CallToolParams{Name: "roots", Arguments: map[string]interface{}{"nonce": fmt.Sprint(i)}}})
				cancel()
				nonce := fmt.Sprintf("dn-%d", i)
				if f.S.SendNotification(sid, "notifications/message", map[string]interface{}{"nonce": nonce}) == nil {
					sent = append(sent, nonce)
				}
			}
			waitUntil(func() bool { mu.Lock(); defer mu.Unlock(); return len(handled) >= len(sent) })
			idle()
			mu.Lock()
			hcopy := map[string]int{}
			for k, v := range handled {
				hcopy[k] = v
			}
			mu.Unlock()
			judgeDeliveries(c, "streamable", calls.Load(), nReq, ac.snapshot(), hcopy, sent)
			cl.Close()
		}
		ts.CloseClientConnections()
		ts.Close()
		f.Close()
	}
	// ---- stdio: real server and real client in one process
	{
		srv := mcp.NewStdioServer("verif-stdio", "1.0", mcp.WithStdioServerLogger(hk.QuietLogger{}))
		tool, h := rootsTool(srv)
		srv.RegisterTool(tool, h)
		var sess atomic.Value
		srv.RegisterTool(mcp.NewTool("grab"), func(ctx context.Context, req *mcp.CallToolRequest) (*mcp.CallToolResult, error) {
			if s, ok := mcp.GetSessionFromContext(ctx); ok {
				sess.Store(s)
			}
			return mcp.NewTextResult("ok"), nil
		})
		inR, inW := io.Pipe()
		outR, outW := io.Pipe()
		ac := &answerCount{}
		ctx, cancel := context.WithCancel(context.Background())
		go func() { mcp.VerifServeStdio(ctx, srv, inR, outW); outW.Close() }()
		var calls atomic.Int64
		var mu sync.Mutex
		handled := map[string]int{}
		sc, err := mcp.VerifNewStdioClientOnPipes(mcp.Implementation{Name: "client-0", Version: "1"}, 3*time.Second, &lineTee{w: inW, note: ac.note}, outR, mcp.WithStdioLogger(hk.QuietLogger{}))
		if err == nil {
			sc.SetRootsProvider(countingRoots{"client-0", &calls})
			sc.RegisterNotificationHandler("notifications/message", func(n *mcp.JSONRPCNotification) error {
				if v, ok := n.Params.AdditionalFields["nonce"].(string); ok {
					mu.Lock()
					handled[v]++
					mu.Unlock()
				}
				return nil
			})
			ictx, icancel := context.WithTimeout(context.Background(), ceiling)
			_, err = sc.Initialize(ictx, &mcp.InitializeRequest{})
			icancel()
		}
		if err != nil {
			c.Violate(hk.Violation{Fingerprint: "routing:harness:e2e-initialize:stdio", What: err.Error()})
		} else {
			call := func(name, nonce string) {
				cctx, ccancel := context.WithTimeout(context.Background(), waitCeiling())
				sc.CallTool(cctx, &mcp.CallToolRequest{Params: mcp.CallToolParams{Name: name, Arguments: map[string]interface{}{"nonce": nonce}}})
				ccancel()
			}
			call("grab", "g")
			var sent []string
			for i := 0; i < nReq; i++ {
				call("roots", fmt.Sprint(i))
				nonce := fmt.Sprintf("dn-%d", i)
				if ns, ok := sess.Load().(notifSession); ok {
					select {
					case ns.NotificationChannel() <- *mcp.NewJSONRPCNotificationFromMap("notifications/message", map[string]interface{}{"nonce": nonce}):
						sent = append(sent, nonce)
					default:
					}
				}
			}
			waitUntil(func() bool { mu.Lock(); defer mu.Unlock(); return len(handled) >= len(sent) })
			idle()
			mu.Lock()
			hcopy := map[string]int{}
			for k, v := range handled {
				hcopy[k] = v
			}
			mu.Unlock()
			judgeDeliveries(c, "stdio", calls.Load(), nReq, ac.snapshot(), hcopy, sent)
		}
		if sc != nil {
			go sc.Close()
		}
		cancel()
		inW.Close()
		outW.Close()
	}
	scriptedComments(c)
}

// lineTee passes the client's writes on and notes every complete line.
type lineTee struct {
	w    io.WriteCloser
	note func([]byte)
	buf  []byte
}

func (t *lineTee) Write(p []byte) (int, error) {
	t.buf = append(t.buf, p...)
	for {
		i := bytes.IndexByte(t.buf, '\n')
		if i < 0 {
			break
		}
		t.note(t.buf[:i])
		t.buf = t.buf[i+1:]
	}
	return t.w.Write(p)
}
func (t *lineTee) Close() error { return t.w.Close() }

// scriptedComments: scripted peers put a roots/list request on the client's stream followed by comment frames and blank
// lines; the real client must answer it once.
func scriptedComments(c *hk.Ctx) {
	const reqID = 77
	request := fmt.Sprintf(`{"jsonrpc":"2.0","id":%d,"method":"roots/list"}`, reqID)
	initRes := func(id json.RawMessage, v string) string {
		return fmt.Sprintf(`{"jsonrpc":"2.0","id":%s,"result":{"protocolVersion":%q,"capabilities":{},"serverInfo":{"name":"scripted","version":"1"}}}`, string(id), v)
	}
	type msg struct {
		ID     json.RawMessage `json:"id"`
		Method string          `json:"method"`
	}
	// ---- legacy SSE
	{
		ac := &answerCount{}
		frames := make(chan string, 16)
		mux := http.NewServeMux()
		mux.HandleFunc("/sse", func(w http.ResponseWriter, r *http.Request) {
			fl := w.(http.Flusher)
			w.Header().Set("Content-Type", "text/event-stream")
			w.WriteHeader(200)
			fmt.Fprint(w, "event: endpoint\ndata: /message?sessionId=s\n\n")
			fl.Flush()
			for {
				select {
				case f := <-frames:
					fmt.Fprint(w, f)
					fl.Flush()
				case <-r.Context().Done():
					return
				}
			}
		})
		mux.HandleFunc("/message", func(w http.ResponseWriter, r *http.Request) {
			b, _ := io.ReadAll(r.Body)
			ac.note(b)
			var m msg
			json.Unmarshal(b, &m)
			w.WriteHeader(http.StatusAccepted)
			if m.Method == "initialize" {
				frames <- "event: message\ndata: " + initRes(m.ID, "2024-11-05") + "\n\n"
			}
		})
		ts := httptest.NewUnstartedServer(mux)
		ts.Config.ErrorLog = hk.QuietStdLog()
		ts.Start()
		var calls atomic.Int64
		cl, err := mcp.NewSSEClient(ts.URL+"/sse", mcp.Implementation{Name: "client-0", Version: "1"}, mcp.WithClientLogger(hk.QuietLogger{}))
		if err == nil {
			cl.SetRootsProvider(countingRoots{"client-0", &calls})
			ctx, cancel := context.WithTimeout(context.Background(), ceiling)
			_, err = cl.Initialize(ctx, &mcp.InitializeRequest{})
			cancel()
		}
		if err == nil {
			frames <- "event: message\ndata: " + request + "\n\n"
			for i := 0; i < 6; i++ {
				frames <- ": keepalive\n\n"
			}
			frames <- "\n\n: comment\n\n\n"
			waitUntil(func() bool { return ac.snapshot()[fmt.Sprint(reqID)] >= 1 })
			idle()
			judgeDeliveries(c, "legacy-sse-scripted", calls.Load(), 1, ac.snapshot(), nil, nil)
			cl.Close()
		}
		ts.CloseClientConnections()
		ts.Close()
	}
	// ---- Streamable: the GET stream
	{
		ac := &answerCount{}
		opened := make(chan struct{}, 1)
		h := http.HandlerFunc(func(w http.ResponseWriter, r *http.Request) {
			switch r.Method {
			case http.MethodGet:
				fl := w.(http.Flusher)
				w.Header().Set("Content-Type", "text/event-stream")
				w.WriteHeader(200)
				fl.Flush()
				fmt.Fprintf(w, "id: e1\ndata: %s\n\n", request)
				for i := 0; i < 6; i++ {
					fmt.Fprint(w, ": ping\n\n")
				}
				fmt.Fprint(w, "\n\n: comment\n\n\n")
				fl.Flush()
				select {
				case opened <- struct{}{}:
				default:
				}
				<-r.Context().Done()
			case http.MethodPost:
				b, _ := io.ReadAll(r.Body)
				ac.note(b)
				var m msg
				json.Unmarshal(b, &m)
				w.Header().Set("Mcp-Session-Id", "scripted-session")
				if m.Method == "initialize" {
					w.Header().Set("Content-Type", "application/json")
					fmt.Fprint(w, initRes(m.ID, "2025-03-26"))
					return
				}
				w.WriteHeader(http.StatusAccepted)
			default:
				w.WriteHeader(200)
			}
		})
		ts := httptest.NewUnstartedServer(h)
		ts.Config.ErrorLog = hk.QuietStdLog()
		ts.Start()
		var calls atomic.Int64
		cl, err := mcp.NewClient(ts.URL+"/mcp", mcp.Implementation{Name: "client-0", Version: "1"}, mcp.WithClientLogger(hk.QuietLogger{}))
		if err == nil {
			cl.SetRootsProvider(countingRoots{"client-0", &calls})
			ctx, cancel := context.WithTimeout(context.Background(), ceiling)
			_, err = cl.Initialize(ctx, &mcp.InitializeRequest{})
			cancel()
		}
		if err == nil {
			waitUntil(func() bool { return ac.snapshot()[fmt.Sprint(reqID)] >= 1 })
			idle()
			judgeDeliveries(c, "streamable-scripted", calls.Load(), 1, ac.snapshot(), nil, nil)
			cl.Close()
		}
		ts.CloseClientConnections()
		ts.Close()
	}
	// ---- stdio: blank lines after the request line
	{
		ac := &answerCount{}
		inR, inW := io.Pipe()   // client -> peer
		outR, outW := io.Pipe() // peer -> client
		go func() {
			br := bufio.NewReader(inR)
			for {
				line, err := br.ReadBytes('\n')
				if len(bytes.TrimSpace(line)) > 0 {
					ac.note(line)
					var m msg
					if json.Unmarshal(line, &m) == nil && m.Method == "initialize" {
						io.WriteString(outW, initRes(m.ID, "2025-03-26")+"\n")
					}
				}
				if err != nil {
					return
				}
			}
		}()
		var calls atomic.Int64
		sc, err := mcp.VerifNewStdioClientOnPipes(mcp.Implementation{Name: "client-0", Version: "1"}, 3*time.Second, inW, outR, mcp.WithStdioLogger(hk.QuietLogger{}))
		if err == nil {
			sc.SetRootsProvider(countingRoots{"client-0", &calls})
			ctx, cancel := context.WithTimeout(context.Background(), ceiling)
			_, err = sc.Initialize(ctx, &mcp.InitializeRequest{})
			cancel()
		}
		if err == nil {
			io.WriteString(outW, request+"\n\n\n   \n\n")
			waitUntil(func() bool { return ac.snapshot()[fmt.Sprint(reqID)] >= 1 })
			idle()
			judgeDeliveries(c, "stdio-scripted", calls.Load(), 1, ac.snapshot(), nil, nil)
		}
		if sc != nil {
			go sc.Close()
		}
		outW.Close()
		inW.Close()
	}
}
