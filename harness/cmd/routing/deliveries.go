package main

// "Delivered once" at the REAL clients: every notification reaches the client's handler exactly once and every server-issued
// request is answered exactly once, also when the stream carries comment frames / blank lines after a message (the legacy SSE
// server's keep-alive at a short interval; scripted streams) and the connection then idles for several intervals.
// Counted on the client side (roots-provider invocations, notification-handler invocations per nonce) and on the server /
// peer side (answers posted per server-request id).

import (
	"bufio"
	"bytes"
	"context"
	"encoding/json"
	"fmt"
	"io"
	"net/http"
	"net/http/httptest"
	"strings"
	"sync"
	"sync/atomic"
	"time"

	"verif/harness/hk"

	mcp "trpc.group/trpc-go/trpc-mcp-go"
)

const keepAliveEvery = 25 * time.Millisecond
const idleIntervals = 10

type countingRoots struct {
	name string
	n    *atomic.Int64
}

func (r countingRoots) GetRoots() []mcp.Root {
	r.n.Add(1)
	return []mcp.Root{{URI: "file:///" + r.name, Name: r.name}}
}

// answerCount counts, per JSON-RPC id, the response messages (no method, a result or an error) a client sent to the server.
type answerCount struct {
	mu sync.Mutex
	n  map[string]int
}

func (a *answerCount) note(b []byte) {
	var m struct {
		ID     json.RawMessage `json:"id"`
		Method string          `json:"method"`
		Result json.RawMessage `json:"result"`
		Error  json.RawMessage `json:"error"`
	}
	if json.Unmarshal(b, &m) != nil || m.Method != "" || len(m.ID) == 0 || (len(m.Result) == 0 && len(m.Error) == 0) {
		return
	}
	a.mu.Lock()
	if a.n == nil {
		a.n = map[string]int{}
	}
	a.n[string(m.ID)]++
	a.mu.Unlock()
}

func (a *answerCount) snapshot() map[string]int {
	a.mu.Lock()
	defer a.mu.Unlock()
	out := map[string]int{}
	for k, v := range a.n {
		out[k] = v
	}
	return out
}

func countingAnswers(a *answerCount, h http.Handler) http.Handler {
	return http.HandlerFunc(func(rw http.ResponseWriter, r *http.Request) {
		if r.Method == http.MethodPost {
			b, _ := io.ReadAll(r.Body)
			r.Body.Close()
			a.note(b)
			r.Body = io.NopCloser(bytes.NewReader(b))
		}
		h.ServeHTTP(rw, r)
	})
}

func idle() { time.Sleep(idleIntervals * keepAliveEvery) }

func judgeDeliveries(c *hk.Ctx, kind string, rootsCalls int64, wantRoots int, answers map[string]int, handled map[string]int, sent []string) {
	c.SetExtra("deliveries-"+kind, map[string]any{"roots_requests": wantRoots, "provider_calls": rootsCalls, "answers_per_id": answers, "notifications_sent": len(sent), "handled": handled})
	c.Count("deliveries-"+kind, true, map[string]any{"kind": "deliveries", "transport": kind, "roots_requests": wantRoots, "provider_calls": rootsCalls, "answers_per_id": answers, "notifications": len(sent)}, "deliveries-"+kind)
	if int(rootsCalls) != wantRoots {
		c.Violate(hk.Violation{Fingerprint: "routing:e2e:server-request-not-handled-once:" + kind,
			What:     "the real client's roots provider was not invoked exactly once per roots/list the server issued (the stream idled for several keep-alive intervals after each request)",
			Input:    map[string]any{"transport": kind, "roots_list_requests": wantRoots, "keep_alive_interval_ms": keepAliveEvery.Milliseconds(), "idle_intervals": idleIntervals},
			Observed: map[string]any{"provider_invocations": rootsCalls}, Expected: wantRoots})
	}
	for id, n := range answers {
		if n != 1 {
			c.Violate(hk.Violation{Fingerprint: "routing:e2e:server-request-answered-more-than-once:" + kind,
				What:     "the real client posted more than one answer for one server-issued request",
				Input:    map[string]any{"transport": kind, "request_id": id, "keep_alive_interval_ms": keepAliveEvery.Milliseconds(), "idle_intervals": idleIntervals},
				Observed: map[string]any{"answers_posted": n}, Expected: 1})
			break
		}
	}
	if len(answers) != wantRoots && answers != nil {
		c.Violate(hk.Violation{Fingerprint: "routing:e2e:server-request-unanswered:" + kind, What: "not every server-issued request was answered by the real client",
			Input: map[string]any{"transport": kind, "requests": wantRoots}, Observed: map[string]any{"ids_answered": len(answers)}})
	}
	for _, nonce := range sent {
		if handled != nil && handled[nonce] != 1 {
			c.Violate(hk.Violation{Fingerprint: "routing:e2e:notification-not-handled-once:" + kind,
				What:     "a notification sent to the session did not reach the real client's notification handler exactly once",
				Input:    map[string]any{"transport": kind, "nonce": nonce, "idle_intervals": idleIntervals},
				Observed: map[string]any{"handler_invocations": handled[nonce]}, Expected: 1})
			break
		}
	}
}

func runDeliveries(c *hk.Ctx) {
	nReq := 4
	// ---- legacy SSE, keep-alive at a short interval
	{
		srv := mcp.NewSSEServer("verif-sse", "1.0", mcp.WithSSEServerLogger(hk.QuietLogger{}), mcp.WithKeepAlive(true), mcp.WithKeepAliveInterval(keepAliveEvery))
		tool, h := rootsTool(srv)
		srv.RegisterTool(tool, h)
		var grabbed atomic.Value
		srv.RegisterTool(mcp.NewTool("grab"), func(ctx context.Context, req *mcp.CallToolRequest) (*mcp.CallToolResult, error) {
			grabbed.Store(ctx)
			return mcp.NewTextResult("ok"), nil
		})
		ac := &answerCount{}
		ts := httptest.NewUnstartedServer(countingAnswers(ac, srv))
		ts.Config.ErrorLog = hk.QuietStdLog()
		ts.Start()
		var calls atomic.Int64
		cl, err := mcp.NewSSEClient(ts.URL+srv.SSEPath(), mcp.Implementation{Name: "client-0", Version: "1"}, mcp.WithClientLogger(hk.QuietLogger{}))
		if err == nil {
			cl.SetRootsProvider(countingRoots{"client-0", &calls})
			ctx, cancel := context.WithTimeout(context.Background(), ceiling)
			_, err = cl.Initialize(ctx, &mcp.InitializeRequest{})
			cancel()
		}
		if err != nil {
			c.Violate(hk.Violation{Fingerprint: "routing:harness:e2e-initialize:legacy-sse", What: err.Error()})
		} else {
			gctx, gcancel := context.WithTimeout(context.Background(), waitCeiling())
			cl.CallTool(gctx, &mcp.CallToolRequest{Params: mcp.CallToolParams{Name: "grab", Arguments: map[string]interface{}{}}})
			gcancel()
			for i := 0; i < nReq; i++ {
				if i%2 == 0 {
					// inside a tool call: the call's answer follows the request on the stream
					ctx, cancel := context.WithTimeout(context.Background(), waitCeiling())
					cl.CallTool(ctx, &mcp.CallToolRequest{Params: mcp.CallToolParams{Name: "roots", Arguments: map[string]interface{}{"nonce": fmt.Sprint(i)}}})
					cancel()
				} else if sctx, ok := grabbed.Load().(context.Context); ok {
					// outside any call: the request is the last message on the stream while it idles
					ctx, cancel := context.WithTimeout(sctx, waitCeiling())
					srv.ListRoots(ctx)
					cancel()
				}
				idle()
			}
			judgeDeliveries(c, "legacy-sse", calls.Load(), nReq, ac.snapshot(), nil, nil)
			cl.Close()
		}
		ts.CloseClientConnections()
		ts.Close()
	}
	// ---- Streamable: requests and notifications on the GET stream
	{
		f := hk.NewFixture(hk.SrvCfg{Mode: "stateful", Get: true, PostSSE: false})
		tool, h := rootsTool(f.S)
		f.S.RegisterTool(tool, h)
		ac := &answerCount{}
		ts := httptest.NewUnstartedServer(countingAnswers(ac, f.S.Handler()))
		ts.Config.ErrorLog = hk.QuietStdLog()
		ts.Start()
		var calls atomic.Int64
		var mu sync.Mutex
		handled := map[string]int{}
		cl, err := mcp.NewClient(ts.URL+"/mcp", mcp.Implementation{Name: "client-0", Version: "1"}, mcp.WithClientLogger(hk.QuietLogger{}))
		if err == nil {
			cl.SetRootsProvider(countingRoots{"client-0", &calls})
			cl.RegisterNotificationHandler("notifications/message", func(n *mcp.JSONRPCNotification) error {
				if v, ok := n.Params.AdditionalFields["nonce"].(string); ok {
					mu.Lock()
					handled[v]++
					mu.Unlock()
				}
				return nil
			})
			ctx, cancel := context.WithTimeout(context.Background(), ceiling)
			_, err = cl.Initialize(ctx, &mcp.InitializeRequest{})
			cancel()
		}
		if err != nil {
			c.Violate(hk.Violation{Fingerprint: "routing:harness:e2e-initialize:streamable", What: err.Error()})
		} else {
			sid := cl.GetSessionID()
			waitUntil(func() bool { return mcp.VerifHasGetStream(f.S, sid) })
			var sent []string
			for i := 0; i < nReq; i++ {
				ctx, cancel := context.WithTimeout(context.Background(), waitCeiling())
				cl.CallTool(ctx, &mcp.CallToolRequest{Params: mcp.CallToolParams{Name: "roots", Arguments: map[string]interface{}{"nonce": fmt.Sprint(i)}}})
				cancel()
				nonce := fmt.Sprintf("dn-%d", i)
				if f.S.SendNotification(sid, "notifications/message", map[string]interface{}{"nonce": nonce}) == nil {
					sent = append(sent, nonce)
				}
			}
			waitUntil(func() bool { mu.Lock(); defer mu.Unlock(); return len(handled) >= len(sent) })
			idle()
			mu.Lock()
			hcopy := map[string]int{}
			for k, v := range handled {
				hcopy[k] = v
			}
			mu.Unlock()
			judgeDeliveries(c, "streamable", calls.Load(), nReq, ac.snapshot(), hcopy, sent)
			cl.Close()
		}
		ts.CloseClientConnections()
		ts.Close()
		f.Close()
	}
	// ---- stdio: real server and real client in one process
	{
		srv := mcp.NewStdioServer("verif-stdio", "1.0", mcp.WithStdioServerLogger(hk.QuietLogger{}))
		tool, h := rootsTool(srv)
		srv.RegisterTool(tool, h)
		var sess atomic.Value
		srv.RegisterTool(mcp.NewTool("grab"), func(ctx context.Context, req *mcp.CallToolRequest) (*mcp.CallToolResult, error) {
			if s, ok := mcp.GetSessionFromContext(ctx); ok {
				sess.Store(s)
			}
			return mcp.NewTextResult("ok"), nil
		})
		inR, inW := io.Pipe()
		outR, outW := io.Pipe()
		ac := &answerCount{}
		ctx, cancel := context.WithCancel(context.Background())
		go func() { mcp.VerifServeStdio(ctx, srv, inR, outW); outW.Close() }()
		var calls atomic.Int64
		var mu sync.Mutex
		handled := map[string]int{}
		sc, err := mcp.VerifNewStdioClientOnPipes(mcp.Implementation{Name: "client-0", Version: "1"}, 3*time.Second, &lineTee{w: inW, note: ac.note}, outR, mcp.WithStdioLogger(hk.QuietLogger{}))
		if err == nil {
			sc.SetRootsProvider(countingRoots{"client-0", &calls})
			sc.RegisterNotificationHandler("notifications/message", func(n *mcp.JSONRPCNotification) error {
				if v, ok := n.Params.AdditionalFields["nonce"].(string); ok {
					mu.Lock()
					handled[v]++
					mu.Unlock()
				}
				return nil
			})
			ictx, icancel := context.WithTimeout(context.Background(), ceiling)
			_, err = sc.Initialize(ictx, &mcp.InitializeRequest{})
			icancel()
		}
		if err != nil {
			c.Violate(hk.Violation{Fingerprint: "routing:harness:e2e-initialize:stdio", What: err.Error()})
		} else {
			call := func(name, nonce string) {
				cctx, ccancel := context.WithTimeout(context.Background(), waitCeiling())
				sc.CallTool(cctx, &mcp.CallToolRequest{Params: mcp.CallToolParams{Name: name, Arguments: map[string]interface{}{"nonce": nonce}}})
				ccancel()
			}
			call("grab", "g")
			var sent []string
			for i := 0; i < nReq; i++ {
				call("roots", fmt.Sprint(i))
				nonce := fmt.Sprintf("dn-%d", i)
				if ns, ok := sess.Load().(notifSession); ok {
					select {
					case ns.NotificationChannel() <- *mcp.NewJSONRPCNotificationFromMap("notifications/message", map[string]interface{}{"nonce": nonce}):
						sent = append(sent, nonce)
					default:
					}
				}
			}
			waitUntil(func() bool { mu.Lock(); defer mu.Unlock(); return len(handled) >= len(sent) })
			idle()
			mu.Lock()
			hcopy := map[string]int{}
			for k, v := range handled {
				hcopy[k] = v
			}
			mu.Unlock()
			judgeDeliveries(c, "stdio", calls.Load(), nReq, ac.snapshot(), hcopy, sent)
		}
		if sc != nil {
			go sc.Close()
		}
		cancel()
		inW.Close()
		outW.Close()
	}
	scriptedComments(c)
}

// lineTee passes the client's writes on and notes every complete line.
type lineTee struct {
	w    io.WriteCloser
	note func([]byte)
	buf  []byte
}

func (t *lineTee) Write(p []byte) (int, error) {
	t.buf = append(t.buf, p...)
	for {
		i := bytes.IndexByte(t.buf, '\n')
		if i < 0 {
			break
		}
		t.note(t.buf[:i])
		t.buf = t.buf[i+1:]
	}
	return t.w.Write(p)
}
func (t *lineTee) Close() error { return t.w.Close() }

// scriptedComments: scripted peers put a roots/list request on the client's stream followed by comment frames and blank
// lines; the real client must answer it once.
func scriptedComments(c *hk.Ctx) {
	const reqID = 77
	request := fmt.Sprintf(`{"jsonrpc":"2.0","id":%d,"method":"roots/list"}`, reqID)
	initRes := func(id json.RawMessage, v string) string {
		return fmt.Sprintf(`{"jsonrpc":"2.0","id":%s,"result":{"protocolVersion":%q,"capabilities":{},"serverInfo":{"name":"scripted","version":"1"}}}`, string(id), v)
	}
	type msg struct {
		ID     json.RawMessage `json:"id"`
		Method string          `json:"method"`
	}
	// ---- legacy SSE
	{
		ac := &answerCount{}
		frames := make(chan string, 16)
		mux := http.NewServeMux()
		mux.HandleFunc("/sse", func(w http.ResponseWriter, r *http.Request) {
			fl := w.(http.Flusher)
			w.Header().Set("Content-Type", "text/event-stream")
			w.WriteHeader(200)
			fmt.Fprint(w, "event: endpoint\ndata: /message?sessionId=s\n\n")
			fl.Flush()
			for {
				select {
				case f := <-frames:
					fmt.Fprint(w, f)
					fl.Flush()
				case <-r.Context().Done():
					return
				}
			}
		})
		mux.HandleFunc("/message", func(w http.ResponseWriter, r *http.Request) {
			b, _ := io.ReadAll(r.Body)
			ac.note(b)
			var m msg
			json.Unmarshal(b, &m)
			w.WriteHeader(http.StatusAccepted)
			if m.Method == "initialize" {
				frames <- "event: message\ndata: " + initRes(m.ID, "2024-11-05") + "\n\n"
			}
		})
		ts := httptest.NewUnstartedServer(mux)
		ts.Config.ErrorLog = hk.QuietStdLog()
		ts.Start()
		var calls atomic.Int64
		cl, err := mcp.NewSSEClient(ts.URL+"/sse", mcp.Implementation{Name: "client-0", Version: "1"}, mcp.WithClientLogger(hk.QuietLogger{}))
		if err == nil {
			cl.SetRootsProvider(countingRoots{"client-0", &calls})
			ctx, cancel := context.WithTimeout(context.Background(), ceiling)
			_, err = cl.Initialize(ctx, &mcp.InitializeRequest{})
			cancel()
		}
		if err == nil {
			frames <- "event: message\ndata: " + request + "\n\n"
			for i := 0; i < 6; i++ {
				frames <- ": keepalive\n\n"
			}
			frames <- "\n\n: comment\n\n\n"
			waitUntil(func() bool { return ac.snapshot()[fmt.Sprint(reqID)] >= 1 })
			idle()
			judgeDeliveries(c, "legacy-sse-scripted", calls.Load(), 1, ac.snapshot(), nil, nil)
			cl.Close()
		}
		ts.CloseClientConnections()
		ts.Close()
	}
	// ---- Streamable: the GET stream
	{
		ac := &answerCount{}
		opened := make(chan struct{}, 1)
		h := http.HandlerFunc(func(w http.ResponseWriter, r *http.Request) {
			switch r.Method {
			case http.MethodGet:
				fl := w.(http.Flusher)
				w.Header().Set("Content-Type", "text/event-stream")
				w.WriteHeader(200)
				fl.Flush()
				fmt.Fprintf(w, "id: e1\ndata: %s\n\n", request)
				for i := 0; i < 6; i++ {
					fmt.Fprint(w, ": ping\n\n")
				}
				fmt.Fprint(w, "\n\n: comment\n\n\n")
				fl.Flush()
				select {
				case opened <- struct{}{}:
				default:
				}
				<-r.Context().Done()
			case http.MethodPost:
				b, _ := io.ReadAll(r.Body)
				ac.note(b)
				var m msg
				json.Unmarshal(b, &m)
				w.Header().Set("Mcp-Session-Id", "scripted-session")
				if m.Method == "initialize" {
					w.Header().Set("Content-Type", "application/json")
					fmt.Fprint(w, initRes(m.ID, "2025-03-26"))
					return
				}
				w.WriteHeader(http.StatusAccepted)
			default:
				w.WriteHeader(200)
			}
		})
		ts := httptest.NewUnstartedServer(h)
		ts.Config.ErrorLog = hk.QuietStdLog()
		ts.Start()
		var calls atomic.Int64
		cl, err := mcp.NewClient(ts.URL+"/mcp", mcp.Implementation{Name: "client-0", Version: "1"}, mcp.WithClientLogger(hk.QuietLogger{}))
		if err == nil {
			cl.SetRootsProvider(countingRoots{"client-0", &calls})
			ctx, cancel := context.WithTimeout(context.Background(), ceiling)
			_, err = cl.Initialize(ctx, &mcp.InitializeRequest{})
			cancel()
		}
		if err == nil {
			waitUntil(func() bool { return ac.snapshot()[fmt.Sprint(reqID)] >= 1 })
			idle()
			judgeDeliveries(c, "streamable-scripted", calls.Load(), 1, ac.snapshot(), nil, nil)
			cl.Close()
		}
		ts.CloseClientConnections()
		ts.Close()
	}
	// ---- stdio: blank lines after the request line
	{
		ac := &answerCount{}
		inR, inW := io.Pipe()   // client -> peer
		outR, outW := io.Pipe() // peer -> client
		go func() {
			br := bufio.NewReader(inR)
			for {
				line, err := br.ReadBytes('\n')
				if len(bytes.TrimSpace(line)) > 0 {
					ac.note(line)
					var m msg
					if json.Unmarshal(line, &m) == nil && m.Method == "initialize" {
						io.WriteString(outW, initRes(m.ID, "2025-03-26")+"\n")
					}
				}
				if err != nil {
					return
				}
			}
		}()
		var calls atomic.Int64
		sc, err := mcp.VerifNewStdioClientOnPipes(mcp.Implementation{Name: "client-0", Version: "1"}, 3*time.Second, inW, outR, mcp.WithStdioLogger(hk.QuietLogger{}))
		if err == nil {
			sc.SetRootsProvider(countingRoots{"client-0", &calls})
			ctx, cancel := context.WithTimeout(context.Background(), ceiling)
			_, err = sc.Initialize(ctx, &mcp.InitializeRequest{})
			cancel()
		}
		if err == nil {
			io.WriteString(outW, request+"\n\n\n   \n\n")
			waitUntil(func() bool { return ac.snapshot()[fmt.Sprint(reqID)] >= 1 })
			idle()
			judgeDeliveries(c, "stdio-scripted", calls.Load(), 1, ac.snapshot(), nil, nil)
		}
		if sc != nil {
			go sc.Close()
		}
		outW.Close()
		inW.Close()
	}
}

// ---------------------------------------------------------------- bursts to the real clients

var burstMethods = []string{"notifications/message", "notifications/progress", "notifications/resources/updated"}

// runClientBursts: many notifications sent back to back (same millisecond) plus several roots/list requests to ONE session
// of a real client, repeated for fresh sessions: every send that reported success reaches the client's handler exactly
// once (Streamable: in sending order — its reader handles events one after the other), every request is answered once.
func runClientBursts(c *hk.Ctx) {
	rounds, nNotif, nRoots := 3, 120, 3
	if c.Thorough() {
		rounds, nNotif = 10, 250
	}
	type recorder struct {
		mu    sync.Mutex
		order []string
		count map[string]int
	}
	newRec := func() *recorder { return &recorder{count: map[string]int{}} }
	handler := func(r *recorder) func(n *mcp.JSONRPCNotification) error {
		return func(n *mcp.JSONRPCNotification) error {
			if v, ok := n.Params.AdditionalFields["nonce"].(string); ok {
				r.mu.Lock()
				r.order = append(r.order, v)
				r.count[v]++
				r.mu.Unlock()
			}
			return nil
		}
	}
	judge := func(kind string, round int, sentOK []string, r *recorder, ordered bool, rootsOK, rootsCalls int64, answers map[string]int) {
		r.mu.Lock()
		order := append([]string{}, r.order...)
		count := map[string]int{}
		for k, v := range r.count {
			count[k] = v
		}
		r.mu.Unlock()
		c.Count(fmt.Sprintf("client-burst-%s-%d", kind, round), true, map[string]any{"kind": "client-burst", "transport": kind, "sent_ok": len(sentOK), "handled": len(order), "roots_ok": rootsOK, "provider_calls": rootsCalls}, "client-burst-"+kind)
		for i, n := range sentOK {
			if count[n] != 1 {
				c.Violate(hk.Violation{Fingerprint: "routing:e2e:burst-notification-not-handled-once:" + kind,
					What:     "notifications sent back to back to one session of the real client: a send that reported success did not reach the client's handler exactly once",
					Input:    map[string]any{"transport": kind, "burst": len(sentOK), "position_in_burst": i, "nonce": n, "fresh_session_no": round},
					Observed: map[string]any{"handler_invocations": count[n], "handled_in_total": len(order)}, Expected: 1})
				return
			}
		}
		if ordered && strings.Join(order, ",") != strings.Join(sentOK, ",") {
			first := 0
			for first < len(order) && first < len(sentOK) && order[first] == sentOK[first] {
				first++
			}
			lo, hi := max(0, first-2), first+5
			clipTo := func(a []string) []string { return a[min(lo, len(a)):min(hi, len(a))] }
			c.Violate(hk.Violation{Fingerprint: "routing:e2e:burst-notifications-out-of-order:" + kind,
				What:     "the real client's handlers saw the notifications of a burst (three methods interleaved, one handler slow at first) in another order than they were sent on the session's stream",
				Input:    map[string]any{"transport": kind, "burst": len(sentOK), "methods_in_turn": burstMethods, "slow_handler": burstMethods[1]},
				Observed: map[string]any{"first_divergence_at": first, "handled_there": clipTo(order), "sent_there": clipTo(sentOK)}})
		}
		if rootsCalls != rootsOK {
			c.Violate(hk.Violation{Fingerprint: "routing:e2e:server-request-not-handled-once:" + kind,
				What:     "roots/list requests issued back to back with a burst of notifications: the real client's roots provider was not invoked exactly once per request",
				Input:    map[string]any{"transport": kind, "requests_answered": rootsOK, "burst": len(sentOK)},
				Observed: map[string]any{"provider_invocations": rootsCalls}, Expected: rootsOK})
		}
		for id, n := range answers {
			if n != 1 {
				c.Violate(hk.Violation{Fingerprint: "routing:e2e:server-request-answered-more-than-once:" + kind, What: "the real client posted more than one answer for one server-issued request",
					Input: map[string]any{"transport": kind, "request_id": id}, Observed: n, Expected: 1})
				break
			}
		}
	}
	// ---- Streamable
	for round := 0; round < rounds; round++ {
		f := hk.NewFixture(hk.SrvCfg{Mode: "stateful", Get: true, PostSSE: false})
		ac := &answerCount{}
		ts := httptest.NewUnstartedServer(countingAnswers(ac, f.S.Handler()))
		ts.Config.ErrorLog = hk.QuietStdLog()
		ts.Start()
		var calls atomic.Int64
		rec := newRec()
		cl, err := mcp.NewClient(ts.URL+"/mcp", mcp.Implementation{Name: "client-0", Version: "1"}, mcp.WithClientLogger(hk.QuietLogger{}))
		if err == nil {
			cl.SetRootsProvider(countingRoots{"client-0", &calls})
			// several notification methods on one stream; the handler of one of them is slow at first
			fast := handler(rec)
			var slowLeft atomic.Int64
			slowLeft.Store(6)
			cl.RegisterNotificationHandler(burstMethods[0], fast)
			cl.RegisterNotificationHandler(burstMethods[1], func(n *mcp.JSONRPCNotification) error {
				if slowLeft.Add(-1) >= 0 {
					time.Sleep(3 * time.Millisecond)
				}
				return fast(n)
			})
			cl.RegisterNotificationHandler(burstMethods[2], fast)
			ctx, cancel := context.WithTimeout(context.Background(), ceiling)
			_, err = cl.Initialize(ctx, &mcp.InitializeRequest{})
			cancel()
		}
		if err == nil {
			sid := cl.GetSessionID()
			waitUntil(func() bool { return mcp.VerifHasGetStream(f.S, sid) })
			sctx, _ := mcp.VerifSessionContext(context.Background(), f.S, sid)
			var rootsOK atomic.Int64
			var wg sync.WaitGroup
			for i := 0; i < nRoots; i++ {
				wg.Add(1)
				go func() {
					defer wg.Done()
					ctx, cancel := context.WithTimeout(sctx, waitCeiling())
					defer cancel()
					if res, err := f.S.ListRoots(ctx); err == nil && len(res.Roots) == 1 {
						rootsOK.Add(1)
					}
				}()
			}
			var sentOK []string
			for i := 0; i < nNotif; i++ {
				nonce := fmt.Sprintf("cb%d-%d", round, i)
				if f.S.SendNotification(sid, burstMethods[i%len(burstMethods)], map[string]interface{}{"nonce": nonce}) == nil {
					sentOK = append(sentOK, nonce)
				}
			}
			wg.Wait()
			waitUntilShort(func() bool { rec.mu.Lock(); defer rec.mu.Unlock(); return len(rec.order) >= len(sentOK) })
			judge("streamable", round, sentOK, rec, true, rootsOK.Load(), calls.Load(), ac.snapshot())
			if rootsOK.Load() != int64(nRoots) {
				c.Violate(hk.Violation{Fingerprint: "routing:e2e:roots-request-unanswered:streamable", What: "a roots/list request issued together with a burst of notifications was not answered by the real client",
					Input: map[string]any{"requests": nRoots, "burst": nNotif}, Observed: map[string]any{"answered": rootsOK.Load()}})
			}
			cl.Close()
		}
		ts.CloseClientConnections()
		ts.Close()
		f.Close()
	}
	// ---- stdio, in process (the client runs every notification handler in a goroutine of its own: counts, not order)
	{
		srv := mcp.NewStdioServer("verif-stdio", "1.0", mcp.WithStdioServerLogger(hk.QuietLogger{}))
		var grabbed atomic.Value
		srv.RegisterTool(mcp.NewTool("grab"), func(ctx context.Context, req *mcp.CallToolRequest) (*mcp.CallToolResult, error) {
			grabbed.Store(ctx)
			return mcp.NewTextResult("ok"), nil
		})
		inR, inW := io.Pipe()
		outR, outW := io.Pipe()
		ac := &answerCount{}
		ctx, cancel := context.WithCancel(context.Background())
		go func() { mcp.VerifServeStdio(ctx, srv, inR, outW); outW.Close() }()
		var calls atomic.Int64
		rec := newRec()
		sc, err := mcp.VerifNewStdioClientOnPipes(mcp.Implementation{Name: "client-0", Version: "1"}, 3*time.Second, &lineTee{w: inW, note: ac.note}, outR, mcp.WithStdioLogger(hk.QuietLogger{}))
		if err == nil {
			sc.SetRootsProvider(countingRoots{"client-0", &calls})
			sc.RegisterNotificationHandler("notifications/message", handler(rec))
			ictx, icancel := context.WithTimeout(context.Background(), ceiling)
			_, err = sc.Initialize(ictx, &mcp.InitializeRequest{})
			icancel()
		}
		if err == nil {
			cctx, ccancel := context.WithTimeout(context.Background(), waitCeiling())
			sc.CallTool(cctx, &mcp.CallToolRequest{Params: mcp.CallToolParams{Name: "grab", Arguments: map[string]interface{}{}}})
			ccancel()
			if sctx, ok := grabbed.Load().(context.Context); ok {
				sess, _ := mcp.GetSessionFromContext(sctx)
				ns, _ := sess.(notifSession)
				var rootsOK atomic.Int64
				var wg sync.WaitGroup
				for i := 0; i < nRoots; i++ {
					wg.Add(1)
					go func() {
						defer wg.Done()
						rctx, rcancel := context.WithTimeout(sctx, waitCeiling())
						defer rcancel()
						if res, err := srv.ListRoots(rctx); err == nil && len(res.Roots) == 1 {
							rootsOK.Add(1)
						}
					}()
				}
				var sentOK []string
				for i := 0; i < nNotif && ns != nil; i++ {
					nonce := fmt.Sprintf("cs-%d", i)
					select {
					case ns.NotificationChannel() <- *mcp.NewJSONRPCNotificationFromMap("notifications/message", map[string]interface{}{"nonce": nonce}):
						sentOK = append(sentOK, nonce)
					default:
					}
				}
				wg.Wait()
				waitUntilShort(func() bool { rec.mu.Lock(); defer rec.mu.Unlock(); return len(rec.order) >= len(sentOK) })
				judge("stdio", 0, sentOK, rec, false, rootsOK.Load(), calls.Load(), ac.snapshot())
			}
		}
		if sc != nil {
			go sc.Close()
		}
		cancel()
		inW.Close()
		outW.Close()
	}
	// ---- legacy SSE: requests back to back (the client offers no notification handler)
	{
		srv := mcp.NewSSEServer("verif-sse", "1.0", mcp.WithSSEServerLogger(hk.QuietLogger{}), mcp.WithKeepAlive(false))
		var grabbed atomic.Value
		srv.RegisterTool(mcp.NewTool("grab"), func(ctx context.Context, req *mcp.CallToolRequest) (*mcp.CallToolResult, error) {
			grabbed.Store(ctx)
			return mcp.NewTextResult("ok"), nil
		})
		ac := &answerCount{}
		ts := httptest.NewUnstartedServer(countingAnswers(ac, srv))
		ts.Config.ErrorLog = hk.QuietStdLog()
		ts.Start()
		var calls atomic.Int64
		cl, err := mcp.NewSSEClient(ts.URL+srv.SSEPath(), mcp.Implementation{Name: "client-0", Version: "1"}, mcp.WithClientLogger(hk.QuietLogger{}))
		if err == nil {
			cl.SetRootsProvider(countingRoots{"client-0", &calls})
			ctx, cancel := context.WithTimeout(context.Background(), ceiling)
			_, err = cl.Initialize(ctx, &mcp.InitializeRequest{})
			cancel()
		}
		if err == nil {
			gctx, gcancel := context.WithTimeout(context.Background(), waitCeiling())
			cl.CallTool(gctx, &mcp.CallToolRequest{Params: mcp.CallToolParams{Name: "grab", Arguments: map[string]interface{}{}}})
			gcancel()
			if sctx, ok := grabbed.Load().(context.Context); ok {
				var rootsOK atomic.Int64
				var wg sync.WaitGroup
				for i := 0; i < 8; i++ {
					wg.Add(1)
					go func() {
						defer wg.Done()
						rctx, rcancel := context.WithTimeout(sctx, waitCeiling())
						defer rcancel()
						if res, err := srv.ListRoots(rctx); err == nil && len(res.Roots) == 1 {
							rootsOK.Add(1)
						}
					}()
				}
				wg.Wait()
				judge("legacy-sse", 0, nil, newRec(), false, rootsOK.Load(), calls.Load(), ac.snapshot())
				if rootsOK.Load() != 8 {
					c.Violate(hk.Violation{Fingerprint: "routing:e2e:roots-request-unanswered:legacy-sse", What: "roots/list requests issued back to back were not all answered by the real client",
						Input: map[string]any{"requests": 8}, Observed: map[string]any{"answered": rootsOK.Load()}})
				}
			}
			cl.Close()
		}
		ts.CloseClientConnections()
		ts.Close()
	}
	scriptedEventIDs(c)
}

// scriptedEventIDs: a scripted GET stream whose event ids are equal, decreasing, ordered lexicographically but not
// numerically, absent or arbitrary strings — ids are opaque to a client: the real Streamable client hands every event to the
// handler once, in stream order.
func scriptedEventIDs(c *hk.Ctx) {
	ids := []string{"evt-5-8", "evt-5-9", "evt-5-10", "evt-5-11", "evt-5-100", "same", "same", "same", "9", "8", "7", "", "", "zz", "a!", "Z", "0", "evt-4-1"}
	h := http.HandlerFunc(func(w http.ResponseWriter, r *http.Request) {
		switch r.Method {
		case http.MethodGet:
			fl := w.(http.Flusher)
			w.Header().Set("Content-Type", "text/event-stream")
			w.WriteHeader(200)
			fl.Flush()
			for i, id := range ids {
				if id != "" {
					fmt.Fprintf(w, "id: %s\n", id)
				}
				fmt.Fprintf(w, "data: {\"jsonrpc\":\"2.0\",\"method\":\"notifications/message\",\"params\":{\"nonce\":\"ev-%d\"}}\n\n", i)
			}
			fl.Flush()
			<-r.Context().Done()
		case http.MethodPost:
			b, _ := io.ReadAll(r.Body)
			var m struct {
				ID     json.RawMessage `json:"id"`
				Method string          `json:"method"`
			}
			json.Unmarshal(b, &m)
			w.Header().Set("Mcp-Session-Id", "scripted-session")
			if m.Method == "initialize" {
				w.Header().Set("Content-Type", "application/json")
				fmt.Fprintf(w, `{"jsonrpc":"2.0","id":%s,"result":{"protocolVersion":"2025-03-26","capabilities":{},"serverInfo":{"name":"scripted","version":"1"}}}`, string(m.ID))
				return
			}
			w.WriteHeader(http.StatusAccepted)
		default:
			w.WriteHeader(200)
		}
	})
	ts := httptest.NewUnstartedServer(h)
	ts.Config.ErrorLog = hk.QuietStdLog()
	ts.Start()
	defer func() { ts.CloseClientConnections(); ts.Close() }()
	var mu sync.Mutex
	var order []string
	cl, err := mcp.NewClient(ts.URL+"/mcp", mcp.Implementation{Name: "client-0", Version: "1"}, mcp.WithClientLogger(hk.QuietLogger{}))
	if err != nil {
		return
	}
	cl.RegisterNotificationHandler("notifications/message", func(n *mcp.JSONRPCNotification) error {
		if v, ok := n.Params.AdditionalFields["nonce"].(string); ok {
			mu.Lock()
			order = append(order, v)
			mu.Unlock()
		}
		return nil
	})
	ctx, cancel := context.WithTimeout(context.Background(), ceiling)
	_, err = cl.Initialize(ctx, &mcp.InitializeRequest{})
	cancel()
	if err != nil {
		return
	}
	defer cl.Close()
	waitUntilShort(func() bool { mu.Lock(); defer mu.Unlock(); return len(order) >= len(ids) })
	mu.Lock()
	got := strings.Join(order, ",")
	mu.Unlock()
	var want []string
	for i := range ids {
		want = append(want, fmt.Sprintf("ev-%d", i))
	}
	c.Count("scripted-event-ids", true, map[string]any{"kind": "scripted-event-ids", "events": len(ids), "handled": len(order)}, "scripted-event-ids")
	if got != strings.Join(want, ",") {
		c.Violate(hk.Violation{Fingerprint: "routing:e2e:event-dropped-by-its-id:streamable-client",
			What:     "the real Streamable client did not hand every event of its GET stream to the handler exactly once in stream order: event ids are opaque strings, they must not decide delivery",
			Input:    map[string]any{"event_ids_in_stream_order": ids},
			Observed: map[string]any{"handled": got}, Expected: strings.Join(want, ",")})
	}
}
