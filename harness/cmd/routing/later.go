package main

// Two more kinds of history that put something between a session's traffic:
//   unserializable — ordinary notification, one whose params cannot be rendered as JSON (NaN / a channel), two more
//                    ordinary ones: the ordinary ones that reported success are delivered, in order (what happens to the
//                    unserializable one itself is not judged), on all three server kinds;
//   expiry         — a Streamable server whose sessions expire after one second (hook VerifWithSessionExpiry; the sweep that
//                    removes expired sessions runs once a minute): an idle session and a busy one, both with an open stream;
//                    after more than the expiry time a broadcast and a filtered send reach both streams and count 2.

import (
	"context"
	"fmt"
	"math"
	"net/http"
	"net/http/httptest"
	"strings"
	"sync"
	"time"

	"verif/harness/hk"

	mcp "trpc.group/trpc-go/trpc-mcp-go"
)

func unserializableParams(kind string) map[string]interface{} {
	switch kind {
	case "nan":
		return map[string]interface{}{"tag": -7, "progress": math.NaN()}
	case "inf":
		return map[string]interface{}{"tag": -7, "progress": math.Inf(1)}
	}
	return map[string]interface{}{"tag": -7, "ch": make(chan int)}
}

func runUnserializable(c *hk.Ctx) {
	for _, kind := range []string{"streamable", "legacy", "stdio"} {
		for _, bad := range []string{"nan", "inf", "chan"} {
			unserializableOnce(c, kind, bad)
		}
	}
}

func unserializableOnce(c *hk.Ctx, kind, bad string) {
	var be backend
	var sendBad func() error
	notifs := func() []int { return nil }
	switch kind {
	case "streamable":
		b := newStreamable(c, false, 0)
		be = b
		sendBad = func() error {
			return b.f.S.SendNotification(b.sid(0), "notifications/message", unserializableParams(bad))
		}
		notifs = func() []int { sn, _ := b.framesOf(0); return sn.notif }
	case "legacy":
		b := newLegacy(c, 0)
		be = b
		sendBad = func() error {
			return b.srv.SendNotification(b.sid(0), "notifications/message", unserializableParams(bad))
		}
		notifs = func() []int { sn, _ := classifyFrames(datasOf(b.streams[0])); return sn.notif }
	default:
		b := newStdio(c, 0)
		be = b
		sendBad = func() error { return b.notifyParams(unserializableParams(bad)) }
		notifs = func() []int { sn, _ := classifyFrames(b.snapshot()); return sn.notif }
	}
	defer be.close()
	var ops []op
	var rets []string
	do := func(o op) string {
		r := be.exec(o)
		ops = append(ops, o)
		rets = append(rets, r)
		return r
	}
	if kind != "stdio" {
		do(op{T: "newSession"})
	}
	if kind == "streamable" {
		do(op{T: "openStream", S: ip(0)})
	}
	do(op{T: "send", S: ip(0), M: ip(1)})
	waitUntil(func() bool { return len(ordinary(notifs())) >= 1 })
	badErr := sendBad() // outside the model: it may be refused or dropped
	var later []string
	want := []int{1}
	for m := 2; m <= 3; m++ {
		r := do(op{T: "send", S: ip(0), M: ip(m)})
		later = append(later, r)
		if r == "ok" {
			want = append(want, m)
		}
	}
	arrived := waitUntil(func() bool { return len(ordinary(notifs())) >= len(want) })
	got := ordinary(notifs())
	good := arrived && fmt.Sprint(got) == fmt.Sprint(want) && len(want) == 3
	c.Count("unserializable-"+kind+"-"+bad, true, nil, "unserializable-"+kind, "unserializable")
	if !good {
		c.Violate(hk.Violation{Fingerprint: "routing:send-after-unserializable-not-delivered:" + be.name(),
			What:     "after a notification whose params cannot be rendered as JSON, later ordinary notifications to the same session reported success but were not delivered in order (or were refused)",
			Input:    map[string]any{"server": be.name(), "history": []string{"notification 1", "notification with params " + bad + " (not judged)", "notification 2", "notification 3"}},
			Observed: map[string]any{"unserializable_send_returned": fmt.Sprint(badErr), "later_sends_returned": later, "ordinary_notifications_on_the_stream": got},
			Expected: map[string]any{"later_sends_returned": []string{"ok", "ok"}, "ordinary_notifications_on_the_stream": []int{1, 2, 3}}})
		return // the census below would wait for sentinels on a stream that no longer delivers
	}
	outbox, pending := be.census()
	for _, v := range outbox {
		v["notif"] = ordinary(v["notif"])
	}
	c.Emit(map[string]any{"c": "routing.run", "srv": be.modelSrv(), "start": 0, "ops": ops}, map[string]any{"rets": rets, "outbox": outbox, "pending": pending}, true,
		"unserializable-model")
}

// ordinary drops the tags the harness uses for frames outside the model (sentinels, the unserializable notification).
func ordinary(ts []int) []int {
	out := []int{}
	for _, t := range ts {
		if t > 0 {
			out = append(out, t)
		}
	}
	return out
}

// expiryHistory: sessions past their expiry time but not yet swept are still served and still reached.
func expiryHistory(c *hk.Ctx) {
	srv := mcp.NewServer("verif-server", "1.0", append(hk.SrvCfg{Mode: "stateful", Get: true, PostSSE: false}.Opts(), mcp.VerifWithSessionExpiry(1))...)
	h := srv.Handler()
	ctx, cancel := context.WithCancel(context.Background())
	defer cancel()
	post := func(sid, body string) *httptest.ResponseRecorder {
		rec := httptest.NewRecorder()
		req := httptest.NewRequest("POST", "/mcp", strings.NewReader(body))
		req.Header.Set("Content-Type", "application/json")
		req.Header.Set("Accept", "application/json, text/event-stream")
		if sid != "" {
			req.Header.Set("Mcp-Session-Id", sid)
		}
		h.ServeHTTP(rec, req)
		return rec
	}
	var sids []string
	var ws []*recordingWriter
	var wg sync.WaitGroup
	var ops []op
	var rets []string
	for i := 0; i < 2; i++ {
		sid := post("", initBody).Header().Get("Mcp-Session-Id")
		post(sid, `{"jsonrpc":"2.0","method":"notifications/initialized"}`)
		sids = append(sids, sid)
		ops = append(ops, op{T: "newSession"})
		rets = append(rets, fmt.Sprintf("sid:%d", i))
	}
	for i := 0; i < 2; i++ {
		w := &recordingWriter{hdr: http.Header{}, status: make(chan int, 1)}
		req := httptest.NewRequest("GET", "/mcp", nil).WithContext(ctx)
		req.Header.Set("Accept", "text/event-stream")
		req.Header.Set("Mcp-Session-Id", sids[i])
		wg.Add(1)
		go func() { defer wg.Done(); h.ServeHTTP(w, req) }()
		st := 0
		select {
		case st = <-w.status:
		case <-time.After(waitCeiling()):
		}
		ws = append(ws, w)
		ops = append(ops, op{T: "openStream", S: ip(i)})
		if st == 200 {
			rets = append(rets, "ok")
		} else {
			rets = append(rets, fmt.Sprintf("err:other:%d", st))
		}
	}
	// session 0 idles, session 1 keeps posting pings; 1.6 s is past the expiry time of 1 s and far from the sweep (once a minute)
	for t := 0; t < 8; t++ {
		time.Sleep(200 * time.Millisecond)
		post(sids[1], fmt.Sprintf(`{"jsonrpc":"2.0","id":%d,"method":"ping"}`, 100+t))
	}
	cnt, err := srv.BroadcastNotification("notifications/message", tagParams(1))
	ops = append(ops, op{T: "broadcast", M: ip(1)})
	rets = append(rets, countRet(cnt, err))
	set := map[string]bool{sids[0]: true, sids[1]: true}
	ok, failed, err := srv.SendFilteredNotification("notifications/message", tagParams(2), func(id string) bool { return set[id] })
	ops = append(ops, op{T: "filtered", Sel: []int{0, 1}, M: ip(2)})
	if err != nil {
		rets = append(rets, classifyErr("", err))
	} else {
		rets = append(rets, fmt.Sprintf("counts:%d:%d", ok, failed))
	}
	direct := classifyErr("streamable-send", srv.SendNotification(sids[0], "notifications/message", tagParams(3)))
	ops = append(ops, op{T: "send", S: ip(0), M: ip(3)})
	rets = append(rets, direct)
	served := post(sids[0], `{"jsonrpc":"2.0","id":7,"method":"ping"}`).Code
	outbox := map[string]map[string][]int{}
	frames := map[string][]int{}
	for i, w := range ws {
		sn, _ := classifyFrames(w.datas())
		addCensus(outbox, i, sn, map[int64]int{})
		frames[fmt.Sprintf("session %d", i)] = sn.notif
	}
	c.Emit(map[string]any{"c": "routing.run", "srv": "streamable", "start": 0, "ops": ops}, map[string]any{"rets": rets, "outbox": outbox, "pending": 0}, true, "expiry")
	if cnt != 2 || ok != 2 || failed != 0 || fmt.Sprint(frames["session 0"]) != "[1 2 3]" || fmt.Sprint(frames["session 1"]) != "[1 2]" || served != 200 {
		c.Violate(hk.Violation{Fingerprint: "routing:expiry:open-stream-of-idle-session-not-reached",
			What:     "a session that has been idle for longer than the expiry time but is still served (its stream is open, the sweep has not run) was not reached by a broadcast / filtered send, or the count is not the number of open streams",
			Input:    map[string]any{"expiry_s": 1, "sessions": []string{"0: idle for 1.6 s, open stream", "1: a ping every 200 ms, open stream"}, "history": []string{"broadcast 1", "filtered to both 2", "send 3 to session 0", "ping by session 0"}},
			Observed: map[string]any{"broadcast_count": cnt, "filtered": fmt.Sprintf("%d ok, %d failed", ok, failed), "send_to_idle_session": direct, "notifications_on_the_streams": frames, "ping_by_idle_session_status": served},
			Expected: map[string]any{"broadcast_count": 2, "filtered": "2 ok, 0 failed", "send_to_idle_session": "ok", "notifications_on_the_streams": map[string][]int{"session 0": {1, 2, 3}, "session 1": {1, 2}}, "ping_by_idle_session_status": 200}})
	}
	cancel()
	wg.Wait()
}
