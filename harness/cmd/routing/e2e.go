package main

// End-to-end part: the REAL clients answer the server's roots/list (streamable_client.go handleIncomingRequest /
// sendResponseToServer, sse_client.go handleIncomingRequest, transport_stdio.go handleIncomingRequest). A tool handler on
// the real server calls ListRoots inside the calling session; several clients with different roots call the tool
// concurrently; every tool result must list the roots of the client that called it. A large notification (beyond
// bufio.Scanner's 64 KiB token limit) followed by a small one is sent to a Streamable client's GET stream: both must reach
// its notification handler.

import (
	"context"
	"fmt"
	"net/http/httptest"
	"os"
	"os/signal"
	"strings"
	"sync"
	"syscall"

	"verif/harness/hk"

	mcp "trpc.group/trpc-go/trpc-mcp-go"
)

const childEnv = "VERIF_ROUTING_CHILD"

type staticRoots string

func (r staticRoots) GetRoots() []mcp.Root {
	return []mcp.Root{{URI: "file:///" + string(r), Name: string(r)}}
}

type rootsLister interface {
	ListRoots(ctx context.Context) (*mcp.ListRootsResult, error)
}

func rootsTool(srv rootsLister) (*mcp.Tool, func(ctx context.Context, req *mcp.CallToolRequest) (*mcp.CallToolResult, error)) {
	return mcp.NewTool("roots", mcp.WithString("nonce")), func(ctx context.Context, req *mcp.CallToolRequest) (*mcp.CallToolResult, error) {
		cctx, cancel := context.WithTimeout(ctx, ceiling)
		defer cancel()
		res, err := srv.ListRoots(cctx)
		if err != nil {
			return mcp.NewTextResult("roots-error:" + err.Error()), nil
		}
		var names []string
		for _, r := range res.Roots {
			names = append(names, r.Name)
		}
		return mcp.NewTextResult("roots:" + strings.Join(names, ",")), nil
	}
}

func childMain() {
	signal.Ignore(os.Interrupt)
	s := mcp.NewStdioServer("verif-stdio", "1.0", mcp.WithStdioServerLogger(hk.QuietLogger{}))
	tool, h := rootsTool(s)
	s.RegisterTool(tool, h)
	_ = s.Start()
}

func selfExe() string {
	p, err := os.Executable()
	if err != nil {
		return os.Args[0]
	}
	return p
}

func textOf(r *mcp.CallToolResult) string {
	if r == nil {
		return ""
	}
	var sb strings.Builder
	for _, c := range r.Content {
		if t, ok := c.(mcp.TextContent); ok {
			sb.WriteString(t.Text)
		} else if tp, ok := c.(*mcp.TextContent); ok {
			sb.WriteString(tp.Text)
		}
	}
	return sb.String()
}

type toolCaller interface {
	CallTool(ctx context.Context, req *mcp.CallToolRequest) (*mcp.CallToolResult, error)
}

// hammer: every client calls the roots tool `per` times, all clients at once; each answer must name the caller's own root.
func hammer(c *hk.Ctx, transport string, clients map[string]toolCaller, per int) {
	var wg sync.WaitGroup
	for name, cl := range clients {
		wg.Add(1)
		go func(name string, cl toolCaller) {
			defer wg.Done()
			for i := 0; i < per; i++ {
				ctx, cancel := context.WithTimeout(context.Background(), waitCeiling())
				r, err := cl.CallTool(ctx, &mcp.CallToolRequest{Params: mcp.CallToolParams{Name: "roots", Arguments: map[string]interface{}{"nonce": fmt.Sprintf("%s-%d", name, i)}}})
				cancel()
				got := textOf(r)
				if err != nil {
					got = "error:" + err.Error()
					degraded.Store(true)
				}
				c.Count("e2e-"+transport+"-"+name, len(clients) > 1, map[string]any{"kind": "e2e-roots", "transport": transport, "client": name, "got": got}, "e2e-"+transport)
				if got != "roots:"+name {
					fp := "routing:e2e:roots-of-another-session:" + transport
					what := "a tool handler's ListRoots inside session X returned something else than the roots of the client of session X"
					if strings.HasPrefix(got, "error:") || strings.HasPrefix(got, "roots-error:") {
						fp = "routing:e2e:roots-request-unanswered:" + transport
						what = "a tool handler's ListRoots got no answer from the real client although its connection was up"
					}
					c.Violate(hk.Violation{Fingerprint: fp, What: what, Input: map[string]any{"transport": transport, "client": name, "call": i, "clients": len(clients)}, Observed: got, Expected: "roots:" + name})
				}
			}
		}(name, cl)
	}
	wg.Wait()
}

func runE2E(c *hk.Ctx) {
	per := 6
	nClients := 3
	if c.Thorough() {
		per, nClients = 40, 6
	}
	// ---- Streamable
	{
		f := hk.NewFixture(hk.SrvCfg{Mode: "stateful", Get: true, PostSSE: false})
		tool, h := rootsTool(f.S)
		f.S.RegisterTool(tool, h)
		clients := map[string]toolCaller{}
		var real []*mcp.Client
		var bigMu sync.Mutex
		marks := map[string][]string{}
		for i := 0; i < nClients; i++ {
			name := fmt.Sprintf("client-%d", i)
			cl, err := mcp.NewClient(f.URL, mcp.Implementation{Name: name, Version: "1"}, mcp.WithClientLogger(hk.QuietLogger{}))
			if err != nil {
				continue
			}
			cl.SetRootsProvider(staticRoots(name))
			n := name
			cl.RegisterNotificationHandler("notifications/message", func(nt *mcp.JSONRPCNotification) error {
				if v, ok := nt.Params.AdditionalFields["mark"].(string); ok {
					bigMu.Lock()
					marks[n] = append(marks[n], v)
					bigMu.Unlock()
				}
				return nil
			})
			ctx, cancel := context.WithTimeout(context.Background(), ceiling)
			_, err = cl.Initialize(ctx, &mcp.InitializeRequest{})
			cancel()
			if err != nil {
				c.Violate(hk.Violation{Fingerprint: "routing:harness:e2e-initialize:streamable", What: err.Error()})
				continue
			}
			sid := cl.GetSessionID()
			if !waitUntil(func() bool { return mcp.VerifHasGetStream(f.S, sid) }) {
				c.Violate(hk.Violation{Fingerprint: "routing:e2e:get-stream-never-registered:streamable", What: "the real client's GET stream was not registered after Initialize"})
				continue
			}
			clients[name] = cl
			real = append(real, cl)
		}
		hammer(c, "streamable", clients, per)
		// a notification larger than 64 KiB followed by a small one on one client's GET stream
		if len(real) > 0 {
			sid := real[0].GetSessionID()
			name := "client-0"
			e1 := f.S.SendNotification(sid, "notifications/message", map[string]interface{}{"mark": "large", "pad": strings.Repeat("x", 70000)})
			e2 := f.S.SendNotification(sid, "notifications/message", map[string]interface{}{"mark": "small"})
			got := func() []string {
				bigMu.Lock()
				defer bigMu.Unlock()
				return append([]string{}, marks[name]...)
			}
			waitUntil(func() bool { return len(got()) >= 2 })
			g := got()
			c.Count("e2e-large-notification", true, map[string]any{"kind": "e2e-large-notification", "send_errors": fmt.Sprint(e1, e2), "handler_saw": g}, "e2e-large-notification")
			if e1 == nil && e2 == nil && strings.Join(g, ",") != "large,small" {
				c.Violate(hk.Violation{Fingerprint: "routing:e2e:large-notification-kills-get-stream:streamable-client",
					What:     "Streamable client: a notification of 70 KB on the GET stream is not delivered and ends the stream reader (bufio.Scanner's 64 KiB token limit in handleGetSSEEvents): the following small notification is lost too [D17]",
					Input:    map[string]any{"notifications": []string{"large (70000 bytes of padding)", "small"}},
					Observed: map[string]any{"handler_saw": g}, Expected: []string{"large", "small"}})
			}
		}
		for _, cl := range real {
			cl.Close()
		}
		f.Close()
	}
	// ---- legacy SSE
	{
		srv := mcp.NewSSEServer("verif-sse", "1.0", mcp.WithSSEServerLogger(hk.QuietLogger{}), mcp.WithKeepAlive(false))
		tool, h := rootsTool(srv)
		srv.RegisterTool(tool, h)
		ts := httptest.NewUnstartedServer(srv)
		ts.Config.ErrorLog = hk.QuietStdLog()
		ts.Start()
		clients := map[string]toolCaller{}
		var real []*mcp.Client
		for i := 0; i < nClients; i++ {
			name := fmt.Sprintf("client-%d", i)
			cl, err := mcp.NewSSEClient(ts.URL+srv.SSEPath(), mcp.Implementation{Name: name, Version: "1"}, mcp.WithClientLogger(hk.QuietLogger{}))
			if err != nil {
				continue
			}
			cl.SetRootsProvider(staticRoots(name))
			ctx, cancel := context.WithTimeout(context.Background(), ceiling)
			_, err = cl.Initialize(ctx, &mcp.InitializeRequest{})
			cancel()
			if err != nil {
				c.Violate(hk.Violation{Fingerprint: "routing:harness:e2e-initialize:legacy-sse", What: err.Error()})
				continue
			}
			clients[name] = cl
			real = append(real, cl)
		}
		hammer(c, "legacy-sse", clients, per)
		for _, cl := range real {
			cl.Close()
		}
		ts.CloseClientConnections()
		ts.Close()
	}
	// ---- stdio (one client per server process)
	{
		clients := map[string]toolCaller{}
		var real []*mcp.StdioClient
		sc, err := mcp.NewStdioClient(mcp.StdioTransportConfig{ServerParams: mcp.StdioServerParameters{Command: selfExe(), Env: map[string]string{childEnv: "real"}}, Timeout: ceiling},
			mcp.Implementation{Name: "client-0", Version: "1"}, mcp.WithStdioLogger(hk.QuietLogger{}))
		if err == nil {
			sc.SetRootsProvider(staticRoots("client-0"))
			ctx, cancel := context.WithTimeout(context.Background(), ceiling)
			_, err = sc.Initialize(ctx, &mcp.InitializeRequest{})
			cancel()
			if err != nil {
				c.Violate(hk.Violation{Fingerprint: "routing:harness:e2e-initialize:stdio", What: err.Error()})
			} else {
				clients["client-0"] = sc
			}
			real = append(real, sc)
		}
		hammer(c, "stdio", clients, per)
		for _, sc := range real {
			if pid := sc.GetProcessID(); pid > 0 {
				syscall.Kill(pid, syscall.SIGKILL)
			}
			go sc.Close()
		}
	}
}
